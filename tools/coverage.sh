#!/bin/bash
# usage: tools/coverage.sh [quick|thorough]
# How much of /repo/src do the correspondence suites execute?  Builds the harness with -C instrument-coverage
# (nightly toolchain: it ships llvm-profdata / llvm-cov), runs every engine once with seed 1 and prints the
# per-file table and the lines never reached.  Scratch output under /tmp/e57cov, removed at the end.
# Not a registered check: a tool to find what the generators do not reach (DESIGN.md §11.7).
TIER=${1:-quick}
W=/tmp/e57cov
T=~/.rustup/toolchains/nightly-x86_64-unknown-linux-gnu/lib/rustlib/x86_64-unknown-linux-gnu/bin
rm -rf $W; mkdir -p $W/prof $W/out
cd /verif/harness || exit 2
RUSTFLAGS="--cfg e57_verif -C instrument-coverage" CARGO_TARGET_DIR=$W/target cargo +nightly build --release --offline 2>&1 | tail -1
B=$W/target/release/e57harness
export E57MODEL=/verif/lean/.lake/build/bin/e57model E57TOOLS=/verif/target/tools/release
for e in bits pages writer reader spec layout foreign device copy mutants sfloat devio floattext xml; do
  ( LLVM_PROFILE_FILE=$W/prof/$e-%p.profraw $B gen $e 1 $TIER $W/out/$e > $W/out/$e.log 2>&1 ) &
done
wait
$T/llvm-profdata merge -sparse $W/prof/*.profraw -o $W/all.profdata
$T/llvm-cov report $B -instr-profile=$W/all.profdata --ignore-filename-regex='(registry|rustc|harness)' 2>/dev/null \
  | awk '{printf "%-24s regions %6s missed %6s %8s | lines %6s missed %6s %8s\n", $1,$2,$3,$4,$8,$9,$10}'
echo "---- lines never executed (per file)"
for f in /repo/src/*.rs; do
  n=$($T/llvm-cov show $B -instr-profile=$W/all.profdata $f --show-line-counts 2>/dev/null | grep -cE "^ +[0-9]+\| +0\|")
  [ "$n" != "0" ] && { echo "== $(basename $f): $n"; $T/llvm-cov show $B -instr-profile=$W/all.profdata $f --show-line-counts 2>/dev/null | grep -E "^ +[0-9]+\| +0\|" | cut -c1-140; }
done
rm -rf $W
