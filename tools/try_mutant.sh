#!/bin/bash
# usage: tools/try_mutant.sh <worktree with MUTANT/> <checks...>
# 1. verifies the seeded change in its scratch worktree (existing tests pass, demo fails with / passes without)
# 2. applies it to /repo, runs the given checks, restores /repo
W=$1; shift
M=$W/MUTANT
export CARGO_TARGET_DIR=$W/target
cd $W || exit 2
git checkout -q -- . ; rm -f tests/demo.rs
if [ -f $M/demo.rs ]; then cp $M/demo.rs tests/demo.rs; fi
if [ -f $M/demo.diff ]; then git apply $M/demo.diff || echo "demo.diff does not apply"; fi
echo "== without patch: demo"
cargo test --offline --test demo 2>&1 | grep -E "^test result|error\[" | head -3
git apply $M/patch.diff || { echo "PATCH DOES NOT APPLY"; exit 2; }
echo "== with patch: existing tests"
cargo test --offline 2>&1 | grep -E "^test result|FAILED|error\[" | head -8
git checkout -q -- . ; rm -f tests/demo.rs
cd /verif
git -C /repo apply $M/patch.diff || { echo "PATCH DOES NOT APPLY TO /repo"; exit 2; }
# evidence of a run against a changed tree must never replace the committed evidence
rm -rf /verif/work/evidence.bak; cp -r /verif/evidence /verif/work/evidence.bak
for c in "$@"; do
  ./check $c 2>&1 | grep -E "^VIOLATION|^FAIL|property=" | cut -c1-220
done
git -C /repo checkout -- .
rm -rf /verif/evidence; mv /verif/work/evidence.bak /verif/evidence
git -C /repo status --short | head -3
