#!/bin/bash
# usage: tools/try_mutant.sh <dir with patch.diff + demo.rs> <checks...>
# 1. verifies the seeded change in a scratch worktree of /repo's HEAD (created under /tmp/mut/verify and removed
#    afterwards): the demo passes without the patch and fails with it, the existing tests pass with it
# 2. applies it to /repo, runs the given checks, restores /repo and the evidence directory
M=$(realpath $1); shift
W=/tmp/mut/verify
git -C /repo worktree remove --force $W 2>/dev/null
git -C /repo worktree add --detach $W HEAD -q || exit 2
export CARGO_TARGET_DIR=/tmp/mut/verify-target
cd $W || exit 2
cp $M/demo.rs tests/demo.rs
echo "== without patch: demo"
cargo test --offline --test demo 2>&1 | grep -E "^test result|error(\[|:)" | head -3
git apply $M/patch.diff || { echo "PATCH DOES NOT APPLY"; exit 2; }
echo "== with patch: demo, then the existing tests"
cargo test --offline --test demo 2>&1 | grep -E "^test result|error(\[|:)" | head -3
rm -f tests/demo.rs
cargo test --workspace --offline 2>&1 | grep -E "^test result: .* [1-9][0-9]* passed|FAILED|error(\[|:)" | head -8
cd /verif
git -C /repo worktree remove --force $W
git -C /repo diff --quiet || { echo "/repo has uncommitted changes"; exit 2; }
git -C /repo apply $M/patch.diff || { echo "PATCH DOES NOT APPLY TO /repo"; exit 2; }
# evidence of a run against a changed tree must never replace the committed evidence
rm -rf /verif/work/evidence.bak; cp -r /verif/evidence /verif/work/evidence.bak
for c in "$@"; do
  ./check $c 2>&1 | grep -E "^VIOLATION|^FAIL|property=" | cut -c1-220
done
git -C /repo checkout -- .
rm -rf /verif/evidence; mv /verif/work/evidence.bak /verif/evidence
git -C /repo status --short | head -3
