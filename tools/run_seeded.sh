#!/bin/bash
# usage: tools/run_seeded.sh <id> <checks...>
# applies /verif/seeded/<id>/patch.diff to /repo's working tree, runs the given checks, restores /repo
P=/verif/seeded/$1/patch.diff; shift
cd /verif
git -C /repo diff --quiet || { echo "/repo has uncommitted changes"; exit 2; }
git -C /repo apply $P || { echo "PATCH DOES NOT APPLY TO /repo"; exit 2; }
# evidence of a run against a changed tree must never replace the committed evidence
rm -rf /verif/work/evidence.bak; cp -r /verif/evidence /verif/work/evidence.bak
for c in "$@"; do
  ./check $c 2>&1 | grep -E "^VIOLATION|^FAIL|^KNOWN|property=" | cut -c1-220
done
git -C /repo checkout -- .
rm -rf /verif/evidence; mv /verif/work/evidence.bak /verif/evidence
git -C /repo status --short | head -3
