#!/usr/bin/env python3
"""Regenerates /verif/MANIFEST.json from obligations.json (single source of truth for what is claimed)."""
import json, os
V = os.path.dirname(os.path.dirname(os.path.abspath(__file__)))
obl = json.load(open(os.path.join(V, "obligations.json")))
props = [json.loads(l) for l in open(os.path.join(V, "properties.jsonl")) if l.strip()]
na_reasons = json.load(open(os.path.join(V, "not_applicable.json"))) if os.path.exists(os.path.join(V, "not_applicable.json")) else {}
checks = []
na = []
for p in props:
    pid = p["id"]
    if pid in obl:
        o = obl[pid]
        checks.append({
            "property_id": pid,
            "quick_cmd": f"./check {pid} --tier quick",
            "thorough_cmd": f"./check {pid} --tier thorough",
            "evidence_file": f"evidence/{pid}.json",
            "replay_cmd_template": f"./check {pid} --replay {{path}}",
            "engine": "+".join(o["engines"]),
            "level_claimed": {
                "category": o.get("level", "proof"),
                "text": o.get("level_text", ""),
                "design_ref": o.get("design_ref", "DESIGN.md §6 " + pid),
            },
            "level_note": o.get("level_note", ""),
            "technique": o.get("technique", "Lean 4 theorems about a hand-written executable model + differential correspondence check against the crate"),
        })
    else:
        na.append({"property_id": pid, "reason": na_reasons.get(pid, "check not yet built in this commit (planned: DESIGN.md §6); no claim is made")})
engines = {}
for pid, o in obl.items():
    for e in o["engines"]:
        engines.setdefault(e, []).append(pid)
m = {
    "version": 1,
    "setup_cmd": "cd /verif/lean && lake build && cd /verif/harness && CARGO_NET_OFFLINE=true cargo build --release --offline",
    "hooks": {
        "guard": "e57_verif",
        "enable": "RUSTFLAGS='--cfg e57_verif' (set in /verif/harness/.cargo/config.toml; the harness depends on /repo by path)",
        "baseline_off_cmd": "cd /repo && cargo test --workspace --no-fail-fast --offline",
        "source_commits": json.load(open(os.path.join(V, "hook_commits.json"))),
        "add_only": True,
    },
    "engines": [{"name": e, "path": f"harness/src/eng_{'copy' if e == 'tools' else e}.rs + lean/E57/Drv", "serves_properties": sorted(ps),
                 "kind_free_text": "generator + real-code executor + direct oracle (Rust) / model executor (Lean, compiled)"} for e, ps in sorted(engines.items())],
    "checks": checks,
    "notes": "Every check: (1) lake build of the property's theorem module + axiom audit, (2) correspondence of the Lean model with the crate built from /repo's working tree, (3) implementation-only oracle of the property. See DESIGN.md.",
    "not_applicable": na,
}
json.dump(m, open(os.path.join(V, "MANIFEST.json"), "w"), indent=1)
print("claimed:", [c["property_id"] for c in checks])
