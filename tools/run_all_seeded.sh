#!/bin/bash
# regression over the archive of seeded changes: each patch is applied to /repo, the check(s) that are
# supposed to report it (meta.json: reported_by[0]) run in the quick tier, /repo and the evidence directory
# are restored.  Output: one line per seeded change: CAUGHT (with a failing input) / DISAGREEMENT-ONLY / MISSED
cd /verif
git -C /repo diff --quiet || { echo "/repo has uncommitted changes"; exit 2; }
rm -rf /verif/work/evidence.all.bak; cp -r /verif/evidence /verif/work/evidence.all.bak
for d in seeded/*/; do
  id=$(basename $d)
  prop=$(python3 -c "import json;print(json.load(open('$d/meta.json'))['reported_by'][0])")
  git -C /repo apply /verif/$d/patch.diff 2>/dev/null || { echo "$id $prop PATCH-DOES-NOT-APPLY"; continue; }
  out=$(./check $prop 2>&1 | grep -E "^VIOLATION" | head -1)
  git -C /repo checkout -- .
  if [ -z "$out" ]; then echo "$id $prop MISSED";
  elif echo "$out" | grep -q "no-failing-input-found"; then echo "$id $prop DISAGREEMENT-ONLY";
  else echo "$id $prop CAUGHT"; fi
done
rm -rf /verif/evidence; mv /verif/work/evidence.all.bak /verif/evidence
git -C /repo status --short | head -3
