/-
The parser of `E57/Spec/XmlParse.lean` inverts the renderer `MT.render` of `E57/Model/MetaTree.lean`
on the writer's dialect: definitions (`renderL`, `Dialect`) and the parsing lemmas.  Core Lean only.
-/
import E57.Proofs.XmlLex
import E57.Model.MetaTree
namespace E57.XmlP
open E57
set_option linter.unusedSimpArgs false
set_option linter.unusedVariables false

/-! ## 1. the renderer on character lists -/

def optL (o : Option String) : Str :=
  match o with
  | some p => p.toList
  | none => []

def qnameL (pfx : Option String) (name : String) : Str :=
  match pfx with
  | some p => p.toList ++ ':' :: name.toList
  | none => name.toList

def renderAttrL (a : XAttr) : Str := ' ' :: (a.name.toList ++ '=' :: '"' :: (a.value.toList ++ ['"']))

def renderAttrsL (attrs : List XAttr) : Str := attrs.flatMap renderAttrL

def closeTagL (pfx : Option String) (name : String) : Str := '<' :: '/' :: (qnameL pfx name ++ ['>'])

mutual
def renderL (cd : Bool) : XNode → Str
  | .elem _ pfx name attrs [] => '<' :: (qnameL pfx name ++ (renderAttrsL attrs ++ ['/', '>']))
  | .elem _ pfx name attrs (c :: cs) =>
    '<' :: (qnameL pfx name ++ (renderAttrsL attrs ++ '>' ::
      (renderListL (MT.isStringTyped attrs) (c :: cs) ++ closeTagL pfx name)))
  | .text s => if cd then cdataOpen ++ (cdataEscL s.toList ++ cdataClose) else s.toList
  | .comment => []
  | .pi => []
def renderListL (cd : Bool) : List XNode → Str
  | [] => []
  | c :: cs => renderL cd c ++ renderListL cd cs
end

theorem qname_toList (pfx : Option String) (name : String) : (MT.qname pfx name).toList = qnameL pfx name := by
  cases pfx <;> simp [MT.qname, qnameL, String.toList_append]

theorem renderAttrs_toList (attrs : List XAttr) : (MT.renderAttrs attrs).toList = renderAttrsL attrs := by
  induction attrs with
  | nil => simp [MT.renderAttrs, renderAttrsL]
  | cons a as ih =>
    simp only [MT.renderAttrs, renderAttrsL, List.map_cons, String.join_cons, String.toList_append,
      List.flatMap_cons] at ih ⊢
    rw [ih]
    simp [MT.renderAttr, renderAttrL, String.toList_append]

theorem cdataEscape_toList (s : String) : (cdataEscape s).toList = cdataEscL s.toList := by
  simp [cdataEscape, String.toList_ofList]

mutual
theorem render_toList (cd : Bool) : ∀ t : XNode, (MT.render cd t).toList = renderL cd t
  | .elem ns pfx name attrs [] => by
    simp [MT.render, renderL, String.toList_append, qname_toList, renderAttrs_toList]
  | .elem ns pfx name attrs (c :: cs) => by
    simp only [MT.render, renderL, String.toList_append, qname_toList, renderAttrs_toList,
      renderList_toList (MT.isStringTyped attrs) (c :: cs), closeTagL]
    simp
  | .text s => by
    cases cd <;> simp [MT.render, renderL, String.toList_append, cdataEscape_toList, cdataOpen, cdataClose]
  | .comment => by simp [MT.render, renderL]
  | .pi => by simp [MT.render, renderL]
theorem renderList_toList (cd : Bool) : ∀ ts : List XNode, (MT.renderList cd ts).toList = renderListL cd ts
  | [] => by simp [MT.renderList, renderListL]
  | c :: cs => by
    simp [MT.renderList, renderListL, String.toList_append, render_toList cd c, renderList_toList cd cs]
end

/-! ## 2. the dialect -/

/-- characters the writer may put between the quotes of an attribute (it writes values unescaped) -/
def attrValChar (c : Char) : Bool :=
  isXmlChar c && c != '"' && c != '<' && c != '&' && c != '\t' && c != '\n' && c != '\r'

def attrOk (a : XAttr) : Bool :=
  a.ns.isNone && isNCNameL a.name.toList && a.name.toList != xmlnsL && a.value.toList.all attrValChar

def distinct : List String → Bool
  | [] => true
  | a :: as => !as.contains a && distinct as

def attrsOk (attrs : List XAttr) : Bool := attrs.all attrOk && distinct (attrs.map (·.name))

/-- text between tags, written as it is -/
def plainTextOk (s : Str) : Bool :=
  !s.isEmpty && s.all (fun c => isXmlChar c && c != '<' && c != '&' && c != '\r') && !containsSub cdataClose s

/-- text of a `String` element, written through `cdataEscape` -/
def cdataTextOk (s : Str) : Bool := s.all isXmlChar

def textOk (cd : Bool) (s : String) : Bool := if cd then cdataTextOk s.toList else plainTextOk s.toList

def startsWithText : List XNode → Bool
  | .text _ :: _ => true
  | _ => false

def prefixOk (pfx : Option String) : Bool :=
  match pfx with
  | some p => isNCNameL p.toList && p.toList != xmlnsL
  | none => true

/-- name, prefix and namespace of an element are consistent with the namespaces in scope -/
def headOk (nss : Nss) (ns pfx : Option String) (name : String) : Bool :=
  isNCNameL name.toList && prefixOk pfx && decide (nsOfPrefix nss (optL pfx) = some ns) &&
    decide (lookupPrefix nss (ns.getD "") = pfx)

mutual
/-- an element the writer's serialisers can produce, given the namespaces declared on the root -/
def nodeOk (nss : Nss) : XNode → Bool
  | .elem ns pfx name attrs cs =>
    headOk nss ns pfx name && attrsOk attrs && kidsOk nss (MT.isStringTyped attrs) cs
  | _ => false
/-- children: elements and text; never two text nodes in a row, no comments, no PIs -/
def kidsOk (nss : Nss) (cd : Bool) : List XNode → Bool
  | [] => true
  | .text s :: cs => textOk cd s && !startsWithText cs && kidsOk nss cd cs
  | .elem ns pfx name attrs ks :: cs => nodeOk nss (.elem ns pfx name attrs ks) && kidsOk nss cd cs
  | .comment :: _ => false
  | .pi :: _ => false
end

/-- the extension list: prefixes are names, pairwise distinct, not `xml`; URLs consist of XML
    characters and are not one of the two namespaces reserved by XML -/
def extsDialect (exts : List (String × String)) : Bool :=
  exts.all (fun e => isNCNameL e.1.toList && e.1.toList != xmlL && e.2.toList.all isXmlChar
    && e.2 != xmlNsUri && e.2 != xmlnsNsUri) && distinct (exts.map (·.1))

/-- "what the writer's serialisers can produce": the root element (its children are written as plain
    content whatever its attributes say) under the namespaces `MT.rootNamespaces exts` -/
def dialect (exts : List (String × String)) : XNode → Bool
  | .elem ns pfx name attrs cs =>
    extsDialect exts && headOk (MT.rootNamespaces exts) ns pfx name && attrsOk attrs
      && kidsOk (MT.rootNamespaces exts) false cs
  | _ => false

def Dialect (exts : List (String × String)) (t : XNode) : Prop := dialect exts t = true

instance (exts t) : Decidable (Dialect exts t) := by unfold Dialect; infer_instance

/-! ## 3. attributes -/

def RawAttr.qn (a : RawAttr) : Str := if a.pfx.isEmpty then a.loc else a.pfx ++ ':' :: a.loc

def renderRawL (a : RawAttr) : Str := ' ' :: (a.qn ++ '=' :: '"' :: (a.raw ++ ['"']))

def rawOk (a : RawAttr) : Bool :=
  (a.pfx.isEmpty || isNCNameL a.pfx) && isNCNameL a.loc
    && a.raw.all (fun c => isXmlChar c && c != '"' && c != '<')

theorem isSpace_nameChar {c : Char} (h : isNameChar c = true) : isSpace c = false := by
  cases hs : isSpace c
  · rfl
  · simp only [isSpace, Bool.or_eq_true, beq_iff_eq] at hs
    rcases hs with ((rfl | rfl) | rfl) | rfl <;> revert h <;> decide

theorem nameStart_nameChar {c : Char} (h : isNameStartNC c = true) : isNameChar c = true := by
  simp [isNameChar, isNameCharNC_of_start h]

theorem RawAttr.qn_cons {a : RawAttr} (h : rawOk a = true) :
    ∃ c cs, a.qn = c :: cs ∧ isNameStartNC c = true := by
  simp only [rawOk, Bool.and_eq_true, Bool.or_eq_true] at h
  obtain ⟨⟨hp, hl⟩, _⟩ := h
  unfold RawAttr.qn
  by_cases he : a.pfx.isEmpty = true
  · simp only [he, if_true]
    cases hl' : a.loc with
    | nil => rw [hl'] at hl; cases hl
    | cons c cs =>
      rw [hl'] at hl
      simp only [isNCNameL, Bool.and_eq_true] at hl
      exact ⟨c, cs, rfl, hl.1⟩
  · simp only [he, if_false]
    have hp' : isNCNameL a.pfx = true := by
      rcases hp with hp | hp
      · exact absurd hp he
      · exact hp
    cases hpp : a.pfx with
    | nil => rw [hpp] at hp'; cases hp'
    | cons c cs =>
      rw [hpp] at hp'
      simp only [isNCNameL, Bool.and_eq_true] at hp'
      exact ⟨c, cs ++ ':' :: a.loc, by simp, hp'.1⟩

theorem consumeQName_raw {a : RawAttr} (h : rawOk a = true) {rest : Str} (hr : Stops isNameChar rest) :
    consumeQName (a.qn ++ rest) = some (a.pfx, a.loc, rest) := by
  simp only [rawOk, Bool.and_eq_true, Bool.or_eq_true] at h
  obtain ⟨⟨hp, hl⟩, _⟩ := h
  unfold RawAttr.qn
  by_cases he : a.pfx.isEmpty = true
  · have : a.pfx = [] := by simpa using he
    simp only [he, if_true, this]
    exact consumeQName_local hl hr
  · simp only [he, if_false]
    have hp' : isNCNameL a.pfx = true := by
      rcases hp with hp | hp
      · exact absurd hp he
      · exact hp
    have := consumeQName_prefixed hp' hl hr
    simpa using this

theorem parseAttribute_raw {a : RawAttr} (h : rawOk a = true) (rest : Str) :
    parseAttribute (a.qn ++ '=' :: '"' :: (a.raw ++ '"' :: rest)) = some (a, rest) := by
  unfold parseAttribute
  rw [consumeQName_raw h (Stops.cons (by decide))]
  simp only [consumeEq_eq _ (Stops.cons (show isSpace '"' = false by decide))]
  simp only [rawOk, Bool.and_eq_true] at h
  rw [consumeValue_dq h.2]

/-- the terminator of a start tag -/
inductive TagEnd | openTag | emptyTag

def TagEnd.chars : TagEnd → Str
  | .openTag => ['>']
  | .emptyTag => ['/', '>']

def TagEnd.isEmpty : TagEnd → Bool
  | .openTag => false
  | .emptyTag => true

theorem parseAttrList_raws (ras : List RawAttr) (h : ∀ a ∈ ras, rawOk a = true) (e : TagEnd) (rest : Str) :
    ∀ f, (ras.flatMap renderRawL ++ (e.chars ++ rest)).length < f →
      parseAttrList f (ras.flatMap renderRawL ++ (e.chars ++ rest)) = some (ras, e.isEmpty, rest) := by
  induction ras with
  | nil =>
    intro f hf
    cases f with
    | zero => omega
    | succ f =>
      cases e <;> simp [parseAttrList, TagEnd.chars, TagEnd.isEmpty, skipSpaces, startsWithSpace, isSpace]
  | cons a ras ih =>
    intro f hf
    cases f with
    | zero => omega
    | succ f =>
      have ha := h a (by simp)
      obtain ⟨c, cs, hq, hc⟩ := RawAttr.qn_cons ha
      have hsp : isSpace c = false := isSpace_nameChar (nameStart_nameChar hc)
      have hc1 : (c == '/') = false := by
        cases hh : c == '/'
        · rfl
        · have : c = '/' := by simpa using hh
          subst this; revert hc; decide
      have hc2 : (c == '>') = false := by
        cases hh : c == '>'
        · rfl
        · have : c = '>' := by simpa using hh
          subst this; revert hc; decide
      have hpa := parseAttribute_raw ha (ras.flatMap renderRawL ++ (e.chars ++ rest))
      rw [hq] at hpa
      simp only [List.flatMap_cons, renderRawL, hq, List.cons_append, List.append_assoc, List.nil_append, parseAttrList,
        startsWithSpace, skipSpaces, List.dropWhile, isSpace, beq_self_eq_true, Bool.true_or,
        Bool.or_true] at hf ⊢
      have hsp' : (c == ' ' || c == '\t' || c == '\n' || c == '\r') = false := by
        simpa [isSpace] using hsp
      simp only [hsp', hc1, hc2, Bool.false_eq_true, if_false, Bool.not_true]
      simp only [List.cons_append, List.append_assoc] at hpa
      rw [hpa]
      simp only [List.length_cons, List.length_append] at hf
      have := ih (fun a ha => h a (by simp [ha])) f (by simp only [List.length_append]; omega)
      simp only [this]

def rawOfAttr (x : XAttr) : RawAttr := ⟨[], x.name.toList, x.value.toList⟩
def plainOfAttr (x : XAttr) : PlainAttr := ⟨[], x.name.toList, x.value⟩

@[simp] theorem rawOfAttr_pfx (x : XAttr) : (rawOfAttr x).pfx = [] := rfl
@[simp] theorem rawOfAttr_loc (x : XAttr) : (rawOfAttr x).loc = x.name.toList := rfl
@[simp] theorem rawOfAttr_raw (x : XAttr) : (rawOfAttr x).raw = x.value.toList := rfl
@[simp] theorem plainOfAttr_pfx (x : XAttr) : (plainOfAttr x).pfx = [] := rfl
@[simp] theorem plainOfAttr_loc (x : XAttr) : (plainOfAttr x).loc = x.name.toList := rfl
@[simp] theorem plainOfAttr_value (x : XAttr) : (plainOfAttr x).value = x.value := rfl

theorem renderRawL_rawOfAttr (x : XAttr) : renderRawL (rawOfAttr x) = renderAttrL x := by
  simp [renderRawL, RawAttr.qn, rawOfAttr, renderAttrL]

theorem renderAttrsL_eq (attrs : List XAttr) : renderAttrsL attrs = (attrs.map rawOfAttr).flatMap renderRawL := by
  simp [renderAttrsL, List.flatMap_map, renderRawL_rawOfAttr]

theorem attrValChar_raw {v : Str} (h : v.all attrValChar = true) :
    v.all (fun c => isXmlChar c && c != '"' && c != '<') = true := by
  rw [List.all_eq_true] at h ⊢
  intro c hc
  have := h c hc
  simp only [attrValChar, Bool.and_eq_true] at this ⊢
  exact ⟨⟨this.1.1.1.1.1.1, this.1.1.1.1.1.2⟩, this.1.1.1.1.2⟩

theorem rawOk_rawOfAttr {x : XAttr} (h : attrOk x = true) : rawOk (rawOfAttr x) = true := by
  simp only [attrOk, Bool.and_eq_true] at h
  simp only [rawOk, rawOfAttr, List.isEmpty_nil, Bool.true_or, Bool.true_and, Bool.and_eq_true]
  exact ⟨h.1.1.2, attrValChar_raw h.2⟩

theorem normAttr_plain {v : Str} (h : v.all attrValChar = true) : normAttr v = some v := by
  have : v.all (fun c => c != '&' && c != '\t' && c != '\n' && c != '\r') = true := by
    rw [List.all_eq_true] at h ⊢
    intro c hc
    have := h c hc
    simp only [attrValChar, Bool.and_eq_true] at this ⊢
    exact ⟨⟨⟨this.1.1.1.2, this.1.1.2⟩, this.1.2⟩, this.2⟩
  simp [normAttr, this]

theorem splitAttrs_plain (xs : List XAttr) (h : ∀ x ∈ xs, attrOk x = true) (own : Nss) (plain : List PlainAttr)
    (rest : List RawAttr) :
    splitAttrs own plain (xs.map rawOfAttr ++ rest) = splitAttrs own (plain ++ xs.map plainOfAttr) rest := by
  induction xs generalizing plain with
  | nil => simp
  | cons x xs ih =>
    have hx := h x (by simp)
    simp only [attrOk, Bool.and_eq_true] at hx
    have hn : (x.name.toList == xmlnsL) = false := by
      have := hx.1.2
      simpa [bne] using this
    have hp : (([] : Str) == xmlnsL) = false := by decide
    simp only [List.map_cons, List.cons_append, splitAttrs, rawOfAttr_pfx, rawOfAttr_loc, rawOfAttr_raw,
      normAttr_plain hx.2, hp, hn, Bool.false_eq_true, if_false, String.ofList_toList]
    have := ih (fun y hy => h y (by simp [hy])) (plain ++ [plainOfAttr x])
    simp only [plainOfAttr, List.append_assoc, List.cons_append, List.nil_append] at this ⊢
    exact this

theorem distinct_cons {a : String} {as : List String} (h : distinct (a :: as) = true) :
    a ∉ as ∧ distinct as = true := by
  simp only [distinct, Bool.and_eq_true, Bool.not_eq_true', List.contains_eq_mem, decide_eq_false_iff_not] at h
  exact h

theorem resolveAttrs_plain (nss : Nss) (xs : List XAttr) (h : ∀ x ∈ xs, attrOk x = true) (done : List XAttr)
    (hd : distinct (xs.map (·.name)) = true) (hdd : ∀ d ∈ done, ∀ x ∈ xs, d.name ≠ x.name) :
    resolveAttrs nss done (xs.map plainOfAttr) = some (done ++ xs) := by
  induction xs generalizing done with
  | nil => simp [resolveAttrs]
  | cons x xs ih =>
    have hx := h x (by simp)
    simp only [attrOk, Bool.and_eq_true] at hx
    have hns : x.ns = none := by simpa using hx.1.1.1
    have hx' : x = ⟨none, x.name, x.value⟩ := by
      cases x; simp_all
    have hp : (([] : Str) == xmlL) = false := by decide
    have hany : done.any (fun d => d.ns == none && d.name == x.name) = false := by
      apply Bool.eq_false_iff.mpr
      intro hc
      rw [List.any_eq_true] at hc
      obtain ⟨d, hd1, hd2⟩ := hc
      simp only [Bool.and_eq_true, beq_iff_eq] at hd2
      exact hdd d hd1 x (by simp) hd2.2
    obtain ⟨hnot, hdist⟩ := distinct_cons (by simpa using hd)
    simp only [List.map_cons, resolveAttrs, plainOfAttr_pfx, plainOfAttr_loc, plainOfAttr_value, hp,
      Bool.false_eq_true, if_false, List.isEmpty_nil, if_true, String.ofList_toList, hany]
    have := ih (fun y hy => h y (by simp [hy])) (done ++ [(⟨none, x.name, x.value⟩ : XAttr)]) hdist (by
      intro d hd y hy
      rw [List.mem_append] at hd
      rcases hd with hd | hd
      · exact hdd d hd y (by simp [hy])
      · simp only [List.mem_singleton] at hd
        subst hd
        intro e
        apply hnot
        simp only [List.mem_map]
        exact ⟨y, hy, e.symm⟩)
    rw [this, ← hx']
    simp

theorem inheritNs_nil (pns : Nss) : inheritNs [] pns = pns := by simp [inheritNs]


/-! ## 4. start tags -/

theorem stops_attrs (attrs : List XAttr) (e : TagEnd) (rest : Str) :
    Stops isNameChar (renderAttrsL attrs ++ (e.chars ++ rest)) := by
  cases attrs with
  | nil => cases e <;> exact Stops.cons (by decide)
  | cons a as => exact Stops.cons (by decide)

theorem consumeQName_qnameL {pfx : Option String} {name : String} (hn : isNCNameL name.toList = true)
    (hp : prefixOk pfx = true) {rest : Str} (hr : Stops isNameChar rest) :
    consumeQName (qnameL pfx name ++ rest) = some (optL pfx, name.toList, rest) := by
  cases pfx with
  | none => exact consumeQName_local hn hr
  | some p =>
    simp only [prefixOk, Bool.and_eq_true] at hp
    have := consumeQName_prefixed hp.1 hn hr
    simpa [qnameL, optL] using this

theorem optL_ne_xmlns {pfx : Option String} (hp : prefixOk pfx = true) : (optL pfx == xmlnsL) = false := by
  cases pfx with
  | none => decide
  | some p =>
    simp only [prefixOk, Bool.and_eq_true] at hp
    simpa [optL, bne] using hp.2

theorem parseStartTag_elem (nss : Nss) {ns pfx : Option String} {name : String} {attrs : List XAttr}
    (hh : headOk nss ns pfx name = true) (ha : attrsOk attrs = true) (e : TagEnd) (rest : Str) (f : Nat)
    (hf : (renderAttrsL attrs ++ (e.chars ++ rest)).length < f) :
    parseStartTag f nss (qnameL pfx name ++ (renderAttrsL attrs ++ (e.chars ++ rest)))
      = some (⟨optL pfx, name.toList, ns, attrs, nss, e.isEmpty⟩, rest) := by
  simp only [headOk, Bool.and_eq_true, decide_eq_true_eq] at hh
  obtain ⟨⟨⟨hn, hp⟩, hns⟩, hlp⟩ := hh
  simp only [attrsOk, Bool.and_eq_true] at ha
  have hall : ∀ x ∈ attrs, attrOk x = true := by
    have := ha.1
    rw [List.all_eq_true] at this
    exact this
  unfold parseStartTag
  rw [consumeQName_qnameL hn hp (stops_attrs attrs e rest)]
  simp only [optL_ne_xmlns hp, Bool.false_eq_true, if_false]
  rw [renderAttrsL_eq] at hf ⊢
  rw [parseAttrList_raws (attrs.map rawOfAttr) (by
    intro a ha'
    obtain ⟨x, hx, rfl⟩ := List.mem_map.mp ha'
    exact rawOk_rawOfAttr (hall x hx)) e rest f hf]
  have h1 := splitAttrs_plain attrs hall [] [] []
  simp only [List.append_nil, List.nil_append] at h1
  simp only [h1, splitAttrs, inheritNs_nil]
  rw [resolveAttrs_plain nss attrs hall [] ha.2 (by intro d hd; cases hd)]
  simp [hns]

theorem Tag.node_eq (nss : Nss) {ns pfx : Option String} {name : String} {attrs : List XAttr}
    (hh : headOk nss ns pfx name = true) (e : Bool) (kids : List XNode) :
    (⟨optL pfx, name.toList, ns, attrs, nss, e⟩ : Tag).node kids = .elem ns pfx name attrs kids := by
  simp only [headOk, Bool.and_eq_true, decide_eq_true_eq] at hh
  simp [Tag.node, hh.2, String.ofList_toList]

/-! ## 5. character data -/

def ParsesTo (nss : Nss) (input : Str) (res : List XNode × (Str × Str) × Str) : Prop :=
  ∀ f, input.length < f → parseContent f nss input = some res

theorem consText_of_not_text (s : Str) {cs : List XNode} (h : startsWithText cs = false) :
    consText s cs = .text (String.ofList s) :: cs := by
  cases cs with
  | nil => rfl
  | cons c cs => cases c <;> simp_all [consText, startsWithText]

theorem consText_consText (s t : Str) (cs : List XNode) :
    consText s (consText t cs) = consText (s ++ t) cs := by
  cases cs with
  | nil => simp [consText, String.ofList_append]
  | cons c cs => cases c <;> simp [consText, String.ofList_append, String.append_assoc]

/-- the closing tag -/
theorem parsesTo_close (nss : Nss) {pfx : Option String} {name : String} (hn : isNCNameL name.toList = true)
    (hp : prefixOk pfx = true) (rest : Str) :
    ParsesTo nss (closeTagL pfx name ++ rest) ([], (optL pfx, name.toList), rest) := by
  intro f hf
  cases f with
  | zero => omega
  | succ f =>
    have := consumeQName_qnameL hn hp (rest := '>' :: rest) (Stops.cons (by decide))
    simp only [closeTagL, List.cons_append, List.append_assoc, List.nil_append, parseContent, beq_self_eq_true,
      if_true, this, skipSpaces, List.dropWhile, isSpace]
    simp

/-- text between tags -/
theorem parsesTo_plainText (nss : Nss) {s : Str} (hs : plainTextOk s = true) {tail : Str}
    {cs : List XNode} {cl : Str × Str} {r : Str} (ht : ParsesTo nss tail (cs, cl, r))
    (hlt : Stops (· != '<') tail) (hcs : startsWithText cs = false) :
    ParsesTo nss (s ++ tail) (.text (String.ofList s) :: cs, cl, r) := by
  intro f hf
  simp only [plainTextOk, Bool.and_eq_true, Bool.not_eq_true'] at hs
  obtain ⟨⟨hne, hall⟩, hsub⟩ := hs
  rw [List.all_eq_true] at hall
  have h1 : s.all (· != '<') = true := by
    rw [List.all_eq_true]; intro c hc
    have := hall c hc; simp only [Bool.and_eq_true] at this; exact this.1.1.2
  have h2 : s.all isXmlChar = true := by
    rw [List.all_eq_true]; intro c hc
    have := hall c hc; simp only [Bool.and_eq_true] at this; exact this.1.1.1
  have h3 : s.all (fun c => c != '&' && c != '\r') = true := by
    rw [List.all_eq_true]; intro c hc
    have := hall c hc; simp only [Bool.and_eq_true] at this ⊢; exact ⟨this.1.2, this.2⟩
  cases s with
  | nil => simp at hne
  | cons c s' =>
    cases f with
    | zero => omega
    | succ f =>
      have hc : (c == '<') = false := by
        have := h1; simp only [List.all_cons, Bool.and_eq_true] at this
        simpa [bne] using this.1
      have e1 : (c :: (s' ++ tail)).takeWhile (· != '<') = c :: s' := by
        have := takeWhile_append_stop h1 hlt; simpa using this
      have e2 : (c :: (s' ++ tail)).dropWhile (· != '<') = tail := by
        have := dropWhile_append_stop h1 hlt; simpa using this
      simp only [List.cons_append, parseContent, hc, Bool.false_eq_true, if_false, e1, e2, h2, hsub,
        Bool.not_true, Bool.or_false, processText, h3, if_true]
      simp only [List.length_cons, List.cons_append, List.length_append] at hf
      rw [ht f (by omega)]
      simp [consText_of_not_text _ hcs]

/-! ### CDATA sections written by `cdataEscape` -/

def crRef : Str := ['&', '#', '1', '3', ';']

theorem cdataEscL_nil : cdataEscL [] = [] := by rw [cdataEscL.eq_def]

theorem splitLit : "]]]]><![CDATA[>".toList = [']', ']'] ++ (cdataClose ++ (cdataOpen ++ ['>'])) := by decide
theorem crLit : "]]>&#13;<![CDATA[".toList = cdataClose ++ (crRef ++ cdataOpen) := by decide

theorem cdataEscL_cons (c : Char) (r : Str) :
    cdataEscL (c :: r) =
      if c = '\r' then cdataClose ++ (crRef ++ (cdataOpen ++ cdataEscL r))
      else if c = ']' ∧ r.take 2 = [']', '>'] then
        [']', ']'] ++ (cdataClose ++ (cdataOpen ++ ('>' :: cdataEscL (r.drop 2))))
      else c :: cdataEscL r := by
  rw [cdataEscL.eq_def]
  split
  · rename_i cs h
    have e1 : c = ']' := by injection h
    have e2 : r = ']' :: '>' :: cs := by injection h
    subst e1 e2
    simp [splitLit]
  · rename_i cs h
    have e1 : c = '\r' := by injection h
    have e2 : r = cs := by injection h
    subst e1 e2
    simp [crLit]
  · rename_i c' cs' hh hcr h2
    have e1 : c = c' := by injection h2
    have e2 : r = cs' := by injection h2
    subst e1 e2
    have hcr' : c ≠ '\r' := hcr
    simp only [hcr', if_false]
    split
    · rename_i hc
      obtain ⟨rfl, ht⟩ := hc
      exfalso
      match r, ht with
      | a :: b :: r', ht =>
        simp only [List.take_succ_cons, List.take_zero, List.cons.injEq, and_true] at ht
        obtain ⟨rfl, rfl⟩ := ht
        exact hh r' rfl rfl
    · rfl
  · rename_i h; cases h

/-- the first character of an escaped string followed by `]…` is `>` only if the string starts with `>` -/
theorem head_esc_gt (r Y : Str) (hY : Y.head? = some ']') (h : (cdataEscL r ++ Y).head? = some '>') :
    r.head? = some '>' := by
  cases r with
  | nil => simp [cdataEscL_nil, hY] at h
  | cons g r2 =>
    rw [cdataEscL_cons] at h
    split at h
    · simp [cdataClose] at h
    · split at h
      · simp at h
      · simpa using h

/-- an escaped string followed by `]]…` starts with `]>` only if the string does -/
theorem esc_not_bracket_gt (r Y : Str) (hY : Y.take 2 = [']', ']']) (hr : r.take 2 ≠ [']', '>']) :
    (cdataEscL r ++ Y).take 2 ≠ [']', '>'] := by
  have hYh : Y.head? = some ']' := by
    match Y, hY with
    | a :: b :: Y', hY => simp at hY; simp [hY.1]
  cases r with
  | nil =>
    simp only [cdataEscL_nil, List.nil_append, hY]
    decide
  | cons d r1 =>
    rw [cdataEscL_cons]
    split
    · simp [cdataClose]
    · split
      · simp
      · rename_i h1 h2
        intro hc
        have hd : d = ']' := by
          simp only [List.cons_append] at hc
          cases hx : (cdataEscL r1 ++ Y) with
          | nil => rw [hx] at hc; simp at hc
          | cons x xs => rw [hx] at hc; simp at hc; exact hc.1
        subst hd
        have hg : (cdataEscL r1 ++ Y).head? = some '>' := by
          simp only [List.cons_append] at hc
          cases hx : (cdataEscL r1 ++ Y) with
          | nil => rw [hx] at hc; simp at hc
          | cons x xs => rw [hx] at hc; simp at hc; simp [hc]
        have := head_esc_gt r1 Y hYh hg
        apply hr
        cases r1 with
        | nil => simp at this
        | cons g r2 => simp at this; simp [this]

theorem strip_cdataClose_none (c : Char) (X : Str) (h : c ≠ ']' ∨ X.take 2 ≠ [']', '>']) :
    strip cdataClose (c :: X) = none := by
  simp only [cdataClose, strip]
  by_cases hc : ']' = c
  · subst hc
    simp only [if_true]
    rcases h with h | h
    · exact absurd rfl h
    · match X, h with
      | [], _ => rfl
      | [a], _ => by_cases ha : ']' = a <;> simp [strip, ha]
      | a :: b :: X', h =>
        by_cases ha : ']' = a
        · by_cases hb : '>' = b
          · subst ha hb; simp at h
          · simp [strip, ha, hb]
        · simp [strip, ha]
  · simp [hc]

/-- what the scanner finds in the first CDATA section of an escaped string -/
theorem scan_esc (v : Str) (hv : v.all isXmlChar = true) (tail : Str) :
    ∃ a rem, scanUntil cdataClose (cdataEscL v ++ (cdataClose ++ tail)) = some (a, rem) ∧
      a.all (· != '\r') = true ∧
      ((rem = tail ∧ v = a) ∨
       (∃ r, v = a ++ '\r' :: r ∧ rem = crRef ++ (cdataOpen ++ (cdataEscL r ++ (cdataClose ++ tail)))) ∨
       (∃ a' r, a = a' ++ [']', ']'] ∧ v = a' ++ (']' :: ']' :: '>' :: r) ∧
          rem = cdataOpen ++ (cdataEscL ('>' :: r) ++ (cdataClose ++ tail)))) := by
  induction v with
  | nil =>
    refine ⟨[], tail, ?_, rfl, Or.inl ⟨rfl, rfl⟩⟩
    simp [cdataEscL_nil, cdataClose, scanUntil, strip]
  | cons c r ih =>
    simp only [List.all_cons, Bool.and_eq_true] at hv
    rw [cdataEscL_cons]
    split
    · rename_i hc; subst hc
      refine ⟨[], crRef ++ (cdataOpen ++ (cdataEscL r ++ (cdataClose ++ tail))), ?_, rfl, Or.inr (Or.inl ⟨r, rfl, rfl⟩)⟩
      simp [cdataClose, scanUntil, strip]
    · split
      · rename_i _ hc
        obtain ⟨rfl, ht⟩ := hc
        match r, ht with
        | a :: b :: r', ht =>
          simp only [List.take_succ_cons, List.take_zero, List.cons.injEq, and_true] at ht
          obtain ⟨rfl, rfl⟩ := ht
          refine ⟨[']', ']'], cdataOpen ++ (cdataEscL ('>' :: r') ++ (cdataClose ++ tail)), ?_, by decide,
            Or.inr (Or.inr ⟨[], r', rfl, rfl, rfl⟩)⟩
          have : cdataEscL ('>' :: r') = '>' :: cdataEscL r' := by
            rw [cdataEscL_cons]; simp
          simp [cdataClose, scanUntil, strip, this, isXmlChar, cdataOpen]
      · rename_i hcr hsp
        obtain ⟨a, rem, hscan, ha, hcase⟩ := ih hv.2
        have hnm : strip cdataClose (c :: (cdataEscL r ++ (cdataClose ++ tail))) = none := by
          apply strip_cdataClose_none
          by_cases hc : c = ']'
          · right
            apply esc_not_bracket_gt
            · simp [cdataClose]
            · intro ht; exact hsp ⟨hc, ht⟩
          · left; exact hc
        refine ⟨c :: a, rem, ?_, ?_, ?_⟩
        · simp only [List.cons_append, scanUntil, hnm, hv.1, if_true, hscan]
        · simp only [List.all_cons, ha, Bool.and_true]
          simpa [bne] using hcr
        · rcases hcase with ⟨h1, h2⟩ | ⟨r', h1, h2⟩ | ⟨a', r', h1, h2, h3⟩
          · exact Or.inl ⟨h1, by rw [h2]⟩
          · exact Or.inr (Or.inl ⟨r', by rw [h1]; rfl, h2⟩)
          · exact Or.inr (Or.inr ⟨c :: a', r', by rw [h1]; rfl, by rw [h2]; rfl, h3⟩)

theorem processCdata_noCR {a : Str} (h : a.all (· != '\r') = true) : processCdata a = a := by
  simp [processCdata, h]

theorem processText_crRef : processText crRef = some ['\r'] := by decide

/-- one step of `parseContent` at a CDATA section -/
theorem parseContent_cdata_step (f : Nat) (nss : Nss) (X : Str) :
    parseContent (f + 1) nss (cdataOpen ++ X) =
      match scanUntil cdataClose X with
      | some (t, r) =>
        match parseContent f nss r with
        | some (cs, cl, r') => some (consText (processCdata t) cs, cl, r')
        | none => none
      | none => none := by
  simp [cdataOpen, parseContent, startsWith, strip, commentOpen]
  rfl

/-- one step of `parseContent` at the reference `&#13;` followed by markup -/
theorem parseContent_crRef_step (f : Nat) (nss : Nss) (X : Str) :
    parseContent (f + 1) nss (crRef ++ ('<' :: X)) =
      match parseContent f nss ('<' :: X) with
      | some (cs, cl, r') => some (consText ['\r'] cs, cl, r')
      | none => none := by
  have h1 : (crRef ++ ('<' :: X)).takeWhile (· != '<') = crRef := by
    apply takeWhile_append_stop (by decide) (Stops.cons (by decide))
  have h2 : (crRef ++ ('<' :: X)).dropWhile (· != '<') = '<' :: X := by
    apply dropWhile_append_stop (by decide) (Stops.cons (by decide))
  have h3 : crRef.all isXmlChar = true := by decide
  have h4 : containsSub cdataClose crRef = false := by decide
  have e : crRef ++ ('<' :: X) = '&' :: ('#' :: '1' :: '3' :: ';' :: '<' :: X) := rfl
  rw [e] at h1 h2 ⊢
  rw [parseContent]
  simp only [show ('&' == '<') = false by decide, Bool.false_eq_true, if_false, h1, h2, h3, h4,
    Bool.not_true, Bool.or_false, processText_crRef]
  rfl

/-- `cdata_roundtrip`, in continuation form: the CDATA sections (and `&#13;` references between them)
    that `cdataEscape` writes for `v` are read back as the single text `v`, merged with whatever text
    follows -/
theorem parsesTo_cdata (nss : Nss) : ∀ (n : Nat) (v : Str), v.length ≤ n → v.all isXmlChar = true →
    ∀ {tail : Str} {cs : List XNode} {cl : Str × Str} {r : Str}, ParsesTo nss tail (cs, cl, r) →
    ParsesTo nss (cdataOpen ++ (cdataEscL v ++ (cdataClose ++ tail))) (consText v cs, cl, r) := by
  intro n
  induction n with
  | zero =>
    intro v hn hv tail cs cl r ht f hf
    have : v = [] := by cases v <;> simp_all
    subst this
    cases f with
    | zero => omega
    | succ f =>
      rw [parseContent_cdata_step]
      simp only [cdataEscL_nil, List.nil_append, List.cons_append, cdataClose, scanUntil, strip, if_true]
      simp only [cdataOpen, cdataClose, cdataEscL_nil, List.length_append, List.length_cons, List.length_nil] at hf
      rw [ht f (by omega)]
      simp [processCdata]
  | succ n ih =>
    intro v hn hv tail cs cl r ht f hf
    cases f with
    | zero => omega
    | succ f =>
      rw [parseContent_cdata_step]
      obtain ⟨a, rem, hscan, ha, hcase⟩ := scan_esc v hv tail
      rw [hscan]
      have hl := scanUntil_length hscan
      simp only [cdataOpen, cdataClose, crRef, List.length_append, List.length_cons, List.length_nil] at hf
      simp only [processCdata_noCR ha]
      rcases hcase with ⟨h1, h2⟩ | ⟨r', h1, h2⟩ | ⟨a', r', h1, h2, h3⟩
      · subst h1 h2
        simp only [cdataOpen, cdataClose, crRef, List.length_append, List.length_cons, List.length_nil] at hl
        rw [ht f (by omega)]
      · subst h1 h2
        simp only [cdataOpen, cdataClose, crRef, List.length_append, List.length_cons, List.length_nil] at hl
        have hv' : r'.all isXmlChar = true := by
          simp only [List.all_append, List.all_cons, Bool.and_eq_true] at hv; exact hv.2.2
        have hlen : r'.length ≤ n := by
          simp only [List.length_append, List.length_cons] at hn; omega
        have ih' := ih r' hlen hv' ht
        cases f with
        | zero =>
          exfalso
          omega
        | succ f =>
          have e : crRef ++ (cdataOpen ++ (cdataEscL r' ++ (cdataClose ++ tail)))
              = crRef ++ ('<' :: (cdataOpen.tail ++ (cdataEscL r' ++ (cdataClose ++ tail)))) := rfl
          rw [e, parseContent_crRef_step]
          have e2 : '<' :: (cdataOpen.tail ++ (cdataEscL r' ++ (cdataClose ++ tail)))
              = cdataOpen ++ (cdataEscL r' ++ (cdataClose ++ tail)) := rfl
          rw [e2, ih' f (by
            simp only [cdataOpen, cdataClose, List.length_append, List.length_cons, List.length_nil]
            omega)]
          simp [consText_consText]
      · subst h1 h2 h3
        simp only [cdataOpen, cdataClose, crRef, List.length_append, List.length_cons, List.length_nil] at hl
        have hv' : ('>' :: r').all isXmlChar = true := by
          simp only [List.all_append, List.all_cons, Bool.and_eq_true] at hv
          simp only [List.all_cons, Bool.and_eq_true]
          exact ⟨by decide, hv.2.2.2.2⟩
        have hlen : ('>' :: r').length ≤ n := by
          simp only [List.length_append, List.length_cons] at hn ⊢; omega
        have ih' := ih ('>' :: r') hlen hv' ht
        rw [ih' f (by
            simp only [cdataOpen, cdataClose, List.length_append, List.length_cons, List.length_nil] at hl ⊢
            omega)]
        simp [consText_consText]

/-! ## 6. elements: the main induction -/

theorem qnameL_cons {pfx : Option String} {name : String} (hn : isNCNameL name.toList = true)
    (hp : prefixOk pfx = true) : ∃ d s, qnameL pfx name = d :: s ∧ isNameStartNC d = true := by
  cases pfx with
  | none =>
    simp only [qnameL]
    cases h : name.toList with
    | nil => rw [h] at hn; cases hn
    | cons d s =>
      rw [h] at hn; simp only [isNCNameL, Bool.and_eq_true] at hn
      exact ⟨d, s, rfl, hn.1⟩
  | some p =>
    simp only [prefixOk, Bool.and_eq_true] at hp
    simp only [qnameL]
    cases h : p.toList with
    | nil => rw [h] at hp; cases hp.1
    | cons d s =>
      rw [h] at hp; simp only [isNCNameL, Bool.and_eq_true] at hp
      exact ⟨d, s ++ ':' :: name.toList, by simp, hp.1.1⟩

theorem nameStart_not_markup {d : Char} (h : isNameStartNC d = true) :
    (d == '/') = false ∧ (d == '!') = false ∧ (d == '?') = false := by
  refine ⟨?_, ?_, ?_⟩ <;>
  · cases hh : (d == _)
    · rfl
    · have := eq_of_beq hh
      subst this; revert h; decide

theorem parseContent_elem_step (f : Nat) (nss : Nss) (d : Char) (s : Str) (hd : isNameStartNC d = true) :
    parseContent (f + 1) nss ('<' :: d :: s) =
      match parseStartTag (f + 1) nss (d :: s) with
      | none => none
      | some (tag, r) =>
        if tag.empty then
          match parseContent f nss r with
          | some (cs, cl, r') => some (tag.node [] :: cs, cl, r')
          | none => none
        else
          match parseContent f tag.nss r with
          | none => none
          | some (kids, cl, r1) =>
            if cl.1 == tag.rawPfx && cl.2 == tag.loc then
              match parseContent f nss r1 with
              | some (cs, cl', r2) => some (tag.node kids :: cs, cl', r2)
              | none => none
            else none := by
  obtain ⟨h1, h2, h3⟩ := nameStart_not_markup hd
  rw [parseContent]
  simp only [beq_self_eq_true, if_true, h1, h2, h3, Bool.false_eq_true, if_false]
  rfl

theorem renderListL_head (nss : Nss) (cd : Bool) (ts : List XNode) (hk : kidsOk nss cd ts = true)
    (hs : startsWithText ts = false) (pfx : Option String) (name : String) (rest : Str) :
    Stops (· != '<') (renderListL cd ts ++ (closeTagL pfx name ++ rest)) := by
  cases ts with
  | nil => exact Stops.cons (by decide)
  | cons t ts =>
    cases t with
    | text s => simp [startsWithText] at hs
    | comment => simp [kidsOk] at hk
    | pi => simp [kidsOk] at hk
    | elem ns p n attrs ks =>
      cases ks <;> exact Stops.cons (by decide)

mutual
theorem parse_elem (nss : Nss) : ∀ (t : XNode) (cd : Bool), nodeOk nss t = true →
    ∀ (tail : Str) (cs : List XNode) (cl : Str × Str) (r : Str), ParsesTo nss tail (cs, cl, r) →
    ParsesTo nss (renderL cd t ++ tail) (t :: cs, cl, r)
  | .elem ns pfx name attrs [], cd, h, tail, cs, cl, r, ht => by
    simp only [nodeOk, Bool.and_eq_true] at h
    obtain ⟨⟨hh, ha⟩, _⟩ := h
    have hh' := hh
    simp only [headOk, Bool.and_eq_true, decide_eq_true_eq] at hh'
    obtain ⟨d, s, hq, hd⟩ := qnameL_cons hh'.1.1.1 hh'.1.1.2
    intro f hf
    cases f with
    | zero => omega
    | succ f =>
      have hst := parseStartTag_elem nss hh ha .emptyTag tail (f + 1) (by
        simp only [renderL, List.cons_append, List.append_assoc, List.length_cons, List.length_append] at hf
        simp only [TagEnd.chars, List.length_append, List.length_cons, List.length_nil]
        omega)
      simp only [renderL, List.cons_append, List.append_assoc, List.nil_append] at hf ⊢
      simp only [TagEnd.chars, List.cons_append, List.nil_append] at hst
      rw [hq] at hst hf ⊢
      simp only [List.cons_append] at hst hf ⊢
      rw [parseContent_elem_step f nss d _ hd, hst]
      simp only [TagEnd.isEmpty, if_true]
      simp only [List.length_cons, List.length_append] at hf
      rw [ht f (by omega), Tag.node_eq nss hh]
  | .elem ns pfx name attrs (k :: ks), cd, h, tail, cs, cl, r, ht => by
    simp only [nodeOk, Bool.and_eq_true] at h
    obtain ⟨⟨hh, ha⟩, hk⟩ := h
    have hh' := hh
    simp only [headOk, Bool.and_eq_true, decide_eq_true_eq] at hh'
    obtain ⟨d, s, hq, hd⟩ := qnameL_cons hh'.1.1.1 hh'.1.1.2
    have hkids := parse_kids nss (k :: ks) (MT.isStringTyped attrs) hk pfx name hh'.1.1.1 hh'.1.1.2 tail
    intro f hf
    cases f with
    | zero => omega
    | succ f =>
      have hst := parseStartTag_elem nss hh ha .openTag
        (renderListL (MT.isStringTyped attrs) (k :: ks) ++ (closeTagL pfx name ++ tail)) (f + 1) (by
        simp only [renderL, List.cons_append, List.append_assoc, List.length_cons, List.length_append] at hf
        simp only [TagEnd.chars, List.length_append, List.length_cons, List.length_nil]
        omega)
      simp only [renderL, List.cons_append, List.append_assoc, List.nil_append] at hf ⊢
      simp only [TagEnd.chars, List.cons_append, List.nil_append] at hst
      rw [hq] at hst hf ⊢
      simp only [List.cons_append] at hst hf ⊢
      rw [parseContent_elem_step f nss d _ hd, hst]
      simp only [TagEnd.isEmpty, Bool.false_eq_true, if_false]
      simp only [List.length_cons, List.length_append] at hf
      rw [hkids f (by simp only [List.length_append]; omega)]
      simp only [beq_self_eq_true, Bool.and_self, if_true]
      rw [ht f (by omega), Tag.node_eq nss hh]
  | .text s, _, h, _, _, _, _, _ => by simp [nodeOk] at h
  | .comment, _, h, _, _, _, _, _ => by simp [nodeOk] at h
  | .pi, _, h, _, _, _, _, _ => by simp [nodeOk] at h
theorem parse_kids (nss : Nss) : ∀ (ts : List XNode) (cd : Bool), kidsOk nss cd ts = true →
    ∀ (pfx : Option String) (name : String), isNCNameL name.toList = true → prefixOk pfx = true →
    ∀ (rest : Str), ParsesTo nss (renderListL cd ts ++ (closeTagL pfx name ++ rest))
      (ts, (optL pfx, name.toList), rest)
  | [], cd, h, pfx, name, hn, hp, rest => by
    simpa [renderListL] using parsesTo_close nss hn hp rest
  | .text s :: ts, cd, h, pfx, name, hn, hp, rest => by
    simp only [kidsOk, Bool.and_eq_true, Bool.not_eq_true'] at h
    obtain ⟨⟨htx, hst⟩, hk⟩ := h
    have ih := parse_kids nss ts cd hk pfx name hn hp rest
    cases cd with
    | true =>
      simp only [textOk, if_true, cdataTextOk] at htx
      have := parsesTo_cdata nss s.toList.length s.toList (Nat.le_refl _) htx ih
      rw [consText_of_not_text _ hst, String.ofList_toList] at this
      simpa [renderListL, renderL] using this
    | false =>
      simp only [textOk, Bool.false_eq_true, if_false] at htx
      have := parsesTo_plainText nss htx ih (renderListL_head nss false ts hk hst pfx name rest) hst
      rw [String.ofList_toList] at this
      simpa [renderListL, renderL] using this
  | .elem ns p n attrs ks :: ts, cd, h, pfx, name, hn, hp, rest => by
    simp only [kidsOk, Bool.and_eq_true] at h
    have ih := parse_kids nss ts cd h.2 pfx name hn hp rest
    have := parse_elem nss (.elem ns p n attrs ks) cd h.1 _ _ _ _ ih
    simpa [renderListL] using this
  | .comment :: _, _, h, _, _, _, _, _ => by simp [kidsOk] at h
  | .pi :: _, _, h, _, _, _, _, _ => by simp [kidsOk] at h
end

/-! ## 7. escaped attribute values (`attrEscape`) -/

def attrSpecial (c : Char) : Bool :=
  c == '&' || c == '<' || c == '"' || c == '\t' || c == '\n' || c == '\r'

def escItem (c : Char) : Item := if attrSpecial c then .ref c else .lit c

theorem attrEscChar_plain {c : Char} (h : attrSpecial c = false) : attrEscChar c = [c] := by
  simp only [attrSpecial, Bool.or_eq_false_iff] at h
  obtain ⟨⟨⟨⟨⟨h1, h2⟩, h3⟩, h4⟩, h5⟩, h6⟩ := h
  simp [attrEscChar, h1, h2, h3, h4, h5, h6]

theorem attrSpecial_cases {c : Char} (h : attrSpecial c = true) :
    c = '&' ∨ c = '<' ∨ c = '"' ∨ c = '\t' ∨ c = '\n' ∨ c = '\r' := by
  simp only [attrSpecial, Bool.or_eq_true, beq_iff_eq] at h
  rcases h with ((((h | h) | h) | h) | h) | h <;> simp [h]

theorem decodeRefs_escChar (c : Char) (rest : Str) :
    decodeRefs none (attrEscChar c ++ rest) = (decodeRefs none rest).map (escItem c :: ·) := by
  cases hs : attrSpecial c with
  | false =>
    have hc : (c == '&') = false := by
      simp only [attrSpecial, Bool.or_eq_false_iff] at hs; exact hs.1.1.1.1.1
    rw [attrEscChar_plain hs]
    simp only [List.cons_append, List.nil_append, decodeRefs, hc, Bool.false_eq_true, if_false, escItem, hs]
    cases decodeRefs none rest <;> rfl
  | true =>
    rcases attrSpecial_cases hs with rfl | rfl | rfl | rfl | rfl | rfl <;>
    · simp [attrEscChar, decodeRefs, resolveRef, numVal, digitVal, charOfU32, isXmlChar, isSpace, escItem,
        attrSpecial]
      cases decodeRefs none rest <;> rfl

theorem decodeRefs_esc (u : Str) : decodeRefs none (attrEscL u) = some (u.map escItem) := by
  induction u with
  | nil => simp [attrEscL, decodeRefs]
  | cons c r ih => rw [attrEscL, decodeRefs_escChar, ih]; rfl

theorem attrPass_esc (u : Str) : attrPass (u.map escItem) = u := by
  induction u with
  | nil => rfl
  | cons c r ih =>
    cases hs : attrSpecial c with
    | true => simp [escItem, hs, attrPass, ih]
    | false =>
      have hs' := hs
      simp only [attrSpecial, Bool.or_eq_false_iff] at hs'
      obtain ⟨⟨⟨⟨⟨h1, h2⟩, h3⟩, h4⟩, h5⟩, h6⟩ := hs'
      simp [escItem, hs, attrPass, ih, h6, normWs, h4, h5]

theorem attrEscL_noAmp {u : Str} (h : (attrEscL u).all (· != '&') = true) : attrEscL u = u := by
  induction u with
  | nil => simp [attrEscL]
  | cons c r ih =>
    rw [attrEscL, List.all_append, Bool.and_eq_true] at h
    cases hs : attrSpecial c with
    | false => rw [attrEscL, attrEscChar_plain hs, ih h.2]; rfl
    | true =>
      exfalso
      have := h.1
      rcases attrSpecial_cases hs with rfl | rfl | rfl | rfl | rfl | rfl <;> revert this <;> decide

/-- `attr_roundtrip`, the normalisation part: the escaped value denotes the original string.
    (No hypothesis at all: every character that attribute-value normalisation would change is
    written as a reference.) -/
theorem normAttr_esc (u : Str) : normAttr (attrEscL u) = some u := by
  unfold normAttr
  split
  · rename_i h
    have : (attrEscL u).all (· != '&') = true := by
      rw [List.all_eq_true] at h ⊢
      intro c hc
      have := h c hc
      simp only [Bool.and_eq_true] at this
      exact this.1.1.1
    rw [attrEscL_noAmp this]
  · simp only [decodeRefs_esc, attrPass_esc]

/-- the escaped value passes the tokenizer's checks iff the URL consists of XML characters -/
theorem rawChars_esc {u : Str} (h : u.all isXmlChar = true) :
    (attrEscL u).all (fun c => isXmlChar c && c != '"' && c != '<') = true := by
  induction u with
  | nil => simp [attrEscL]
  | cons c r ih =>
    simp only [List.all_cons, Bool.and_eq_true] at h
    rw [attrEscL, List.all_append, ih h.2, Bool.and_true]
    cases hs : attrSpecial c with
    | false =>
      rw [attrEscChar_plain hs]
      simp only [attrSpecial, Bool.or_eq_false_iff] at hs
      simp [h.1, bne, hs.1.1.1.1.2, hs.1.1.1.2]
    | true =>
      rcases attrSpecial_cases hs with rfl | rfl | rfl | rfl | rfl | rfl <;> decide

/-- `attr_roundtrip`: the value the writer puts between the quotes of `xmlns:p="…"` for the URL `u`
    is read back as `u` — for EVERY `u` made of XML characters -/
theorem attr_roundtrip (u : String) (h : u.toList.all isXmlChar = true) (rest : Str) :
    (consumeValue ('"' :: ((attrEscape u).toList ++ '"' :: rest))).bind
      (fun vr => (normAttr vr.1).map (fun v => (String.ofList v, vr.2))) = some (u, rest) := by
  simp only [attrEscape, String.toList_ofList]
  rw [consumeValue_dq (rawChars_esc h)]
  simp [normAttr_esc, String.ofList_toList]

/-- the condition is necessary: a URL containing U+0001 makes the parser reject the document -/
example : consumeValue ('"' :: ((attrEscape (String.ofList [Char.ofNat 1])).toList ++ ['"'])) = none := by decide

/-! ## 8. the root element and the document -/

def declRaw (e : String × String) : RawAttr := ⟨xmlnsL, e.1.toList, attrEscL e.2.toList⟩
def defaultRaw : RawAttr := ⟨[], xmlnsL, XNode.e57NsUri.toList⟩

def nsDeclL (e : String × String) : Str :=
  xmlnsL ++ ':' :: (e.1.toList ++ '=' :: '"' :: (attrEscL e.2.toList ++ ['"', ' ']))

def nsDeclsL (exts : List (String × String)) : Str :=
  exts.flatMap nsDeclL ++ (xmlnsL ++ '=' :: '"' :: (XNode.e57NsUri.toList ++ ['"']))

theorem renderNsDecls_toList (exts : List (String × String)) :
    (MT.renderNsDecls exts).toList = nsDeclsL exts := by
  have h1 : (fun a : String × String =>
      "xmlns:".toList ++ a.fst.toList ++ "=\"".toList ++ (attrEscape a.snd).toList ++ "\" ".toList) = nsDeclL := by
    funext e
    simp [nsDeclL, xmlnsL, attrEscape, String.toList_ofList]
  have h2 : "xmlns=\"http://www.astm.org/COMMIT/E57/2010-e57-v1.0\"".toList
      = xmlnsL ++ '=' :: '"' :: (XNode.e57NsUri.toList ++ ['"']) := by decide
  simp only [MT.renderNsDecls, nsDeclsL, String.toList_append, String.toList_join, List.flatMap_map, h2]
  rw [h1]

theorem nsDecls_shift (exts : List (String × String)) (Y : Str) :
    ' ' :: (nsDeclsL exts ++ Y) = (exts.map declRaw ++ [defaultRaw]).flatMap renderRawL ++ Y := by
  induction exts with
  | nil =>
    simp [nsDeclsL, renderRawL, defaultRaw, RawAttr.qn]
  | cons e es ih =>
    simp only [nsDeclsL, List.flatMap_cons, List.append_assoc, List.map_cons, List.cons_append] at ih ⊢
    rw [← ih]
    simp [renderRawL, declRaw, RawAttr.qn, nsDeclL, xmlnsL]

def declL : Str :=
  ['<', '?', 'x', 'm', 'l', ' ', 'v', 'e', 'r', 's', 'i', 'o', 'n', '=', '"', '1', '.', '0', '"', ' ', 'e', 'n', 'c', 'o', 'd', 'i', 'n', 'g', '=', '"', 'U', 'T', 'F', '-', '8', '"', '?', '>', '\n']

theorem declL_eq : "<?xml version=\"1.0\" encoding=\"UTF-8\"?>\n".toList = declL := by decide

def renderDocL (exts : List (String × String)) : XNode → Str
  | .elem _ pfx name attrs cs =>
    declL ++ ('<' :: (qnameL pfx name ++ (renderAttrsL attrs ++ (' ' :: (nsDeclsL exts ++ ('>' ::
      (renderListL false cs ++ (closeTagL pfx name ++ ['\n']))))))))
  | _ => []

theorem renderDoc_elem (exts : List (String × String)) (ns pfx : Option String) (name : String)
    (attrs : List XAttr) (cs : List XNode) :
    MT.renderDoc exts (.elem ns pfx name attrs cs) =
      "<?xml version=\"1.0\" encoding=\"UTF-8\"?>\n"
        ++ "<" ++ MT.qname pfx name ++ MT.renderAttrs attrs ++ " " ++ MT.renderNsDecls exts ++ ">"
        ++ MT.renderList false cs ++ "</" ++ MT.qname pfx name ++ ">\n" := rfl

theorem emptyString_toList : ("" : String).toList = [] := by decide

theorem renderDoc_toList (exts : List (String × String)) (t : XNode) :
    (MT.renderDoc exts t).toList = renderDocL exts t := by
  cases t with
  | elem ns pfx name attrs cs =>
    rw [renderDoc_elem]
    simp only [String.toList_append, qname_toList, renderAttrs_toList,
      renderNsDecls_toList, renderList_toList, declL_eq]
    have e : renderDocL exts (.elem ns pfx name attrs cs) = declL ++ ('<' :: (qnameL pfx name ++
      (renderAttrsL attrs ++ (' ' :: (nsDeclsL exts ++ ('>' ::
      (renderListL false cs ++ (closeTagL pfx name ++ ['\n'])))))))) := by
        rw [renderDocL]
    rw [e]
    have h1 : "<".toList = ['<'] := by decide
    have h2 : " ".toList = [' '] := by decide
    have h3 : ">".toList = ['>'] := by decide
    have h4 : "</".toList = ['<', '/'] := by decide
    have h5 : ">\n".toList = ['>', '\n'] := by decide
    simp only [h1, h2, h3, h4, h5, closeTagL, List.append_assoc, List.cons_append, List.nil_append]
  | text s => exact emptyString_toList
  | comment => exact emptyString_toList
  | pi => exact emptyString_toList

theorem splitAttrs_decls (es : List (String × String))
    (hes : ∀ e ∈ es, e.1.toList ≠ xmlL ∧ e.2 ≠ xmlNsUri ∧ e.2 ≠ xmlnsNsUri)
    (hd : distinct (es.map (·.1)) = true) (own : Nss) (plain : List PlainAttr) (rest : List RawAttr)
    (hown : ∀ n ∈ own, ∀ e ∈ es, n.1 ≠ some e.1) :
    splitAttrs own plain (es.map declRaw ++ rest)
      = splitAttrs (own ++ es.map (fun e => (some e.1, e.2))) plain rest := by
  induction es generalizing own with
  | nil => simp
  | cons e es ih =>
    obtain ⟨h1, h2, h3⟩ := hes e (by simp)
    obtain ⟨hnot, hdist⟩ := distinct_cons (by simpa using hd)
    have hany : own.any (fun n => n.1 == some e.1) = false := by
      apply Bool.eq_false_iff.mpr
      intro hc
      rw [List.any_eq_true] at hc
      obtain ⟨n, hn1, hn2⟩ := hc
      exact hown n hn1 e (by simp) (by simpa using hn2)
    have hl : (e.1.toList == xmlL) = false := by simpa using h1
    have hv1 : (e.2 == xmlnsNsUri) = false := by simpa using h3
    have hv2 : (e.2 == xmlNsUri) = false := by simpa using h2
    simp only [List.map_cons, List.cons_append, splitAttrs, declRaw, normAttr_esc, String.ofList_toList,
      beq_self_eq_true, if_true, hv1, hv2, hl, hany, Bool.false_eq_true, if_false, bne_self_eq_false]
    rw [ih (fun x hx => hes x (by simp [hx])) hdist (own ++ [(some e.1, e.2)]) (by
      intro n hn x hx
      rw [List.mem_append] at hn
      rcases hn with hn | hn
      · exact hown n hn x (by simp [hx])
      · simp only [List.mem_singleton] at hn
        subst hn
        intro he
        apply hnot
        simp only [Option.some.injEq] at he
        simp only [List.mem_map]
        exact ⟨x, hx, he.symm⟩)]
    simp

theorem splitAttrs_default (own : Nss) (plain : List PlainAttr) :
    splitAttrs own plain [defaultRaw] = some (own ++ [(none, XNode.e57NsUri)], plain) := by
  have h1 : normAttr XNode.e57NsUri.toList = some XNode.e57NsUri.toList := by decide
  have h2 : (([] : Str) == xmlnsL) = false := by decide
  have h3 : (XNode.e57NsUri == xmlNsUri || XNode.e57NsUri == xmlnsNsUri) = false := by decide
  simp [splitAttrs, defaultRaw, h1, h2, h3, String.ofList_toList]

theorem inheritNs_nil_right (own : Nss) : inheritNs own [] = own := by
  unfold inheritNs
  split
  · rename_i h; simp at h; simp [h]
  · rfl

theorem rootNamespaces_eq (exts : List (String × String)) :
    [] ++ exts.map (fun e => ((some e.1 : Option String), e.2)) ++ [(none, XNode.e57NsUri)]
      = MT.rootNamespaces exts := by
  simp [MT.rootNamespaces]

theorem stops_rootAttrs (attrs : List XAttr) (exts : List (String × String)) (rest : Str) :
    Stops isNameChar (renderAttrsL attrs ++ (' ' :: (nsDeclsL exts ++ rest))) := by
  cases attrs with
  | nil => exact Stops.cons (by decide)
  | cons a as => exact Stops.cons (by decide)

theorem extsDialect_mem {exts : List (String × String)} (h : extsDialect exts = true) :
    (∀ e ∈ exts, isNCNameL e.1.toList = true ∧ e.1.toList ≠ xmlL ∧ e.2.toList.all isXmlChar = true
      ∧ e.2 ≠ xmlNsUri ∧ e.2 ≠ xmlnsNsUri) ∧ distinct (exts.map (·.1)) = true := by
  simp only [extsDialect, Bool.and_eq_true] at h
  refine ⟨?_, h.2⟩
  intro e he
  have := (List.all_eq_true.mp h.1) e he
  simp only [bne_iff_ne, ne_eq, Bool.and_eq_true] at this
  obtain ⟨⟨⟨⟨a, b⟩, c⟩, d⟩, e'⟩ := this
  exact ⟨a, b, c, d, e'⟩

theorem parseStartTag_root {exts : List (String × String)} (he : extsDialect exts = true)
    {ns pfx : Option String} {name : String} {attrs : List XAttr}
    (hh : headOk (MT.rootNamespaces exts) ns pfx name = true) (ha : attrsOk attrs = true) (rest : Str) (f : Nat)
    (hf : (renderAttrsL attrs ++ (' ' :: (nsDeclsL exts ++ ('>' :: rest)))).length < f) :
    parseStartTag f [] (qnameL pfx name ++ (renderAttrsL attrs ++ (' ' :: (nsDeclsL exts ++ ('>' :: rest)))))
      = some (⟨optL pfx, name.toList, ns, attrs, MT.rootNamespaces exts, false⟩, rest) := by
  obtain ⟨hmem, hdist⟩ := extsDialect_mem he
  simp only [headOk, Bool.and_eq_true, decide_eq_true_eq] at hh
  obtain ⟨⟨⟨hn, hp⟩, hns⟩, hlp⟩ := hh
  simp only [attrsOk, Bool.and_eq_true] at ha
  have hall : ∀ x ∈ attrs, attrOk x = true := by
    have := ha.1
    rw [List.all_eq_true] at this
    exact this
  unfold parseStartTag
  rw [consumeQName_qnameL hn hp (stops_rootAttrs attrs exts _)]
  simp only [optL_ne_xmlns hp, Bool.false_eq_true, if_false]
  have etxt : renderAttrsL attrs ++ (' ' :: (nsDeclsL exts ++ ('>' :: rest)))
      = (attrs.map rawOfAttr ++ (exts.map declRaw ++ [defaultRaw])).flatMap renderRawL
          ++ (TagEnd.openTag.chars ++ rest) := by
    rw [nsDecls_shift, renderAttrsL_eq]
    simp [TagEnd.chars]
  rw [etxt] at hf ⊢
  rw [parseAttrList_raws _ (by
    intro a ha'
    rw [List.mem_append] at ha'
    rcases ha' with ha' | ha'
    · obtain ⟨x, hx, rfl⟩ := List.mem_map.mp ha'
      exact rawOk_rawOfAttr (hall x hx)
    · rw [List.mem_append] at ha'
      rcases ha' with ha' | ha'
      · obtain ⟨e, hx, rfl⟩ := List.mem_map.mp ha'
        obtain ⟨h1, _, h3, _, _⟩ := hmem e hx
        simp only [rawOk, declRaw, Bool.and_eq_true, Bool.or_eq_true]
        exact ⟨⟨Or.inr (by decide), h1⟩, rawChars_esc h3⟩
      · simp only [List.mem_singleton] at ha'
        subst ha'
        decide) .openTag rest f hf]
  have h1 := splitAttrs_plain attrs hall [] [] (exts.map declRaw ++ [defaultRaw])
  simp only [List.nil_append] at h1
  have h2 := splitAttrs_decls exts (fun e he' => by
    obtain ⟨_, b, _, d, e'⟩ := hmem e he'; exact ⟨b, d, e'⟩) hdist [] (attrs.map plainOfAttr) [defaultRaw]
    (by intro n hn; cases hn)
  simp only [h1, h2, splitAttrs_default, rootNamespaces_eq, inheritNs_nil_right, TagEnd.isEmpty]
  rw [resolveAttrs_plain _ attrs hall [] ha.2 (by intro d hd; cases hd)]
  simp [hns]

theorem parseDecl_declL (X : Str) : parseDecl (declL ++ X) = some ('\n' :: X) := by
  have a1 := parseAttribute_raw (a := ⟨[], ['v','e','r','s','i','o','n'], ['1','.','0']⟩) (by decide)
    (' ' :: 'e' :: 'n' :: 'c' :: 'o' :: 'd' :: 'i' :: 'n' :: 'g' :: '=' :: '"' :: 'U' :: 'T' :: 'F' :: '-' :: '8' :: '"' :: '?' :: '>' :: '\n' :: X)
  have a2 := parseAttribute_raw (a := ⟨[], ['e','n','c','o','d','i','n','g'], ['U','T','F','-','8']⟩) (by decide)
    ('?' :: '>' :: '\n' :: X)
  simp only [RawAttr.qn, List.isEmpty_nil, if_true, List.cons_append, List.nil_append] at a1 a2
  simp only [declL, List.cons_append, List.nil_append, parseDecl, List.drop, declSpaces, startsWithSpace, isSpace,
    skipSpaces, List.dropWhile, startsWith, strip, piClose]
  simp [a1, a2, startsWith, strip, skipSpaces, List.dropWhile, isSpace, startsWithSpace]

theorem parseMisc_root (f : Nat) (d : Char) (s : Str) (hd : isNameStartNC d = true) :
    parseMisc (f + 1) ('\n' :: '<' :: d :: s) = some ('<' :: d :: s) := by
  obtain ⟨h1, h2, h3⟩ := nameStart_not_markup hd
  have e2 : ('!' == d) = false := by rw [Bool.beq_comm]; exact h2
  have e3 : ('?' == d) = false := by rw [Bool.beq_comm]; exact h3
  have e2' : ¬ '!' = d := by simpa using e2
  have e3' : ¬ '?' = d := by simpa using e3
  simp [parseMisc, skipSpaces, List.dropWhile, isSpace, startsWith, strip, commentOpen, e2', e3']

theorem parseMisc_nl (f : Nat) : parseMisc (f + 1) ['\n'] = some [] := by
  simp [parseMisc, skipSpaces, List.dropWhile, isSpace, startsWith, strip, commentOpen]

/-- `parse_render` on character lists -/
theorem parse_render_L (exts : List (String × String)) (t : XNode) (h : Dialect exts t) :
    parseDocumentL (renderDocL exts t) = some ⟨t, MT.rootNamespaces exts⟩ := by
  cases t with
  | text s => simp [Dialect, dialect] at h
  | comment => simp [Dialect, dialect] at h
  | pi => simp [Dialect, dialect] at h
  | elem ns pfx name attrs cs =>
    simp only [Dialect, dialect, Bool.and_eq_true] at h
    obtain ⟨⟨⟨he, hh⟩, ha⟩, hk⟩ := h
    have hh' := hh
    simp only [headOk, Bool.and_eq_true, decide_eq_true_eq] at hh'
    obtain ⟨d, s, hq, hd⟩ := qnameL_cons hh'.1.1.1 hh'.1.1.2
    obtain ⟨h1, h2, h3⟩ := nameStart_not_markup hd
    -- the body of the root element and what follows it
    let body := renderListL false cs ++ (closeTagL pfx name ++ ['\n'])
    let afterName := renderAttrsL attrs ++ (' ' :: (nsDeclsL exts ++ ('>' :: body)))
    have hdoc : renderDocL exts (.elem ns pfx name attrs cs) = declL ++ ('<' :: (qnameL pfx name ++ afterName)) := by
      rw [renderDocL]
    have hkids := parse_kids (MT.rootNamespaces exts) cs false hk pfx name hh'.1.1.1 hh'.1.1.2 ['\n']
    have hlen : (renderDocL exts (.elem ns pfx name attrs cs)).length
        = declL.length + (1 + ((qnameL pfx name).length + afterName.length)) := by
      rw [hdoc]; simp only [List.length_append, List.length_cons]; omega
    have hst := parseStartTag_root he hh ha body ((renderDocL exts (.elem ns pfx name attrs cs)).length + 1)
      (by rw [hlen]; show afterName.length < _; omega)
    have hbody := hkids ((renderDocL exts (.elem ns pfx name attrs cs)).length + 1) (by
      rw [hlen]
      show body.length < _
      have : body.length ≤ afterName.length := by
        show body.length ≤ (renderAttrsL attrs ++ (' ' :: (nsDeclsL exts ++ ('>' :: body)))).length
        simp only [List.length_append, List.length_cons]; omega
      omega)
    have e2' : ¬ '!' = d := by
      intro e; subst e; revert hd; decide
    unfold parseDocumentL
    simp only []
    rw [hdoc] at hst hbody ⊢
    have hfe : (declL ++ ('<' :: (qnameL pfx name ++ afterName))) = '<' :: (declL.tail ++ ('<' :: (qnameL pfx name ++ afterName))) := rfl
    have hnb : (('<' : Char) == Char.ofNat 0xFEFF) = false := by decide
    have hsw : startsWith xmlDeclOpen (declL ++ ('<' :: (qnameL pfx name ++ afterName))) = true := by
      have : declL = xmlDeclOpen ++ declL.drop 6 := by decide
      rw [this, List.append_assoc]; exact startsWith_append _ _
    rw [hfe]
    simp only [hnb, Bool.false_eq_true, if_false]
    rw [← hfe, hsw]
    simp only [if_true, parseDecl_declL]
    rw [hq] at hst hbody ⊢
    simp only [List.cons_append] at hst hbody ⊢
    rw [parseMisc_root _ d _ hd]
    simp only [skipSpaces, List.dropWhile, isSpace, show ('<' == ' ') = false by decide,
      show ('<' == '\t') = false by decide, show ('<' == '\n') = false by decide,
      show ('<' == '\r') = false by decide, Bool.or_false, Bool.false_eq_true]
    have hdt : startsWith doctypeOpen ('<' :: d :: (s ++ afterName)) = false := by
      simp [startsWith, strip, doctypeOpen, e2']
    simp only [hdt, Bool.false_eq_true, if_false]
    simp only [afterName, body] at hst hbody ⊢
    simp only [hst, hbody, beq_self_eq_true, Bool.and_self, if_true, Bool.false_eq_true, if_false,
      parseMisc_nl, Tag.node_eq _ hh]

/-- `parse_render`: the parser, run on the text the renderer produces for a tree of the writer's
    dialect, yields exactly that tree and the namespace list of the root -/
theorem parse_render (exts : List (String × String)) (t : XNode) (h : Dialect exts t) :
    parseDocument (MT.renderDoc exts t) = some ⟨t, MT.rootNamespaces exts⟩ := by
  rw [parseDocument, renderDoc_toList, parse_render_L exts t h]

end E57.XmlP
