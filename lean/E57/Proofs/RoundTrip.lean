/-
C01 — raw points survive write → read: the composition of the writer half (`LayoutWrite.lean`,
`writer_layout_legal` / `SectionLayout`) with the reader half (`LayoutRead.lean`,
`C03_reader_decodes_any_layout`).

  * Part 1  `legal_bridge`        `LegalPackets` (+ `validatePrototype`, `ProtoI64`, `checkValues`) ⇒ `Layout.Legal`
            `expPoint_specPoint`  the reader's view of the raw form of a fitting point is the point
  * Part 2  `read_back_packets`   at least one packet: `Layout.FileCtx` from `SectionLayout.spec`, then C03
            `QR_new_empty`, `read_back_empty`
                                  no packet (no points / only zero-width records): the writer's header
                                  carries data offset `l2p (s+32)`, not 0; read-back proved directly
            `no_packets_cases`    no packet ⇒ no points or all records of width zero
  * Part 3  `Contains`, `read_back`, `C01_section_roundtrip_of_ok`, **`C01_section_roundtrip`**,
            `C01_section_roundtrip_nonempty`
  * Part 4  stability: `write_getElem?_outside`, `write_window_stable`, `OpsOutside`,
            `runSpec_window_stable`, `history_keeps_window`, `later_section_keeps_window`,
            `blob_keeps_window`, `ew_finalize_abs`, `close_cursor`, `close_keeps_window` (`EW.finalize`:
            XML, alignment, file header at 0, seek back behind the XML, flush)
  * Part 5  `contains_of_flushed`, **`C01_file_roundtrip`** (reader opened on the flushed device bytes),
            `C01_closed_file` (session, then `EW.finalize`: XML, file header, flush)
  * Part 6  FINDING `QR_new_empty_fails`, `C01_no_room_statement_false`: for a section WITHOUT packets
            the reader seeks to the stored data offset `l2p (s+32)`; if the header ends exactly at the
            end of the stream this is the physical size and `seek_physical` rejects it.  Hence the
            hypothesis `pts = [] ∨ pointBits proto = 0 → s + 32 < d.length` of the main theorems
            (always true in a complete file: the XML follows).
  * Part 7  `Ex.instance_roundtrip`, `Ex.instance_file_roundtrip` — all hypotheses discharged for the
            session `LayoutEx`, an `example` for `OpsOutside`
            (the closed `decide +kernel` evaluation of the whole pipeline is in `RoundTripExample.lean`).
Core Lean only; nothing is assumed beyond the hypotheses shown.
-/
import E57.Proofs.LayoutWrite
import E57.Proofs.LayoutRead
namespace E57
namespace RoundTrip
open Spec

/-! # Part 1 — the prototype and the points, specification view: legality -/

theorem proto_ne_nil (proto : Prototype) (h : validatePrototype proto = true) : proto ≠ [] := by
  intro e; subst e; revert h; decide

/-- the last clause of `validate_prototype`: integer ranges are ordered -/
theorem proto_ordered (proto : Prototype) (h : validatePrototype proto = true) :
    ∀ r ∈ proto, match r.dt with
      | .integer mn mx => mn ≤ mx
      | .scaled mn mx _ _ => mn ≤ mx
      | _ => True := by
  unfold validatePrototype at h
  simp only [Bool.and_eq_true] at h
  have hl := h.2
  rw [List.all_eq_true] at hl
  intro r hr
  have := hl r hr
  cases hdt : r.dt <;> simp_all

theorem typeMatch_toRecType (dt : DataType) : Layout.TypeMatch (toRecType dt) dt := by
  cases dt <;> constructor

theorem typeOk_of (proto : Prototype) (hv : validatePrototype proto = true) (hi : ProtoI64 proto)
    (r : Record) (hr : r ∈ proto) : Layout.TypeOk (toRecType r.dt) := by
  have h1 := proto_ordered proto hv r hr
  have h2 := hi r hr
  cases hdt : r.dt with
  | single a b => trivial
  | double a b => trivial
  | scaled mn mx sc off => rw [hdt] at h1 h2; exact ⟨h1, h2.1, h2.2⟩
  | integer mn mx => rw [hdt] at h1 h2; exact ⟨h1, h2.1, h2.2⟩

/-- an accepted value is a legal raw value of the record type -/
theorem valOk_of_accepts (dt : DataType) (v : Value) (h : dt.accepts v = true) :
    Layout.ValOk (toRecType dt) (rawOf v) := by
  cases dt <;> cases v <;> simp [DataType.accepts, DataType.matches] at h
  · rename_i a b u
    show ((u.toNat : Int) < 2 ^ 32)
    have := u.toNat_lt; omega
  · rename_i a b u
    show ((u.toNat : Int) < 2 ^ 64)
    have := u.toNat_lt; omega
  · exact h
  · exact h

/-- … and the reader's view of that raw value is the value itself -/
theorem toValue_rawOf (dt : DataType) (v : Value) (h : dt.matches v = true) :
    Layout.toValue dt (rawOf v) = v := by
  cases dt <;> cases v <;> simp [DataType.matches] at h
  · rename_i a b u
    simp [Layout.toValue, rawOf]
  · rename_i a b u
    simp [Layout.toValue, rawOf]
  · rfl
  · rfl

/-- `checkValues` entry by entry -/
theorem checkValues_get : ∀ (rs : List Record) (vs : List Value), checkValues rs vs = true →
    ∀ (i : Nat) (r : Record) (v : Value), rs[i]? = some r → vs[i]? = some v → r.dt.accepts v = true
  | [], _, _, i, r, v, hr, _ => by simp at hr
  | _ :: _, [], _, i, r, v, _, hv => by simp at hv
  | r0 :: rs, v0 :: vs, h, i, r, v, hr, hv => by
    simp only [checkValues, Bool.and_eq_true] at h
    cases i with
    | zero =>
      simp only [List.getElem?_cons_zero, Option.some.injEq] at hr hv
      subst hr hv; exact h.1
    | succ i =>
      simp only [List.getElem?_cons_succ] at hr hv
      exact checkValues_get rs vs h.2 i r v hr hv

/-- **step 3**: a point that fits the prototype is what the reader makes of its raw form -/
theorem expPoint_specPoint (proto : Prototype) (pt : List Value) (hl : pt.length = proto.length)
    (hc : checkValues proto pt = true) : Layout.expPoint proto (pt.map rawOf) = pt := by
  apply List.ext_getElem
  · simp [Layout.expPoint, hl]
  · intro i h1 h2
    simp only [Layout.expPoint, List.getElem_zipWith, List.getElem_map]
    have hi : i < proto.length := by rw [← hl]; exact h2
    exact toValue_rawOf _ _ (accepts_matches _ _
      (checkValues_get proto pt hc i proto[i] pt[i] (List.getElem?_eq_getElem hi) (List.getElem?_eq_getElem h2)))

theorem chunkTotal_eq (i : Nat) : ∀ ps : List PacketSpec,
    Layout.chunkTotal i ps = (ps.map (chunkLen i)).sum
  | [] => rfl
  | .data lens :: ps => by simp [Layout.chunkTotal, chunkLen, chunkTotal_eq i ps]
  | .index _ :: ps => by simp [Layout.chunkTotal, chunkLen, chunkTotal_eq i ps]
  | .ignored _ :: ps => by simp [Layout.chunkTotal, chunkLen, chunkTotal_eq i ps]

/-- **step 1**: the writer's packet list is a legal layout in the reader's sense -/
theorem legal_bridge (proto : Prototype) (pts : List (List Value)) (packets : List PacketSpec)
    (hv : validatePrototype proto = true) (hi : ProtoI64 proto)
    (hpts : ∀ pt ∈ pts, pt.length = proto.length ∧ checkValues proto pt = true)
    (hleg : LegalPackets (specTypes proto) (specPoints pts) packets) :
    Layout.Legal (specTypes proto) (specPoints pts) packets := by
  have hn : (specTypes proto).length = proto.length := by simp [specTypes]
  refine ⟨?_, ?_, ?_, ?_, ?_⟩
  · rw [hn]; exact List.length_pos_iff.mpr (proto_ne_nil proto hv)
  · intro i h
    have hip : i < proto.length := by rw [← hn]; exact h
    have : (specTypes proto)[i] = toRecType proto[i].dt := by simp [specTypes]
    rw [this]
    exact typeOk_of proto hv hi _ (List.getElem_mem hip)
  · intro p hp
    simp only [specPoints, List.mem_map] at hp
    obtain ⟨pt, hpt, rfl⟩ := hp
    obtain ⟨hl, hc⟩ := hpts pt hpt
    refine ⟨by simp [hl, hn], ?_⟩
    intro i h
    have hip : i < proto.length := by rw [← hn]; exact h
    have hipt : i < pt.length := by rw [hl]; exact hip
    have e1 : (specTypes proto)[i] = toRecType proto[i].dt := by simp [specTypes]
    have e2 : (pt.map rawOf).getD i 0 = rawOf pt[i] := by
      simp [List.getD_eq_getElem?_getD, hipt]
    rw [e1, e2]
    exact valOk_of_accepts _ _
      (checkValues_get proto pt hc i proto[i] pt[i] (List.getElem?_eq_getElem hip) (List.getElem?_eq_getElem hipt))
  · intro p hp
    obtain ⟨lens, rfl, hl⟩ := hleg.arity p hp
    have := (hleg.len _ hp).1
    simp only [packetLen] at this
    refine ⟨hl, ?_⟩
    have e : 6 + 2 * (specTypes proto).length + lens.sum = 6 + ((specTypes proto).length * 2 + lens.sum) := by omega
    rw [e]; omega
  · intro i h
    rw [chunkTotal_eq]; exact hleg.sums i h

/-! # Part 2 — reading the section back -/

/-- the length of the section a session leaves on the logical stream -/
def sectionLen (proto : Prototype) (packets : List PacketSpec) : Nat :=
  32 + (packets.map (packetLen proto.length)).sum

theorem l2p_mono (a b : Nat) (h : a ≤ b) : l2p a ≤ l2p b := by
  unfold l2p
  have : a / 1020 ≤ b / 1020 := Nat.div_le_div_right h
  omega

/-- a zero-width record holds only its minimum -/
theorem zero_width_accepts (dt : DataType) (v : Value) (hord : Layout.TypeOk (toRecType dt))
    (hz : dt.bitSize = 0) (h : dt.accepts v = true) : v = zeroValue dt := by
  have h1 := Layout.zero_width_value (typeMatch_toRecType dt) hord hz (rawOf v) (valOk_of_accepts dt v h)
  rw [toValue_rawOf dt v (accepts_matches dt v h)] at h1
  exact h1.symm

/-- **reading back, at least one packet** (`C03_reader_decodes_any_layout` applies verbatim) -/
theorem read_back_packets (pw pw2 : PW) (pc : PointCloud) (guid : String) (proto : Prototype)
    (pts : List (List Value)) (packets : List PacketSpec)
    (L : SectionLayout pw pw2 pc guid proto pts packets) (hne : packets ≠ [])
    (hal : pw.abs.cur % 4 = 0) (hv : validatePrototype proto = true) (hi : ProtoI64 proto)
    (hpts : ∀ pt ∈ pts, pt.length = proto.length ∧ checkValues proto pt = true)
    (d : Bytes) (r0 : PR) (hd : d.length % 1020 = 0) (hphys : l2p d.length < 2 ^ 64)
    (hwin : (d.drop pw.abs.cur).take (sectionLen proto packets)
      = (pw2.abs.data.drop pw.abs.cur).take (sectionLen proto packets))
    (hinv : r0.CacheInv) (hps : r0.pageSize = 1024) (hdata : r0.dev.data = image d) :
    ∃ r1 q, QR.new pc r0 = (r1, some q) ∧
      RawIter.run (pts.length + 1) ⟨q, pc.records, 0⟩ r1 = pts.map Item.value ++ [.done] := by
  have hL := legal_bridge proto pts packets hv hi hpts L.legal
  have hspec := L.spec hne
  have wf2 := abs_wf pw2 L.inv
  have hcur := L.cursor
  have hlen : (encodeSection pw.abs.cur (.cv (specTypes proto) (specPoints pts) packets)).length
      = sectionLen proto packets := by
    have := congrArg List.length hspec
    rw [List.length_take, List.length_drop] at this
    unfold sectionLen
    omega
  have fc : Layout.FileCtx (specTypes proto) (specPoints pts) packets d r0 pw.abs.cur pc := by
    refine ⟨hd, hphys, hinv, hps, hdata, hal, ?_, L.fileOffset, by rw [L.records]; simp [specPoints],
      by rw [L.proto_eq]; simp [specTypes], ?_⟩
    · rw [hlen, hwin]; exact hspec
    · intro i h1 h2
      have : (specTypes proto)[i] = toRecType (pc.prototype[i]).dt := by
        simp [specTypes, L.proto_eq]
      rw [this]; exact typeMatch_toRecType _
  obtain ⟨r1, q, e, hrun⟩ := Layout.C03_reader_decodes_any_layout hL fc
  refine ⟨r1, q, e, ?_⟩
  have hpl : (specPoints pts).length = pts.length := by simp [specPoints]
  rw [hpl] at hrun
  rw [hrun, L.proto_eq]
  congr 1
  simp only [specPoints, List.map_map]
  apply List.map_congr_left
  intro pt hpt
  obtain ⟨h1, h2⟩ := hpts pt hpt
  simp only [Function.comp, expPoint_specPoint proto pt h1 h2]

/-- `QueueReader::new` on the header the writer leaves when the section has no packet: data offset
    `l2p (s + 32)`, the position right behind the header, which must still be inside the file -/
theorem QR_new_empty (pc : PointCloud) (s : Nat) (d : Bytes) (r0 : PR)
    (hd : d.length % 1020 = 0) (hphys : l2p d.length < 2 ^ 64)
    (hhdr : (d.drop s).take 32 = CvHeader.bytes ⟨32, l2p (s + 32), 0⟩)
    (hroom : s + 32 < d.length) (hoff : pc.fileOffset = l2p s)
    (hinv : r0.CacheInv) (hps : r0.pageSize = 1024) (hdata : r0.dev.data = image d) :
    ∃ r1, QR.new pc r0 = (r1, some (Layout.q0 pc)) := by
  have hat0 : Layout.At d r0 r0.offset := ⟨hinv, hps, hdata, rfl⟩
  have hX : Layout.Holds d s ([1] ++ zeros 7 ++ toLE 32 8 ++ toLE (l2p (s + 32)) 8 ++ toLE 0 8) := by
    apply Layout.Holds.of_slice
    · have : ([1] ++ zeros 7 ++ toLE 32 8 ++ toLE (l2p (s + 32)) 8 ++ toLE 0 8 : Bytes).length = 32 := by
        simp [toLE_length, zeros]
      rw [this, hhdr]; rfl
    · simp
  obtain ⟨r1, e1, a1⟩ := Layout.seek_at hd s hat0 (by omega)
  obtain ⟨r2, e2, a2⟩ := Layout.readCvHeader_at hd 32 (l2p (s + 32)) 0 a1 hX (by decide)
  obtain ⟨r3, e3, a3⟩ := Layout.seek_at hd (s + 32) a2 hroom
  have hbig : l2p (s + 32) < 2 ^ 64 := by
    have := l2p_mono (s + 32) d.length (by omega); omega
  refine ⟨r3, ?_⟩
  rw [Nat.mod_eq_of_lt hbig] at e2
  simp only [QR.new, hoff, e1, e2, e3, Layout.q0]

/-- without packets there are no points, or every record has width zero -/
theorem no_packets_cases (pw pw2 : PW) (pc : PointCloud) (guid : String) (proto : Prototype)
    (pts : List (List Value)) (L : SectionLayout pw pw2 pc guid proto pts []) (hi : ProtoI64 proto) :
    pts = [] ∨ pointBits proto = 0 := by
  by_cases hne : pts = []
  · exact .inl hne
  · right
    unfold pointBits
    have hall : ∀ x ∈ proto.map (fun r => r.dt.bitSize), x = 0 := by
      intro x hx
      obtain ⟨r, hr, rfl⟩ := List.mem_map.1 hx
      obtain ⟨i, hil, e⟩ := List.mem_iff_getElem.mp hr
      have hn : (specTypes proto).length = proto.length := by simp [specTypes]
      have hs := L.legal.sums i (by rw [hn]; exact hil)
      rw [recordStream_eq proto pts i r (by rw [← e]; exact List.getElem?_eq_getElem hil)] at hs
      simp only [List.map_nil, List.sum_nil] at hs
      have hlen : (Spec.streamBytes (recFields r i pts)).length
          = (pts.length * (toRecType r.dt).bits + 7) / 8 := by
        have : recFields r i pts = (pts.map (fun p => (toRecType r.dt).field ((p.map rawOf).getD i 0))).map
            (fun v => (v, (toRecType r.dt).bits)) := by
          simp only [recFields, List.map_map, Function.comp_def]
        rw [this, Spec.streamBytes, toLE_length, Spec.pack_width, List.length_map]
      rw [hlen] at hs
      have hpos : 0 < pts.length := List.length_pos_iff.mpr hne
      rw [bitSize_eq_bits _ (hi r hr)]
      rcases Nat.eq_zero_or_pos (toRecType r.dt).bits with h0 | h0
      · exact h0
      · exfalso
        have : 1 ≤ pts.length * (toRecType r.dt).bits := Nat.mul_pos hpos h0
        omega
    generalize proto.map (fun r => r.dt.bitSize) = l at hall
    induction l with
    | nil => rfl
    | cons a l ih =>
      rw [List.sum_cons, hall a (by simp), ih (fun x hx => hall x (by simp [hx]))]

/-- **reading back, no packet** (no points, or only records of width zero): the header differs from
    the specification encoder's (data offset), the read-back is proved directly -/
theorem read_back_empty (pw pw2 : PW) (pc : PointCloud) (guid : String) (proto : Prototype)
    (pts : List (List Value))
    (L : SectionLayout pw pw2 pc guid proto pts [])
    (hv : validatePrototype proto = true) (hi : ProtoI64 proto)
    (hpts : ∀ pt ∈ pts, pt.length = proto.length ∧ checkValues proto pt = true)
    (d : Bytes) (r0 : PR) (hd : d.length % 1020 = 0) (hphys : l2p d.length < 2 ^ 64)
    (hwin : (d.drop pw.abs.cur).take 32 = (pw2.abs.data.drop pw.abs.cur).take 32)
    (hroom : pw.abs.cur + 32 < d.length)
    (hinv : r0.CacheInv) (hps : r0.pageSize = 1024) (hdata : r0.dev.data = image d) :
    ∃ r1 q, QR.new pc r0 = (r1, some q) ∧
      RawIter.run (pts.length + 1) ⟨q, pc.records, 0⟩ r1 = pts.map Item.value ++ [.done] := by
  have hw := L.window
  simp only [List.map_nil, List.sum_nil, Nat.add_zero, encodeSection_no_packets] at hw
  have hd32 : (CvHeader.bytes ⟨32, 0, 0⟩).drop 32 = [] :=
    List.drop_eq_nil_of_le (by rw [cvHeader_length]; omega)
  rw [hd32, List.append_nil] at hw
  obtain ⟨r1, e⟩ := QR_new_empty pc pw.abs.cur d r0 hd hphys (by rw [hwin, hw]) hroom L.fileOffset
    hinv hps hdata
  refine ⟨r1, Layout.q0 pc, e, ?_⟩
  have hpne := proto_ne_nil proto hv
  rw [L.records]
  unfold Layout.q0
  rw [L.proto_eq]
  by_cases hz : pointBits proto = 0
  · -- only zero-width records: the reader synthesises the constant point
    have hzw : ∀ rec ∈ proto, rec.dt.bitSize = 0 := fun rec hrec =>
      sum_eq_zero_forall _ hz _ (List.mem_map.2 ⟨rec, hrec, rfl⟩)
    rw [Layout.zw_run proto hpne hzw _ pts.length r1 pts.length 0 (by omega)]
    congr 1
    apply List.ext_getElem
    · simp
    · intro k h1 h2
      have hk : k < pts.length := by simpa using h2
      obtain ⟨hl, hc⟩ := hpts _ (List.getElem_mem hk)
      simp only [List.getElem_replicate, List.getElem_map]
      congr 1
      apply List.ext_getElem
      · simp [hl]
      · intro i h3 h4
        have hip : i < proto.length := by simpa using h3
        simp only [List.getElem_map]
        have hacc := checkValues_get proto pts[k] hc i proto[i] pts[k][i]
          (List.getElem?_eq_getElem hip) (List.getElem?_eq_getElem h4)
        exact (zero_width_accepts _ _ (typeOk_of proto hv hi _ (List.getElem_mem hip))
          (hzw _ (List.getElem_mem hip)) hacc).symm
  · -- a record with bits and no packet: there is no point
    have hp0 : pts = [] := by
      rcases no_packets_cases pw pw2 pc guid proto pts L hi with h | h
      · exact h
      · exact absurd h hz
    subst hp0
    simp [RawIter.run, RawIter.next]

/-! # Part 3 — the composition -/

/-- `d` is a complete paged logical stream whose image the healthy reader `r0` has opened, and which
    (still) carries the `n` bytes `win` at logical offset `s` -/
structure Contains (d : Bytes) (r0 : PR) (s n : Nat) (win : Bytes) : Prop where
  hd : d.length % 1020 = 0
  hphys : l2p d.length < 2 ^ 64
  hwin : (d.drop s).take n = win
  hinv : r0.CacheInv
  hps : r0.pageSize = 1024
  hdata : r0.dev.data = image d

/-- the window a finalized session leaves on the logical stream -/
def sectionWindow (pw pw2 : PW) (proto : Prototype) (packets : List PacketSpec) : Bytes :=
  (pw2.abs.data.drop pw.abs.cur).take (sectionLen proto packets)

theorem sectionLen_nil (proto : Prototype) : sectionLen proto [] = 32 := rfl

theorem packetLen_pos (n : Nat) (p : PacketSpec) (h : ∃ lens, p = .data lens) : 0 < packetLen n p := by
  obtain ⟨lens, rfl⟩ := h
  simp only [packetLen]; omega

theorem sectionLen_gt (proto : Prototype) (types : List RecType) (points : List (List Int))
    (packets : List PacketSpec) (hleg : LegalPackets types points packets) (hne : packets ≠ []) :
    32 < sectionLen proto packets := by
  cases packets with
  | nil => exact absurd rfl hne
  | cons p ps =>
    obtain ⟨lens, e, _⟩ := hleg.arity p (by simp)
    have := packetLen_pos proto.length p ⟨lens, e⟩
    simp only [sectionLen, List.map_cons, List.sum_cons]; omega

/-- **read-back of a laid-out section** (both cases): any file that still contains the section window,
    opened by a healthy reader, yields exactly the points added, in order, then `done`.
    `hroom` is needed only for a section without packets, see `C01_no_room_statement_false`. -/
theorem read_back (pw pw2 : PW) (pc : PointCloud) (guid : String) (proto : Prototype)
    (pts : List (List Value)) (packets : List PacketSpec)
    (L : SectionLayout pw pw2 pc guid proto pts packets)
    (hal : pw.abs.cur % 4 = 0) (hv : validatePrototype proto = true) (hi : ProtoI64 proto)
    (hpts : ∀ pt ∈ pts, pt.length = proto.length ∧ checkValues proto pt = true)
    (d : Bytes) (r0 : PR)
    (hc : Contains d r0 pw.abs.cur (sectionLen proto packets) (sectionWindow pw pw2 proto packets))
    (hroom : pts = [] ∨ pointBits proto = 0 → pw.abs.cur + 32 < d.length) :
    ∃ r1 q, QR.new pc r0 = (r1, some q) ∧
      RawIter.run (pts.length + 1) ⟨q, pc.records, 0⟩ r1 = pts.map Item.value ++ [.done] := by
  by_cases hne : packets = []
  · subst hne
    exact read_back_empty pw pw2 pc guid proto pts L hv hi hpts d r0 hc.hd hc.hphys hc.hwin
      (hroom (no_packets_cases pw pw2 pc guid proto pts L hi)) hc.hinv hc.hps hc.hdata
  · exact read_back_packets pw pw2 pc guid proto pts packets L hne hal hv hi hpts d r0 hc.hd hc.hphys
      hc.hwin hc.hinv hc.hps hc.hdata

/-- **C01, conditional form**: whenever `new`, the `add_point`s and `finalize` returned `ok` (points
    that fit the prototype), every file that still contains the section is read back as the points
    added -/
theorem C01_section_roundtrip_of_ok (pw : PW) (exts : List (String × String)) (guid : String)
    (proto : Prototype) (pts : List (List Value))
    (hpw : pw.Inv) (hal : pw.abs.cur % 4 = 0) (hi : ProtoI64 proto)
    (pw0 : PW) (w0 : PcW) (pw1 : PW) (w1 : PcW) (pw2 : PW) (w2 : PcW) (pc : PointCloud)
    (hnew : PcW.new pw exts guid proto = .ok (pw0, w0))
    (hadd : addPoints pts (pw0, w0) = .ok (pw1, w1))
    (hfin : w1.finalize pw1 = .ok (pw2, w2, pc))
    (hpts : ∀ pt ∈ pts, pt.length = proto.length ∧ checkValues proto pt = true)
    (d : Bytes) (r0 : PR)
    (hc : Contains d r0 pw.abs.cur (sectionLen proto (emitted pw exts guid proto pts))
      (sectionWindow pw pw2 proto (emitted pw exts guid proto pts)))
    (hroom : pts = [] ∨ pointBits proto = 0 → pw.abs.cur + 32 < d.length) :
    ∃ r1 q, QR.new pc r0 = (r1, some q) ∧
      RawIter.run (pts.length + 1) ⟨q, pc.records, 0⟩ r1 = pts.map Item.value ++ [.done] := by
  have L := writer_layout pw exts guid proto pts hpw hal hi pw0 w0 pw1 w1 pw2 w2 pc hnew hadd hfin
  have hv := (PcW.new_ok pw exts guid proto pw0 w0 hnew).2.1
  exact read_back pw pw2 pc guid proto pts _ L hal hv hi hpts d r0 hc hroom

/-- **C01 — raw points survive write → read.**  For a prototype accepted by `new` and points that fit
    it, the whole writer session succeeds, and every complete paged stream `d` that (still) carries
    the section's bytes where they were written — whatever else the file contains, wherever the
    section lies relative to the page boundaries — is decoded by `QueueReader::new` + the raw iterator
    (started from the metadata `pc` that `finalize` pushed) into exactly the points added: same values,
    same count, same order, then `done`. -/
theorem C01_section_roundtrip (pw : PW) (exts : List (String × String)) (guid : String)
    (proto : Prototype) (pts : List (List Value))
    (hpw : pw.Inv) (hal : pw.abs.cur % 4 = 0) (hi : ProtoI64 proto) (hn : NoDupNames proto)
    (pw0 : PW) (w0 : PcW) (hnew : PcW.new pw exts guid proto = .ok (pw0, w0))
    (hpts : ∀ pt ∈ pts, pt.length = proto.length ∧ checkValues proto pt = true) :
    ∃ pw1 w1 pw2 w2 pc,
      addPoints pts (pw0, w0) = .ok (pw1, w1) ∧ w1.finalize pw1 = .ok (pw2, w2, pc) ∧
      pw2.Inv ∧ pw2.abs.cur = pw.abs.cur + sectionLen proto (emitted pw exts guid proto pts) ∧
      pc.records = pts.length ∧ pc.prototype = proto ∧ pc.fileOffset = l2p pw.abs.cur ∧
      ∀ (d : Bytes) (r0 : PR),
        Contains d r0 pw.abs.cur (sectionLen proto (emitted pw exts guid proto pts))
          (sectionWindow pw pw2 proto (emitted pw exts guid proto pts)) →
        (pts = [] ∨ pointBits proto = 0 → pw.abs.cur + 32 < d.length) →
        ∃ r1 q, QR.new pc r0 = (r1, some q) ∧
          RawIter.run (pts.length + 1) ⟨q, pc.records, 0⟩ r1 = pts.map Item.value ++ [.done] := by
  obtain ⟨pw1, w1, pw2, w2, pc, e1, e2, L⟩ :=
    writer_layout_legal pw exts guid proto hpw hal hi hn pw0 w0 hnew pts hpts
  have hv := (PcW.new_ok pw exts guid proto pw0 w0 hnew).2.1
  refine ⟨pw1, w1, pw2, w2, pc, e1, e2, L.inv, ?_, L.records, L.proto_eq, L.fileOffset, ?_⟩
  · rw [L.cursor]; unfold sectionLen; omega
  · intro d r0 hc hroom
    exact read_back pw pw2 pc guid proto pts _ L hal hv hi hpts d r0 hc hroom

/-- with at least one point and at least one record of positive width nothing has to follow the
    section -/
theorem C01_section_roundtrip_nonempty (pw : PW) (exts : List (String × String)) (guid : String)
    (proto : Prototype) (pts : List (List Value))
    (hpw : pw.Inv) (hal : pw.abs.cur % 4 = 0) (hi : ProtoI64 proto) (hn : NoDupNames proto)
    (pw0 : PW) (w0 : PcW) (hnew : PcW.new pw exts guid proto = .ok (pw0, w0))
    (hpts : ∀ pt ∈ pts, pt.length = proto.length ∧ checkValues proto pt = true)
    (hne : pts ≠ []) (hbits : pointBits proto ≠ 0) :
    ∃ pw1 w1 pw2 w2 pc,
      addPoints pts (pw0, w0) = .ok (pw1, w1) ∧ w1.finalize pw1 = .ok (pw2, w2, pc) ∧
      ∀ (d : Bytes) (r0 : PR),
        Contains d r0 pw.abs.cur (sectionLen proto (emitted pw exts guid proto pts))
          (sectionWindow pw pw2 proto (emitted pw exts guid proto pts)) →
        ∃ r1 q, QR.new pc r0 = (r1, some q) ∧
          RawIter.run (pts.length + 1) ⟨q, pc.records, 0⟩ r1 = pts.map Item.value ++ [.done] := by
  obtain ⟨pw1, w1, pw2, w2, pc, e1, e2, _, _, _, _, _, h⟩ :=
    C01_section_roundtrip pw exts guid proto pts hpw hal hi hn pw0 w0 hnew hpts
  refine ⟨pw1, w1, pw2, w2, pc, e1, e2, fun d r0 hc => h d r0 hc ?_⟩
  rintro (h | h)
  · exact absurd h hne
  · exact absurd h hbits

/-! # Part 4 — stability: later writes do not disturb the section -/

theorem write_getElem?_outside (st : LogStream) (b : Bytes) (j : Nat) (h2 : st.cur ≤ st.data.length)
    (hj : j < st.data.length) (hout : j < st.cur ∨ st.cur + b.length ≤ j) :
    (st.write b).data[j]? = st.data[j]? := by
  unfold LogStream.write
  simp only []
  generalize max st.data.length ((st.cur + b.length + 1019) / 1020 * 1020) - st.data.length = k
  have hl : ((st.data ++ zeros k).take st.cur).length = st.cur := by
    rw [List.length_take, List.length_append]; omega
  rcases hout with h | h
  · rw [List.append_assoc, List.getElem?_append_left (by omega), List.getElem?_take_of_lt h,
      List.getElem?_append_left hj]
  · rw [List.getElem?_append_right (by rw [List.length_append, hl]; exact h), List.getElem?_drop,
      List.length_append, hl, show st.cur + b.length + (j - (st.cur + b.length)) = j by omega,
      List.getElem?_append_left hj]

theorem window_ext (a b : Bytes) (s n : Nat) (h : ∀ j, s ≤ j → j < s + n → a[j]? = b[j]?) :
    (a.drop s).take n = (b.drop s).take n := by
  apply List.ext_getElem?
  intro i
  by_cases hi : i < n
  · rw [List.getElem?_take_of_lt hi, List.getElem?_take_of_lt hi, List.getElem?_drop, List.getElem?_drop]
    exact h _ (by omega) (by omega)
  · rw [List.getElem?_eq_none (by rw [List.length_take]; omega), List.getElem?_eq_none (by rw [List.length_take]; omega)]


/-- the operation (of the page-writer histories of `PagesWrite.lean`) does not write into `[s, s+n)` -/
def OpOutside (s n : Nat) (st : LogStream) : WOp → Prop
  | .write b => st.cur + b.length ≤ s ∨ s + n ≤ st.cur
  | .align => st.cur + Spec.pad4 st.cur ≤ s ∨ s + n ≤ st.cur
  | _ => True

def OpsOutside (s n : Nat) : List WOp → LogStream → Prop
  | [], _ => True
  | op :: ops, st => OpOutside s n st op ∧ OpsOutside s n ops (stepSpec st op)

theorem write_window_stable (st : LogStream) (b : Bytes) (s n : Nat) (h2 : st.cur ≤ st.data.length)
    (hin : s + n ≤ st.data.length) (hout : st.cur + b.length ≤ s ∨ s + n ≤ st.cur) :
    ((st.write b).data.drop s).take n = (st.data.drop s).take n := by
  apply window_ext
  intro j h1 h3
  exact write_getElem?_outside st b j h2 (by omega) (by omega)

theorem write_wf (st : LogStream) (b : Bytes) (h2 : st.cur ≤ st.data.length) :
    (st.write b).cur ≤ (st.write b).data.length ∧ st.data.length ≤ (st.write b).data.length := by
  rw [spec_write_length st b h2, spec_write_cur]
  omega

theorem step_window_stable (st : LogStream) (op : WOp) (s n : Nat) (h2 : st.cur ≤ st.data.length)
    (hin : s + n ≤ st.data.length) (hout : OpOutside s n st op) :
    ((stepSpec st op).data.drop s).take n = (st.data.drop s).take n ∧
      (stepSpec st op).cur ≤ (stepSpec st op).data.length ∧
      st.data.length ≤ (stepSpec st op).data.length := by
  cases op with
  | write b => exact ⟨write_window_stable st b s n h2 hin hout, write_wf st b h2⟩
  | seek p =>
    simp only [stepSpec, LogStream.seek]
    split
    · next hok =>
      refine ⟨rfl, ?_, Nat.le_refl _⟩
      simp only [LogStream.seekOk, LogStream.physSize, Bool.and_eq_true, decide_eq_true_eq] at hok
      have hok1 := of_decide_eq_true hok.1
      simp only [p2l]; omega
    · exact ⟨rfl, h2, Nat.le_refl _⟩
  | flush => exact ⟨rfl, h2, Nat.le_refl _⟩
  | size => exact ⟨rfl, h2, Nat.le_refl _⟩
  | align =>
    simp only [stepSpec, LogStream.align]
    split
    · next hm =>
      have hp : Spec.pad4 st.cur = 4 - st.cur % 4 := by unfold Spec.pad4; omega
      refine ⟨write_window_stable st _ s n h2 hin ?_, write_wf st _ h2⟩
      rw [zeros_length, ← hp]; exact hout
    · exact ⟨rfl, h2, Nat.le_refl _⟩

/-- **stability**: a history of page-writer operations none of which writes into `[s, s+n)` leaves
    that window of the logical stream unchanged -/
theorem runSpec_window_stable (s n : Nat) : ∀ (ops : List WOp) (st : LogStream),
    st.cur ≤ st.data.length → s + n ≤ st.data.length → OpsOutside s n ops st →
    ((runSpec ops st).data.drop s).take n = (st.data.drop s).take n ∧
      st.data.length ≤ (runSpec ops st).data.length
  | [], st, _, _, _ => ⟨rfl, Nat.le_refl _⟩
  | op :: ops, st, h2, hin, hout => by
    obtain ⟨a1, a2, a3⟩ := step_window_stable st op s n h2 hin hout.1
    obtain ⟨b1, b2⟩ := runSpec_window_stable s n ops (stepSpec st op) a2 (by omega) hout.2
    exact ⟨by rw [runSpec, b1, a1], by rw [runSpec]; omega⟩


/-- a later point-cloud session leaves every earlier window alone -/
theorem later_section_keeps_window {pwA pwB : PW} {pc : PointCloud} {guid : String} {proto : Prototype}
    {pts : List (List Value)} {packets : List PacketSpec}
    (L : SectionLayout pwA pwB pc guid proto pts packets) (s n : Nat) (h : s + n ≤ pwA.abs.cur) :
    (pwB.abs.data.drop s).take n = (pwA.abs.data.drop s).take n := by
  apply window_ext
  intro j h1 h2
  have hb := L.before
  have e1 : (pwB.abs.data.take pwA.abs.cur)[j]? = pwB.abs.data[j]? := List.getElem?_take_of_lt (by omega)
  have e2 : (pwA.abs.data.take pwA.abs.cur)[j]? = pwA.abs.data[j]? := List.getElem?_take_of_lt (by omega)
  rw [← e1, ← e2, hb]

/-- a concrete history whose abstract effect avoids the window keeps it, and the flushed device is
    the image of the final logical stream -/
theorem history_keeps_window (pw : PW) (hpw : pw.Inv) (ops : List WOp) (s n : Nat)
    (hin : s + n ≤ pw.abs.data.length) (hout : OpsOutside s n ops pw.abs) :
    ∃ pwF, runConcrete ops pw = .ok pwF ∧ pwF.Inv ∧
      (pwF.abs.data.drop s).take n = (pw.abs.data.drop s).take n ∧
      pwF.flush.dev.data = image pwF.abs.data := by
  obtain ⟨pwF, e, i, a⟩ := pw_run ops pw hpw
  obtain ⟨b1, _⟩ := runSpec_window_stable s n ops pw.abs (abs_wf pw hpw).2 hin hout
  exact ⟨pwF, e, i, by rw [a]; exact b1, (pw_flush pwF i).2.2⟩

/-- a blob written later leaves every earlier window alone -/
theorem blob_keeps_window (pw : PW) (data : Bytes) (hpw : pw.Inv) (pw' : PW) (b : BlobRef)
    (h : blobWrite pw data = .ok (pw', b)) (s n : Nat) (hle : s + n ≤ pw.abs.cur) :
    pw'.Inv ∧ (pw'.abs.data.drop s).take n = (pw.abs.data.drop s).take n ∧
      pw.abs.cur ≤ pw'.abs.cur := by
  obtain ⟨pw'', e, i, a⟩ := blobWrite_spec pw data hpw
  rw [h] at e; cases e
  have wf := abs_wf pw hpw
  have hr : pw'.abs = runSpec [.write (blobHeaderBytes ((16 + data.length + 3) / 4 * 4) ++ data), .align] pw.abs := by
    rw [a]; rfl
  obtain ⟨b1, _⟩ := runSpec_window_stable s n
    [.write (blobHeaderBytes ((16 + data.length + 3) / 4 * 4) ++ data), .align] pw.abs wf.2 (by omega)
    ⟨.inr hle, .inr (by show s + n ≤ (pw.abs.write _).cur; rw [spec_write_cur]; omega), trivial⟩
  refine ⟨i, by rw [hr]; exact b1, ?_⟩
  rw [a]; unfold LogStream.align
  split
  · simp only [spec_write_cur]; omega
  · simp only [spec_write_cur]; omega

theorem sig_length : (utf8 "ASTM-E57").length = 8 := by decide +kernel

theorem fileHeader_length (a b c : Nat) : (fileHeaderBytes a b c).length = 48 := by
  simp only [fileHeaderBytes, List.length_append, toLE_length, sig_length]

theorem align_cur (st : LogStream) : st.align.cur % 4 = 0 ∧ st.cur ≤ st.align.cur := by
  unfold LogStream.align
  split
  · rw [spec_write_cur, zeros_length]; omega
  · omega

/-- the exact effect of `finalize_customized_xml` on the logical stream: the XML `xml` at the cursor,
    alignment, the 48-byte file header at offset 0, the cursor back behind the aligned XML; flushed -/
theorem ew_finalize_abs (ft : FloatText) (e e' : EW) (tr : String → Option String)
    (hpw : e.pw.Inv) (h : EW.finalize ft e tr = .ok e') :
    ∃ (xml : String) (sz : Nat), e'.pw.Inv ∧
      e'.pw.abs = { (LogStream.write { (e.pw.abs.write (utf8 xml)).align with cur := 0 }
          (fileHeaderBytes sz e.pw.physicalPosition (utf8 xml).length)) with
        cur := (e.pw.abs.write (utf8 xml)).align.cur } ∧
      e'.pw.dev.data = image e'.pw.abs.data := by
  unfold EW.finalize at h
  split at h
  · cases h
  · split at h
    · cases h
    split at h
    · cases h
    · rename_i xml0 _ _ xml _
      change ite _ _ _ = _ at h
      split at h
      · cases h
      obtain ⟨p1, e1, h⟩ := Outcome.bind_eq_ok h
      obtain ⟨p1a, e1a, h⟩ := Outcome.bind_eq_ok h
      obtain ⟨p1', f1, i1, a1⟩ := pw_writeAll e.pw (utf8 xml) hpw
      rw [e1] at f1; cases f1
      obtain ⟨p1a', f1a, i1a, a1a⟩ := pw_align p1 i1
      rw [e1a] at f1a; cases f1a
      have wfa := abs_wf p1a i1a
      have hpos := pw_position p1a i1a
      simp only [LogStream.physPos] at hpos
      obtain ⟨i2, a2, _, _⟩ := pw_size p1a i1a
      simp only [] at h
      generalize hps : p1a.physicalSize = psz at h i2 a2
      obtain ⟨p2, sz⟩ := psz
      simp only [] at h i2 a2
      obtain ⟨p3, e3, i3, a3⟩ := pw_seek_back p2 0 i2 (Nat.zero_le _)
      have hl0 : l2p 0 = 0 := rfl
      rw [hl0] at e3
      rw [e3] at h
      simp only [Bool.not_true, Bool.false_eq_true, if_false] at h
      obtain ⟨p4, e4, h⟩ := Outcome.bind_eq_ok h
      obtain ⟨p4', f4, i4, a4⟩ := pw_writeAll p3 (fileHeaderBytes sz (e.pw.physicalPosition) (utf8 xml).length) i3
      rw [e4] at f4; cases f4
      have hlen : p1a.abs.cur ≤ p4.abs.data.length := by
        have h3 : p3.abs.cur ≤ p3.abs.data.length := by rw [a3]; exact Nat.zero_le _
        have := spec_write_length_ge p3.abs (fileHeaderBytes sz (e.pw.physicalPosition) (utf8 xml).length) h3
        rw [a4]
        have h5 : p3.abs.data.length = p1a.abs.data.length := by rw [a3, a2]
        omega
      obtain ⟨p5, e5, i5, a5⟩ := pw_seek_back p4 p1a.abs.cur i4 hlen
      rw [hpos, e5] at h
      simp only [Bool.not_true, Bool.false_eq_true, if_false] at h
      cases h
      obtain ⟨i6, a6, d6⟩ := pw_flush p5 i5
      refine ⟨xml, sz, i6, ?_, ?_⟩
      · show p5.flush.abs = _
        rw [a6, a5, a4, a3, a2, a1a, a1]
      · show p5.flush.dev.data = image p5.flush.abs.data
        rw [a6]; exact d6

/-- after closing, the cursor is behind the (aligned) XML: whatever is written afterwards is appended -/
theorem close_cursor (ft : FloatText) (e e' : EW) (tr : String → Option String)
    (hpw : e.pw.Inv) (h : EW.finalize ft e tr = .ok e') :
    ∃ xml : String, e'.pw.abs.cur = (e.pw.abs.write (utf8 xml)).align.cur ∧
      e'.pw.abs.cur % 4 = 0 ∧ e.pw.abs.cur + (utf8 xml).length ≤ e'.pw.abs.cur ∧
      e'.pw.abs.cur ≤ e'.pw.abs.data.length := by
  obtain ⟨xml, sz, i, a, _⟩ := ew_finalize_abs ft e e' tr hpw h
  have hc : e'.pw.abs.cur = (e.pw.abs.write (utf8 xml)).align.cur := by rw [a]
  obtain ⟨c1, c2⟩ := align_cur (e.pw.abs.write (utf8 xml))
  rw [spec_write_cur] at c2
  exact ⟨xml, hc, by rw [hc]; exact c1, by rw [hc]; exact c2, (abs_wf e'.pw i).2⟩

/-- closing the file (`finalize_customized_xml`: the XML at the cursor, alignment, the 48-byte file
    header at offset 0, seek back behind the XML, flush) leaves every window `[s, s+n)` with `48 ≤ s`,
    `s + n ≤ cursor` alone; the device then holds the image of the final logical stream -/
theorem close_keeps_window (ft : FloatText) (e e' : EW) (tr : String → Option String)
    (hpw : e.pw.Inv) (h : EW.finalize ft e tr = .ok e') (s n : Nat) (h48 : 48 ≤ s)
    (hle : s + n ≤ e.pw.abs.cur) :
    e'.pw.Inv ∧ (e'.pw.abs.data.drop s).take n = (e.pw.abs.data.drop s).take n ∧
      e'.pw.dev.data = image e'.pw.abs.data ∧ e.pw.abs.cur ≤ e'.pw.abs.data.length := by
  obtain ⟨xml, sz, i, a, d⟩ := ew_finalize_abs ft e e' tr hpw h
  have wf := abs_wf e.pw hpw
  -- the XML and the alignment behind the window
  obtain ⟨b1, b2, b3⟩ := step_window_stable e.pw.abs (.write (utf8 xml)) s n wf.2 (by omega) (.inr hle)
  obtain ⟨c1, c2, c3⟩ := step_window_stable (e.pw.abs.write (utf8 xml)) .align s n b2
    (by simp only [stepSpec] at b3; omega)
    (.inr (by rw [spec_write_cur]; omega))
  simp only [stepSpec] at b1 b2 b3 c1 c2 c3
  -- the file header before the window
  have g1 := write_window_stable { (e.pw.abs.write (utf8 xml)).align with cur := 0 }
    (fileHeaderBytes sz e.pw.physicalPosition (utf8 xml).length) s n (Nat.zero_le _)
    (by show s + n ≤ (e.pw.abs.write (utf8 xml)).align.data.length; omega)
    (.inl (by rw [fileHeader_length]; show 0 + 48 ≤ s; omega))
  have g2 := spec_write_length_ge { (e.pw.abs.write (utf8 xml)).align with cur := 0 }
    (fileHeaderBytes sz e.pw.physicalPosition (utf8 xml).length) (Nat.zero_le _)
  refine ⟨i, ?_, d, ?_⟩
  · rw [a]; show (LogStream.data _ |>.drop s).take n = _
    rw [g1]; show ((e.pw.abs.write (utf8 xml)).align.data.drop s).take n = _
    rw [c1, b1]
  · rw [a]
    show e.pw.abs.cur ≤ (LogStream.write _ _).data.length
    have : ({ (e.pw.abs.write (utf8 xml)).align with cur := 0 } : LogStream).data.length
        = (e.pw.abs.write (utf8 xml)).align.data.length := rfl
    omega


/-! # Part 5 — the flushed file -/

/-- the device of a flushed well-formed page writer, opened by `PagedReader::new`, is a readable file
    containing every window of the writer's logical stream -/
theorem contains_of_flushed (pwF : PW) (hF : pwF.Inv) (hphys : l2p pwF.abs.data.length < 2 ^ 64)
    (pos : Nat) (r0 : PR) (hr : PR.new ⟨pwF.flush.dev.data, pos⟩ 1024 = .ok r0) (s n : Nat) :
    Contains pwF.abs.data r0 s n ((pwF.abs.data.drop s).take n) := by
  obtain ⟨d1, d2, _⟩ := pr_new_data _ _ _ hr
  exact ⟨(abs_wf pwF hF).1, hphys, rfl, pr_new_inv _ _ _ hr, d2, by rw [d1]; exact (pw_flush pwF hF).2.2⟩

/-- **C01 on the file**: the session of `C01_section_roundtrip`, then anything that leaves the section
    window alone (`later_section_keeps_window`, `blob_keeps_window`, `close_keeps_window`,
    `history_keeps_window` discharge this for later sections, blobs, the XML and file header, any
    history of page-writer operations outside the window), then flush: `PagedReader::new` on the
    device bytes, `QueueReader::new` and the raw iterator return the points added. -/
theorem C01_file_roundtrip (pw : PW) (exts : List (String × String)) (guid : String)
    (proto : Prototype) (pts : List (List Value))
    (hpw : pw.Inv) (hal : pw.abs.cur % 4 = 0) (hi : ProtoI64 proto) (hn : NoDupNames proto)
    (pw0 : PW) (w0 : PcW) (hnew : PcW.new pw exts guid proto = .ok (pw0, w0))
    (hpts : ∀ pt ∈ pts, pt.length = proto.length ∧ checkValues proto pt = true) :
    ∃ pw1 w1 pw2 w2 pc,
      addPoints pts (pw0, w0) = .ok (pw1, w1) ∧ w1.finalize pw1 = .ok (pw2, w2, pc) ∧ pw2.Inv ∧
      ∀ (pwF : PW) (pos : Nat) (r0 : PR), pwF.Inv →
        (pwF.abs.data.drop pw.abs.cur).take (sectionLen proto (emitted pw exts guid proto pts))
          = sectionWindow pw pw2 proto (emitted pw exts guid proto pts) →
        l2p pwF.abs.data.length < 2 ^ 64 →
        (pts = [] ∨ pointBits proto = 0 → pw.abs.cur + 32 < pwF.abs.data.length) →
        PR.new ⟨pwF.flush.dev.data, pos⟩ 1024 = .ok r0 →
        ∃ r1 q, QR.new pc r0 = (r1, some q) ∧
          RawIter.run (pts.length + 1) ⟨q, pc.records, 0⟩ r1 = pts.map Item.value ++ [.done] := by
  obtain ⟨pw1, w1, pw2, w2, pc, e1, e2, i2, _, _, _, _, h⟩ :=
    C01_section_roundtrip pw exts guid proto pts hpw hal hi hn pw0 w0 hnew hpts
  refine ⟨pw1, w1, pw2, w2, pc, e1, e2, i2, ?_⟩
  intro pwF pos r0 hF hwin hphys hroom hr
  have hc := contains_of_flushed pwF hF hphys pos r0 hr pw.abs.cur
    (sectionLen proto (emitted pw exts guid proto pts))
  rw [hwin] at hc
  exact h pwF.abs.data r0 hc hroom

/-- **C01 on the closed file**: the session, then `finalize_customized_xml` (XML, file header, flush):
    the device bytes, opened by `PagedReader::new`, give the points back.  (`e.pw = pw2`: the file is
    closed right after the section; for sections, blobs in between use `later_section_keeps_window`,
    `blob_keeps_window` and `C01_file_roundtrip`.) -/
theorem C01_closed_file (pw : PW) (exts : List (String × String)) (guid : String)
    (proto : Prototype) (pts : List (List Value))
    (hpw : pw.Inv) (hal : pw.abs.cur % 4 = 0) (h48 : 48 ≤ pw.abs.cur)
    (hi : ProtoI64 proto) (hn : NoDupNames proto)
    (pw0 : PW) (w0 : PcW) (hnew : PcW.new pw exts guid proto = .ok (pw0, w0))
    (hpts : ∀ pt ∈ pts, pt.length = proto.length ∧ checkValues proto pt = true) :
    ∃ pw1 w1 pw2 w2 pc,
      addPoints pts (pw0, w0) = .ok (pw1, w1) ∧ w1.finalize pw1 = .ok (pw2, w2, pc) ∧
      ∀ (ft : FloatText) (e e' : EW) (tr : String → Option String) (pos : Nat) (r0 : PR),
        e.pw = pw2 → EW.finalize ft e tr = .ok e' →
        l2p e'.pw.abs.data.length < 2 ^ 64 →
        (pts = [] ∨ pointBits proto = 0 → pw.abs.cur + 32 < e'.pw.abs.data.length) →
        PR.new ⟨e'.pw.dev.data, pos⟩ 1024 = .ok r0 →
        ∃ r1 q, QR.new pc r0 = (r1, some q) ∧
          RawIter.run (pts.length + 1) ⟨q, pc.records, 0⟩ r1 = pts.map Item.value ++ [.done] := by
  obtain ⟨pw1, w1, pw2, w2, pc, e1, e2, i2, c2, _, _, _, h⟩ :=
    C01_section_roundtrip pw exts guid proto pts hpw hal hi hn pw0 w0 hnew hpts
  refine ⟨pw1, w1, pw2, w2, pc, e1, e2, ?_⟩
  intro ft e e' tr pos r0 he hfin hphys hroom hr
  subst he
  obtain ⟨k1, k2, k3, _⟩ := close_keeps_window ft e e' tr i2 hfin pw.abs.cur
    (sectionLen proto (emitted pw exts guid proto pts)) h48 (by rw [c2]; exact Nat.le_refl _)
  obtain ⟨d1, d2, _⟩ := pr_new_data _ _ _ hr
  exact h e'.pw.abs.data r0
    ⟨(abs_wf e'.pw k1).1, hphys, k2, pr_new_inv _ _ _ hr, d2, by rw [d1]; exact k3⟩ hroom

/-! # Part 6 — the room hypothesis cannot be dropped -/

/-- a packet-less section whose header ends exactly at the end of the stream: `QueueReader::new` fails,
    because the stored data offset `l2p (s + 32)` is the physical size of the file and
    `seek_physical` rejects offsets `≥` the size -/
theorem QR_new_empty_fails (pc : PointCloud) (s : Nat) (d : Bytes) (r0 : PR)
    (hd : d.length % 1020 = 0) (hphys : l2p d.length < 2 ^ 64)
    (hhdr : (d.drop s).take 32 = CvHeader.bytes ⟨32, l2p (s + 32), 0⟩)
    (hend : s + 32 = d.length) (hoff : pc.fileOffset = l2p s)
    (hinv : r0.CacheInv) (hps : r0.pageSize = 1024) (hdata : r0.dev.data = image d) :
    (QR.new pc r0).2 = none := by
  have hat0 : Layout.At d r0 r0.offset := ⟨hinv, hps, hdata, rfl⟩
  have hX : Layout.Holds d s ([1] ++ zeros 7 ++ toLE 32 8 ++ toLE (l2p (s + 32)) 8 ++ toLE 0 8) := by
    apply Layout.Holds.of_slice
    · have : ([1] ++ zeros 7 ++ toLE 32 8 ++ toLE (l2p (s + 32)) 8 ++ toLE 0 8 : Bytes).length = 32 := by
        simp [toLE_length, zeros]
      rw [this, hhdr]; rfl
    · simp
  obtain ⟨r1, e1, a1⟩ := Layout.seek_at hd s hat0 (by omega)
  obtain ⟨r2, e2, a2⟩ := Layout.readCvHeader_at hd 32 (l2p (s + 32)) 0 a1 hX (by decide)
  have hbig : l2p (s + 32) < 2 ^ 64 := by rw [hend]; exact hphys
  rw [Nat.mod_eq_of_lt hbig] at e2
  have hph := Layout.At.physSize hd a2
  have e3 : ∃ m, r2.seekPhysical (l2p (s + 32)) = .err m := by
    refine ⟨"offset behind end of file", ?_⟩
    unfold PR.seekPhysical
    rw [if_pos]
    rw [hph, hend]; unfold l2p; omega
  obtain ⟨m, e3⟩ := e3
  simp only [QR.new, hoff, e1, e2, e3]


/-- `C01_section_roundtrip` without the hypothesis that something follows a packet-less section -/
def C01_no_room_statement : Prop :=
  ∀ (pw : PW) (exts : List (String × String)) (guid : String) (proto : Prototype) (pts : List (List Value)),
    pw.Inv → pw.abs.cur % 4 = 0 → ProtoI64 proto → NoDupNames proto →
    ∀ (pw0 : PW) (w0 : PcW), PcW.new pw exts guid proto = .ok (pw0, w0) →
    (∀ pt ∈ pts, pt.length = proto.length ∧ checkValues proto pt = true) →
    ∃ pw1 w1 pw2 w2 pc,
      addPoints pts (pw0, w0) = .ok (pw1, w1) ∧ w1.finalize pw1 = .ok (pw2, w2, pc) ∧
      ∀ (d : Bytes) (r0 : PR),
        Contains d r0 pw.abs.cur (sectionLen proto (emitted pw exts guid proto pts))
          (sectionWindow pw pw2 proto (emitted pw exts guid proto pts)) →
        ∃ r1 q, QR.new pc r0 = (r1, some q) ∧
          RawIter.run (pts.length + 1) ⟨q, pc.records, 0⟩ r1 = pts.map Item.value ++ [.done]

namespace NoRoom

/-- 988 bytes written: the 32-byte header of the next section ends exactly at the page end 1020 -/
def base : PW := match w0.writeAll (zeros 988) with | .ok p => p | _ => w0

theorem base_ok : base.Inv ∧ base.abs.cur = 988 := by
  obtain ⟨p, e, i, a⟩ := pw_writeAll w0 (zeros 988) w0_inv
  have hb : base = p := by unfold base; rw [e]
  rw [hb]
  refine ⟨i, ?_⟩
  have h0 : w0.abs.cur = 0 := by rw [w0_rep.abs_eq]; rfl
  rw [a, spec_write_cur, zeros_length, h0]

theorem new_isOk : (PcW.new base [] "g" LayoutEx.proto).isOk = true := by decide +kernel

end NoRoom

/-- **the room hypothesis is necessary**: a session without points whose header ends exactly at the end
    of the logical stream (cursor 988, stream length 1020) produces a file on which
    `QueueReader::new` fails.  (In a complete E57 file the XML section always follows, so this
    situation does not arise there.) -/
theorem C01_no_room_statement_false : ¬ C01_no_room_statement := by
  intro hst
  have hn := NoRoom.new_isOk
  cases h0 : PcW.new NoRoom.base [] "g" LayoutEx.proto with
  | err e => rw [h0] at hn; cases hn
  | panic e => rw [h0] at hn; cases hn
  | ok st0 =>
    obtain ⟨pw0, w0'⟩ := st0
    obtain ⟨hinv, hcur⟩ := NoRoom.base_ok
    obtain ⟨pw1, w1, pw2, w2, pc, e1, e2, h⟩ := hst NoRoom.base [] "g" LayoutEx.proto [] hinv
      (by rw [hcur]) LayoutEx.proto_i64 (by unfold NoDupNames; decide) pw0 w0' h0 (by simp)
    have L := writer_layout NoRoom.base [] "g" LayoutEx.proto [] hinv (by rw [hcur]) LayoutEx.proto_i64
      pw0 w0' pw1 w1 pw2 w2 pc h0 e1 e2
    have hem := no_points_no_packets _ _ _ _ _ _ L
    rw [hem] at L h
    rw [hcur] at h
    have hw := L.window
    simp only [List.map_nil, List.sum_nil, Nat.add_zero, encodeSection_no_packets] at hw
    have hd32 : (CvHeader.bytes ⟨32, 0, 0⟩).drop 32 = [] :=
      List.drop_eq_nil_of_le (by rw [cvHeader_length]; omega)
    rw [hd32, List.append_nil, hcur] at hw
    have hsw : sectionWindow NoRoom.base pw2 LayoutEx.proto [] = CvHeader.bytes ⟨32, l2p (988 + 32), 0⟩ := by
      unfold sectionWindow; rw [sectionLen_nil, hcur]; exact hw
    rw [hsw, sectionLen_nil] at h
    -- the stream: 988 zeros, then the header, nothing behind it
    let d : Bytes := zeros 988 ++ CvHeader.bytes ⟨32, l2p (988 + 32), 0⟩
    have hdl : d.length = 1020 := by simp [d, zeros_length, cvHeader_length]
    have hne : d ≠ [] := by
      intro e; have := congrArg List.length e; rw [hdl] at this; cases this
    have hwin : (d.drop 988).take 32 = CvHeader.bytes ⟨32, l2p (988 + 32), 0⟩ := by
      simp only [d]
      rw [List.drop_left' (by simp [zeros_length]), List.take_of_length_le (by rw [cvHeader_length]; omega)]
    obtain ⟨r0, er, _, _, _⟩ := pr_new_image d 0 (by rw [hdl]) hne
    obtain ⟨d1, d2, _⟩ := pr_new_data _ _ _ er
    have hphys : l2p d.length < 2 ^ 64 := by rw [hdl]; decide
    obtain ⟨r1, q, eq, _⟩ := h d r0 ⟨by rw [hdl], hphys, hwin, pr_new_inv _ _ _ er, d2, d1⟩
    have hf := QR_new_empty_fails pc 988 d r0 (by rw [hdl]) hphys hwin (by rw [hdl])
      (by rw [L.fileOffset, hcur]) (pr_new_inv _ _ _ er) d2 d1
    rw [eq] at hf
    cases hf


/-! # Part 7 — non-vacuity: the session `LayoutEx` (3 records, 2 points, header across a page boundary) -/

namespace Ex
open LayoutEx

/-- two packets of 20 bytes each behind the 32-byte header -/
theorem len_eq : sectionLen proto (emitted base [] "g" proto pts) = 72 := by decide +kernel

/-- every hypothesis of `C01_section_roundtrip` holds for the concrete session, and a file containing
    the section exists: the theorem yields the two points and `done` -/
theorem instance_roundtrip :
    ∃ (pw2 : PW) (pc : PointCloud) (d : Bytes) (r0 r1 : PR) (q : QR),
      Contains d r0 1000 72 (sectionWindow base pw2 proto (emitted base [] "g" proto pts)) ∧
      d.length = 2040 ∧ pc.records = 2 ∧ pc.fileOffset = 1000 ∧
      QR.new pc r0 = (r1, some q) ∧
      RawIter.run 3 ⟨q, pc.records, 0⟩ r1 =
        [.value [.integer 1000, .single 0x3f800000, .integer (-5)],
         .value [.integer 7, .single 0, .integer 5], .done] := by
  have hn := new_isOk
  cases h0 : PcW.new base [] "g" proto with
  | err e => rw [h0] at hn; cases hn
  | panic e => rw [h0] at hn; cases hn
  | ok st0 =>
    obtain ⟨pw0, w0'⟩ := st0
    obtain ⟨hinv, hcur⟩ := base_ok
    obtain ⟨pw1, w1, pw2, w2, pc, e1, e2, i2, c2, hrec, _, hoff, h⟩ :=
      C01_section_roundtrip base [] "g" proto pts hinv (by rw [hcur]) proto_i64
        (by unfold NoDupNames; decide) pw0 w0' h0 (by decide)
    rw [len_eq, hcur] at h c2
    refine ⟨pw2, pc, ?_⟩
    generalize hwd : sectionWindow base pw2 proto (emitted base [] "g" proto pts) = win at h ⊢
    have hwl : win.length = 72 := by
      rw [← hwd]; unfold sectionWindow
      rw [len_eq, hcur, List.length_take, List.length_drop]
      have := (abs_wf pw2 i2).2
      omega
    obtain ⟨d, hdef⟩ : ∃ d : Bytes, d = zeros 1000 ++ (win ++ zeros 968) := ⟨_, rfl⟩
    have hdl : d.length = 2040 := by simp [hdef, zeros_length, hwl]
    have hne : d ≠ [] := by
      intro e; have := congrArg List.length e; rw [hdl] at this; cases this
    obtain ⟨r0, er, _, _, _⟩ := pr_new_image d 0 (by rw [hdl]) hne
    obtain ⟨d1, d2, _⟩ := pr_new_data _ _ _ er
    have hc : Contains d r0 1000 72 win :=
      ⟨by rw [hdl], by rw [hdl]; decide, by
        rw [hdef, List.drop_left' (by simp [zeros_length]), List.take_left' hwl],
        pr_new_inv _ _ _ er, d2, d1⟩
    obtain ⟨r1, q, eq, hrun⟩ := h d r0 hc (fun _ => by rw [hdl]; omega)
    exact ⟨d, r0, r1, q, hc, hdl, hrec, by rw [hoff, hcur]; unfold l2p; omega, eq, hrun⟩

/-- the logical stream of the concrete session is two pages long -/
theorem run_len : (match LayoutEx.run with
    | some (p, _) => p.abs.data.length == 2040
    | none => false) = true := by decide +kernel

theorem pts_fit : ∀ pt ∈ pts, pt.length = proto.length ∧ checkValues proto pt = true := by decide

/-- every hypothesis of `C01_file_roundtrip` holds for the concrete session with `pwF := pw2` (nothing
    written after the section): the device bytes of the flushed writer are read back -/
theorem instance_file_roundtrip :
    ∃ (pw2 : PW) (pc : PointCloud) (r0 r1 : PR) (q : QR),
      PR.new ⟨pw2.flush.dev.data, 0⟩ 1024 = .ok r0 ∧
      QR.new pc r0 = (r1, some q) ∧
      RawIter.run 3 ⟨q, pc.records, 0⟩ r1 =
        [.value [.integer 1000, .single 0x3f800000, .integer (-5)],
         .value [.integer 7, .single 0, .integer 5], .done] := by
  have hn := new_isOk
  cases h0 : PcW.new base [] "g" proto with
  | err e => rw [h0] at hn; cases hn
  | panic e => rw [h0] at hn; cases hn
  | ok st0 =>
    obtain ⟨pw0, w0'⟩ := st0
    obtain ⟨hinv, hcur⟩ := base_ok
    obtain ⟨pw1, w1, pw2, w2, pc, e1, e2, i2, h⟩ :=
      C01_file_roundtrip base [] "g" proto pts hinv (by rw [hcur]) proto_i64
        (by unfold NoDupNames; decide) pw0 w0' h0 pts_fit
    have hrun : LayoutEx.run = some (pw2, pc) := by
      unfold LayoutEx.run
      rw [h0]; dsimp only
      rw [e1]; dsimp only
      rw [e2]
    have hl := run_len
    rw [hrun] at hl
    have hl : pw2.abs.data.length = 2040 := by simpa using hl
    have hne : pw2.abs.data ≠ [] := by
      intro e; rw [e] at hl; cases hl
    obtain ⟨r0, er, _, _, _⟩ := pr_new_image pw2.abs.data 0 (by rw [hl]) hne
    rw [← (pw_flush pw2 i2).2.2] at er
    obtain ⟨r1, q, eq, hr⟩ := h pw2 0 r0 i2 rfl (by rw [hl]; decide)
      (fun _ => by rw [hl, hcur]; exact (by decide : 1000 + 32 < 2040)) er
    exact ⟨pw2, pc, r0, r1, q, er, eq, hr⟩

/-- `OpsOutside` is satisfiable: behind a section at `[1000, 1072)` eight bytes are appended, the stream
    is aligned, and the 48-byte file header is written at offset 0 -/
example (st : LogStream) (hc : st.cur = 1072) :
    OpsOutside 1000 72 [.write (zeros 8), .align, .size, .seek 0, .write (zeros 48), .flush] st := by
  have h1 : (st.write (zeros 8)).align = st.write (zeros 8) := by
    unfold LogStream.align
    rw [if_neg]
    rw [spec_write_cur, hc, zeros_length]; decide
  have h2 : ((st.write (zeros 8)).seek 0).cur = 0 := by
    unfold LogStream.seek
    rw [show (st.write (zeros 8)).seekOk 0 = true by simp [LogStream.seekOk]]
    rfl
  refine ⟨.inr (by rw [hc]; decide), .inr ?_, trivial, trivial, .inl ?_, trivial, trivial⟩
  · show 1000 + 72 ≤ (st.write (zeros 8)).cur
    rw [spec_write_cur, hc]; decide
  · show (LogStream.seek ((st.write (zeros 8)).align) 0).cur + (zeros 48).length ≤ 1000
    rw [h1, h2, zeros_length]; decide

end Ex


end RoundTrip
end E57
