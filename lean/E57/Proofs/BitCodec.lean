import E57.Spec.BitCodec
import E57.Proofs.Bytes
namespace E57.Spec
open E57

theorem packFrom_nil (a : Nat × Nat) : packFrom a [] = a := rfl

theorem packFrom_cons (a : Nat × Nat) (f : Nat × Nat) (fs : List (Nat × Nat)) :
    packFrom a (f :: fs) = packFrom (a.1 + 2 ^ a.2 * (f.1 % 2 ^ f.2), a.2 + f.2) fs := rfl

theorem packFrom_append (a : Nat × Nat) (xs ys : List (Nat × Nat)) :
    packFrom a (xs ++ ys) = packFrom (packFrom a xs) ys := by
  simp [packFrom, List.foldl_append]

/-- packing from an arbitrary cursor = shifting the packing from zero -/
theorem packFrom_eq (V N : Nat) (fs : List (Nat × Nat)) :
    packFrom (V, N) fs = (V + 2 ^ N * (pack fs).1, N + (pack fs).2) := by
  induction fs generalizing V N with
  | nil => simp [pack, packFrom]
  | cons f fs ih =>
    rw [packFrom_cons, ih]
    have e : pack (f :: fs) = packFrom (f.1 % 2 ^ f.2, f.2) fs := by
      simp [pack, packFrom_cons]
    rw [e, ih]
    simp only []
    rw [Nat.pow_add, Nat.mul_add, Nat.mul_assoc, Nat.add_assoc, Nat.add_assoc]

theorem pack_cons (f : Nat × Nat) (fs : List (Nat × Nat)) :
    pack (f :: fs) = (f.1 % 2 ^ f.2 + 2 ^ f.2 * (pack fs).1, f.2 + (pack fs).2) := by
  simp only [pack]
  rw [packFrom_cons, packFrom_eq]
  simp [pack]

theorem pack_lt (fs : List (Nat × Nat)) : (pack fs).1 < 2 ^ (pack fs).2 := by
  induction fs with
  | nil => simp [pack, packFrom]
  | cons f fs ih =>
    rw [pack_cons]
    simp only []
    have h1 : f.1 % 2 ^ f.2 < 2 ^ f.2 := Nat.mod_lt _ (Nat.two_pow_pos _)
    rw [Nat.pow_add]
    have hpos := Nat.two_pow_pos f.2
    have : 2 ^ f.2 * (pack fs).1 + 2 ^ f.2 ≤ 2 ^ f.2 * 2 ^ (pack fs).2 := by
      rw [← Nat.mul_succ]; exact Nat.mul_le_mul_left _ ih
    omega

/-- reading field `i` at width `w` from a stream packed from width-`w` fields returns field `i` -/
theorem field_pack (w : Nat) (vs : List Nat) (i : Nat) (hi : i < vs.length) :
    field (pack (vs.map (fun v => (v, w)))).1 w i = vs[i] % 2 ^ w := by
  induction vs generalizing i with
  | nil => simp at hi
  | cons v vs ih =>
    rw [List.map_cons, pack_cons]
    simp only []
    have hlt : v % 2 ^ w < 2 ^ w := Nat.mod_lt _ (Nat.two_pow_pos _)
    cases i with
    | zero =>
      simp only [field, Nat.zero_mul, Nat.shiftRight_zero, List.getElem_cons_zero]
      rw [Nat.add_mul_mod_self_left, Nat.mod_mod]
    | succ i =>
      have hi' : i < vs.length := by simpa using hi
      simp only [List.getElem_cons_succ]
      rw [← ih i hi']
      simp only [field]
      congr 1
      rw [Nat.succ_mul, Nat.add_comm (i * w) w, Nat.shiftRight_add, Nat.shiftRight_eq_div_pow _ w,
          Nat.add_mul_div_left _ _ (Nat.two_pow_pos _), Nat.div_eq_of_lt hlt, Nat.zero_add]

/-- the total width of equally wide fields -/
theorem pack_width (w : Nat) (vs : List Nat) : (pack (vs.map (fun v => (v, w)))).2 = vs.length * w := by
  induction vs with
  | nil => simp [pack, packFrom]
  | cons v vs ih => rw [List.map_cons, pack_cons]; simp [ih, Nat.succ_mul]; omega

end E57.Spec
