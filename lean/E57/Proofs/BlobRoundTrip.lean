/-
C06 — binary blobs round-trip byte-exactly: `blobWrite` (model of `Blob::write`, E57/Model/Writer.lean)
followed by `blobRead` (model of `Blob::read`, E57/Model/Reader.lean), through the page writer `PW`,
the logical stream `Spec.LogStream`, the paged image `Spec.image` and the paged reader `PR`.

Everything is in namespace `E57.BlobRT`.  Main results:

* `blob_window`        write side: after `blobWrite` the logical stream holds `header ++ data` at the old
                       cursor `s`, the descriptor is `⟨l2p s, |data|⟩`, the cursor is behind the section.
* `blob_roundtrip`     (1) for every well-formed writer, every `data` (also `[]`), every complete stream
                       `d` (`|d| % 1020 = 0`, `l2p |d| < 2^64`) that still carries the written window and
                       every healthy reader over `image d` (any cache state, any position):
                       `(blobRead r0 b).2 = some data`, and the reader stays healthy.
                       `blob_roundtrip_core` is the same with the minimal bound `secLen |data| < 2^64`.
* `blobWrite_ok`       (2) `blobWrite` returns `.ok` on every well-formed page writer.
* `blobRead_exact_or_error`, `blobRead_returns_stream`
                       (3) for every reader and every descriptor the bytes returned have exactly the
                       descriptor's length; over `image d` they are `(d.drop (p2l off + 16)).take len`,
                       lie entirely inside `d`, and are preceded by a header with id 0.
* `write_get_outside`, `write_window_stable`, `align_window_stable`, `run_window_stable`
                       (4) writes outside a window leave it unchanged; for whole histories (`Outside`).
* `blob_roundtrip_after`, `blob_roundtrip_file`
                       (1) + (4): blob, then any history outside its window, flush, fresh reader in any
                       reachable state (`PR.Reach`).
* `two_blobs`          (5) blob A, blob B, any history outside both: both are read back, in any order,
                       also with the same reader; the descriptors differ.
* `straddle_instance`, `blob_roundtrip_closed`, `two_blobs_instance`
                       (6) the hypotheses are satisfiable: cursor 1010 (header over the page boundary,
                       1100 data bytes over the next one); and for EVERY prefix and EVERY data below a
                       size bound the whole chain write → flush → open → read returns the data.
                       `outside_finish`, `blob_survives_finish`: a generic finishing history
                       (rest, header patch, flush) — still true, but NOT the shape of `EW.finalize`.
* `finalize_history`, `ew_finalize_spec`, `outside_finalize`, `finalize_window_stable`,
  `blob_survives_finalize_window`, `blob_survives_finalize`, `addBlob_finalize_roundtrip`, `finalize_ok`
                       the real `EW.finalize` = history `finalizeOps xml hdr endOff` =
                       `[.write xml, .align, .size, .seek 0, .write hdr, .seek endOff, .flush]`; every
                       blob section behind the 48-byte header and in front of the cursor is read back
                       from `e'.pw.dev.data` by every reader state reachable from `PR.new`.
                       A kernel-evaluated run of the concrete models for the straddling instance
                       (`straddleCheck_true`, about 90 s) is in E57/Proofs/BlobRoundTripExample.lean.
* `blobRead_overlong_accepted`   observation: the reader's header check is lax by 32 bytes.
* `blob_roundtrip_unbounded_statement_false`   the size bound of (1) cannot be dropped.

The hypothesis `l2p d.length < 2^64` (or `secLen |data| < 2^64`) is needed: the header stores the
section length in 8 bytes (`toLE _ 8` truncates), and the reader compares the descriptor's length
with the stored value.  The alignment of the writer's cursor (`cur % 4 = 0`) is NOT needed.

Core Lean only.
-/
import E57.Proofs.LayoutRead
import E57.Proofs.WriterProps
namespace E57
namespace BlobRT
open Spec Layout

/-! ## A. what `LogStream.write` changes, byte by byte -/

/-- two windows are equal when they agree position by position -/
theorem slice_eq_of_get {α} (X Y : List α) (a n : Nat)
    (h : ∀ i, a ≤ i → i < a + n → X[i]? = Y[i]?) : (X.drop a).take n = (Y.drop a).take n := by
  apply List.ext_getElem?
  intro j
  simp only [List.getElem?_take, List.getElem?_drop]
  split
  · exact h (a + j) (by omega) (by omega)
  · rfl

theorem get_of_slice_eq {α} (X Y : List α) (a n : Nat)
    (h : (X.drop a).take n = (Y.drop a).take n) (i : Nat) (h1 : a ≤ i) (h2 : i < a + n) :
    X[i]? = Y[i]? := by
  have := congrArg (fun l => l[i - a]?) h
  simp only [List.getElem?_take, List.getElem?_drop] at this
  rw [if_pos (by omega), if_pos (by omega)] at this
  have e : a + (i - a) = i := by omega
  rwa [e] at this

/-- the zero-extended base of a write -/
def wbase (s : LogStream) (x : Bytes) : Bytes :=
  s.data ++ zeros (max s.data.length ((s.cur + x.length + 1019) / 1020 * 1020) - s.data.length)

theorem write_data (s : LogStream) (x : Bytes) :
    (s.write x).data = (wbase s x).take s.cur ++ x ++ (wbase s x).drop (s.cur + x.length) := rfl

theorem wbase_length (s : LogStream) (x : Bytes) : s.cur + x.length ≤ (wbase s x).length := by
  unfold wbase
  rw [List.length_append, zeros_length]
  omega

theorem wbase_get (s : LogStream) (x : Bytes) (i : Nat) (hi : i < s.data.length) :
    (wbase s x)[i]? = s.data[i]? := by
  unfold wbase
  rw [List.getElem?_append_left hi]

theorem wbase_take_length (s : LogStream) (x : Bytes) : ((wbase s x).take s.cur).length = s.cur := by
  have := wbase_length s x
  rw [List.length_take]; omega

/-- **stability, pointwise**: a write changes no byte outside `[cur, cur + |x|)` -/
theorem write_get_outside (s : LogStream) (x : Bytes) (i : Nat) (hi : i < s.data.length)
    (ho : i < s.cur ∨ s.cur + x.length ≤ i) : (s.write x).data[i]? = s.data[i]? := by
  have hl := wbase_take_length s x
  rw [write_data, ← wbase_get s x i hi]
  rcases ho with ho | ho
  · rw [List.append_assoc, List.getElem?_append_left (by omega), List.getElem?_take, if_pos ho]
  · have hl2 : ((wbase s x).take s.cur ++ x).length = s.cur + x.length := by
      rw [List.length_append, hl]
    rw [List.getElem?_append_right (by omega), hl2, List.getElem?_drop]
    congr 1; omega

/-- the bytes written lie at the old cursor -/
theorem write_window (s : LogStream) (x : Bytes) :
    ((s.write x).data.drop s.cur).take x.length = x := by
  have hl := wbase_take_length s x
  rw [write_data, List.append_assoc]
  have := drop_append_len ((wbase s x).take s.cur) (x ++ (wbase s x).drop (s.cur + x.length)) s.cur 0 hl
  rw [Nat.add_zero, List.drop_zero] at this
  rw [this, List.take_left]

theorem write_length_ge (s : LogStream) (x : Bytes) : s.data.length ≤ (s.write x).data.length := by
  have h1 := wbase_length s x
  have hl := wbase_take_length s x
  have h2 : s.data.length ≤ (wbase s x).length := by
    unfold wbase; rw [List.length_append]; omega
  rw [write_data, List.length_append, List.length_append, hl, List.length_drop]
  omega

/-- **stability (4)**: a write that lies entirely before or entirely behind the window `[a, a+n)`
    (which lies inside the stream) leaves the window as it was -/
theorem write_window_stable (s : LogStream) (x : Bytes) (a n : Nat) (hin : a + n ≤ s.data.length)
    (ho : a + n ≤ s.cur ∨ s.cur + x.length ≤ a) :
    ((s.write x).data.drop a).take n = (s.data.drop a).take n := by
  apply slice_eq_of_get
  intro i h1 h2
  exact write_get_outside s x i (by omega) (by omega)

/-- a zero-length write changes no byte at all, wherever the cursor is -/
theorem write_nil_get (s : LogStream) (i : Nat) (hi : i < s.data.length) :
    (s.write []).data[i]? = s.data[i]? :=
  write_get_outside s [] i hi (by simp only [List.length_nil]; omega)

theorem align_get_outside (s : LogStream) (i : Nat) (hi : i < s.data.length)
    (ho : i < s.cur ∨ s.cur + 3 ≤ i) : s.align.data[i]? = s.data[i]? := by
  unfold LogStream.align
  split
  · exact write_get_outside s _ i hi (by rw [zeros_length]; omega)
  · rfl

theorem align_length_ge (s : LogStream) : s.data.length ≤ s.align.data.length := by
  unfold LogStream.align
  split
  · exact write_length_ge s _
  · exact Nat.le_refl _

theorem align_cur_ge (s : LogStream) : s.cur ≤ s.align.cur := by
  unfold LogStream.align
  split
  · show s.cur ≤ s.cur + _; omega
  · exact Nat.le_refl _

theorem align_window_stable (s : LogStream) (a n : Nat) (hin : a + n ≤ s.data.length)
    (ho : a + n ≤ s.cur ∨ s.cur + 3 ≤ a) :
    (s.align.data.drop a).take n = (s.data.drop a).take n := by
  apply slice_eq_of_get
  intro i h1 h2
  exact align_get_outside s i (by omega) (by omega)

/-! ## B. the reader side -/

/-- a healthy reader over the paged image of `d`: any cache state, any position -/
def Healthy (d : Bytes) (r : PR) : Prop :=
  r.CacheInv ∧ r.pageSize = 1024 ∧ r.dev.data = Spec.image d

theorem Healthy.at {d : Bytes} {r : PR} (h : Healthy d r) : At d r r.offset :=
  ⟨h.1, h.2.1, h.2.2, rfl⟩

theorem healthy_of_at {d : Bytes} {r : PR} {o : Nat} (h : At d r o) : Healthy d r :=
  ⟨h.1, h.2.1, h.2.2.1⟩

theorem blobHeader_id (L : Nat) : leVal ((blobHeaderBytes L).take 1) = 0 := rfl

theorem blobHeader_len (L : Nat) : leVal (((blobHeaderBytes L).drop 8).take 8) = L % 2 ^ 64 := by
  have : ((blobHeaderBytes L).drop 8).take 8 = toLE L 8 := by
    unfold blobHeaderBytes
    rw [drop_append_len (zeros 8) (toLE L 8) 8 0 (zeros_length 8)]
    rw [List.drop_zero, List.take_of_length_le (by rw [toLE_length]; omega)]
  rw [this, leVal_toLE]

/-- `Blob::read` of a descriptor that points at a section header `h` (id byte 0, section length not
    smaller than the descriptor's length minus 16) followed by `data` in the logical stream -/
theorem blobRead_holds {d : Bytes} (hd : d.length % 1020 = 0) {r0 : PR} (hr : Healthy d r0)
    (s : Nat) (h data : Bytes) (hh : h.length = 16) (hid : leVal (h.take 1) = 0)
    (hsl : data.length ≤ leVal ((h.drop 8).take 8) + 16) (hX : Holds d s (h ++ data)) :
    ∃ r', blobRead r0 ⟨l2p s, data.length⟩ = (r', some data) ∧ At d r' (s + 16 + data.length) := by
  have hle := hX.le
  rw [List.length_append, hh] at hle
  obtain ⟨r1, e1, a1⟩ := seek_at hd s hr.at (by omega)
  obtain ⟨r2, e2, a2⟩ := readExact_holds' hd h 16 a1 hX.left hh
  obtain ⟨r3, e3, a3⟩ := readExact_holds hd data a2 (hX.right' (by rw [hh]))
  refine ⟨r3, ?_, a3⟩
  unfold blobRead
  simp only [e1, e2, hid, ne_eq, not_true_eq_false, if_false]
  rw [if_neg (by omega), e3]

/-! ## C. the writer side: where `blobWrite` puts the bytes -/

/-- the section length the writer stores: header + data, padded to a multiple of four -/
def secLen (n : Nat) : Nat := (16 + n + 3) / 4 * 4

/-- the bytes of a blob section: header followed by the data -/
def blobBytes (data : Bytes) : Bytes := blobHeaderBytes (secLen data.length) ++ data

theorem blobBytes_length (data : Bytes) : (blobBytes data).length = 16 + data.length := by
  unfold blobBytes; rw [List.length_append, blobHeaderBytes_length]

theorem write_length (s : LogStream) (x : Bytes) :
    (s.write x).data.length = max s.data.length ((s.cur + x.length + 1019) / 1020 * 1020) := by
  have h1 := wbase_length s x
  have hl := wbase_take_length s x
  have h2 : (wbase s x).length = max s.data.length ((s.cur + x.length + 1019) / 1020 * 1020) := by
    unfold wbase; rw [List.length_append, zeros_length]; omega
  rw [write_data, List.length_append, List.length_append, hl, List.length_drop]
  omega

theorem write_end_le (s : LogStream) (x : Bytes) : s.cur + x.length ≤ (s.write x).data.length := by
  have h1 := wbase_length s x
  have hl := wbase_take_length s x
  rw [write_data, List.length_append, List.length_append, hl, List.length_drop]
  omega

/-- **write side**: after `blobWrite` the logical stream carries `header ++ data` at the old cursor,
    the descriptor is (physical image of the old cursor, |data|), the new cursor is behind the
    section and the writer is well-formed again -/
theorem blob_window (pw : PW) (data : Bytes) (hpw : pw.Inv) (pw' : PW) (b : BlobRef)
    (hw : blobWrite pw data = .ok (pw', b)) :
    (pw'.abs.data.drop pw.abs.cur).take (16 + data.length) = blobBytes data ∧
    b = ⟨l2p pw.abs.cur, data.length⟩ ∧
    pw.abs.cur + 16 + data.length ≤ pw'.abs.cur ∧ pw'.abs.cur ≤ pw'.abs.data.length ∧
    pw'.Inv ∧ pw'.abs = (pw.abs.write (blobBytes data)).align := by
  obtain ⟨pw'', e, inv', a⟩ := blobWrite_spec pw data hpw
  rw [hw] at e
  injection e with e
  injection e with e1 e2
  subst e1
  have hpos := pw_position pw hpw
  unfold LogStream.physPos at hpos
  have hl := blobBytes_length data
  have hend := write_end_le pw.abs (blobBytes data)
  have hcur : (pw.abs.write (blobBytes data)).cur = pw.abs.cur + (16 + data.length) := by
    rw [spec_write_cur, hl]
  have hwin := write_window pw.abs (blobBytes data)
  rw [hl] at hwin hend
  have a' : pw'.abs = (pw.abs.write (blobBytes data)).align := a
  refine ⟨?_, by rw [e2, hpos], ?_, (abs_wf pw' inv').2, inv', a'⟩
  · rw [a', align_window_stable _ _ _ hend (Or.inl (by rw [hcur]; omega)), hwin]
  · rw [a']
    have := align_cur_ge (pw.abs.write (blobBytes data))
    omega

/-- the stream grows by at most the section, its padding and one page -/
theorem blob_length_le (pw : PW) (data : Bytes) (hpw : pw.Inv) (pw' : PW) (b : BlobRef)
    (hw : blobWrite pw data = .ok (pw', b)) :
    pw'.abs.data.length ≤ pw.abs.data.length + (16 + data.length) + 1022 := by
  obtain ⟨-, -, -, -, -, a⟩ := blob_window pw data hpw pw' b hw
  have hc := (abs_wf pw hpw).2
  have h1 := write_length pw.abs (blobBytes data)
  have h2 : (pw.abs.write (blobBytes data)).cur = pw.abs.cur + (16 + data.length) := by
    rw [spec_write_cur, blobBytes_length]
  rw [blobBytes_length] at h1
  rw [a]
  unfold LogStream.align
  split
  · rw [write_length, h1, h2, zeros_length]; omega
  · rw [h1]; omega

/-! ## D. round trip -/

/-- core form: `h64` is exactly "the section length fits the header's u64 field" -/
theorem blob_roundtrip_core (pw : PW) (data : Bytes) (hpw : pw.Inv) (pw' : PW) (b : BlobRef)
    (hw : blobWrite pw data = .ok (pw', b))
    (d : Bytes) (hd : d.length % 1020 = 0) (h64 : secLen data.length < 2 ^ 64)
    (hwin : (d.drop pw.abs.cur).take (16 + data.length)
              = (pw'.abs.data.drop pw.abs.cur).take (16 + data.length))
    (r0 : PR) (hr : Healthy d r0) :
    ∃ r', blobRead r0 b = (r', some data) ∧ Healthy d r' ∧
      r'.offset = pw.abs.cur + 16 + data.length := by
  obtain ⟨w1, w2, -⟩ := blob_window pw data hpw pw' b hw
  rw [w1] at hwin
  have hl := blobBytes_length data
  have hX : Holds d pw.abs.cur (blobBytes data) := by
    apply Holds.of_slice
    · rw [hl]; exact hwin
    · intro h; rw [h] at hl; simp only [List.length_nil] at hl; omega
  obtain ⟨r', e, a⟩ := blobRead_holds hd hr pw.abs.cur (blobHeaderBytes (secLen data.length)) data
    (blobHeaderBytes_length _) (blobHeader_id _)
    (by rw [blobHeader_len, Nat.mod_eq_of_lt h64]; unfold secLen; omega) hX
  rw [w2]
  exact ⟨r', e, healthy_of_at a, a.2.2.2⟩

/-- **C06, theorem 1** — every blob written is read back byte-exactly: for every well-formed page
    writer, every `data` (also `[]`), every complete paged logical stream `d` below the u64 limit that
    still carries the written window, and every healthy reader over the image of `d` (any cache
    state, any position), `Blob::read` of the returned descriptor yields exactly `data`. -/
theorem blob_roundtrip (pw : PW) (data : Bytes) (hpw : pw.Inv) (pw' : PW) (b : BlobRef)
    (hw : blobWrite pw data = .ok (pw', b))
    (d : Bytes) (hd : d.length % 1020 = 0) (h64 : l2p d.length < 2 ^ 64)
    (hwin : (d.drop pw.abs.cur).take (16 + data.length)
              = (pw'.abs.data.drop pw.abs.cur).take (16 + data.length))
    (r0 : PR) (hr : Healthy d r0) :
    (blobRead r0 b).2 = some data ∧ Healthy d (blobRead r0 b).1 := by
  obtain ⟨w1, -, w3, w4, -⟩ := blob_window pw data hpw pw' b hw
  have hlen := congrArg List.length hwin
  simp only [List.length_take, List.length_drop] at hlen
  have h64' : secLen data.length < 2 ^ 64 := by
    unfold l2p at h64; unfold secLen; omega
  obtain ⟨r', e, h, -⟩ := blob_roundtrip_core pw data hpw pw' b hw d hd h64' hwin r0 hr
  rw [e]; exact ⟨rfl, h⟩

/-! ## E. `blobWrite` succeeds (theorem 2) -/

/-- **C06, theorem 2** — on a well-formed page writer (ideal, fault-free device) `Blob::write`
    returns `Ok`: no error, no panic; with the descriptor and the stream it leaves behind
    (re-export of `blobWrite_spec`) -/
theorem blobWrite_ok (pw : PW) (data : Bytes) (hpw : pw.Inv) :
    ∃ pw', blobWrite pw data = .ok (pw', ⟨pw.physicalPosition, data.length⟩) ∧ pw'.Inv ∧
      pw'.abs = (pw.abs.write (blobBytes data)).align :=
  blobWrite_spec pw data hpw

/-! ## F. `blobRead` returns exactly the descriptor's bytes or an error (theorem 3) -/

/-- a successful `read_exact(n)` of a healthy reader returned the next `n` bytes of the stream -/
theorem readExact_some {d : Bytes} (hd : d.length % 1020 = 0) {r : PR} {o : Nat} (h : At d r o)
    (n : Nat) (r' : PR) (bs : Bytes) (e : r.readExact n = (r', some bs)) :
    bs = (d.drop o).take n ∧ bs.length = n ∧ At d r' (o + n) ∧ (0 < n → o + n ≤ d.length) := by
  obtain ⟨hinv, hps, hdata, ho⟩ := h
  obtain ⟨k1, k2, k3⟩ := pr_reads_stream_exact_partial d r n hd hinv hps hdata
  rw [ho] at k1 k2
  by_cases hn : n = 0
  · subst hn
    rw [k3 rfl] at e
    injection e with e1 e2
    injection e2 with e2
    subst e1; subst e2
    exact ⟨by simp, rfl, ⟨hinv, hps, hdata, by omega⟩, fun h => by omega⟩
  · by_cases hle : o + n ≤ d.length
    · obtain ⟨r'', e', o', inv', sf⟩ := k1 hle
      rw [e'] at e
      injection e with e1 e2
      injection e2 with e2
      subst e1; subst e2
      refine ⟨rfl, ?_, ⟨inv', sf.2.1.trans hps, sf.1.trans hdata, o'⟩, fun _ => hle⟩
      rw [List.length_take, List.length_drop]; omega
    · have := k2 (by omega) (by omega)
      rw [e] at this
      cases this

/-- **C06, theorem 3a** — for EVERY reader state and EVERY descriptor (garbage included), over any
    device content: what `Blob::read` returns has exactly the descriptor's length -/
theorem blobRead_exact_or_error (r : PR) (b : BlobRef) (bytes : Bytes)
    (h : (blobRead r b).2 = some bytes) : bytes.length = b.length :=
  E57.blobRead_exact_or_error r b bytes h

/-- **C06, theorem 3b** — over the image of a complete stream `d`, for EVERY descriptor: if
    `Blob::read` returns bytes, they are the `b.length` bytes that really lie 16 bytes behind the
    logical image of `b.offset` — all of them inside the stream — and the 16 bytes in front of them
    are a header with id byte 0 whose section length is at least `b.length - 16`. -/
theorem blobRead_returns_stream {d : Bytes} (hd : d.length % 1020 = 0) {r : PR} (hr : Healthy d r)
    (b : BlobRef) (bytes : Bytes) (h : (blobRead r b).2 = some bytes) :
    bytes = (d.drop (p2l b.offset + 16)).take b.length ∧ bytes.length = b.length ∧
    p2l b.offset + 16 + b.length ≤ d.length ∧
    leVal ((d.drop (p2l b.offset)).take 1) = 0 ∧
    b.length ≤ leVal ((d.drop (p2l b.offset + 8)).take 8) + 16 ∧
    Healthy d (blobRead r b).1 := by
  have hH : Healthy d (blobRead r b).1 := by
    obtain ⟨i, sf, -⟩ := blobRead_spec r b _ _ hr.1 rfl
    exact ⟨i, sf.2.1.trans hr.2.1, sf.1.trans hr.2.2⟩
  refine (fun ⟨a, b, c, d, e⟩ => ⟨a, b, c, d, e, hH⟩ :
    _ ∧ _ ∧ _ ∧ _ ∧ _ → _) ?_
  clear hH
  unfold blobRead at h
  split at h
  · rename_i r1 o e1
    obtain ⟨-, e, ho⟩ := (pr_seek_translate r b.offset).2 r1 o e1
    have ho := ho hr.2.1
    have a1 : At d r1 (p2l b.offset) := by
      rw [e]; exact ⟨hr.1, hr.2.1, hr.2.2, ho⟩
    split at h
    · rename_i r2 hdr e2
      obtain ⟨x1, x2, a2, x4⟩ := readExact_some hd a1 16 r2 hdr e2
      have x4 := x4 (by omega)
      dsimp only at h
      split at h
      · cases h
      · rename_i hid
        split at h
        · cases h
        · rename_i hsl
          split at h
          · rename_i r3 dat e3
            obtain ⟨y1, y2, a3, y4⟩ := readExact_some hd a2 b.length r3 dat e3
            injection h with h
            subst h
            have hid' : leVal ((d.drop (p2l b.offset)).take 1) = 0 := by
              have : hdr.take 1 = (d.drop (p2l b.offset)).take 1 := by
                rw [x1, List.take_take]; congr 1
              rw [← this]
              exact Decidable.of_not_not hid
            have hsl' : ((hdr.drop 8).take 8) = (d.drop (p2l b.offset + 8)).take 8 := by
              rw [x1, List.drop_take, List.take_take, List.drop_drop]; congr 1
            rw [hsl'] at hsl
            refine ⟨y1, y2, ?_, hid', by omega⟩
            by_cases hz : b.length = 0
            · omega
            · have := y4 (by omega); omega
          · cases h
    · cases h
  · cases h

/-- Observation (not a violation of C06, the returned bytes are still exactly the descriptor's
    length and exactly what lies in the file): the header check `length > section_length + 16` is
    lax by 32 bytes, because `section_length` already contains the 16 header bytes.  A descriptor
    that points at a genuine blob but claims up to 32 bytes more than the blob holds is accepted,
    and the read runs on into whatever follows the blob (`extra`). -/
theorem blobRead_overlong_accepted {d : Bytes} (hd : d.length % 1020 = 0) {r0 : PR}
    (hr : Healthy d r0) (s : Nat) (data extra : Bytes) (h64 : secLen data.length < 2 ^ 64)
    (hex : extra.length ≤ 32) (hX : Holds d s (blobBytes data ++ extra)) :
    (blobRead r0 ⟨l2p s, data.length + extra.length⟩).2 = some (data ++ extra) := by
  unfold blobBytes at hX
  rw [List.append_assoc] at hX
  obtain ⟨r', e, -⟩ := blobRead_holds hd hr s (blobHeaderBytes (secLen data.length)) (data ++ extra)
    (blobHeaderBytes_length _) (blobHeader_id _)
    (by rw [blobHeader_len, Nat.mod_eq_of_lt h64, List.length_append]; unfold secLen; omega) hX
  rw [List.length_append] at e
  rw [e]

/-! ### the size bound of theorem 1 is necessary -/

/-- theorem 1 without the bound `l2p d.length < 2^64` … -/
def blob_roundtrip_unbounded_statement : Prop :=
  ∀ (pw : PW) (data : Bytes), pw.Inv → ∀ (pw' : PW) (b : BlobRef),
    blobWrite pw data = .ok (pw', b) → ∀ (d : Bytes), d.length % 1020 = 0 →
    (d.drop pw.abs.cur).take (16 + data.length)
      = (pw'.abs.data.drop pw.abs.cur).take (16 + data.length) →
    ∀ (r0 : PR), Healthy d r0 → (blobRead r0 b).2 = some data

theorem slice_of_slice {α} (d : List α) (s n i k : Nat) (h : i + k ≤ n) :
    (d.drop (s + i)).take k = (((d.drop s).take n).drop i).take k := by
  rw [List.drop_take, List.take_take, List.drop_drop, Nat.min_eq_left (by omega)]

/-- … is false in the model (`Nat` lengths): a blob of `2^64 - 16` bytes gets the section length
    `2^64`, which the 8-byte header field stores as 0; the reader then refuses the descriptor.
    (In the crate lengths are `u64` and such a blob cannot exist in memory; there `16 + length`
    would overflow first.) -/
theorem blob_roundtrip_unbounded_statement_false : ¬ blob_roundtrip_unbounded_statement := by
  intro h
  obtain ⟨pw, -, inv0, abs0⟩ := pw_new
  obtain ⟨data, hlen⟩ : ∃ data : Bytes, data.length = 2 ^ 64 - 16 :=
    ⟨List.replicate (2 ^ 64 - 16) 0, List.length_replicate⟩
  obtain ⟨pw', e, inv', -⟩ := blobWrite_ok pw data inv0
  obtain ⟨w1, -, w3, w4, -⟩ := blob_window pw data inv0 pw' _ e
  have hcur : pw.abs.cur = 0 := by rw [abs0]; rfl
  have hd := (abs_wf pw' inv').1
  have hne : pw'.abs.data ≠ [] := by
    intro h; rw [h] at w4; simp only [List.length_nil] at w4; omega
  obtain ⟨r0, n1, -⟩ := pr_new_image pw'.abs.data 0 hd hne
  have hH : Healthy pw'.abs.data r0 := by
    obtain ⟨x1, x2, -⟩ := pr_new_data _ _ r0 n1
    exact ⟨pr_new_inv _ _ r0 n1, x2, x1⟩
  have hr := h pw data inv0 pw' _ e pw'.abs.data hd rfl r0 hH
  obtain ⟨-, -, -, -, x5, -⟩ := blobRead_returns_stream hd hH _ data hr
  have hpos : p2l pw.physicalPosition = 0 := by
    rw [pw_position pw inv0]; unfold LogStream.physPos l2p p2l; rw [hcur]
  rw [hcur] at w1
  have hs := slice_of_slice pw'.abs.data 0 (16 + data.length) 8 8 (by omega)
  rw [w1] at hs
  have hb : ((blobBytes data).drop 8).take 8
      = ((blobHeaderBytes (secLen data.length)).drop 8).take 8 := by
    unfold blobBytes
    rw [List.drop_append_of_le_length (by rw [blobHeaderBytes_length]; omega),
      List.take_append_of_le_length (by rw [List.length_drop, blobHeaderBytes_length]; omega)]
  simp only at x5
  rw [hpos, hs, hb, blobHeader_len] at x5
  unfold secLen at x5
  rw [hlen] at x5
  omega

/-! ## G. stability through any later history of the page writer (theorem 4) -/

/-- operation `op`, applied in state `s`, does not write into the window `[a, a+n)`:
    a write lies entirely before or behind it (or is empty); `align` pads behind or before it (or
    not at all); seek / flush / size never change the stream -/
def OpOutside (a n : Nat) (s : LogStream) : WOp → Prop
  | .write x => x = [] ∨ a + n ≤ s.cur ∨ s.cur + x.length ≤ a
  | .align => s.cur % 4 = 0 ∨ a + n ≤ s.cur ∨ s.cur + 3 ≤ a
  | _ => True

/-- no operation of the history writes into the window -/
def Outside (a n : Nat) : LogStream → List WOp → Prop
  | _, [] => True
  | s, op :: ops => OpOutside a n s op ∧ Outside a n (stepSpec s op) ops

theorem step_window_stable (s : LogStream) (op : WOp) (a n : Nat) (hin : a + n ≤ s.data.length)
    (ho : OpOutside a n s op) :
    ((stepSpec s op).data.drop a).take n = (s.data.drop a).take n ∧
      a + n ≤ (stepSpec s op).data.length := by
  cases op with
  | write x =>
    refine ⟨?_, Nat.le_trans hin (write_length_ge s x)⟩
    rcases ho with ho | ho
    · subst ho
      exact slice_eq_of_get _ _ _ _ (fun i _ h2 => write_nil_get s i (by omega))
    · exact write_window_stable s x a n hin ho
  | seek p => exact ⟨by show ((s.seek p).data.drop a).take n = _; rw [spec_seek_data], by
      show a + n ≤ (s.seek p).data.length; rw [spec_seek_data]; exact hin⟩
  | flush => exact ⟨rfl, hin⟩
  | align =>
    refine ⟨?_, Nat.le_trans hin (align_length_ge s)⟩
    rcases ho with ho | ho
    · show (s.align.data.drop a).take n = _
      unfold LogStream.align
      rw [if_neg (by omega)]
    · exact align_window_stable s a n hin ho
  | size => exact ⟨rfl, hin⟩

/-- **C06, theorem 4** — any history of page-writer operations none of which writes into the
    window (later sections, the file header at offset 0, other blobs and their header patches)
    leaves the window unchanged -/
theorem run_window_stable (ops : List WOp) : ∀ (s : LogStream) (a n : Nat),
    a + n ≤ s.data.length → Outside a n s ops →
    ((runSpec ops s).data.drop a).take n = (s.data.drop a).take n ∧
      a + n ≤ (runSpec ops s).data.length := by
  induction ops with
  | nil => intro s a n hin _; exact ⟨rfl, hin⟩
  | cons op ops ih =>
    intro s a n hin ho
    obtain ⟨h1, h2⟩ := step_window_stable s op a n hin ho.1
    obtain ⟨h3, h4⟩ := ih (stepSpec s op) a n h2 ho.2
    exact ⟨h3.trans h1, h4⟩

theorem runSpec_append (o1 o2 : List WOp) (s : LogStream) :
    runSpec (o1 ++ o2) s = runSpec o2 (runSpec o1 s) := by
  induction o1 generalizing s with
  | nil => rfl
  | cons op o1 ih => exact ih _

theorem outside_append (a n : Nat) (o1 o2 : List WOp) (s : LogStream) :
    Outside a n s (o1 ++ o2) ↔ Outside a n s o1 ∧ Outside a n (runSpec o1 s) o2 := by
  induction o1 generalizing s with
  | nil => exact ⟨fun h => ⟨trivial, h⟩, fun h => h.2⟩
  | cons op o1 ih =>
    show (_ ∧ Outside a n _ (o1 ++ o2)) ↔ (_ ∧ _) ∧ _
    rw [ih]
    exact ⟨fun ⟨x, y, z⟩ => ⟨⟨x, y⟩, z⟩, fun ⟨⟨x, y⟩, z⟩ => ⟨x, y, z⟩⟩

/-- what a later `blobWrite` does to the stream, as a history -/
def blobOps (data : Bytes) : List WOp := [.write (blobBytes data), .align]

theorem blob_abs_run (pw : PW) (data : Bytes) (hpw : pw.Inv) (pw' : PW) (b : BlobRef)
    (hw : blobWrite pw data = .ok (pw', b)) : pw'.abs = runSpec (blobOps data) pw.abs :=
  (blob_window pw data hpw pw' b hw).2.2.2.2.2

/-- a (later) blob written with the cursor at or behind the end of the window is outside it -/
theorem blobOps_outside (a n : Nat) (s : LogStream) (data : Bytes) (h : a + n ≤ s.cur) :
    Outside a n s (blobOps data) := by
  refine ⟨Or.inr (Or.inl h), Or.inr (Or.inl ?_), trivial⟩
  show a + n ≤ s.cur + _
  omega

/-- theorem 1 with the hypothesis of stability discharged: after the blob any history outside its
    window may follow -/
theorem blob_roundtrip_after (pw : PW) (data : Bytes) (hpw : pw.Inv) (pw' : PW) (b : BlobRef)
    (hw : blobWrite pw data = .ok (pw', b)) (ops : List WOp)
    (ho : Outside pw.abs.cur (16 + data.length) pw'.abs ops)
    (d : Bytes) (hd : d.length % 1020 = 0) (h64 : l2p d.length < 2 ^ 64)
    (hwin : (d.drop pw.abs.cur).take (16 + data.length)
              = ((runSpec ops pw'.abs).data.drop pw.abs.cur).take (16 + data.length))
    (r0 : PR) (hr : Healthy d r0) :
    (blobRead r0 b).2 = some data ∧ Healthy d (blobRead r0 b).1 := by
  obtain ⟨-, -, w3, w4, -⟩ := blob_window pw data hpw pw' b hw
  obtain ⟨h1, -⟩ := run_window_stable ops pw'.abs pw.abs.cur (16 + data.length) (by omega) ho
  exact blob_roundtrip pw data hpw pw' b hw d hd h64 (hwin.trans h1) r0 hr

/-- file level: write the blob, run any history outside its window, flush; open the device
    contents with a fresh `PagedReader` and do anything with it (`PR.Reach`: seeks, reads, failed
    reads …) — `Blob::read` then returns the data -/
theorem blob_roundtrip_file (pw : PW) (data : Bytes) (hpw : pw.Inv) (pw' : PW) (b : BlobRef)
    (hw : blobWrite pw data = .ok (pw', b)) (ops : List WOp)
    (ho : Outside pw.abs.cur (16 + data.length) pw'.abs ops)
    (pwF : PW) (hrun : runConcrete ops pw' = .ok pwF)
    (h64 : pwF.flush.dev.data.length < 2 ^ 64)
    (pos : Nat) (r0 : PR) (hreach : PR.Reach ⟨pwF.flush.dev.data, pos⟩ 1024 r0) :
    (blobRead r0 b).2 = some data := by
  obtain ⟨-, -, -, -, inv', -⟩ := blob_window pw data hpw pw' b hw
  obtain ⟨pwF', e, invF, aF⟩ := pw_run ops pw' inv'
  rw [hrun] at e
  injection e with e
  subst e
  obtain ⟨-, -, hfile⟩ := pw_flush pwF invF
  have hd := (abs_wf pwF invF).1
  obtain ⟨ci, dd, pp⟩ := pr_reach_inv _ _ r0 hreach
  have hl := image_length pwF.abs.data hd
  rw [hfile] at h64 dd
  rw [hl] at h64
  refine (blob_roundtrip_after pw data hpw pw' b hw ops ho pwF.abs.data hd ?_ (by rw [aF]) r0
    ⟨ci, pp, dd⟩).1
  unfold l2p; omega

/-- a generic finishing history — more sections / the XML behind the blob, then a seek to the
    file start and a header — is outside the blob's window.  (The model's `EW.finalize` has a
    different shape, see `finalizeOps` / `outside_finalize` in section J.) -/
theorem outside_finish (a n : Nat) (s : LogStream) (x h : Bytes) (hs : a + n ≤ s.cur)
    (hh : h.length ≤ a) : Outside a n s [.write x, .size, .seek 0, .write h, .flush] := by
  refine ⟨Or.inr (Or.inl hs), trivial, trivial, ?_, trivial, trivial⟩
  show h = [] ∨ a + n ≤ ((s.write x).seek 0).cur ∨ ((s.write x).seek 0).cur + h.length ≤ a
  unfold LogStream.seek
  split
  · right; right; show p2l 0 + h.length ≤ a; unfold p2l; omega
  · right; left; show a + n ≤ s.cur + x.length; omega

/-- (1) + (4) for a finished file: blob written behind the (placeholder) file header, then the
    rest of the file, then the real header at offset 0; any reader state over the finished file
    returns the blob -/
theorem blob_survives_finish (pw : PW) (data : Bytes) (hpw : pw.Inv) (pw' : PW) (b : BlobRef)
    (hw : blobWrite pw data = .ok (pw', b)) (rest hdr : Bytes) (hh : hdr.length ≤ pw.abs.cur)
    (pwF : PW) (hrun : runConcrete [.write rest, .size, .seek 0, .write hdr, .flush] pw' = .ok pwF)
    (h64 : pwF.flush.dev.data.length < 2 ^ 64)
    (pos : Nat) (r0 : PR) (hreach : PR.Reach ⟨pwF.flush.dev.data, pos⟩ 1024 r0) :
    (blobRead r0 b).2 = some data := by
  obtain ⟨-, -, w3, -⟩ := blob_window pw data hpw pw' b hw
  exact blob_roundtrip_file pw data hpw pw' b hw _
    (outside_finish _ _ _ rest hdr (by omega) hh) pwF hrun h64 pos r0 hreach

/-! ## H. two blobs (theorem 5): each descriptor leads to its own data -/

theorem l2p_strict {x y : Nat} (h : x < y) : l2p x < l2p y := by
  unfold l2p
  have : x / 1020 ≤ y / 1020 := Nat.div_le_div_right (Nat.le_of_lt h)
  omega

/-- **C06, theorem 5** — write blob `A`, then blob `B` (any lengths, also empty), then any history
    outside both windows.  Over every complete stream `d` that still carries both windows, every
    healthy reader gets `A` for the first descriptor and `B` for the second, in either order of
    reading and also one after the other with the same reader; the descriptors are different. -/
theorem two_blobs (pw : PW) (A B : Bytes) (hpw : pw.Inv) (pw1 pw2 : PW) (bA bB : BlobRef)
    (hA : blobWrite pw A = .ok (pw1, bA)) (hB : blobWrite pw1 B = .ok (pw2, bB))
    (ops : List WOp)
    (hoA : Outside pw.abs.cur (16 + A.length) pw2.abs ops)
    (hoB : Outside pw1.abs.cur (16 + B.length) pw2.abs ops)
    (d : Bytes) (hd : d.length % 1020 = 0) (h64 : l2p d.length < 2 ^ 64)
    (hwinA : (d.drop pw.abs.cur).take (16 + A.length)
              = ((runSpec ops pw2.abs).data.drop pw.abs.cur).take (16 + A.length))
    (hwinB : (d.drop pw1.abs.cur).take (16 + B.length)
              = ((runSpec ops pw2.abs).data.drop pw1.abs.cur).take (16 + B.length))
    (r0 : PR) (hr : Healthy d r0) :
    (blobRead r0 bA).2 = some A ∧ (blobRead r0 bB).2 = some B ∧
    (blobRead (blobRead r0 bA).1 bB).2 = some B ∧ (blobRead (blobRead r0 bB).1 bA).2 = some A ∧
    bA.offset < bB.offset := by
  obtain ⟨-, a2, a3, -, inv1, -⟩ := blob_window pw A hpw pw1 bA hA
  obtain ⟨-, b2, -⟩ := blob_window pw1 B inv1 pw2 bB hB
  have e2 := blob_abs_run pw1 B inv1 pw2 bB hB
  have hoA' : Outside pw.abs.cur (16 + A.length) pw1.abs (blobOps B ++ ops) := by
    rw [outside_append, ← e2]
    exact ⟨blobOps_outside _ _ _ B (by omega), hoA⟩
  have hwinA' : (d.drop pw.abs.cur).take (16 + A.length)
      = ((runSpec (blobOps B ++ ops) pw1.abs).data.drop pw.abs.cur).take (16 + A.length) := by
    rw [runSpec_append, ← e2]; exact hwinA
  have rA : ∀ r, Healthy d r → (blobRead r bA).2 = some A ∧ Healthy d (blobRead r bA).1 :=
    fun r h => blob_roundtrip_after pw A hpw pw1 bA hA (blobOps B ++ ops) hoA' d hd h64 hwinA' r h
  have rB : ∀ r, Healthy d r → (blobRead r bB).2 = some B ∧ Healthy d (blobRead r bB).1 :=
    fun r h => blob_roundtrip_after pw1 B inv1 pw2 bB hB ops hoB d hd h64 hwinB r h
  refine ⟨(rA r0 hr).1, (rB r0 hr).1, (rB _ (rA r0 hr).2).1, (rA _ (rB r0 hr).2).1, ?_⟩
  rw [a2, b2]
  exact l2p_strict (by omega)

/-! ## I. non-vacuity (6) -/

/-- 1100 bytes 0, 1, …, 255, 0, 1, … -/
def straddleData : Bytes := (List.range 1100).map UInt8.ofNat

theorem straddleData_length : straddleData.length = 1100 := by
  unfold straddleData; rw [List.length_map, List.length_range]

/-- a concrete, non-trivial instance of every hypothesis of `blob_roundtrip` /
    `blob_roundtrip_file`: the writer has 1010 bytes in its first page, so the 16-byte header
    occupies logical offsets 1010 … 1025 and straddles the first page boundary (physical bytes
    1020 … 1023 are the checksum); the 1100 data bytes (not all equal) run from 1026 to 2125 and
    cross the second boundary (2040).  The blob is read back from the file image. -/
theorem straddle_instance :
    ∃ (pw pw' : PW) (b : BlobRef) (r0 : PR),
      pw.Inv ∧ pw.abs.cur = 1010 ∧ pw.abs.cur % 1020 > 1004 ∧
      blobWrite pw straddleData = .ok (pw', b) ∧ b = ⟨1010, 1100⟩ ∧
      pw'.abs.data.length % 1020 = 0 ∧ l2p pw'.abs.data.length < 2 ^ 64 ∧
      PR.new ⟨pw'.flush.dev.data, 0⟩ 1024 = .ok r0 ∧ Healthy pw'.abs.data r0 ∧
      (blobRead r0 b).2 = some straddleData := by
  obtain ⟨wa, e0, inv0, abs0⟩ := pw_new
  obtain ⟨pw, e1, inv1, abs1⟩ := pw_writeAll wa (List.replicate 1010 7) inv0
  have hdata := straddleData_length
  generalize straddleData = data at hdata
  obtain ⟨pw', e2, inv2, abs2⟩ := blobWrite_ok pw data inv1
  have hcur : pw.abs.cur = 1010 := by
    rw [abs1, abs0, spec_write_cur, List.length_replicate]; rfl
  have hlen1 : pw.abs.data.length = 1020 := by
    rw [abs1, abs0, write_length, List.length_replicate]; rfl
  have hlen2 : pw'.abs.data.length = 3060 := by
    have h1 : (pw.abs.write (blobBytes data)).data.length = 3060 := by
      rw [write_length, blobBytes_length, hlen1, hcur, hdata]; omega
    have h2 : (pw.abs.write (blobBytes data)).cur = 2126 := by
      rw [spec_write_cur, blobBytes_length, hcur, hdata]
    rw [abs2]
    unfold LogStream.align
    rw [if_pos (by rw [h2]; decide), write_length, h1, h2, zeros_length]; omega
  have hd : pw'.abs.data.length % 1020 = 0 := by rw [hlen2]
  have hne : pw'.abs.data ≠ [] := by
    intro h; rw [h] at hlen2; simp at hlen2
  obtain ⟨-, -, hfile⟩ := pw_flush pw' inv2
  obtain ⟨r0, n1, -⟩ := pr_new_image pw'.abs.data 0 hd hne
  rw [← hfile] at n1
  have hH : Healthy pw'.abs.data r0 := by
    obtain ⟨x1, x2, -⟩ := pr_new_data _ _ r0 n1
    exact ⟨pr_new_inv _ _ r0 n1, x2, by rw [x1, hfile]⟩
  have hpos : pw.physicalPosition = 1010 := by
    rw [pw_position pw inv1]; unfold LogStream.physPos l2p; rw [hcur]
  rw [hpos, hdata] at e2
  have h64 : l2p pw'.abs.data.length < 2 ^ 64 := by rw [hlen2]; unfold l2p; omega
  refine ⟨pw, pw', ⟨1010, 1100⟩, r0, inv1, hcur, by rw [hcur]; omega, e2, rfl, hd,
    h64, n1, hH, ?_⟩
  exact (blob_roundtrip pw data inv1 pw' _ e2 pw'.abs.data hd h64 rfl r0 hH).1

/-- closed end-to-end form, no hypothesis but a size bound: from the empty writer write ANY prefix
    `pre` (so the blob starts at any position relative to the page boundaries), then ANY blob `data`
    (any length, also empty), flush, open the file with a fresh reader: the blob is read back. -/
theorem blob_roundtrip_closed (pre data : Bytes) (hsz : pre.length + data.length + 2057 < 2 ^ 63) :
    ∃ (pw pw' : PW) (b : BlobRef) (r0 : PR),
      runConcrete [.write pre] w0 = .ok pw ∧ blobWrite pw data = .ok (pw', b) ∧
      b = ⟨l2p pre.length, data.length⟩ ∧
      PR.new ⟨pw'.flush.dev.data, 0⟩ 1024 = .ok r0 ∧ (blobRead r0 b).2 = some data := by
  obtain ⟨wa, e0, inv0, abs0⟩ := pw_new
  rw [w0_new] at e0
  injection e0 with e0
  subst e0
  obtain ⟨pw, e1, inv1, abs1⟩ := pw_writeAll w0 pre inv0
  obtain ⟨pw', e2, inv2, -⟩ := blobWrite_ok pw data inv1
  have hcur : pw.abs.cur = pre.length := by
    rw [abs1, abs0, spec_write_cur]; show 0 + pre.length = _; omega
  have hlen1 : pw.abs.data.length ≤ pre.length + 1019 := by
    rw [abs1, abs0, write_length]
    show max 0 ((0 + pre.length + 1019) / 1020 * 1020) ≤ _
    omega
  have hlen2 := blob_length_le pw data inv1 pw' _ e2
  obtain ⟨-, w2, w3, w4, -⟩ := blob_window pw data inv1 pw' _ e2
  have hd := (abs_wf pw' inv2).1
  have hne : pw'.abs.data ≠ [] := by
    intro h; rw [h] at w4; simp only [List.length_nil] at w4; omega
  obtain ⟨-, -, hfile⟩ := pw_flush pw' inv2
  obtain ⟨r0, n1, -⟩ := pr_new_image pw'.abs.data 0 hd hne
  rw [← hfile] at n1
  have hH : Healthy pw'.abs.data r0 := by
    obtain ⟨x1, x2, -⟩ := pr_new_data _ _ r0 n1
    exact ⟨pr_new_inv _ _ r0 n1, x2, by rw [x1, hfile]⟩
  have h64 : l2p pw'.abs.data.length < 2 ^ 64 := by unfold l2p; omega
  refine ⟨pw, pw', _, r0, ?_, e2, by rw [w2, hcur], n1,
    (blob_roundtrip pw data inv1 pw' _ e2 pw'.abs.data hd h64 rfl r0 hH).1⟩
  show (w0.writeAll pre >>= runConcrete []) = _
  rw [e1]; rfl

/-- the hypotheses of `two_blobs` are satisfiable: an empty blob followed by a non-empty one -/
theorem two_blobs_instance :
    ∃ (pw pw1 pw2 : PW) (A B : Bytes) (bA bB : BlobRef) (r0 : PR),
      pw.Inv ∧ A = [] ∧ B = [1, 2, 3] ∧
      blobWrite pw A = .ok (pw1, bA) ∧ blobWrite pw1 B = .ok (pw2, bB) ∧
      Healthy pw2.abs.data r0 ∧
      (blobRead r0 bA).2 = some A ∧ (blobRead (blobRead r0 bA).1 bB).2 = some B := by
  obtain ⟨pw, -, inv0, abs0⟩ := pw_new
  obtain ⟨pw1, e1, inv1, -⟩ := blobWrite_ok pw [] inv0
  obtain ⟨pw2, e2, inv2, abs2⟩ := blobWrite_ok pw1 [1, 2, 3] inv1
  obtain ⟨-, -, w3, w4, -⟩ := blob_window pw1 [1, 2, 3] inv1 pw2 _ e2
  have hd := (abs_wf pw2 inv2).1
  have hne : pw2.abs.data ≠ [] := by
    intro h; rw [h] at w4; simp at w4; omega
  have l0 : pw.abs.data.length = 0 := by rw [abs0]; rfl
  have l1 := blob_length_le pw [] inv0 pw1 _ e1
  have l2 := blob_length_le pw1 [1, 2, 3] inv1 pw2 _ e2
  have h64 : l2p pw2.abs.data.length < 2 ^ 64 := by
    simp only [List.length_nil, List.length_cons] at l1 l2
    unfold l2p; omega
  obtain ⟨-, -, hfile⟩ := pw_flush pw2 inv2
  obtain ⟨r0, n1, -⟩ := pr_new_image pw2.abs.data 0 hd hne
  have hH : Healthy pw2.abs.data r0 := by
    obtain ⟨x1, x2, -⟩ := pr_new_data _ _ r0 n1
    exact ⟨pr_new_inv _ _ r0 n1, x2, x1⟩
  obtain ⟨t1, -, t3, -⟩ := two_blobs pw [] [1, 2, 3] inv0 pw1 pw2 _ _ e1 e2 [] trivial trivial
    pw2.abs.data hd h64 rfl rfl r0 hH
  exact ⟨pw, pw1, pw2, [], [1, 2, 3], _, _, r0, inv0, rfl, rfl, e1, e2, hH, t1, t3⟩

/-! ## J. the real `EW.finalize` (XML, align, header patch, seek back behind the XML, flush) -/

theorem fileHeaderBytes_length (a b c : Nat) : (fileHeaderBytes a b c).length = 48 := by
  have h : (utf8 "ASTM-E57").length = 8 := by decide +kernel
  unfold fileHeaderBytes
  simp only [List.length_append, toLE_length, h]

/-- the page-writer history of `EW.finalize`: XML, align, size, seek to the file start, the
    48-byte file header, seek back behind the aligned XML, flush -/
def finalizeOps (xml hdr : Bytes) (endOff : Nat) : List WOp :=
  [.write xml, .align, .size, .seek 0, .write hdr, .seek endOff, .flush]

/-- a successful `EW.finalize` IS that history on the page writer (only `pw` changes) -/
theorem finalize_history (ft : FloatText) (e : EW) (tr : String → Option String) (e' : EW)
    (hfin : EW.finalize ft e tr = .ok e') :
    ∃ (xml hdr : Bytes) (endOff : Nat) (p6 : PW), hdr.length = 48 ∧
      runConcrete (finalizeOps xml hdr endOff) e.pw = .ok e'.pw ∧
      runConcrete [.write xml, .align, .size, .seek 0, .write hdr, .seek endOff] e.pw = .ok p6 ∧
      e'.pw = p6.flush := by
  unfold EW.finalize at hfin
  split at hfin
  · cases hfin
  · split at hfin
    · cases hfin
    split at hfin
    · cases hfin
    · rename_i xml0 _ _ xml _
      dsimp only at hfin
      split at hfin
      · cases hfin
      cases h1 : e.pw.writeAll (utf8 xml) with
      | err m => rw [h1] at hfin; cases hfin
      | panic m => rw [h1] at hfin; cases hfin
      | ok p1 =>
        rw [h1, Outcome.bind_ok] at hfin
        cases h2 : p1.align with
        | err m => rw [h2] at hfin; cases hfin
        | panic m => rw [h2] at hfin; cases hfin
        | ok p2 =>
          rw [h2, Outcome.bind_ok] at hfin
          split at hfin
          · cases hfin
          · cases h5 : (p2.physicalSize.1.physicalSeek 0).1.writeAll
                (fileHeaderBytes p2.physicalSize.2 e.pw.physicalPosition (utf8 xml).length) with
            | err m => rw [h5] at hfin; cases hfin
            | panic m => rw [h5] at hfin; cases hfin
            | ok p5 =>
              rw [h5, Outcome.bind_ok] at hfin
              split at hfin
              · cases hfin
              · injection hfin with hfin
                subst hfin
                refine ⟨utf8 xml,
                  fileHeaderBytes p2.physicalSize.2 e.pw.physicalPosition (utf8 xml).length,
                  p2.physicalPosition, (p5.physicalSeek p2.physicalPosition).1,
                  fileHeaderBytes_length _ _ _, ?_, ?_, rfl⟩
                · simp only [finalizeOps, runConcrete, stepConcrete, h1, h2, h5, Outcome.bind_ok]
                · simp only [runConcrete, stepConcrete, h1, h2, h5, Outcome.bind_ok]

/-- the finalize history is outside every window that lies behind the file header and before the
    cursor at which the XML is written -/
theorem outside_finalize (a n : Nat) (s : LogStream) (xml hdr : Bytes) (endOff : Nat)
    (hs : a + n ≤ s.cur) (hh : hdr.length ≤ a) : Outside a n s (finalizeOps xml hdr endOff) := by
  have hal := align_cur_ge (s.write xml)
  have hw : (s.write xml).cur = s.cur + xml.length := rfl
  refine ⟨Or.inr (Or.inl hs), Or.inr (Or.inl (show a + n ≤ (s.write xml).cur by omega)), trivial,
    trivial, ?_, trivial, trivial, trivial⟩
  show hdr = [] ∨ a + n ≤ ((s.write xml).align.seek 0).cur
    ∨ ((s.write xml).align.seek 0).cur + hdr.length ≤ a
  unfold LogStream.seek
  split
  · right; right; show p2l 0 + hdr.length ≤ a; unfold p2l; omega
  · right; left; omega

/-- what a successful `EW.finalize` leaves: a well-formed, flushed page writer whose stream is the
    old one after the finalize history; the device holds the paged image of that stream -/
theorem ew_finalize_spec (ft : FloatText) (e : EW) (tr : String → Option String) (e' : EW)
    (he : e.pw.Inv) (hfin : EW.finalize ft e tr = .ok e') :
    ∃ (xml hdr : Bytes) (endOff : Nat), hdr.length = 48 ∧ e'.pw.Inv ∧
      e'.pw.abs = runSpec (finalizeOps xml hdr endOff) e.pw.abs ∧
      e'.pw.dev.data = Spec.image e'.pw.abs.data := by
  obtain ⟨xml, hdr, endOff, p6, hl, h7, h6, ef⟩ := finalize_history ft e tr e' hfin
  obtain ⟨w7, r7, i7, a7⟩ := pw_run (finalizeOps xml hdr endOff) e.pw he
  rw [h7] at r7; injection r7 with r7; subst r7
  obtain ⟨w6, r6, i6, -⟩ := pw_run _ e.pw he
  rw [h6] at r6; injection r6 with r6; subst r6
  obtain ⟨-, f2, f3⟩ := pw_flush p6 i6
  refine ⟨xml, hdr, endOff, hl, i7, a7, ?_⟩
  rw [ef, f2]; exact f3

/-- `EW.finalize` leaves every window `[a, a+n)` with `48 ≤ a` and `a + n ≤` the cursor untouched -/
theorem finalize_window_stable (ft : FloatText) (e : EW) (tr : String → Option String) (e' : EW)
    (he : e.pw.Inv) (hfin : EW.finalize ft e tr = .ok e') (a n : Nat) (h48 : 48 ≤ a)
    (hcur : a + n ≤ e.pw.abs.cur) :
    (e'.pw.abs.data.drop a).take n = (e.pw.abs.data.drop a).take n ∧
      a + n ≤ e'.pw.abs.data.length := by
  obtain ⟨xml, hdr, endOff, hl, -, a7, -⟩ := ew_finalize_spec ft e tr e' he hfin
  have hwf := (abs_wf e.pw he).2
  rw [a7]
  exact run_window_stable _ e.pw.abs a n (by omega)
    (outside_finalize a n _ xml hdr endOff hcur (by omega))

/-- **C06 over the real `finalize`** — every blob section that lies in the stream before
    `finalize` (behind the 48-byte file header, in front of the cursor), however it got there, is
    read back from the finished file by every reader state reachable from `PagedReader::new` on
    the device contents `e'.pw.dev.data`. -/
theorem blob_survives_finalize_window (ft : FloatText) (e : EW) (tr : String → Option String)
    (e' : EW) (he : e.pw.Inv) (hfin : EW.finalize ft e tr = .ok e')
    (s : Nat) (data : Bytes) (h48 : 48 ≤ s) (hcur : s + 16 + data.length ≤ e.pw.abs.cur)
    (hwin : (e.pw.abs.data.drop s).take (16 + data.length) = blobBytes data)
    (h64 : e'.pw.dev.data.length < 2 ^ 64)
    (pos : Nat) (r0 : PR) (hreach : PR.Reach ⟨e'.pw.dev.data, pos⟩ 1024 r0) :
    (blobRead r0 ⟨l2p s, data.length⟩).2 = some data := by
  obtain ⟨-, -, -, -, i7, -, hfile⟩ := ew_finalize_spec ft e tr e' he hfin
  obtain ⟨hst, hle⟩ := finalize_window_stable ft e tr e' he hfin s (16 + data.length) h48
    (by omega)
  have hd := (abs_wf e'.pw i7).1
  obtain ⟨ci, dd, pp⟩ := pr_reach_inv _ _ r0 hreach
  have hl := image_length e'.pw.abs.data hd
  rw [hfile] at h64 dd
  rw [hl] at h64
  rw [hwin] at hst
  have hbl := blobBytes_length data
  have hX : Holds e'.pw.abs.data s (blobBytes data) := by
    apply Holds.of_slice
    · rw [hbl]; exact hst
    · intro h; rw [h] at hbl; simp only [List.length_nil] at hbl; omega
  have h64' : secLen data.length < 2 ^ 64 := by unfold secLen; omega
  obtain ⟨r', er, -⟩ := blobRead_holds hd (r0 := r0) ⟨ci, pp, dd⟩ s
    (blobHeaderBytes (secLen data.length)) data
    (blobHeaderBytes_length _) (blobHeader_id _)
    (by rw [blobHeader_len, Nat.mod_eq_of_lt h64']; unfold secLen; omega) hX
  rw [er]

/-- the same for a blob written by `blobWrite` on a page writer `pw` whose cursor is behind the
    file header, followed by any history `mid` outside the blob's window that ends with the cursor
    behind the blob, followed by `EW.finalize` -/
theorem blob_survives_finalize (pw : PW) (data : Bytes) (hpw : pw.Inv) (pw' : PW) (b : BlobRef)
    (hw : blobWrite pw data = .ok (pw', b)) (h48 : 48 ≤ pw.abs.cur)
    (mid : List WOp) (hmid : Outside pw.abs.cur (16 + data.length) pw'.abs mid)
    (e : EW) (hrun : runConcrete mid pw' = .ok e.pw)
    (hcur : pw.abs.cur + 16 + data.length ≤ e.pw.abs.cur)
    (ft : FloatText) (tr : String → Option String) (e' : EW)
    (hfin : EW.finalize ft e tr = .ok e')
    (h64 : e'.pw.dev.data.length < 2 ^ 64)
    (pos : Nat) (r0 : PR) (hreach : PR.Reach ⟨e'.pw.dev.data, pos⟩ 1024 r0) :
    (blobRead r0 b).2 = some data := by
  obtain ⟨w1, w2, w3, w4, inv', -⟩ := blob_window pw data hpw pw' b hw
  obtain ⟨pe, re, ie, ae⟩ := pw_run mid pw' inv'
  rw [hrun] at re; injection re with re; subst re
  obtain ⟨hst, -⟩ := run_window_stable mid pw'.abs pw.abs.cur (16 + data.length) (by omega) hmid
  rw [w2]
  exact blob_survives_finalize_window ft e tr e' ie hfin pw.abs.cur data h48 hcur
    (by rw [ae, hst, w1]) h64 pos r0 hreach

/-- `EW.addBlob` directly followed by `EW.finalize` -/
theorem addBlob_finalize_roundtrip (e0 e1 e' : EW) (data : Bytes) (b : BlobRef) (he : e0.pw.Inv)
    (h48 : 48 ≤ e0.pw.abs.cur) (hadd : e0.addBlob data = .ok (e1, b))
    (ft : FloatText) (tr : String → Option String) (hfin : EW.finalize ft e1 tr = .ok e')
    (h64 : e'.pw.dev.data.length < 2 ^ 64)
    (pos : Nat) (r0 : PR) (hreach : PR.Reach ⟨e'.pw.dev.data, pos⟩ 1024 r0) :
    (blobRead r0 b).2 = some data := by
  unfold EW.addBlob at hadd
  cases hb : blobWrite e0.pw data with
  | err m => rw [hb] at hadd; cases hadd
  | panic m => rw [hb] at hadd; cases hadd
  | ok res =>
    obtain ⟨pw', b'⟩ := res
    rw [hb, Outcome.bind_ok] at hadd
    injection hadd with hadd
    injection hadd with h1 h2
    subst h1; subst h2
    obtain ⟨-, -, w3, -⟩ := blob_window e0.pw data he pw' b' hb
    exact blob_survives_finalize e0.pw data he pw' b' hb h48 [] trivial _ rfl w3 ft tr e' hfin
      h64 pos r0 hreach

/-- non-vacuity of the `finalize` theorems: on a well-formed page writer `EW.finalize` succeeds as
    soon as the XML can be serialised, consists of characters XML can carry, the caller's transformer accepts
    it and the result is at most 10 MiB (the writer refuses XML its own reader would refuse) -/
theorem finalize_ok (ft : FloatText) (e : EW) (tr : String → Option String) (he : e.pw.Inv)
    (x y : String) (hs : serializeRoot ft e.root e.pcs e.imgs e.exts = some x)
    (hchars : x.toList.all xmlChar = true) (ht : tr x = some y)
    (hsmall : (utf8 y).length ≤ 1024 * 1024 * 10) :
    ∃ e', EW.finalize ft e tr = .ok e' := by
  have hsmall' : ¬ ((utf8 y).length > 1024 * 1024 * 10) := by omega
  obtain ⟨p1, e1, i1, a1⟩ := pw_writeAll e.pw (utf8 y) he
  obtain ⟨p2, e2, i2, a2⟩ := pw_align p1 i1
  obtain ⟨i3, a3, -, -⟩ := pw_size p2 i2
  have hz : l2p 0 = 0 := by decide
  obtain ⟨p4, e4, i4, a4⟩ := pw_seek_back p2.physicalSize.1 0 i3 (Nat.zero_le _)
  rw [hz] at e4
  obtain ⟨p5, e5, i5, a5⟩ := pw_writeAll p4
    (fileHeaderBytes p2.physicalSize.2 e.pw.physicalPosition (utf8 y).length) i4
  have hlen : p2.abs.cur ≤ p5.abs.data.length := by
    have h1 := write_length_ge p4.abs
      (fileHeaderBytes p2.physicalSize.2 e.pw.physicalPosition (utf8 y).length)
    have h2 := (abs_wf p2 i2).2
    have h3 : p4.abs.data.length = p2.abs.data.length := by rw [a4, a3]
    rw [a5]
    omega
  obtain ⟨p6, e6, -, -⟩ := pw_seek_back p5 p2.abs.cur i5 hlen
  have hp2 : p2.physicalPosition = l2p p2.abs.cur := pw_position p2 i2
  refine ⟨{ e with pw := p6.flush }, ?_⟩
  unfold EW.finalize
  simp only [hs, hchars, ht, hsmall', e1, e2, Outcome.bind_ok, e4, e5, hp2, e6, Bool.not_true, Bool.false_eq_true,
    if_false, Outcome.pure_eq]

end BlobRT
end E57
