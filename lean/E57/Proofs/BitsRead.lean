/- Read buffer: representation invariant w.r.t. the abstract stream and value semantics of `extract`. -/
import E57.Model.Bits
import E57.Proofs.Bytes
namespace E57

/-- `r` represents the abstract reader state "stream `S` (everything appended so far), `P` bits consumed" -/
def RBuf.Rep (r : RBuf) (S : Bytes) (P : Nat) : Prop :=
  ∃ c, 8 * c ≤ P ∧ c ≤ S.length ∧ r.buffer = S.drop c ∧ r.offset = P - 8 * c ∧ P ≤ 8 * S.length

theorem RBuf.rep_new : RBuf.new.Rep [] 0 := ⟨0, by simp [RBuf.new]⟩

theorem RBuf.append_spec (r : RBuf) (S d : Bytes) (P : Nat) (h : r.Rep S P) :
    ∃ r', r.append d = .ok r' ∧ r'.Rep (S ++ d) P := by
  obtain ⟨c, h1, h2, hb, ho, h3⟩ := h
  have hlen : r.buffer.length = S.length - c := by rw [hb]; simp
  have hcons : r.offset / 8 ≤ r.buffer.length := by omega
  refine ⟨⟨r.buffer.drop (r.offset / 8) ++ d, r.offset - r.offset / 8 * 8⟩, ?_, ?_⟩
  · simp [RBuf.append]; omega
  · refine ⟨c + r.offset / 8, by omega, by simp; omega, ?_, by simp; omega, by simp; omega⟩
    simp only []
    rw [hb, List.drop_drop, List.drop_append_of_le_length (by omega)]

theorem RBuf.available_spec (r : RBuf) (S : Bytes) (P : Nat) (h : r.Rep S P) :
    r.available = .ok (8 * S.length - P) := by
  obtain ⟨c, h1, h2, hb, ho, h3⟩ := h
  have hlen : r.buffer.length = S.length - c := by rw [hb]; simp
  have hn : ¬ (r.buffer.length * 8 < r.offset) := by omega
  simp only [RBuf.available, gt_iff_lt, hn, if_false]
  congr 1; omega

/-- `extract` never panics for widths ≤ 64; it answers `none` exactly when too few bits remain and
    otherwise returns (modulo `2^bits`) the bits `[P, P+bits)` of the stream. -/
theorem RBuf.extract_spec (r : RBuf) (S : Bytes) (P bits : Nat) (h : r.Rep S P) (hw : bits ≤ 64) :
    (8 * S.length - P < bits → r.extract bits = .ok (none, r)) ∧
    (bits ≤ 8 * S.length - P →
      ∃ v r', r.extract bits = .ok (some v, r') ∧ r'.Rep S (P + bits)
        ∧ v % 2 ^ bits = (leVal S >>> P) % 2 ^ bits ∧ v < 2 ^ 64) := by
  have hav := RBuf.available_spec r S P h
  obtain ⟨c, h1, h2, hb, ho, h3⟩ := h
  have hlen : r.buffer.length = S.length - c := by rw [hb]; simp
  constructor
  · intro hlt
    simp [RBuf.extract, hav, hlt]
  · intro hge
    have hnlt : ¬ (8 * S.length - P < bits) := by omega
    have hdl : ¬ ((r.offset + bits + 7) / 8 - r.offset / 8 > 16) := by omega
    have hend : ¬ ((r.offset + bits + 7) / 8 > r.buffer.length) := by omega
    refine ⟨(leVal ((r.buffer.drop (r.offset / 8)).take ((r.offset + bits + 7) / 8 - r.offset / 8))
              >>> (r.offset % 8)) % 2 ^ 64, ⟨r.buffer, r.offset + bits⟩, ?_, ?_, ?_, ?_⟩
    · simp [RBuf.extract, hav, hnlt, hdl, hend]
    · exact ⟨c, by omega, h2, hb, by simp; omega, by omega⟩
    · rw [extract_window r.buffer r.offset bits hw (by omega)]
      rw [hb, leVal_drop, ← Nat.shiftRight_add]
      congr 2; omega
    · exact Nat.mod_lt _ (Nat.two_pow_pos _)

end E57

namespace E57

theorem inI64_iff (i : Int) : inI64 i = true ↔ (-9223372036854775808 ≤ i ∧ i ≤ 9223372036854775807) := by
  unfold inI64 i64Min i64Max
  rw [Bool.and_eq_true, decide_eq_true_eq, decide_eq_true_eq]

/-- Rust `(int as i128) as i64` after `+ min`: the identity on the i64 range -/
def wrapI64 (i : Int) : Int := u64ToI64 (i64ToU64 i)

theorem wrapI64_id (i : Int) (h : inI64 i = true) : wrapI64 i = i := by
  rw [inI64_iff] at h
  unfold wrapI64 u64ToI64 i64ToU64
  by_cases hn : 0 ≤ i
  · have e : (i % 18446744073709551616).toNat = i.toNat := by
      rw [Int.emod_eq_of_lt hn (by omega)]
    rw [e]
    have h2 : i.toNat % 18446744073709551616 = i.toNat := by omega
    rw [h2]
    have h3 : i.toNat < 9223372036854775808 := by omega
    simp [h3]; omega
  · have e : i % 18446744073709551616 = i + 18446744073709551616 := by
      have := Int.add_emod_right i 18446744073709551616
      rw [← this]
      exact Int.emod_eq_of_lt (by omega) (by omega)
    rw [e]
    have h2 : (i + 18446744073709551616).toNat % 18446744073709551616 = (i + 18446744073709551616).toNat := by omega
    rw [h2]
    have h3 : ¬ (i + 18446744073709551616).toNat < 9223372036854775808 := by omega
    simp [h3]; omega

/-- field `i` of width `w` starting at bit `P` of the stream value `V` -/
def fieldAt (V P w i : Nat) : Nat := (V >>> (P + i * w)) % 2 ^ w

theorem fieldAt_zero (V P w : Nat) : fieldAt V P w 0 = (V >>> P) % 2 ^ w := by simp [fieldAt]

theorem fieldAt_shift (V P w i : Nat) : fieldAt V (P + w) w i = fieldAt V P w (i + 1) := by
  simp only [fieldAt]; rw [Nat.succ_mul]; congr 2; omega

theorem range_map_shift {α} (f : Nat → α) (k : Nat) :
    (List.range (k + 1)).map f = f 0 :: (List.range k).map (fun i => f (i + 1)) := by
  rw [List.range_succ_eq_map]; simp [List.map_map, Function.comp_def]

theorem unpackIntsLoop_spec (bits : Nat) (min : Int) (S : Bytes) (hb0 : 0 < bits) (hb : bits ≤ 64) :
    ∀ (fuel : Nat) (r : RBuf) (P : Nat) (acc : List Int),
      r.Rep S P → (8 * S.length - P) / bits < fuel →
      ∃ r', unpackIntsLoop bits min fuel r acc =
          .ok (acc.reverse ++ (List.range ((8 * S.length - P) / bits)).map
                (fun i => wrapI64 ((fieldAt (leVal S) P bits i : Nat) + min)), r')
        ∧ r'.Rep S (P + (8 * S.length - P) / bits * bits) := by
  intro fuel
  induction fuel with
  | zero => intro r P acc _ h; exact absurd h (Nat.not_lt_zero _)
  | succ fuel ih =>
    intro r P acc hrep hfuel
    obtain ⟨hnone, hsome⟩ := RBuf.extract_spec r S P bits hrep hb
    by_cases hlt : 8 * S.length - P < bits
    · have hk : (8 * S.length - P) / bits = 0 := Nat.div_eq_of_lt hlt
      refine ⟨r, ?_, by simpa [hk] using hrep⟩
      rw [unpackIntsLoop, hnone hlt]; simp [hk]
    · obtain ⟨v, r', hex, hrep', hv, _⟩ := hsome (by omega)
      have hk : (8 * S.length - P) / bits = (8 * S.length - (P + bits)) / bits + 1 := by
        have : 8 * S.length - P = (8 * S.length - (P + bits)) + bits := by omega
        rw [this, Nat.add_div_right _ hb0]
      obtain ⟨r'', hrun, hrep''⟩ := ih r' (P + bits)
        (wrapI64 ((v % 2 ^ bits : Nat) + min) :: acc) hrep' (by omega)
      refine ⟨r'', ?_, ?_⟩
      · rw [unpackIntsLoop, hex]
        show unpackIntsLoop bits min fuel r' (wrapI64 (((v % 2 ^ bits : Nat) : Int) + min) :: acc) = _
        rw [hrun, hk, range_map_shift, fieldAt_zero, ← hv]
        simp only [List.reverse_cons, List.append_assoc, List.singleton_append, fieldAt_shift]
      · rw [hk, Nat.succ_mul]
        have : P + ((8 * S.length - (P + bits)) / bits * bits + bits)
             = P + bits + (8 * S.length - (P + bits)) / bits * bits := by omega
        rw [this]; exact hrep''

theorem unpackFixedLoop_spec (bits : Nat) (S : Bytes) (hb0 : 0 < bits) (hb : bits ≤ 64) :
    ∀ (fuel : Nat) (r : RBuf) (P : Nat) (acc : List Nat),
      r.Rep S P → (8 * S.length - P) / bits < fuel →
      ∃ r', unpackFixedLoop bits fuel r acc =
          .ok (acc.reverse ++ (List.range ((8 * S.length - P) / bits)).map
                (fun i => fieldAt (leVal S) P bits i), r')
        ∧ r'.Rep S (P + (8 * S.length - P) / bits * bits) := by
  intro fuel
  induction fuel with
  | zero => intro r P acc _ h; exact absurd h (Nat.not_lt_zero _)
  | succ fuel ih =>
    intro r P acc hrep hfuel
    obtain ⟨hnone, hsome⟩ := RBuf.extract_spec r S P bits hrep hb
    by_cases hlt : 8 * S.length - P < bits
    · have hk : (8 * S.length - P) / bits = 0 := Nat.div_eq_of_lt hlt
      refine ⟨r, ?_, by simpa [hk] using hrep⟩
      rw [unpackFixedLoop, hnone hlt]; simp [hk]
    · obtain ⟨v, r', hex, hrep', hv, _⟩ := hsome (by omega)
      have hk : (8 * S.length - P) / bits = (8 * S.length - (P + bits)) / bits + 1 := by
        have : 8 * S.length - P = (8 * S.length - (P + bits)) + bits := by omega
        rw [this, Nat.add_div_right _ hb0]
      obtain ⟨r'', hrun, hrep''⟩ := ih r' (P + bits) ((v % 2 ^ bits) :: acc) hrep' (by omega)
      refine ⟨r'', ?_, ?_⟩
      · rw [unpackFixedLoop, hex]
        show unpackFixedLoop bits fuel r' ((v % 2 ^ bits) :: acc) = _
        rw [hrun, hk, range_map_shift, fieldAt_zero, ← hv]
        simp only [List.reverse_cons, List.append_assoc, List.singleton_append, fieldAt_shift]
      · rw [hk, Nat.succ_mul]
        have : P + ((8 * S.length - (P + bits)) / bits * bits + bits)
             = P + bits + (8 * S.length - (P + bits)) / bits * bits := by omega
        rw [this]; exact hrep''

end E57
