/-
Bridges between the XML theorems (E57/Proofs/XmlRoundTrip.lean, namespace `E57.XmlP`) and the writer model:
* the character test of `EW.finalize` (`xmlChar`, Model/Writer.lean) is the parser's `isXmlChar`;
* a name accepted by `validName` (`Extension::validate_xml_name`) is an `XmlNameOK` name;
* under `InputOK` the check of `EW.finalize` on the serialised document passes (`finalize_chars_pass`): the writer
  refuses exactly the documents that contain a character XML cannot carry, never a document whose input strings
  are XML strings.
Core Lean only.
-/
import E57.Proofs.XmlRoundTrip
namespace E57.XmlP
open E57

theorem xmlChar_eq_isXmlChar (c : Char) : xmlChar c = isXmlChar c := by
  have hv := c.valid
  have h9 : (c == '\t') = (c.toNat == 9) := by
    rw [Bool.eq_iff_iff]; simp only [beq_iff_eq]
    constructor
    · rintro rfl; rfl
    · intro h; apply Char.ext; apply UInt32.toNat_inj.mp; simpa using h
  have hA : (c == '\n') = (c.toNat == 10) := by
    rw [Bool.eq_iff_iff]; simp only [beq_iff_eq]
    constructor
    · rintro rfl; rfl
    · intro h; apply Char.ext; apply UInt32.toNat_inj.mp; simpa using h
  have hD : (c == '\r') = (c.toNat == 13) := by
    rw [Bool.eq_iff_iff]; simp only [beq_iff_eq]
    constructor
    · rintro rfl; rfl
    · intro h; apply Char.ext; apply UInt32.toNat_inj.mp; simpa using h
  have h20 : (c == ' ') = (c.toNat == 32) := by
    rw [Bool.eq_iff_iff]; simp only [beq_iff_eq]
    constructor
    · rintro rfl; rfl
    · intro h; apply Char.ext; apply UInt32.toNat_inj.mp; simpa using h
  unfold xmlChar isXmlChar isSpace
  rw [h9, hA, hD, h20]
  have hr : c.toNat < 0xD800 ∨ (0xDFFF < c.toNat ∧ c.toNat < 0x110000) := hv
  rw [Bool.eq_iff_iff]
  split <;> simp only [Bool.or_eq_true, Bool.and_eq_true, decide_eq_true_eq, beq_iff_eq, Bool.not_eq_true',
    Bool.or_eq_false_iff, beq_eq_false_iff_ne, ne_eq] <;> omega

theorem all_xmlChar_iff (l : List Char) : l.all xmlChar = l.all isXmlChar := by
  induction l with
  | nil => rfl
  | cons c cs ih => simp only [List.all_cons, ih, xmlChar_eq_isXmlChar]

/-- `validate_xml_name` accepts only names that XML accepts as names without colon -/
theorem XmlNameOK_of_validName {s : String} (h : validName s = true) : XmlNameOK s := by
  refine ⟨h, ?_⟩
  simp only [validName, Bool.and_eq_true] at h
  have hs := h.2
  cases hl : s.toList with
  | nil => rw [hl] at hs; cases hs
  | cons c cs =>
    rw [hl] at hs
    refine ⟨c, cs, rfl, ?_⟩
    simpa using hs

/-- under `InputOK` the character check of `EW.finalize` passes: `finalize` never refuses a document whose input
    strings are XML strings -/
theorem finalize_chars_pass (ft : FloatText) (root : Root) (pcs : List PointCloud) (imgs : List Image)
    (exts : List (String × String)) (h : InputOK ft root pcs imgs exts) (xml : String)
    (hx : serializeRoot ft root pcs imgs exts = some xml) : xml.toList.all xmlChar = true := by
  rw [all_xmlChar_iff]
  exact serializeRoot_xmlChars ft root pcs imgs exts h xml hx

end E57.XmlP
