/-
Slow companion of E57.Proofs.Session: why a TRACKED point cloud of `Session.Sess` ends with its `finalize`.

`PointCloudWriter::finalize(&mut self)` does not consume the writer; `Interrupt.Reach` therefore allows
`pcSet` / `pcPoint` / `pcEnd` on it afterwards, and `Reach.pcSet` may replace the whole metadata record (the
crate has no setter for the bounds, so there `add_point` after `finalize` always fails).  With the bounds
restored the model accepts a further point; it is written behind the padding of the last flush of the first
`finalize`, the second `finalize` pushes a second metadata entry (2 records) for the same section — and the
reader decodes the second point wrongly.  `reuse_after_finalize_statement` is the naive claim "both points come
back"; `reuse_after_finalize_statement_false` refutes it with the session of `LayoutEx` evaluated by the kernel
(two pages of CRC-32C on the writer and on the reader side: about 90 s, 7 GB).  Not imported by E57.lean.
-/
import E57.Proofs.Session
namespace E57
namespace Session
namespace Reuse
open LayoutEx

def p1 : List Value := [.integer 1000, .single 0x3f800000, .integer (-5)]
def p2 : List Value := [.integer 7, .single 0, .integer 5]

/-- metadata with the Cartesian bounds present again -/
def restored : PointCloud := { cartesianBounds := some {} }

/-- "a point-cloud writer may be used on after `finalize`: the entry pushed by the second `finalize` reads
    back all points" -/
def reuse_after_finalize_statement : Prop :=
  ∀ (pw : PW) (proto : Prototype) (a b : List Value) (bounds : PointCloud)
    (pw0 : PW) (w0 : PcW) (pw1 : PW) (w1 : PcW) (pw2 : PW) (w2 : PcW) (pcA : PointCloud)
    (pw3 : PW) (w3 : PcW) (pw4 : PW) (w4 : PcW) (pcB : PointCloud) (r0 : PR),
    pw.Inv → pw.abs.cur % 4 = 0 → ProtoI64 proto → NoDupNames proto →
    PcW.new pw [] "g" proto = .ok (pw0, w0) →
    w0.addPoint pw0 a = .ok (pw1, w1) →
    w1.finalize pw1 = .ok (pw2, w2, pcA) →
    ({ w2 with pc := bounds } : PcW).addPoint pw2 b = .ok (pw3, w3) →
    w3.finalize pw3 = .ok (pw4, w4, pcB) →
    PR.new ⟨pw4.flush.dev.data, 0⟩ 1024 = .ok r0 →
    ∃ r1 q, QR.new pcB r0 = (r1, some q) ∧
      RawIter.run 3 ⟨q, pcB.records, 0⟩ r1 = [.value a, .value b, .done]

def reuseRun : Option (PW × PointCloud) :=
  match PcW.new base [] "g" proto with
  | .ok (pw0, w0) =>
    match w0.addPoint pw0 p1 with
    | .ok (pw1, w1) =>
      match w1.finalize pw1 with
      | .ok (pw2, w2, _) =>
        match ({ w2 with pc := restored } : PcW).addPoint pw2 p2 with
        | .ok (pw3, w3) =>
          match w3.finalize pw3 with
          | .ok (pw4, _, pcB) => some (pw4, pcB)
          | _ => none
        | _ => none
      | _ => none
    | _ => none
  | _ => none

/-- the model, evaluated: every call succeeds, the reader opens the device bytes, and the second entry yields
    the first point, then `(448, 0.0, -5)` instead of `(7, 0.0, 5)`, then `done` -/
def reuseCheck : Bool :=
  match reuseRun with
  | some (pw4, pcB) =>
    match PR.new ⟨pw4.flush.dev.data, 0⟩ 1024 with
    | .ok r0 =>
      match QR.new pcB r0 with
      | (r1, some q) =>
        match RawIter.run 3 ⟨q, pcB.records, 0⟩ r1 with
        | [.value a, .value b, .done] => a == p1 && b == [.integer 448, .single 0, .integer (-5)]
        | _ => false
      | _ => false
    | _ => false
  | none => false

set_option maxRecDepth 100000 in
theorem reuseCheck_true : reuseCheck = true := by decide +kernel

set_option maxRecDepth 100000 in
theorem reuse_after_finalize_statement_false : ¬ reuse_after_finalize_statement := by
  intro hst
  have hc := reuseCheck_true
  unfold reuseCheck reuseRun at hc
  cases h0 : PcW.new base [] "g" proto with
  | err e => rw [h0] at hc; cases hc
  | panic e => rw [h0] at hc; cases hc
  | ok st0 =>
    obtain ⟨pw0, w0⟩ := st0
    rw [h0] at hc; dsimp only at hc
    cases h1 : w0.addPoint pw0 p1 with
    | err e => rw [h1] at hc; cases hc
    | panic e => rw [h1] at hc; cases hc
    | ok st1 =>
      obtain ⟨pw1, w1⟩ := st1
      rw [h1] at hc; dsimp only at hc
      cases h2 : w1.finalize pw1 with
      | err e => rw [h2] at hc; cases hc
      | panic e => rw [h2] at hc; cases hc
      | ok st2 =>
        obtain ⟨pw2, w2, pcA⟩ := st2
        rw [h2] at hc; dsimp only at hc
        cases h3 : ({ w2 with pc := restored } : PcW).addPoint pw2 p2 with
        | err e => rw [h3] at hc; cases hc
        | panic e => rw [h3] at hc; cases hc
        | ok st3 =>
          obtain ⟨pw3, w3⟩ := st3
          rw [h3] at hc; dsimp only at hc
          cases h4 : w3.finalize pw3 with
          | err e => rw [h4] at hc; cases hc
          | panic e => rw [h4] at hc; cases hc
          | ok st4 =>
            obtain ⟨pw4, w4, pcB⟩ := st4
            rw [h4] at hc; dsimp only at hc
            cases h5 : PR.new ⟨pw4.flush.dev.data, 0⟩ 1024 with
            | err e => rw [h5] at hc; cases hc
            | panic e => rw [h5] at hc; cases hc
            | ok r0 =>
              rw [h5] at hc; dsimp only at hc
              obtain ⟨r1, q, e1, e2⟩ := hst base proto p1 p2 restored pw0 w0 pw1 w1 pw2 w2 pcA pw3 w3 pw4 w4
                pcB r0 base_ok.1 (by rw [base_ok.2]) proto_i64 (by unfold NoDupNames; decide) h0 h1 h2 h3 h4 h5
              rw [e1] at hc; dsimp only at hc
              rw [e2] at hc
              revert hc
              decide

end Reuse
end Session
end E57
