/-
The XML walk of the independent decoder (`Spec.walkNode` / `Spec.walkChildren`, E57/Spec/Decoder.lean) on the
document the writer emits: the last open hypothesis of C02 (`WF.C02_closed_file`, `Closed.C02_closed_file_closed`).

  1. `WalkOk fp declared : XNode → Bool` (mutual with `WalkOkList`; helpers `bodyOk`, `leafOk`, `recOk`): the
     structural predicate "the walk accepts this tree"; `gather f path` / `gatherList`: the pure traversal that
     computes what the walk publishes (last first, with the walk's paths), `pointsAt`, `blobsAt`.
     **`walkNode_spec`** / `walkChildren_spec` (mutual induction): on an accepted tree the walk succeeds and
     `w'.points = gather pointsAt path n ++ w.points`, `w'.blobs = gather blobsAt path n ++ w.blobs`;
     **`walkNode_ok`**.
  2. `quiet` (no Blob / CompressedVector below), `gather_quiet`, `MetaOk = WalkOk && quiet`.
  3. the tree builders of E57/Model/MetaTree.lean (any reported prefix `p0`): `metaOk_*` for metadata,
     `walkOk_*` for blobs, image representations, images, `recOk_record`, `recordText_ok`, `recordType_ok`,
     `walkOk_points`, `walkOk_pointCloud`, `rootHead_ok`, **`rootTree_walkOk`**.
  4. what is collected: `gather_pointCloud`, `gather_root_one`, **`walk_one_cloud`** (one cloud, no image),
  5. **`C02_closed_file_walked`**: `Closed.C02_closed_file_closed` with the walk discharged;
  5b. **`walk_clouds`**: any number of point clouds (no images): `points = cloudRefs ft exts 0 pcs`.
  5c. documents WITH images: `quiet_*` (metadata publishes nothing, no hypothesis), `gather_rep`, `gather_image`;
      **`gather_points_image`** (an image publishes no points), `imageBlobRefs` + **`gather_blobs_image`** (the blob
      references of an image), `gather_root_all`, `imagesBlobRefs` + **`walk_clouds_images`** (any clouds, any
      images: `points = cloudRefs ft exts 0 pcs`, `blobs = imagesBlobRefs 0 imgs`).
  5d. **`C02_closed_file_walked_images`**: `C02_closed_file_walked` with `e.imgs` arbitrary (from `WF.C02_decodeFile`),
      under `WF.BlobOk` of every published blob reference; **`blobOk_before_section`** discharges that for a blob
      written right before the section.  Open: the link between `e.imgs` and the `blobWrite` calls in a session.
  6. `Example`: all hypotheses hold for `MT.Example`; the walk evaluated by the kernel; `WalkOk` rejects bad trees.
Hypotheses are those of `MT.C04_document_roundtrip`: `MT.F64OK` of the creation time, `MT.PointCloud.OK`,
`MT.Image.OK` (floats printed by `ft` parse back with `fp`; integers `i64`, offsets/counts `u64`, dimensions `u32`;
extension records registered — `RecordNameOK`, from `validateExtensions` + `ExtsOk` by `MT.PrototypeOK_of_validate`).
The reported prefix (`e57Prefix exts`) plays no role: the walk looks at namespaces only.
Core Lean only.
-/
import E57.Proofs.Closed
namespace E57.WalkP
open E57 E57.Spec

/-! ## 1. a structural predicate under which the walk succeeds, and what it collects -/

def isOk {α} : V α → Bool
  | .ok _ => true
  | .error _ => false

theorem isOk_iff {α} {x : V α} : isOk x = true ↔ ∃ a, x = .ok a := by
  cases x with
  | ok a => simp [isOk]
  | error e => simp [isOk]

/-- a record of a prototype: in a declared namespace, with a canonical type text -/
def recOk (fp : FloatParse) (declared : List String) (c : XNode) : Bool :=
  isDeclaredNs declared c.tagNs && isOk (recordText fp c)

/-- the checks of the walk on an element that is not a container -/
def leafOk (fp : FloatParse) (declared : List String) (n : XNode) (ty : String) : Bool :=
  if ty = "String" then true
  else if ty = "Integer" ∨ ty = "ScaledInteger" then (parseI64 ((n.textOf).getD "0")).isSome
  else if ty = "Float" then
    if (n.attr "precision").getD "double" == "single" then (fp.f32 ((n.textOf).getD "0")).isSome
    else (fp.f64 ((n.textOf).getD "0")).isSome
  else if ty = "Blob" then isOk (attrNat n "fileOffset") && isOk (attrNat n "length")
  else if ty = "CompressedVector" then
    isOk (attrNat n "fileOffset") && isOk (attrNat n "recordCount") &&
    match n.children.find? (fun c => c.hasTagName "prototype") with
    | none => false
    | some proto => proto.attr "type" == some "Structure" &&
        (proto.children.filter XNode.isElement).all (recOk fp declared)
  else false

/-- by the `type` attribute: containers need their children, everything else is a leaf -/
def bodyOk (fp : FloatParse) (declared : List String) (n : XNode) (ty : Option String) (kids : Bool) : Bool :=
  match ty with
  | none => false
  | some ty => if ty = "Structure" ∨ ty = "Vector" then kids else leafOk fp declared n ty

mutual
/-- **the walk accepts this tree**: every element is in a declared namespace and has a known `type`; numbers
    parse; Blob and CompressedVector carry their attributes, the prototype is a Structure of records in declared
    namespaces with a canonical type text; children of Structure / Vector are accepted -/
def WalkOk (fp : FloatParse) (declared : List String) : XNode → Bool
  | .elem ns pfx name attrs cs =>
    isDeclaredNs declared ns &&
      bodyOk fp declared (.elem ns pfx name attrs cs) ((XNode.elem ns pfx name attrs cs).attr "type")
        (WalkOkList fp declared cs)
  | _ => true
def WalkOkList (fp : FloatParse) (declared : List String) : List XNode → Bool
  | [] => true
  | c :: cs => WalkOk fp declared c && WalkOkList fp declared cs
end

theorem WalkOkList_eq_all (fp : FloatParse) (declared : List String) (cs : List XNode) :
    WalkOkList fp declared cs = cs.all (WalkOk fp declared) := by
  induction cs with
  | nil => rfl
  | cons c cs ih => rw [WalkOkList, ih, List.all_cons]

/-! ### what the walk collects: the references, by a pure traversal -/

def natAttr (n : XNode) (a : String) : Nat := ((n.attr a).bind parseU64).getD 0

theorem attrNat_eq {n : XNode} {a : String} (h : isOk (attrNat n a) = true) : attrNat n a = .ok (natAttr n a) := by
  unfold attrNat natAttr at *
  cases h1 : n.attr a with
  | none => rw [h1] at h; cases h
  | some s =>
    rw [h1] at h
    cases h2 : parseU64 s with
    | none => simp only [h2] at h; cases h
    | some v => simp only [h2, Option.bind_some, Option.getD_some]; rfl

/-- the record nodes of the prototype of a CompressedVector element -/
def protoRecs (n : XNode) : List (String × XNode) :=
  match n.children.find? (fun c => c.hasTagName "prototype") with
  | some proto => (proto.children.filter XNode.isElement).map (fun c => (Spec.qname c, c))
  | none => []

def pointsAt (p ty : String) (n : XNode) : List PointsRef :=
  if ty = "CompressedVector" then [⟨p, natAttr n "fileOffset", natAttr n "recordCount", protoRecs n⟩] else []

def blobsAt (p ty : String) (n : XNode) : List (String × Nat × Nat) :=
  if ty = "Blob" then [(p, natAttr n "fileOffset", natAttr n "length")] else []

def gatherBody {α} (f : String → String → XNode → List α) (p : String) (n : XNode) (ty : Option String)
    (kidsS kidsV : List α) : List α :=
  match ty with
  | none => []
  | some ty => if ty = "Structure" then kidsS else if ty = "Vector" then kidsV else f p ty n

mutual
/-- the leaves `f` publishes, LAST FIRST (the walk conses), with the paths the walk gives them -/
def gather {α} (f : String → String → XNode → List α) (path : String) : XNode → List α
  | .elem ns pfx name attrs cs =>
    gatherBody f (path ++ "/" ++ Spec.qname (.elem ns pfx name attrs cs)) (.elem ns pfx name attrs cs)
      ((XNode.elem ns pfx name attrs cs).attr "type")
      (gatherList f (path ++ "/" ++ Spec.qname (.elem ns pfx name attrs cs)) false 0 cs)
      (gatherList f (path ++ "/" ++ Spec.qname (.elem ns pfx name attrs cs)) true 0 cs)
  | _ => []
def gatherList {α} (f : String → String → XNode → List α) (path : String) (indexed : Bool) (k : Nat) :
    List XNode → List α
  | [] => []
  | c :: cs =>
    if c.isElement then
      gatherList f path indexed (k + 1) cs ++ gather f (if indexed then path ++ s!"[{k}]" else path) c
    else gatherList f path indexed k cs
end

/-! ### the generic theorem -/

theorem mapM_exists {α β} (F : α → V β) : ∀ (l : List α), (∀ x ∈ l, ∃ y, F x = .ok y) → ∃ ys, l.mapM F = .ok ys
  | [], _ => ⟨[], rfl⟩
  | a :: l, h => by
    obtain ⟨y, hy⟩ := h a (by simp)
    obtain ⟨ys, hys⟩ := mapM_exists F l (fun x hx => h x (by simp [hx]))
    refine ⟨y :: ys, ?_⟩
    rw [List.mapM_cons, hy, hys]
    rfl

theorem intText_ok {n : XNode} (h : (parseI64 ((n.textOf).getD "0")).isSome = true) : ∃ i, intText n = .ok i := by
  unfold intText
  cases h1 : parseI64 ((n.textOf).getD "0") with
  | none => rw [h1] at h; cases h
  | some i => exact ⟨i, rfl⟩

mutual
/-- **the walk succeeds on an accepted tree** and adds exactly the references `gather` computes -/
theorem walkNode_spec (fp : FloatParse) (declared : List String) :
    ∀ (n : XNode) (path : String) (w : Walk), WalkOk fp declared n = true →
      ∃ w', walkNode fp declared path n w = .ok w' ∧
        w'.points = gather pointsAt path n ++ w.points ∧ w'.blobs = gather blobsAt path n ++ w.blobs
  | .elem ns pfx name attrs cs, path, w, h => by
    rw [WalkOk, Bool.and_eq_true] at h
    obtain ⟨hns, hb⟩ := h
    rw [walkNode, WF.need_true _ _ hns, gather, gather]
    simp only [WF.ok_bind]
    generalize hty : (XNode.elem ns pfx name attrs cs).attr "type" = ty at hb ⊢
    match ty with
    | none => simp [bodyOk] at hb
    | some t =>
      by_cases h1 : t = "Structure"
      · subst h1
        simp only [bodyOk, true_or, if_true] at hb
        simp only [gatherBody, if_true]
        exact walkChildren_spec fp declared cs _ false 0 w hb
      by_cases h2 : t = "Vector"
      · subst h2
        simp only [bodyOk, or_true, if_true] at hb
        simp only [gatherBody, if_true]
        exact walkChildren_spec fp declared cs _ true 0 w hb
      by_cases h3 : t = "String"
      · subst h3
        exact ⟨_, rfl, by simp [gatherBody, pointsAt], by simp [gatherBody, blobsAt]⟩
      by_cases h4 : t = "Integer"
      · subst h4
        simp [bodyOk, leafOk] at hb
        obtain ⟨i, hi⟩ := intText_ok (by simpa using hb)
        simp only [hi, WF.ok_bind]
        exact ⟨_, rfl, by simp [gatherBody, pointsAt], by simp [gatherBody, blobsAt]⟩
      by_cases h5 : t = "ScaledInteger"
      · subst h5
        simp [bodyOk, leafOk] at hb
        obtain ⟨i, hi⟩ := intText_ok (by simpa using hb)
        simp only [hi, WF.ok_bind]
        exact ⟨_, rfl, by simp [gatherBody, pointsAt], by simp [gatherBody, blobsAt]⟩
      by_cases h6 : t = "Float"
      · subst h6
        simp [bodyOk, leafOk] at hb
        simp only []
        split at hb
        · rename_i hp
          have hp' : (((XNode.elem ns pfx name attrs cs).attr "precision").getD "double" == "single") = true := by
            simpa using hp
          rw [if_pos hp']
          obtain ⟨b, hb'⟩ := Option.isSome_iff_exists.mp hb
          rw [hb']
          exact ⟨_, rfl, by simp [gatherBody, pointsAt], by simp [gatherBody, blobsAt]⟩
        · rename_i hp
          have hp' : ¬ (((XNode.elem ns pfx name attrs cs).attr "precision").getD "double" == "single") = true := by
            simpa using hp
          rw [if_neg hp']
          obtain ⟨b, hb'⟩ := Option.isSome_iff_exists.mp hb
          rw [hb']
          exact ⟨_, rfl, by simp [gatherBody, pointsAt], by simp [gatherBody, blobsAt]⟩
      by_cases h7 : t = "Blob"
      · subst h7
        simp [bodyOk, leafOk] at hb
        simp only [attrNat_eq hb.1, attrNat_eq hb.2, WF.ok_bind]
        exact ⟨_, rfl, by simp [gatherBody, pointsAt], by simp [gatherBody, blobsAt]⟩
      by_cases h8 : t = "CompressedVector"
      · subst h8
        simp [bodyOk, leafOk] at hb
        obtain ⟨⟨ho, hc⟩, hp⟩ := hb
        simp only [attrNat_eq ho, attrNat_eq hc, WF.ok_bind]
        have hch : (XNode.elem ns pfx name attrs cs).children = cs := rfl
        rw [hch] at hp
        cases hf : cs.find? (fun c => c.hasTagName "prototype") with
        | none => rw [hf] at hp; simp at hp
        | some proto =>
          rw [hf] at hp
          simp only [Bool.and_eq_true] at hp
          obtain ⟨hst, hrecs⟩ := hp
          simp only [WF.need_true _ _ hst, WF.ok_bind]
          obtain ⟨ls, hls⟩ := mapM_exists
            (fun (x : String × XNode) => do
              need (isDeclaredNs declared x.snd.tagNs)
                (toString (path ++ "/" ++ Spec.qname (XNode.elem ns pfx name attrs cs)) ++ toString "/prototype/" ++
                    toString x.fst ++ toString ": record is in no declared namespace")
              let t ← recordText fp x.snd
              pure ({ path := path ++ "/" ++ Spec.qname (XNode.elem ns pfx name attrs cs) ++ "/prototype/" ++ x.fst,
                      ty := "Record", value := t } : Leaf))
            ((proto.children.filter XNode.isElement).map (fun c => (Spec.qname c, c)))
            (by
              intro x hx
              obtain ⟨c, hc, rfl⟩ := List.mem_map.1 hx
              have hcm := List.mem_filter.1 hc
              have := (List.all_eq_true.mp hrecs) c hcm.1
              simp only [hcm.2, Bool.not_true, Bool.false_or, recOk, Bool.and_eq_true] at this
              obtain ⟨t, ht⟩ := isOk_iff.mp this.2
              exact ⟨_, by simp only [WF.need_true _ _ this.1, WF.ok_bind, ht]; rfl⟩)
          simp only [hls, WF.ok_bind]
          refine ⟨_, rfl, ?_, by simp [gatherBody, blobsAt]⟩
          simp [gatherBody, pointsAt, protoRecs, hf, XNode.children]
      · simp [bodyOk, leafOk, h1, h2, h3, h4, h5, h6, h7, h8] at hb
  | .text s, path, w, _ => ⟨w, rfl, rfl, rfl⟩
  | .comment, path, w, _ => ⟨w, rfl, rfl, rfl⟩
  | .pi, path, w, _ => ⟨w, rfl, rfl, rfl⟩
theorem walkChildren_spec (fp : FloatParse) (declared : List String) :
    ∀ (cs : List XNode) (path : String) (indexed : Bool) (k : Nat) (w : Walk), WalkOkList fp declared cs = true →
      ∃ w', walkChildren fp declared path indexed k cs w = .ok w' ∧
        w'.points = gatherList pointsAt path indexed k cs ++ w.points ∧
        w'.blobs = gatherList blobsAt path indexed k cs ++ w.blobs
  | [], path, indexed, k, w, _ => ⟨w, rfl, rfl, rfl⟩
  | c :: cs, path, indexed, k, w, h => by
    rw [WalkOkList, Bool.and_eq_true] at h
    rw [walkChildren, gatherList, gatherList]
    by_cases he : c.isElement = true
    · simp only [he, if_true]
      obtain ⟨w1, e1, p1, b1⟩ := walkNode_spec fp declared c (if indexed = true then path ++ s!"[{k}]" else path) w h.1
      obtain ⟨w2, e2, p2, b2⟩ := walkChildren_spec fp declared cs path indexed (k + 1) w1 h.2
      refine ⟨w2, ?_, ?_, ?_⟩
      · rw [show (if indexed = true then path ++ (toString "[" ++ toString k ++ toString "]") else path)
            = (if indexed = true then path ++ s!"[{k}]" else path) from rfl, e1]
        exact e2
      · rw [p2, p1, List.append_assoc]
      · rw [b2, b1, List.append_assoc]
    · simp only [he, if_false, Bool.false_eq_true]
      exact walkChildren_spec fp declared cs path indexed k w h.2
end

/-- item 1 of the brief -/
theorem walkNode_ok (fp : FloatParse) (declared : List String) (path : String) (n : XNode) (w : Walk)
    (h : WalkOk fp declared n = true) : ∃ w', walkNode fp declared path n w = .ok w' := by
  obtain ⟨w', e, _⟩ := walkNode_spec fp declared n path w h
  exact ⟨w', e⟩

/-! ## 2. trees that publish no reference (`quiet`) -/

def quietBody (ty : Option String) (kids : Bool) : Bool :=
  match ty with
  | none => true
  | some ty => if ty = "Structure" ∨ ty = "Vector" then kids else ty != "CompressedVector" && ty != "Blob"

mutual
/-- no Blob and no CompressedVector below this node (as the walk sees it) -/
def quiet : XNode → Bool
  | .elem ns pfx name attrs cs => quietBody ((XNode.elem ns pfx name attrs cs).attr "type") (quietList cs)
  | _ => true
def quietList : List XNode → Bool
  | [] => true
  | c :: cs => quiet c && quietList cs
end

theorem quietList_eq_all (cs : List XNode) : quietList cs = cs.all quiet := by
  induction cs with
  | nil => rfl
  | cons c cs ih => rw [quietList, ih, List.all_cons]

mutual
theorem gather_quiet {α} (f : String → String → XNode → List α)
    (hf : ∀ p ty n, ty ≠ "CompressedVector" → ty ≠ "Blob" → f p ty n = []) :
    ∀ (n : XNode) (path : String), quiet n = true → gather f path n = []
  | .elem ns pfx name attrs cs, path, h => by
    rw [quiet] at h
    rw [gather]
    generalize (XNode.elem ns pfx name attrs cs).attr "type" = ty at h ⊢
    match ty with
    | none => rfl
    | some t =>
      simp only [quietBody] at h
      simp only [gatherBody]
      by_cases h1 : t = "Structure"
      · simp only [h1, true_or, if_true] at h ⊢
        exact gatherList_quiet f hf cs _ false 0 h
      by_cases h2 : t = "Vector"
      · simp only [h2, or_true, if_true] at h ⊢
        rw [if_neg (by decide)]
        exact gatherList_quiet f hf cs _ true 0 h
      · simp only [h1, h2, or_self, if_false, Bool.and_eq_true, bne_iff_ne, ne_eq] at h ⊢
        exact hf _ _ _ h.1 h.2
  | .text s, _, _ => rfl
  | .comment, _, _ => rfl
  | .pi, _, _ => rfl
theorem gatherList_quiet {α} (f : String → String → XNode → List α)
    (hf : ∀ p ty n, ty ≠ "CompressedVector" → ty ≠ "Blob" → f p ty n = []) :
    ∀ (cs : List XNode) (path : String) (indexed : Bool) (k : Nat), quietList cs = true →
      gatherList f path indexed k cs = []
  | [], _, _, _, _ => rfl
  | c :: cs, path, indexed, k, h => by
    rw [quietList, Bool.and_eq_true] at h
    rw [gatherList]
    split
    · rw [gatherList_quiet f hf cs path indexed (k + 1) h.2, gather_quiet f hf c _ h.1]; rfl
    · exact gatherList_quiet f hf cs path indexed k h.2
end

theorem pointsAt_quiet : ∀ p ty n, ty ≠ "CompressedVector" → ty ≠ "Blob" → pointsAt p ty n = [] := by
  intro p ty n h _; simp [pointsAt, h]

theorem blobsAt_quiet : ∀ p ty n, ty ≠ "CompressedVector" → ty ≠ "Blob" → blobsAt p ty n = [] := by
  intro p ty n _ h; simp [blobsAt, h]

/-- accepted by the walk and publishing nothing: the metadata -/
def MetaOk (fp : FloatParse) (declared : List String) (n : XNode) : Bool := WalkOk fp declared n && quiet n

theorem MetaOk_walk {fp declared n} (h : MetaOk fp declared n = true) : WalkOk fp declared n = true := by
  simp only [MetaOk, Bool.and_eq_true] at h; exact h.1

theorem MetaOk_quiet {fp declared n} (h : MetaOk fp declared n = true) : quiet n = true := by
  simp only [MetaOk, Bool.and_eq_true] at h; exact h.2

theorem all_metaOk {fp declared} {kids : List XNode} (h : kids.all (MetaOk fp declared) = true) :
    kids.all (WalkOk fp declared) = true ∧ kids.all quiet = true := by
  rw [List.all_eq_true] at h
  constructor <;> rw [List.all_eq_true] <;> intro k hk
  · exact MetaOk_walk (h k hk)
  · exact MetaOk_quiet (h k hk)

/-! ## 3. the trees of `E57/Model/MetaTree.lean` -/

section Builders
open E57.MT
variable (fp : FloatParse) (declared : List String)

theorem declared_e57 : isDeclaredNs declared (some XNode.e57NsUri) = true := by
  simp [isDeclaredNs, XNode.e57NsUri, e57Ns]

theorem all_sep (p : XNode → Bool) (hp : p nl = true) (kids : List XNode) : (sep kids).all p = kids.all p := by
  induction kids with
  | nil => rfl
  | cons k ks ih => simp only [sep, List.all_cons, hp, ih, Bool.true_and]

theorem all_lines (p : XNode → Bool) (hp : p nl = true) (kids : List XNode) : (lines kids).all p = kids.all p := by
  simp only [lines, List.all_cons, hp, all_sep p hp, Bool.true_and]

theorem walkOkList_lines {kids : List XNode} (h : kids.all (WalkOk fp declared) = true) :
    WalkOkList fp declared (lines kids) = true := by
  rw [WalkOkList_eq_all, all_lines _ (by rfl)]; exact h

theorem quietList_lines {kids : List XNode} (h : kids.all quiet = true) : quietList (lines kids) = true := by
  rw [quietList_eq_all, all_lines _ (by rfl)]; exact h

theorem walkOk_structT {p0 tag} {kids : List XNode} (h : kids.all (WalkOk fp declared) = true) :
    WalkOk fp declared (structT p0 tag kids) = true := by
  simp [structT, el, WalkOk, declared_e57, bodyOk, XNode.attr, tattr, at_, walkOkList_lines fp declared h]

theorem quiet_structT {p0 tag} {kids : List XNode} (h : kids.all quiet = true) :
    quiet (structT p0 tag kids) = true := by
  simp [structT, el, quiet, quietBody, XNode.attr, tattr, at_, quietList_lines h]

theorem metaOk_structT {p0 tag} {kids : List XNode} (h : kids.all (MetaOk fp declared) = true) :
    MetaOk fp declared (structT p0 tag kids) = true := by
  obtain ⟨h1, h2⟩ := all_metaOk h
  simp only [MetaOk, walkOk_structT fp declared h1, quiet_structT h2, Bool.and_self]

theorem walkOk_vectorT {p0 tag} {kids : List XNode} (h : kids.all (WalkOk fp declared) = true) :
    WalkOk fp declared (vectorT p0 tag kids) = true := by
  simp [vectorT, el, WalkOk, declared_e57, bodyOk, XNode.attr, tattr, at_, walkOkList_lines fp declared h]

theorem metaOk_string (p0 : Option String) (tag v : String) : MetaOk fp declared (genStringTree p0 tag v) = true := by
  simp [MetaOk, genStringTree, el, WalkOk, quiet, quietBody, declared_e57, bodyOk, leafOk, XNode.attr, tattr, at_]

/-- a leaf of type Integer whose text parses -/
theorem metaOk_intLeaf (p0 : Option String) (tag s : String) (h : (parseI64 s).isSome = true) :
    MetaOk fp declared (el p0 tag [tattr "Integer"] [.text s]) = true := by
  simp [MetaOk, el, WalkOk, quiet, quietBody, declared_e57, bodyOk, leafOk, XNode.attr, tattr, at_, XNode.textOf,
    XNode.textPieces, XNode.children, h]

theorem metaOk_scaledLeaf (p0 : Option String) (tag s : String) (h : (parseI64 s).isSome = true) :
    MetaOk fp declared (el p0 tag [tattr "ScaledInteger"] [.text s]) = true := by
  simp [MetaOk, el, WalkOk, quiet, quietBody, declared_e57, bodyOk, leafOk, XNode.attr, tattr, at_, XNode.textOf,
    XNode.textPieces, XNode.children, h]

theorem metaOk_int (p0 : Option String) (tag : String) (v : Int) (h : InI64 v) :
    MetaOk fp declared (genIntTree p0 tag v) = true :=
  metaOk_intLeaf fp declared p0 tag _ (by rw [parseI64_toString v h]; rfl)

theorem metaOk_float (ft : FloatText) (p0 : Option String) (tag : String) (v : UInt64) (h : F64OK ft fp v) :
    MetaOk fp declared (genFloatTree ft p0 tag v) = true := by
  have h := h.parse
  simp [MetaOk, genFloatTree, el, WalkOk, quiet, quietBody, declared_e57, bodyOk, leafOk, XNode.attr, tattr, at_,
    XNode.textOf, XNode.textPieces, XNode.children, h]

theorem metaOk_recordValue (ft : FloatText) (p0 : Option String) (tag : String) (v : Value) (h : ValueOK ft fp v) :
    MetaOk fp declared (recordValueTree ft p0 tag v) = true := by
  cases v with
  | integer i => exact metaOk_intLeaf fp declared p0 tag _ (by rw [parseI64_toString i h]; rfl)
  | scaled i => exact metaOk_scaledLeaf fp declared p0 tag _ (by rw [parseI64_toString i h]; rfl)
  | single b =>
    have h' : fp.f32 (ft.show32 b) = some b := F32OK.parse h
    simp [MetaOk, recordValueTree, el, WalkOk, quiet, quietBody, declared_e57, bodyOk, leafOk, XNode.attr, tattr, at_,
      XNode.textOf, XNode.textPieces, XNode.children, h']
  | double b => exact metaOk_float fp declared ft p0 tag b h

theorem allOpt {α} (o : Option α) (f : α → XNode) (p : XNode → Bool)
    (h : ∀ a, o = some a → p (f a) = true) : (optT o f).all p = true := XmlP.all_optT o f p h

theorem metaOk_dateTime (ft : FloatText) (p0 : Option String) (d : DateTime) (tag : String)
    (h : F64OK ft fp d.gpsTime) : MetaOk fp declared (DateTime.tree ft p0 d tag) = true := by
  apply metaOk_structT
  simp only [List.all_cons, List.all_nil, Bool.and_true, Bool.and_eq_true]
  refine ⟨metaOk_float fp declared ft p0 _ _ h, metaOk_intLeaf fp declared p0 _ _ ?_⟩
  cases d.atomic <;> decide

theorem metaOk_transform (ft : FloatText) (p0 : Option String) (t : Transform) (tag : String)
    (h : ∀ v ∈ Transform.floats t, F64OK ft fp v) : MetaOk fp declared (Transform.tree ft p0 t tag) = true := by
  have f : ∀ tg v, v ∈ Transform.floats t → MetaOk fp declared (genFloatTree ft p0 tg v) = true :=
    fun tg v hv => metaOk_float fp declared ft p0 tg v (h v hv)
  apply metaOk_structT
  simp only [List.all_cons, List.all_nil, Bool.and_true, Bool.and_eq_true]
  constructor
  · apply metaOk_structT
    simp only [List.all_cons, List.all_nil, Bool.and_true, Bool.and_eq_true]
    exact ⟨f _ _ (by simp [Transform.floats]), f _ _ (by simp [Transform.floats]), f _ _ (by simp [Transform.floats]),
      f _ _ (by simp [Transform.floats])⟩
  · apply metaOk_structT
    simp only [List.all_cons, List.all_nil, Bool.and_true, Bool.and_eq_true]
    exact ⟨f _ _ (by simp [Transform.floats]), f _ _ (by simp [Transform.floats]), f _ _ (by simp [Transform.floats])⟩

theorem metaOk_cartesianBounds (ft : FloatText) (p0 : Option String) (b : CartesianBounds)
    (h : ∀ o ∈ CartesianBounds.floats b, ∀ v, o = some v → F64OK ft fp v) :
    MetaOk fp declared (CartesianBounds.tree ft p0 b) = true := by
  apply metaOk_structT
  simp only [List.all_append, Bool.and_eq_true]
  refine ⟨⟨⟨⟨⟨?_, ?_⟩, ?_⟩, ?_⟩, ?_⟩, ?_⟩ <;>
  · apply allOpt; intro a ha
    exact metaOk_float fp declared ft p0 _ a (h _ (by simp [CartesianBounds.floats]) a ha)

theorem metaOk_sphericalBounds (ft : FloatText) (p0 : Option String) (b : SphericalBounds)
    (h : ∀ o ∈ SphericalBounds.floats b, ∀ v, o = some v → F64OK ft fp v) :
    MetaOk fp declared (SphericalBounds.tree ft p0 b) = true := by
  apply metaOk_structT
  simp only [List.all_append, Bool.and_eq_true]
  refine ⟨⟨⟨⟨⟨?_, ?_⟩, ?_⟩, ?_⟩, ?_⟩, ?_⟩ <;>
  · apply allOpt; intro a ha
    exact metaOk_float fp declared ft p0 _ a (h _ (by simp [SphericalBounds.floats]) a ha)

theorem metaOk_indexBounds (p0 : Option String) (b : IndexBounds)
    (h : ∀ o ∈ IndexBounds.ints b, ∀ v, o = some v → InI64 v) :
    MetaOk fp declared (IndexBounds.tree p0 b) = true := by
  apply metaOk_structT
  simp only [List.all_append, Bool.and_eq_true]
  refine ⟨⟨⟨⟨⟨?_, ?_⟩, ?_⟩, ?_⟩, ?_⟩, ?_⟩ <;>
  · apply allOpt; intro a ha
    exact metaOk_int fp declared p0 _ a (h _ (by simp [IndexBounds.ints]) a ha)

theorem metaOk_intensityLimits (ft : FloatText) (p0 : Option String) (l : IntensityLimits)
    (h : ∀ o ∈ IntensityLimits.values l, ∀ v, o = some v → ValueOK ft fp v) :
    MetaOk fp declared (IntensityLimits.tree ft p0 l) = true := by
  apply metaOk_structT
  simp only [List.all_append, Bool.and_eq_true]
  refine ⟨?_, ?_⟩ <;>
  · apply allOpt; intro a ha
    exact metaOk_recordValue fp declared ft p0 _ a (h _ (by simp [IntensityLimits.values]) a ha)

theorem metaOk_colorLimits (ft : FloatText) (p0 : Option String) (l : ColorLimits)
    (h : ∀ o ∈ ColorLimits.values l, ∀ v, o = some v → ValueOK ft fp v) :
    MetaOk fp declared (ColorLimits.tree ft p0 l) = true := by
  apply metaOk_structT
  simp only [List.all_append, Bool.and_eq_true]
  refine ⟨⟨⟨⟨⟨?_, ?_⟩, ?_⟩, ?_⟩, ?_⟩, ?_⟩ <;>
  · apply allOpt; intro a ha
    exact metaOk_recordValue fp declared ft p0 _ a (h _ (by simp [ColorLimits.values]) a ha)

theorem metaOk_originalGuids (p0 : Option String) (gs : List String) :
    MetaOk fp declared (originalGuidsTree p0 gs) = true := by
  have h : (gs.map (genStringTree p0 "vectorChild")).all (MetaOk fp declared) = true := by
    rw [List.all_map, List.all_eq_true]; intro g _; exact metaOk_string fp declared p0 _ g
  obtain ⟨h1, h2⟩ := all_metaOk h
  simp [MetaOk, originalGuidsTree, el, WalkOk, quiet, quietBody, declared_e57, bodyOk, XNode.attr, tattr, at_,
    walkOkList_lines fp declared h1, quietList_lines h2]

/-! ### numbers in attributes -/

theorem attrNat_of {n : XNode} {a : String} {v : Nat} (h : n.attr a = some (toString v))
    (hv : v ≤ 18446744073709551615) : attrNat n a = .ok v := by
  unfold attrNat
  rw [h]
  simp only [parseU64_toString v hv]
  rfl

theorem natAttr_of {n : XNode} {a : String} {v : Nat} (h : n.attr a = some (toString v))
    (hv : v ≤ 18446744073709551615) : natAttr n a = v := by
  unfold natAttr
  rw [h]
  simp only [Option.bind_some, parseU64_toString v hv, Option.getD_some]

/-! ### images -/

theorem walkOk_blobRef (p0 : Option String) (b : BlobRef) (tag : String) (h : BlobOK b) :
    WalkOk fp declared (BlobRef.tree p0 b tag) = true := by
  have h1 : attrNat (BlobRef.tree p0 b tag) "fileOffset" = .ok b.offset :=
    attrNat_of (by simp [BlobRef.tree, el, XNode.attr, tattr, at_]) h.1
  have h2 : attrNat (BlobRef.tree p0 b tag) "length" = .ok b.length :=
    attrNat_of (by simp [BlobRef.tree, el, XNode.attr, tattr, at_]) h.2
  have e : BlobRef.tree p0 b tag = .elem (some XNode.e57NsUri) p0 tag
      [tattr "Blob", at_ "fileOffset" (toString b.offset), at_ "length" (toString b.length)] [] := rfl
  rw [e] at h1 h2
  rw [e, WalkOk, declared_e57]
  have ht : (XNode.elem (some XNode.e57NsUri) p0 tag
      [tattr "Blob", at_ "fileOffset" (toString b.offset), at_ "length" (toString b.length)] []).attr "type"
      = some "Blob" := by simp [XNode.attr, tattr, at_]
  rw [ht]
  simp only [Nat.toString_eq_repr] at h1 h2
  simp [bodyOk, leafOk, h1, h2, isOk]

theorem walkOk_imageBlob (p0 : Option String) (b : ImageBlob) (h : BlobOK b.data) :
    WalkOk fp declared (ImageBlob.tree p0 b) = true := by
  unfold ImageBlob.tree
  split <;> exact walkOk_blobRef fp declared p0 _ _ h

theorem InI64_of_dim {n : Nat} (h : DimOK n) : InI64 (n : Int) := by
  unfold DimOK at h
  unfold InI64 i64Min i64Max
  omega

theorem walkOk_int (p0 : Option String) (tag : String) (v : Int) (h : InI64 v) :
    WalkOk fp declared (genIntTree p0 tag v) = true := MetaOk_walk (metaOk_int fp declared p0 tag v h)

theorem walkOk_float (ft : FloatText) (p0 : Option String) (tag : String) (v : UInt64) (h : F64OK ft fp v) :
    WalkOk fp declared (genFloatTree ft p0 tag v) = true := MetaOk_walk (metaOk_float fp declared ft p0 tag v h)

theorem walkOk_visualRef (p0 : Option String) (v : VisualRef) (ok : VisualRef.OK v) :
    WalkOk fp declared (VisualRef.tree p0 v) = true := by
  apply walkOk_structT
  simp only [List.all_append, Bool.and_eq_true, List.all_cons, List.all_nil, Bool.and_true]
  refine ⟨⟨walkOk_imageBlob fp declared p0 _ ok.blob, ?_⟩, walkOk_int fp declared p0 _ _ (InI64_of_dim ok.width),
    walkOk_int fp declared p0 _ _ (InI64_of_dim ok.height)⟩
  apply allOpt; intro a ha; exact walkOk_blobRef fp declared p0 a _ (ok.mask a ha)

theorem walkOk_pinhole (ft : FloatText) (p0 : Option String) (v : Pinhole) (ok : Pinhole.OK ft fp v) :
    WalkOk fp declared (Pinhole.tree ft p0 v) = true := by
  apply walkOk_structT
  simp only [List.all_append, Bool.and_eq_true, List.all_cons, List.all_nil, Bool.and_true]
  refine ⟨⟨walkOk_imageBlob fp declared p0 _ ok.blob, ?_⟩, walkOk_int fp declared p0 _ _ (InI64_of_dim ok.width),
    walkOk_int fp declared p0 _ _ (InI64_of_dim ok.height),
    walkOk_float fp declared ft p0 _ _ ok.focalLength, walkOk_float fp declared ft p0 _ _ ok.pixelWidth,
    walkOk_float fp declared ft p0 _ _ ok.pixelHeight, walkOk_float fp declared ft p0 _ _ ok.principalX,
    walkOk_float fp declared ft p0 _ _ ok.principalY⟩
  apply allOpt; intro a ha; exact walkOk_blobRef fp declared p0 a _ (ok.mask a ha)

theorem walkOk_sphericalImg (ft : FloatText) (p0 : Option String) (v : SphericalImg) (ok : SphericalImg.OK ft fp v) :
    WalkOk fp declared (SphericalImg.tree ft p0 v) = true := by
  apply walkOk_structT
  simp only [List.all_append, Bool.and_eq_true, List.all_cons, List.all_nil, Bool.and_true]
  refine ⟨⟨walkOk_imageBlob fp declared p0 _ ok.blob, ?_⟩, walkOk_int fp declared p0 _ _ (InI64_of_dim ok.width),
    walkOk_int fp declared p0 _ _ (InI64_of_dim ok.height),
    walkOk_float fp declared ft p0 _ _ ok.pixelWidth, walkOk_float fp declared ft p0 _ _ ok.pixelHeight⟩
  apply allOpt; intro a ha; exact walkOk_blobRef fp declared p0 a _ (ok.mask a ha)

theorem walkOk_cylindrical (ft : FloatText) (p0 : Option String) (v : Cylindrical) (ok : Cylindrical.OK ft fp v) :
    WalkOk fp declared (Cylindrical.tree ft p0 v) = true := by
  apply walkOk_structT
  simp only [List.all_append, Bool.and_eq_true, List.all_cons, List.all_nil, Bool.and_true]
  refine ⟨⟨walkOk_imageBlob fp declared p0 _ ok.blob, ?_⟩, walkOk_int fp declared p0 _ _ (InI64_of_dim ok.width),
    walkOk_int fp declared p0 _ _ (InI64_of_dim ok.height),
    walkOk_float fp declared ft p0 _ _ ok.radius, walkOk_float fp declared ft p0 _ _ ok.principalY,
    walkOk_float fp declared ft p0 _ _ ok.pixelWidth, walkOk_float fp declared ft p0 _ _ ok.pixelHeight⟩
  apply allOpt; intro a ha; exact walkOk_blobRef fp declared p0 a _ (ok.mask a ha)

theorem walkOk_projection (ft : FloatText) (p0 : Option String) (p : Projection) (ok : Projection.OK ft fp p) :
    WalkOk fp declared (Projection.tree ft p0 p) = true := by
  cases p with
  | pinhole v => exact walkOk_pinhole fp declared ft p0 v ok
  | spherical v => exact walkOk_sphericalImg fp declared ft p0 v ok
  | cylindrical v => exact walkOk_cylindrical fp declared ft p0 v ok

theorem walkOk_image (ft : FloatText) (p0 : Option String) (i : Image) (ok : Image.OK ft fp i) :
    WalkOk fp declared (Image.tree ft p0 i) = true := by
  simp only [Image.tree]
  apply walkOk_structT
  simp only [List.all_append, Bool.and_eq_true]
  repeat' apply And.intro
  all_goals first
    | (apply allOpt; intro a ha; exact MetaOk_walk (metaOk_string fp declared p0 _ a))
    | (apply allOpt; intro a ha; exact walkOk_visualRef fp declared p0 a (ok.visualReference a ha))
    | (apply allOpt; intro a ha; exact walkOk_projection fp declared ft p0 a (ok.projection a ha))
    | (apply allOpt; intro a ha; exact MetaOk_walk (metaOk_transform fp declared ft p0 a _ (ok.transform a ha)))
    | (apply allOpt; intro a ha; exact MetaOk_walk (metaOk_dateTime fp declared ft p0 a _ (ok.acquisition a ha)))

/-! ### prototype records and the points element -/

/-- the namespaces the decoder takes as declared for the writer's document -/
def declaredOf (exts : List (String × String)) : List String := (rootNamespaces exts).map (·.2)

theorem Record_tree_eq (ft : FloatText) (exts : List (String × String)) (r : Record) :
    Record.tree ft exts r = .elem (recordNs exts r.name).1 (recordNs exts r.name).2 r.name.tagName
      (recordTypeTree ft r.dt).1 [.text (recordTypeTree ft r.dt).2] := rfl

theorem declared_recordNs (exts : List (String × String)) (name : RecordName) (h : RecordNameOK exts name) :
    isDeclaredNs (declaredOf exts) (recordNs exts name).1 = true := by
  cases hn : name.namespace? with
  | none => simp only [recordNs, hn]; exact declared_e57 _
  | some ns =>
    cases name with
    | unknown ns' nm =>
      simp only [RecordName.namespace?, Option.some.injEq] at hn
      subst hn
      obtain ⟨url, h1, _⟩ := h
      simp only [recordNs, RecordName.namespace?, h1]
      unfold extUrl at h1
      cases hf : exts.find? (fun e => e.1 == ns') with
      | none => rw [hf] at h1; cases h1
      | some e =>
        rw [hf] at h1
        simp only [Option.map_some, Option.some.injEq] at h1
        have hm := List.mem_of_find?_eq_some hf
        have : url ∈ declaredOf exts := by
          simp only [declaredOf, rootNamespaces, List.map_append, List.map_map, List.mem_append, List.mem_map]
          exact Or.inl ⟨e, hm, h1⟩
        simp [isDeclaredNs, this]
    | _ => simp [RecordName.namespace?] at hn

theorem recordText_ok (ft : FloatText) (dt : DataType) (h : DataTypeOK ft fp dt) (ns pfx name cs) :
    isOk (recordText fp (.elem ns pfx name (recordTypeTree ft dt).1 cs)) = true := by
  cases dt with
  | single min max =>
    obtain ⟨h1, h2⟩ := h
    cases min <;> cases max <;>
      simp [F32OK] at h1 h2 <;>
      simp [recordText, recordTypeTree, XNode.attr, optT, tattr, at_, optFloatAttr32, h1, h2, isOk, bind, Except.bind,
        pure, Except.pure]
  | double min max =>
    obtain ⟨h1, h2⟩ := h
    cases min <;> cases max <;>
      simp [F64OK] at h1 h2 <;>
      simp [recordText, recordTypeTree, XNode.attr, optT, tattr, at_, optFloatAttr64, h1, h2, isOk, bind, Except.bind,
        pure, Except.pure]
  | scaled min max scale offset =>
    obtain ⟨h1, h2, _, h4, h5⟩ := h
    simp only [F64OK] at h4 h5
    simp [recordText, recordTypeTree, XNode.attr, tattr, at_, optFloatAttr64, optIntAttrText, parseI64_repr _ h1,
      parseI64_repr _ h2, h4, h5, isOk, bind, Except.bind, pure, Except.pure]
  | integer min max =>
    obtain ⟨h1, h2, _⟩ := h
    simp [recordText, recordTypeTree, XNode.attr, tattr, at_, optIntAttrText, parseI64_repr _ h1,
      parseI64_repr _ h2, isOk, bind, Except.bind, pure, Except.pure]

/-- the decoder's record type of a prototype entry is the one `WF.decType` computes from the model -/
theorem recordType_ok (ft : FloatText) (dt : DataType) (h : DataTypeOK ft fp dt) (ns pfx name cs) :
    recordType (.elem ns pfx name (recordTypeTree ft dt).1 cs) = .ok (WF.decType dt) := by
  cases dt with
  | single min max =>
    cases min <;> cases max <;>
      simp [recordType, recordTypeTree, XNode.attr, optT, tattr, at_, WF.decType, pure, Except.pure]
  | double min max =>
    cases min <;> cases max <;>
      simp [recordType, recordTypeTree, XNode.attr, optT, tattr, at_, WF.decType, pure, Except.pure]
  | scaled min max scale offset =>
    obtain ⟨h1, h2, h3, _, _⟩ := h
    simp [recordType, recordTypeTree, XNode.attr, tattr, at_, optIntAttr, parseI64_repr _ h1,
      parseI64_repr _ h2, h3, need, WF.decType, bind, Except.bind, pure, Except.pure]
  | integer min max =>
    obtain ⟨h1, h2, h3⟩ := h
    simp [recordType, recordTypeTree, XNode.attr, tattr, at_, optIntAttr, parseI64_repr _ h1,
      parseI64_repr _ h2, h3, need, WF.decType, bind, Except.bind, pure, Except.pure]

theorem recOk_record (ft : FloatText) (exts : List (String × String)) (r : Record)
    (hn : RecordNameOK exts r.name) (hd : DataTypeOK ft fp r.dt) :
    recOk fp (declaredOf exts) (Record.tree ft exts r) = true := by
  rw [Record_tree_eq, recOk, Bool.and_eq_true]
  exact ⟨declared_recordNs exts r.name hn, recordText_ok fp ft r.dt hd _ _ _ _⟩

theorem find_proto (p0 : Option String) (kids : List XNode) :
    (lines [structT p0 "prototype" kids]).find? (fun c => c.hasTagName "prototype")
      = some (structT p0 "prototype" kids) := by
  simp [lines, sep, nl, structT, el, XNode.hasTagName]

theorem pointsTree_eq (ft : FloatText) (exts : List (String × String)) (pc : PointCloud) :
    pointsTree ft exts pc = .elem (some XNode.e57NsUri) (e57Prefix exts) "points"
      [tattr "CompressedVector", at_ "fileOffset" (toString pc.fileOffset), at_ "recordCount" (toString pc.records)]
      (lines [structT (e57Prefix exts) "prototype" (pc.prototype.map (Record.tree ft exts))]) := rfl

theorem protoRecs_points (ft : FloatText) (exts : List (String × String)) (pc : PointCloud) :
    protoRecs (pointsTree ft exts pc)
      = pc.prototype.map (fun r => (Spec.qname (Record.tree ft exts r), Record.tree ft exts r)) := by
  rw [pointsTree_eq, protoRecs]
  simp only [XNode.children, find_proto]
  rw [structT, el]
  rw [filter_isElement_lines _ (by simp), List.map_map]
  rfl

theorem walkOk_points (ft : FloatText) (exts : List (String × String)) (pc : PointCloud)
    (h1 : pc.fileOffset ≤ 18446744073709551615) (h2 : pc.records ≤ 18446744073709551615)
    (hp : PrototypeOK ft fp exts pc.prototype) :
    WalkOk fp (declaredOf exts) (pointsTree ft exts pc) = true := by
  have a1 : attrNat (pointsTree ft exts pc) "fileOffset" = .ok pc.fileOffset :=
    attrNat_of (by simp [pointsTree_eq, XNode.attr, tattr, at_]) h1
  have a2 : attrNat (pointsTree ft exts pc) "recordCount" = .ok pc.records :=
    attrNat_of (by simp [pointsTree_eq, XNode.attr, tattr, at_]) h2
  have ht : (pointsTree ft exts pc).attr "type" = some "CompressedVector" := by
    simp [pointsTree_eq, XNode.attr, tattr, at_]
  have hrecs : ((structT (e57Prefix exts) "prototype" (pc.prototype.map (Record.tree ft exts))).children.filter
      XNode.isElement).all (recOk fp (declaredOf exts)) = true := by
    rw [structT, el]
    simp only [XNode.children]
    rw [filter_isElement_lines _ (by simp), List.all_map, List.all_eq_true]
    intro r hr
    exact recOk_record fp ft exts r (hp r hr).1 (hp r hr).2
  have hst : ((structT (e57Prefix exts) "prototype" (pc.prototype.map (Record.tree ft exts))).attr "type"
      == some "Structure") = true := by simp [structT, el, XNode.attr, tattr, at_]
  have hleaf : leafOk fp (declaredOf exts) (pointsTree ft exts pc) "CompressedVector" = true := by
    have hch : (pointsTree ft exts pc).children
        = lines [structT (e57Prefix exts) "prototype" (pc.prototype.map (Record.tree ft exts))] := rfl
    simp only [leafOk, a1, a2, isOk, hch, find_proto, hst, hrecs]
    simp
  rw [pointsTree_eq] at ht hleaf
  rw [pointsTree_eq, WalkOk, declared_e57, ht]
  simp only [bodyOk, Bool.true_and]
  rw [if_neg (by decide)]
  exact hleaf

/-! ### point clouds and the root -/

/-- the metadata children of a point cloud element: everything before `points` -/
def pcMeta (ft : FloatText) (exts : List (String × String)) (pc : PointCloud) : List XNode :=
  let p0 := e57Prefix exts
  optT pc.guid (genStringTree p0 "guid")
     ++ optT pc.originalGuids (originalGuidsTree p0)
     ++ optT pc.cartesianBounds (CartesianBounds.tree ft p0)
     ++ optT pc.sphericalBounds (SphericalBounds.tree ft p0)
     ++ optT pc.indexBounds (IndexBounds.tree p0)
     ++ optT (pc.colorLimits.filter ColorLimits.complete) (ColorLimits.tree ft p0)
     ++ optT (pc.intensityLimits.filter IntensityLimits.complete) (IntensityLimits.tree ft p0)
     ++ optT pc.name (genStringTree p0 "name")
     ++ optT pc.description (genStringTree p0 "description")
     ++ optT pc.sensorVendor (genStringTree p0 "sensorVendor")
     ++ optT pc.sensorModel (genStringTree p0 "sensorModel")
     ++ optT pc.sensorSerial (genStringTree p0 "sensorSerialNumber")
     ++ optT pc.sensorSwVersion (genStringTree p0 "sensorSoftwareVersion")
     ++ optT pc.sensorFwVersion (genStringTree p0 "sensorFirmwareVersion")
     ++ optT pc.sensorHwVersion (genStringTree p0 "sensorHardwareVersion")
     ++ optT pc.transform (fun t => Transform.tree ft p0 t "pose")
     ++ optT pc.acquisitionStart (fun d => DateTime.tree ft p0 d "acquisitionStart")
     ++ optT pc.acquisitionEnd (fun d => DateTime.tree ft p0 d "acquisitionEnd")
     ++ optT pc.temperature (genFloatTree ft p0 "temperature")
     ++ optT pc.humidity (genFloatTree ft p0 "relativeHumidity")
     ++ optT pc.atmosphericPressure (genFloatTree ft p0 "atmosphericPressure")


theorem PointCloud_tree_eq (ft : FloatText) (exts : List (String × String)) (pc : PointCloud) :
    PointCloud.tree ft exts pc
      = structT (e57Prefix exts) "vectorChild" (pcMeta ft exts pc ++ [pointsTree ft exts pc]) := by
  unfold PointCloud.tree pcMeta
  rfl

theorem pcMeta_ok (ft : FloatText) (exts : List (String × String)) (pc : PointCloud)
    (ok : PointCloud.OK ft fp exts pc) : (pcMeta ft exts pc).all (MetaOk fp declared) = true := by
  unfold pcMeta
  simp only [List.all_append, Bool.and_eq_true]
  and_intros
  all_goals first
    | (apply allOpt; intro a ha; exact metaOk_string fp declared _ _ a)
    | (apply allOpt; intro a ha; exact metaOk_originalGuids fp declared _ a)
    | (apply allOpt; intro a ha; exact metaOk_cartesianBounds fp declared ft _ a (ok.cartesian a ha))
    | (apply allOpt; intro a ha; exact metaOk_sphericalBounds fp declared ft _ a (ok.spherical a ha))
    | (apply allOpt; intro a ha; exact metaOk_indexBounds fp declared _ a (ok.index a ha))
    | (apply allOpt; intro a ha
       exact metaOk_colorLimits fp declared ft _ a (ok.color a (Option.filter_eq_some' ha)))
    | (apply allOpt; intro a ha
       exact metaOk_intensityLimits fp declared ft _ a (ok.intensity a (Option.filter_eq_some' ha)))
    | (apply allOpt; intro a ha; exact metaOk_transform fp declared ft _ a _ (ok.transform a ha))
    | (apply allOpt; intro a ha; exact metaOk_dateTime fp declared ft _ a _ (ok.acquisitionStart a ha))
    | (apply allOpt; intro a ha; exact metaOk_dateTime fp declared ft _ a _ (ok.acquisitionEnd a ha))
    | (apply allOpt; intro a ha; exact metaOk_float fp declared ft _ _ a (ok.temperature a ha))
    | (apply allOpt; intro a ha; exact metaOk_float fp declared ft _ _ a (ok.humidity a ha))
    | (apply allOpt; intro a ha; exact metaOk_float fp declared ft _ _ a (ok.atmosphericPressure a ha))

theorem walkOk_pointCloud (ft : FloatText) (exts : List (String × String)) (pc : PointCloud)
    (ok : PointCloud.OK ft fp exts pc) : WalkOk fp (declaredOf exts) (PointCloud.tree ft exts pc) = true := by
  rw [PointCloud_tree_eq]
  apply walkOk_structT
  rw [List.all_append, Bool.and_eq_true]
  refine ⟨(all_metaOk (pcMeta_ok fp _ ft exts pc ok)).1, ?_⟩
  simp only [List.all_cons, List.all_nil, Bool.and_true]
  exact walkOk_points fp ft exts pc ok.fileOffset ok.records ok.prototype

theorem rootHead_ok (ft : FloatText) (root : Root) (p0 : Option String)
    (hcr : ∀ d, root.creation = some d → F64OK ft fp d.gpsTime) :
    (rootHead ft root p0).all (MetaOk fp declared) = true := by
  unfold rootHead
  simp only [List.all_append, Bool.and_eq_true, List.all_cons, List.all_nil, Bool.and_true]
  refine ⟨⟨⟨⟨metaOk_string fp declared _ _ _, metaOk_string fp declared _ _ _,
    metaOk_int fp declared _ _ _ (by unfold InI64 i64Min i64Max; omega),
    metaOk_int fp declared _ _ _ (by unfold InI64 i64Min i64Max; omega)⟩, ?_⟩, ?_⟩, ?_⟩
  · apply allOpt; intro a _; exact metaOk_string fp declared _ _ a
  · apply allOpt; intro a _; exact metaOk_string fp declared _ _ a
  · apply allOpt; intro a ha; exact metaOk_dateTime fp declared ft _ a _ (hcr a ha)

theorem rootTree_eq' (ft : FloatText) (root : Root) (pcs : List PointCloud) (imgs : List Image)
    (exts : List (String × String)) :
    rootTree ft root pcs imgs exts = structT (e57Prefix exts) "e57Root"
      (rootHead ft root (e57Prefix exts) ++ [vectorT (e57Prefix exts) "data3D" (pcs.map (PointCloud.tree ft exts)),
        vectorT (e57Prefix exts) "images2D" (imgs.map (Image.tree ft (e57Prefix exts)))]) := by
  unfold rootTree rootHead
  rfl

/-- **item 2: the walk accepts the writer's document.**  Hypotheses (the ones of `MT.C04_document_roundtrip` and of
    the closed session theorems): the float texts `ft` prints parse back with `fp`, integers are `i64`, offsets and
    counts `u64`, image dimensions `u32`, extension records are registered (`RecordNameOK` in `PrototypeOK`:
    `MT.PrototypeOK_of_validate` gives it from `validateExtensions` and `ExtsOk`). -/
theorem rootTree_walkOk (ft : FloatText) (root : Root) (pcs : List PointCloud) (imgs : List Image)
    (exts : List (String × String))
    (hcr : ∀ d, root.creation = some d → F64OK ft fp d.gpsTime)
    (okpc : ∀ pc ∈ pcs, PointCloud.OK ft fp exts pc) (okimg : ∀ i ∈ imgs, Image.OK ft fp i) :
    WalkOk fp (declaredOf exts) (rootTree ft root pcs imgs exts) = true := by
  rw [rootTree_eq']
  apply walkOk_structT
  rw [List.all_append, Bool.and_eq_true]
  refine ⟨(all_metaOk (rootHead_ok fp _ ft root _ hcr)).1, ?_⟩
  simp only [List.all_cons, List.all_nil, Bool.and_true, Bool.and_eq_true]
  constructor
  · apply walkOk_vectorT
    rw [List.all_eq_true]
    intro x hx
    obtain ⟨pc, hpc, rfl⟩ := List.mem_map.1 hx
    exact walkOk_pointCloud fp ft exts pc (okpc pc hpc)
  · apply walkOk_vectorT
    rw [List.all_eq_true]
    intro x hx
    obtain ⟨i, hi, rfl⟩ := List.mem_map.1 hx
    exact walkOk_image fp _ ft _ i (okimg i hi)

end Builders

/-! ## 4. what the walk collects on the writer's document -/

section Gather
open E57.MT
variable {α : Type} (f : String → String → XNode → List α)

theorem gatherList_false_k (path : String) : ∀ (cs : List XNode) (k k' : Nat),
    gatherList f path false k cs = gatherList f path false k' cs
  | [], _, _ => rfl
  | c :: cs, k, k' => by
    rw [gatherList, gatherList]
    split
    · rw [gatherList_false_k path cs (k + 1) (k' + 1)]
      simp
    · exact gatherList_false_k path cs k k'

theorem gatherList_false_append (path : String) (k : Nat) : ∀ (a b : List XNode),
    gatherList f path false k (a ++ b) = gatherList f path false k b ++ gatherList f path false k a
  | [], b => by simp [gatherList]
  | c :: a, b => by
    rw [List.cons_append, gatherList, gatherList]
    split
    · rw [gatherList_false_k f path (a ++ b) (k + 1) k, gatherList_false_append path k a b,
        gatherList_false_k f path a (k + 1) k, List.append_assoc]
    · exact gatherList_false_append path k a b

theorem sep_append : ∀ (a b : List XNode), sep (a ++ b) = sep a ++ sep b
  | [], _ => rfl
  | x :: a, b => by simp [sep, sep_append a b]

theorem quietList_sep {kids : List XNode} (h : kids.all quiet = true) : quietList (sep kids) = true := by
  rw [quietList_eq_all, all_sep _ (by rfl)]; exact h

theorem qname_el (p0 : Option String) (name : String) (attrs : List XAttr) (cs : List XNode) :
    Spec.qname (el p0 name attrs cs) = name := by
  simp [Spec.qname, el, XNode.tagNs, XNode.tagLocal, XNode.e57NsUri, e57Ns]

theorem gatherList_nl (path : String) (indexed : Bool) (k : Nat) (cs : List XNode) :
    gatherList f path indexed k (nl :: cs) = gatherList f path indexed k cs := by
  rw [gatherList]
  simp [nl, XNode.isElement]

theorem gatherList_elem (path : String) (indexed : Bool) (k : Nat) (x : XNode) (cs : List XNode)
    (hx : x.isElement = true) :
    gatherList f path indexed k (x :: cs)
      = gatherList f path indexed (k + 1) cs ++ gather f (if indexed then path ++ s!"[{k}]" else path) x := by
  rw [gatherList, if_pos hx]

theorem gatherList_sep_single (path : String) (indexed : Bool) (k : Nat) (x : XNode) (hx : x.isElement = true) :
    gatherList f path indexed k (sep [x]) = gather f (if indexed then path ++ s!"[{k}]" else path) x := by
  simp only [sep]
  rw [gatherList, if_pos hx, gatherList_nl]
  simp [gatherList]

theorem gather_structT (path : String) (p0 : Option String) (tag : String) (kids : List XNode) :
    gather f path (structT p0 tag kids) = gatherList f (path ++ "/" ++ tag) false 0 (lines kids) := by
  have hq := qname_el p0 tag [tattr "Structure"] (lines kids)
  rw [structT]
  rw [el] at hq ⊢
  rw [gather, hq]
  simp [gatherBody, XNode.attr, tattr, at_]

theorem gather_vectorT (path : String) (p0 : Option String) (tag : String) (kids : List XNode) :
    gather f path (vectorT p0 tag kids) = gatherList f (path ++ "/" ++ tag) true 0 (lines kids) := by
  have hq := qname_el p0 tag [tattr "Vector", at_ "allowHeterogeneousChildren" "1"] (lines kids)
  rw [vectorT]
  rw [el] at hq ⊢
  rw [gather, hq]
  simp [gatherBody, XNode.attr, tattr, at_]

/-- a Structure whose first children are metadata: only the rest publishes -/
theorem gather_structT_meta (path : String) (p0 : Option String) (tag : String) (metas rest : List XNode)
    (hf : ∀ p ty n, ty ≠ "CompressedVector" → ty ≠ "Blob" → f p ty n = [])
    (hm : metas.all quiet = true) :
    gather f path (structT p0 tag (metas ++ rest)) = gatherList f (path ++ "/" ++ tag) false 0 (sep rest) := by
  rw [gather_structT, lines, gatherList_nl, sep_append, gatherList_false_append,
    gatherList_quiet f hf (sep metas) _ false 0 (quietList_sep hm), List.append_nil]

end Gather

section Collected
open E57.MT

/-- the path the walk gives the `points` element of the only point cloud -/
def cloudPath : String :=
  "" ++ "/" ++ "e57Root" ++ "/" ++ "data3D" ++ s!"[{0}]" ++ "/" ++ "vectorChild" ++ "/" ++ "points"

/-- the record nodes of a prototype as the walk reports them: qualified name, node -/
def recsOf (ft : FloatText) (exts : List (String × String)) (proto : Prototype) : List (String × XNode) :=
  proto.map (fun r => (Spec.qname (Record.tree ft exts r), Record.tree ft exts r))

theorem gather_points_pointsTree (path : String) (ft : FloatText) (exts : List (String × String)) (pc : PointCloud)
    (h1 : pc.fileOffset ≤ 18446744073709551615) (h2 : pc.records ≤ 18446744073709551615) :
    gather pointsAt path (pointsTree ft exts pc)
      = [⟨path ++ "/" ++ "points", pc.fileOffset, pc.records, recsOf ft exts pc.prototype⟩] := by
  have a1 : natAttr (pointsTree ft exts pc) "fileOffset" = pc.fileOffset :=
    natAttr_of (by simp [pointsTree_eq, XNode.attr, tattr, at_]) h1
  have a2 : natAttr (pointsTree ft exts pc) "recordCount" = pc.records :=
    natAttr_of (by simp [pointsTree_eq, XNode.attr, tattr, at_]) h2
  have a3 := protoRecs_points ft exts pc
  have hq : Spec.qname (pointsTree ft exts pc) = "points" := qname_el _ _ _ _
  have ht : (pointsTree ft exts pc).attr "type" = some "CompressedVector" := by
    simp [pointsTree_eq, XNode.attr, tattr, at_]
  rw [pointsTree_eq] at a1 a2 a3 hq ht ⊢
  rw [gather, hq, ht]
  simp only [gatherBody]
  rw [if_neg (by decide), if_neg (by decide), pointsAt, if_pos rfl, a1, a2, a3]
  rfl

theorem gather_blobs_pointsTree (path : String) (ft : FloatText) (exts : List (String × String)) (pc : PointCloud) :
    gather blobsAt path (pointsTree ft exts pc) = [] := by
  have ht : (pointsTree ft exts pc).attr "type" = some "CompressedVector" := by
    simp [pointsTree_eq, XNode.attr, tattr, at_]
  rw [pointsTree_eq] at ht ⊢
  rw [gather, ht]
  simp only [gatherBody]
  rw [if_neg (by decide), if_neg (by decide), blobsAt, if_neg (by decide)]

/-- the references below one point cloud element -/
theorem gather_pointCloud {α : Type} (f : String → String → XNode → List α)
    (hf : ∀ p ty n, ty ≠ "CompressedVector" → ty ≠ "Blob" → f p ty n = [])
    (path : String) (ft : FloatText) (fp : FloatParse) (exts : List (String × String)) (pc : PointCloud)
    (ok : PointCloud.OK ft fp exts pc) :
    gather f path (PointCloud.tree ft exts pc)
      = gather f (path ++ "/" ++ "vectorChild") (pointsTree ft exts pc) := by
  rw [PointCloud_tree_eq, gather_structT_meta f _ _ _ _ _ hf (all_metaOk (pcMeta_ok fp [] ft exts pc ok)).2,
    gatherList_sep_single f _ _ _ _ rfl]
  rfl

/-- the references of a document with one point cloud and no images -/
theorem gather_root_one {α : Type} (f : String → String → XNode → List α)
    (hf : ∀ p ty n, ty ≠ "CompressedVector" → ty ≠ "Blob" → f p ty n = [])
    (ft : FloatText) (fp : FloatParse) (root : Root) (pc : PointCloud) (exts : List (String × String))
    (hcr : ∀ d, root.creation = some d → F64OK ft fp d.gpsTime) (ok : PointCloud.OK ft fp exts pc) :
    gather f "" (rootTree ft root [pc] [] exts)
      = gather f ("" ++ "/" ++ "e57Root" ++ "/" ++ "data3D" ++ s!"[{0}]" ++ "/" ++ "vectorChild")
          (pointsTree ft exts pc) := by
  have hd : (vectorT (e57Prefix exts) "data3D" [PointCloud.tree ft exts pc]).isElement = true := rfl
  have hi : (vectorT (e57Prefix exts) "images2D" ([] : List XNode)).isElement = true := rfl
  have hpc : (PointCloud.tree ft exts pc).isElement = true := by rw [PointCloud_tree_eq]; rfl
  rw [rootTree_eq', gather_structT_meta f _ _ _ _ _ hf (all_metaOk (rootHead_ok fp [] ft root _ hcr)).2]
  simp only [sep, List.map_cons, List.map_nil]
  rw [gatherList_elem f _ _ _ _ _ hd, gatherList_nl, gatherList_elem f _ _ _ _ _ hi, gatherList_nl]
  rw [gather_vectorT, gather_vectorT]
  simp only [lines, sep]
  rw [gatherList_nl, gatherList_nl, gatherList_elem f _ _ _ _ _ hpc, gatherList_nl]
  simp only [gatherList, List.nil_append, List.append_nil, Bool.false_eq_true, if_false, if_true]
  exact gather_pointCloud f hf _ ft fp exts pc ok

/-- **item 3: the walk over the document of a file with one point cloud and no images** succeeds and publishes
    exactly one compressed vector — at the writer's offset, with its record count and the record nodes of its
    prototype — and no blob -/
theorem walk_one_cloud (ft : FloatText) (fp : FloatParse) (root : Root) (pc : PointCloud)
    (exts : List (String × String))
    (hcr : ∀ d, root.creation = some d → F64OK ft fp d.gpsTime) (ok : PointCloud.OK ft fp exts pc) :
    ∃ w, walkNode fp (declaredOf exts) "" (rootTree ft root [pc] [] exts) {} = .ok w ∧
      w.points = [⟨cloudPath, pc.fileOffset, pc.records, recsOf ft exts pc.prototype⟩] ∧ w.blobs = [] := by
  have hw := rootTree_walkOk fp ft root [pc] [] exts hcr
    (by intro p hp; rw [List.mem_singleton] at hp; subst hp; exact ok) (by intro i hi; cases hi)
  obtain ⟨w, e, hp, hb⟩ := walkNode_spec fp (declaredOf exts) _ "" {} hw
  refine ⟨w, e, ?_, ?_⟩
  · rw [hp, gather_root_one pointsAt pointsAt_quiet ft fp root pc exts hcr ok,
      gather_points_pointsTree _ ft exts pc ok.fileOffset ok.records]
    rfl
  · rw [hb, gather_root_one blobsAt blobsAt_quiet ft fp root pc exts hcr ok, gather_blobs_pointsTree]
    rfl

end Collected

theorem cloudPath_eq : cloudPath = "/e57Root/data3D[0]/vectorChild/points" := by decide

/-! ## 5. C02 on the closed file, the walk discharged -/

section Capstone
open E57.MT

/-- the decoder's record types of the published prototype are the ones of the model -/
theorem recsOf_types (ft : FloatText) (fp : FloatParse) (exts : List (String × String)) (proto : Prototype)
    (h : PrototypeOK ft fp exts proto) :
    (recsOf ft exts proto).mapM (fun (x : String × XNode) => recordType x.2)
      = .ok (proto.map (fun r => WF.decType r.dt)) := by
  unfold recsOf
  apply WF.mapM_ok_map
  intro r hr
  show recordType (Record.tree ft exts r) = _
  rw [Record_tree_eq]
  exact recordType_ok fp ft r.dt (h r hr).2 _ _ _ _

open WF Closed in
/-- **`Closed.C02_closed_file_closed` with the walk hypothesis discharged.**  The writer state `e` that is
    finalized right behind the section holds exactly one point cloud `pc'` — the one the section's `finalize`
    returned, possibly with more metadata: same offset, count and prototype — and no image.  Then the independent
    decoder's generic XML walk over the document the Lean front end parses from the file SUCCEEDS, and
    `Spec.decodeFile` returns the points added under the path `/e57Root/data3D[0]/vectorChild/points`.
    What remains are hypotheses on the external float printer/parser and on sizes: `XmlP.InputOK` (as in
    `C02_closed_file_closed`), the creation time parses back, `MT.PointCloud.OK ft fp e.exts pc'` (floats of the
    metadata parse back, integers are `i64`, offset and count are `u64`, extension records are registered). -/
theorem C02_closed_file_walked (pw : PW) (exts : List (String × String)) (guid : String)
    (proto : Prototype) (pts : List (List Value))
    (hpw : pw.Inv) (hal : pw.abs.cur % 4 = 0) (h48 : 48 ≤ pw.abs.cur)
    (hi : ProtoI64 proto) (hn : NoDupNames proto)
    (pw0 : PW) (w0 : PcW) (hnew : PcW.new pw exts guid proto = .ok (pw0, w0))
    (hpts : ∀ pt ∈ pts, pt.length = proto.length ∧ checkValues proto pt = true) :
    ∃ pw1 w1 pw2 w2 pc,
      addPoints pts (pw0, w0) = .ok (pw1, w1) ∧ w1.finalize pw1 = .ok (pw2, w2, pc) ∧
      ∀ (ft : FloatText) (e e' : EW) (pc' : PointCloud),
        e.pw = pw2 → EW.finalize ft e (fun x => some x) = .ok e' → e'.pw.dev.data.length < 2 ^ 64 →
        XmlP.InputOK ft e.root e.pcs e.imgs e.exts →
        e.pcs = [pc'] → e.imgs = [] →
        pc'.fileOffset = pc.fileOffset → pc'.records = pc.records → pc'.prototype = proto →
        PagesOk e'.pw.dev.data e'.pw.abs.data ∧
        CloudOk e'.pw.dev.data e'.pw.abs.data pc.fileOffset pc.records proto.length (pointBits proto = 0)
          (dataChunks (Layout.streamsOf (specTypes proto) (specPoints pts)) (emitted pw exts guid proto pts)
            (List.replicate (specTypes proto).length 0)) ∧
        ∃ xml doc, serializeRoot ft e.root e.pcs e.imgs e.exts = some xml ∧
          leanXo (utf8 xml) = some doc ∧ MT.rootDoc ft e.root e.pcs e.imgs e.exts = some doc ∧
          HeaderOk e'.pw.dev.data e'.pw.abs.data (utf8 xml) ∧
          ∀ (fp : FloatParse), (∀ d, e.root.creation = some d → F64OK ft fp d.gpsTime) →
            PointCloud.OK ft fp e.exts pc' →
            ∃ w, walkNode fp (doc.rootNamespaces.map (·.2)) "" doc.root {} = .ok w ∧
              decodeFile e'.pw.dev.data (utf8 xml) doc fp []
                = .ok ⟨w.leaves.reverse,
                    [(cloudPath, pts.map (fun p => (List.range proto.length).map (fun i =>
                      entryText (Layout.dtAt proto i) (p.getD i (.integer 0)))))], []⟩ := by
  obtain ⟨pw1, w1, pw2, w2, pc, e1, e2, h⟩ :=
    C02_closed_file_closed pw exts guid proto pts hpw hal h48 hi hn pw0 w0 hnew hpts
  refine ⟨pw1, w1, pw2, w2, pc, e1, e2, ?_⟩
  intro ft e e' pc' he hfin hsz hin hpcs himgs hoff hrec hproto
  obtain ⟨p1, p2, xml, doc, hs, hx, hdoc, hH, hdec⟩ := h ft e e' he hfin hsz hin
  refine ⟨p1, p2, xml, doc, hs, hx, hdoc, hH, ?_⟩
  intro fp hcr ok
  have hd : doc = ⟨rootTree ft e.root [pc'] [] e.exts, rootNamespaces e.exts⟩ := by
    rw [hpcs, himgs] at hdoc
    unfold rootDoc at hdoc
    split at hdoc
    · cases hdoc
    · cases hdoc; rfl
  obtain ⟨w, hw, hp, hb⟩ := walk_one_cloud ft fp e.root pc' e.exts hcr ok
  subst hd
  refine ⟨w, hw, ?_⟩
  have := hdec fp w ⟨cloudPath, pc'.fileOffset, pc'.records, recsOf ft e.exts pc'.prototype⟩ hw hp hb hoff hrec
    (by rw [hproto]; exact recsOf_types ft fp e.exts proto (hproto ▸ ok.prototype))
  exact this

end Capstone

/-! ## 5b. any number of point clouds -/

section Many
open E57.MT

/-- the references below the children of a Vector, last child first -/
def gatherIdx {α : Type} (f : String → String → XNode → List α) (path : String) : Nat → List XNode → List α
  | _, [] => []
  | k, c :: cs => gatherIdx f path (k + 1) cs ++ gather f (path ++ s!"[{k}]") c

theorem gatherList_sep_idx {α : Type} (f : String → String → XNode → List α) (path : String) :
    ∀ (kids : List XNode) (k : Nat), (∀ x ∈ kids, x.isElement = true) →
      gatherList f path true k (sep kids) = gatherIdx f path k kids
  | [], _, _ => rfl
  | x :: kids, k, h => by
    simp only [sep]
    rw [gatherList_elem f _ _ _ _ _ (h x (by simp)), gatherList_nl,
      gatherList_sep_idx f path kids (k + 1) (fun y hy => h y (by simp [hy]))]
    simp [gatherIdx]

/-- the reference the walk publishes for the `k`-th point cloud -/
def cloudRef (ft : FloatText) (exts : List (String × String)) (k : Nat) (pc : PointCloud) : PointsRef :=
  ⟨"" ++ "/" ++ "e57Root" ++ "/" ++ "data3D" ++ s!"[{k}]" ++ "/" ++ "vectorChild" ++ "/" ++ "points",
    pc.fileOffset, pc.records, recsOf ft exts pc.prototype⟩

/-- … for all point clouds, LAST FIRST (the walk conses) -/
def cloudRefs (ft : FloatText) (exts : List (String × String)) : Nat → List PointCloud → List PointsRef
  | _, [] => []
  | k, pc :: pcs => cloudRefs ft exts (k + 1) pcs ++ [cloudRef ft exts k pc]

theorem gatherIdx_points (ft : FloatText) (fp : FloatParse) (exts : List (String × String)) :
    ∀ (pcs : List PointCloud) (k : Nat), (∀ pc ∈ pcs, PointCloud.OK ft fp exts pc) →
      gatherIdx pointsAt ("" ++ "/" ++ "e57Root" ++ "/" ++ "data3D") k (pcs.map (PointCloud.tree ft exts))
        = cloudRefs ft exts k pcs
  | [], _, _ => rfl
  | pc :: pcs, k, h => by
    have ok := h pc (by simp)
    rw [List.map_cons, gatherIdx, gatherIdx_points ft fp exts pcs (k + 1) (fun p hp => h p (by simp [hp])),
      gather_pointCloud pointsAt pointsAt_quiet _ ft fp exts pc ok,
      gather_points_pointsTree _ ft exts pc ok.fileOffset ok.records]
    rfl

theorem gatherIdx_blobs (ft : FloatText) (fp : FloatParse) (exts : List (String × String)) (path : String) :
    ∀ (pcs : List PointCloud) (k : Nat), (∀ pc ∈ pcs, PointCloud.OK ft fp exts pc) →
      gatherIdx blobsAt path k (pcs.map (PointCloud.tree ft exts)) = []
  | [], _, _ => rfl
  | pc :: pcs, k, h => by
    have ok := h pc (by simp)
    rw [List.map_cons, gatherIdx, gatherIdx_blobs ft fp exts path pcs (k + 1) (fun p hp => h p (by simp [hp])),
      gather_pointCloud blobsAt blobsAt_quiet _ ft fp exts pc ok, gather_blobs_pointsTree]
    rfl

/-- the references of a document without images: those of its point clouds -/
theorem gather_root_clouds {α : Type} (f : String → String → XNode → List α)
    (hf : ∀ p ty n, ty ≠ "CompressedVector" → ty ≠ "Blob" → f p ty n = [])
    (ft : FloatText) (fp : FloatParse) (root : Root) (pcs : List PointCloud) (exts : List (String × String))
    (hcr : ∀ d, root.creation = some d → F64OK ft fp d.gpsTime) :
    gather f "" (rootTree ft root pcs [] exts)
      = gatherIdx f ("" ++ "/" ++ "e57Root" ++ "/" ++ "data3D") 0 (pcs.map (PointCloud.tree ft exts)) := by
  have hd : (vectorT (e57Prefix exts) "data3D" (pcs.map (PointCloud.tree ft exts))).isElement = true := rfl
  have hi : (vectorT (e57Prefix exts) "images2D" ([] : List XNode)).isElement = true := rfl
  rw [rootTree_eq', gather_structT_meta f _ _ _ _ _ hf (all_metaOk (rootHead_ok fp [] ft root _ hcr)).2]
  simp only [sep, List.map_nil]
  rw [gatherList_elem f _ _ _ _ _ hd, gatherList_nl, gatherList_elem f _ _ _ _ _ hi, gatherList_nl]
  rw [gather_vectorT, gather_vectorT]
  simp only [lines, sep]
  rw [gatherList_nl, gatherList_nl, gatherList_sep_idx f _ _ _ (by
    intro x hx
    obtain ⟨pc, _, rfl⟩ := List.mem_map.1 hx
    rw [PointCloud_tree_eq]; rfl)]
  simp only [gatherList, List.nil_append, List.append_nil, Bool.false_eq_true, if_false]

/-- **item 3, any number of point clouds (no images)**: the walk succeeds; `points` has one entry per point cloud,
    in reverse document order, with the writer's offset, record count and the record nodes of the prototype;
    no blob is published -/
theorem walk_clouds (ft : FloatText) (fp : FloatParse) (root : Root) (pcs : List PointCloud)
    (exts : List (String × String))
    (hcr : ∀ d, root.creation = some d → F64OK ft fp d.gpsTime) (ok : ∀ pc ∈ pcs, PointCloud.OK ft fp exts pc) :
    ∃ w, walkNode fp (declaredOf exts) "" (rootTree ft root pcs [] exts) {} = .ok w ∧
      w.points = cloudRefs ft exts 0 pcs ∧ w.blobs = [] := by
  have hw := rootTree_walkOk fp ft root pcs [] exts hcr ok (by intro i hi; cases hi)
  obtain ⟨w, e, hp, hb⟩ := walkNode_spec fp (declaredOf exts) _ "" {} hw
  refine ⟨w, e, ?_, ?_⟩
  · rw [hp, gather_root_clouds pointsAt pointsAt_quiet ft fp root pcs exts hcr, gatherIdx_points ft fp exts pcs 0 ok]
    exact List.append_nil _
  · rw [hb, gather_root_clouds blobsAt blobsAt_quiet ft fp root pcs exts hcr, gatherIdx_blobs ft fp exts _ pcs 0 ok]
    rfl

end Many

/-! ## 5c. documents with images -/

section Images
open E57.MT

/-! ### metadata publishes nothing, without hypotheses -/

theorem quiet_string (p0 : Option String) (tag v : String) : quiet (genStringTree p0 tag v) = true := by
  simp [genStringTree, el, quiet, quietBody, XNode.attr, tattr, at_]

theorem quiet_int (p0 : Option String) (tag : String) (v : Int) : quiet (genIntTree p0 tag v) = true := by
  simp [genIntTree, el, quiet, quietBody, XNode.attr, tattr, at_]

theorem quiet_float (ft : FloatText) (p0 : Option String) (tag : String) (v : UInt64) :
    quiet (genFloatTree ft p0 tag v) = true := by
  simp [genFloatTree, el, quiet, quietBody, XNode.attr, tattr, at_]

theorem quiet_dateTime (ft : FloatText) (p0 : Option String) (d : DateTime) (tag : String) :
    quiet (DateTime.tree ft p0 d tag) = true := by
  apply quiet_structT
  simp only [List.all_cons, List.all_nil, Bool.and_true, Bool.and_eq_true]
  exact ⟨quiet_float ft p0 _ _, by simp [el, quiet, quietBody, XNode.attr, tattr, at_]⟩

theorem quiet_transform (ft : FloatText) (p0 : Option String) (t : Transform) (tag : String) :
    quiet (Transform.tree ft p0 t tag) = true := by
  apply quiet_structT
  simp only [List.all_cons, List.all_nil, Bool.and_true, Bool.and_eq_true]
  constructor <;>
  · apply quiet_structT
    simp only [List.all_cons, List.all_nil, quiet_float, Bool.and_self]

variable {α : Type} (f : String → String → XNode → List α)

/-- an optional quiet child publishes nothing -/
theorem gatherList_sep_optT_quiet {β : Type} (hf : ∀ p ty n, ty ≠ "CompressedVector" → ty ≠ "Blob" → f p ty n = [])
    (path : String) (k : Nat) (o : Option β) (g : β → XNode) (hg : ∀ a, quiet (g a) = true) :
    gatherList f path false k (sep (optT o g)) = [] := by
  apply gatherList_quiet f hf
  apply quietList_sep
  cases o with
  | none => rfl
  | some a => simp [optT, hg a]

/-- an optional element child publishes what it publishes -/
theorem gatherList_sep_optT {β : Type} (path : String) (k : Nat) (o : Option β) (g : β → XNode)
    (hg : ∀ a, (g a).isElement = true) :
    gatherList f path false k (sep (optT o g)) = (match o with | some a => gather f path (g a) | none => []) := by
  cases o with
  | none => rfl
  | some a =>
    simp only [optT]
    rw [gatherList_sep_single f _ _ _ _ (hg a)]
    rfl

/-- a Blob leaf -/
theorem gather_blobRef (path : String) (p0 : Option String) (b : BlobRef) (tag : String) :
    gather f path (BlobRef.tree p0 b tag) = f (path ++ "/" ++ tag) "Blob" (BlobRef.tree p0 b tag) := by
  have hq := qname_el p0 tag [tattr "Blob", at_ "fileOffset" (toString b.offset), at_ "length" (toString b.length)] []
  rw [BlobRef.tree]
  rw [el] at hq ⊢
  rw [gather, hq]
  simp [gatherBody, XNode.attr, tattr, at_]

/-- the tag of the data blob of a representation -/
def blobTag (b : ImageBlob) : String :=
  match b.format with
  | .png => "pngImage"
  | .jpeg => "jpegImage"

theorem ImageBlob_tree_eq (p0 : Option String) (b : ImageBlob) :
    ImageBlob.tree p0 b = BlobRef.tree p0 b.data (blobTag b) := by
  unfold ImageBlob.tree blobTag
  cases b.format <;> rfl

/-- what `f` publishes below a representation: the mask (if any) first — the walk conses —, then the data blob -/
def repGather (path : String) (p0 : Option String) (blob : ImageBlob) (mask : Option BlobRef) : List α :=
  (match mask with
   | some m => f (path ++ "/" ++ "imageMask") "Blob" (BlobRef.tree p0 m "imageMask")
   | none => [])
  ++ f (path ++ "/" ++ blobTag blob) "Blob" (BlobRef.tree p0 blob.data (blobTag blob))

/-- a representation: the data blob, the optional mask, then metadata -/
theorem gather_rep (hf : ∀ p ty n, ty ≠ "CompressedVector" → ty ≠ "Blob" → f p ty n = [])
    (path : String) (p0 : Option String) (tag : String) (blob : ImageBlob) (mask : Option BlobRef)
    (rest : List XNode) (hq : rest.all quiet = true) :
    gather f path (structT p0 tag
        ([ImageBlob.tree p0 blob] ++ optT mask (fun m => BlobRef.tree p0 m "imageMask") ++ rest))
      = repGather f (path ++ "/" ++ tag) p0 blob mask := by
  rw [gather_structT, lines, gatherList_nl, sep_append, sep_append, gatherList_false_append,
    gatherList_false_append, gatherList_quiet f hf (sep rest) _ false 0 (quietList_sep hq), List.nil_append,
    gatherList_sep_optT f _ _ _ _ (fun _ => rfl), ImageBlob_tree_eq, gatherList_sep_single f _ _ _ _ rfl,
    gather_blobRef]
  unfold repGather
  cases mask with
  | none => rfl
  | some m => simp only [gather_blobRef]; rfl


/-- the data blob and the mask of a projection -/
def Projection.blob : Projection → ImageBlob
  | .pinhole p => p.blob
  | .spherical p => p.blob
  | .cylindrical p => p.blob
def Projection.mask : Projection → Option BlobRef
  | .pinhole p => p.mask
  | .spherical p => p.mask
  | .cylindrical p => p.mask
def Projection.tag : Projection → String
  | .pinhole _ => "pinholeRepresentation"
  | .spherical _ => "sphericalRepresentation"
  | .cylindrical _ => "cylindricalRepresentation"

theorem gather_visualRef (hf : ∀ p ty n, ty ≠ "CompressedVector" → ty ≠ "Blob" → f p ty n = [])
    (path : String) (p0 : Option String) (v : VisualRef) :
    gather f path (VisualRef.tree p0 v)
      = repGather f (path ++ "/" ++ "visualReferenceRepresentation") p0 v.blob v.mask := by
  unfold VisualRef.tree
  exact gather_rep f hf path p0 _ v.blob v.mask _ (by simp [quiet_int])

theorem gather_projection (hf : ∀ p ty n, ty ≠ "CompressedVector" → ty ≠ "Blob" → f p ty n = [])
    (path : String) (ft : FloatText) (p0 : Option String) (p : Projection) :
    gather f path (Projection.tree ft p0 p)
      = repGather f (path ++ "/" ++ Projection.tag p) p0 (Projection.blob p) (Projection.mask p) := by
  cases p with
  | pinhole v =>
    unfold Projection.tree Pinhole.tree
    exact gather_rep f hf path p0 _ v.blob v.mask _ (by simp [quiet_int, quiet_float])
  | spherical v =>
    unfold Projection.tree SphericalImg.tree
    exact gather_rep f hf path p0 _ v.blob v.mask _ (by simp [quiet_int, quiet_float])
  | cylindrical v =>
    unfold Projection.tree Cylindrical.tree
    exact gather_rep f hf path p0 _ v.blob v.mask _ (by simp [quiet_int, quiet_float])

/-- what `f` publishes below an image element (`path` is the path of its parent, with the index): the projection
    (later in the document) first, then the visual reference -/
def imageGather (path : String) (p0 : Option String) (i : Image) : List α :=
  (match i.projection with
   | some p => repGather f (path ++ "/" ++ "vectorChild" ++ "/" ++ Projection.tag p) p0 (Projection.blob p)
       (Projection.mask p)
   | none => [])
  ++ (match i.visualReference with
   | some v => repGather f (path ++ "/" ++ "vectorChild" ++ "/" ++ "visualReferenceRepresentation") p0 v.blob v.mask
   | none => [])

theorem isElement_structT (p0 : Option String) (tag : String) (kids : List XNode) :
    (structT p0 tag kids).isElement = true := rfl

theorem gather_image (hf : ∀ p ty n, ty ≠ "CompressedVector" → ty ≠ "Blob" → f p ty n = [])
    (path : String) (ft : FloatText) (p0 : Option String) (i : Image) :
    gather f path (Image.tree ft p0 i) = imageGather f path p0 i := by
  unfold Image.tree
  rw [gather_structT, lines, gatherList_nl]
  simp only [sep_append, gatherList_false_append]
  rw [gatherList_sep_optT_quiet f hf _ _ i.guid _ (quiet_string p0 _),
    gatherList_sep_optT_quiet f hf _ _ i.transform _ (fun t => quiet_transform ft p0 t _),
    gatherList_sep_optT_quiet f hf _ _ i.pointcloudGuid _ (quiet_string p0 _),
    gatherList_sep_optT_quiet f hf _ _ i.name _ (quiet_string p0 _),
    gatherList_sep_optT_quiet f hf _ _ i.description _ (quiet_string p0 _),
    gatherList_sep_optT_quiet f hf _ _ i.acquisition _ (fun d => quiet_dateTime ft p0 d _),
    gatherList_sep_optT_quiet f hf _ _ i.sensorVendor _ (quiet_string p0 _),
    gatherList_sep_optT_quiet f hf _ _ i.sensorModel _ (quiet_string p0 _),
    gatherList_sep_optT_quiet f hf _ _ i.sensorSerial _ (quiet_string p0 _),
    gatherList_sep_optT f _ _ i.visualReference _ (fun _ => rfl),
    gatherList_sep_optT f _ _ i.projection _ (fun p => by cases p <;> rfl)]
  simp only [List.nil_append, List.append_nil]
  unfold imageGather
  cases i.projection <;> cases i.visualReference <;> simp only [gather_visualRef f hf, gather_projection f hf]

/-! ### item 1: images publish no points, and these blobs -/

theorem repGather_points (path : String) (p0 : Option String) (blob : ImageBlob) (mask : Option BlobRef) :
    repGather pointsAt path p0 blob mask = [] := by
  cases mask <;> simp [repGather, pointsAt]

/-- **an image publishes no points** (no hypothesis: images contain no CompressedVector) -/
theorem gather_points_image (path : String) (ft : FloatText) (p0 : Option String) (i : Image) :
    gather pointsAt path (Image.tree ft p0 i) = [] := by
  rw [gather_image pointsAt pointsAt_quiet]
  unfold imageGather
  cases i.projection <;> cases i.visualReference <;> simp [repGather_points]

/-- the reference the walk publishes for a Blob element `tag` below `path` -/
def blobRefAt (path tag : String) (b : BlobRef) : String × Nat × Nat := (path ++ "/" ++ tag, b.offset, b.length)

/-- the blob references of a representation at `path`, LAST FIRST: the mask (if any), then the data blob -/
def repBlobRefs (path : String) (blob : ImageBlob) (mask : Option BlobRef) : List (String × Nat × Nat) :=
  (match mask with
   | some m => [blobRefAt path "imageMask" m]
   | none => [])
  ++ [blobRefAt path (blobTag blob) blob.data]

/-- **the blob references of an image**, LAST FIRST (the walk conses), mirroring `MT.Image.tree`; `path` is the path
    of the parent with the index (`/e57Root/images2D[k]`): the projection's mask and data blob, then the visual
    reference's mask and data blob -/
def imageBlobRefs (path : String) (i : Image) : List (String × Nat × Nat) :=
  (match i.projection with
   | some p => repBlobRefs (path ++ "/" ++ "vectorChild" ++ "/" ++ Projection.tag p) (Projection.blob p)
       (Projection.mask p)
   | none => [])
  ++ (match i.visualReference with
   | some v => repBlobRefs (path ++ "/" ++ "vectorChild" ++ "/" ++ "visualReferenceRepresentation") v.blob v.mask
   | none => [])

theorem blobsAt_blobRef (p : String) (p0 : Option String) (b : BlobRef) (tag : String) (h : BlobOK b) :
    blobsAt p "Blob" (BlobRef.tree p0 b tag) = [(p, b.offset, b.length)] := by
  have h1 : natAttr (BlobRef.tree p0 b tag) "fileOffset" = b.offset :=
    natAttr_of (by simp [BlobRef.tree, el, XNode.attr, tattr, at_]) h.1
  have h2 : natAttr (BlobRef.tree p0 b tag) "length" = b.length :=
    natAttr_of (by simp [BlobRef.tree, el, XNode.attr, tattr, at_]) h.2
  rw [blobsAt, if_pos rfl, h1, h2]

theorem repGather_blobs (path : String) (p0 : Option String) (blob : ImageBlob) (mask : Option BlobRef)
    (hb : BlobOK blob.data) (hm : ∀ m, mask = some m → BlobOK m) :
    repGather blobsAt path p0 blob mask = repBlobRefs path blob mask := by
  unfold repGather repBlobRefs blobRefAt
  rw [blobsAt_blobRef _ _ _ _ hb]
  cases mask with
  | none => rfl
  | some m => simp only [blobsAt_blobRef _ _ _ _ (hm m rfl)]

theorem Projection.blobOK {ft : FloatText} {fp : FloatParse} {p : Projection} (ok : Projection.OK ft fp p) :
    BlobOK (Projection.blob p).data ∧ ∀ m, Projection.mask p = some m → BlobOK m := by
  cases p with
  | pinhole v => exact ⟨Pinhole.OK.blob ok, Pinhole.OK.mask ok⟩
  | spherical v => exact ⟨SphericalImg.OK.blob ok, SphericalImg.OK.mask ok⟩
  | cylindrical v => exact ⟨Cylindrical.OK.blob ok, Cylindrical.OK.mask ok⟩

/-- **the blobs an image publishes**: `imageBlobRefs` (offsets and lengths are `u64`: `Image.OK`) -/
theorem gather_blobs_image (path : String) (ft : FloatText) (fp : FloatParse) (p0 : Option String) (i : Image)
    (ok : Image.OK ft fp i) :
    gather blobsAt path (Image.tree ft p0 i) = imageBlobRefs path i := by
  rw [gather_image blobsAt blobsAt_quiet]
  unfold imageGather imageBlobRefs
  congr 1
  · cases hp : i.projection with
    | none => rfl
    | some p =>
      have := Projection.blobOK (ok.projection p hp)
      exact repGather_blobs _ _ _ _ this.1 this.2
  · cases hv : i.visualReference with
    | none => rfl
    | some v =>
      have := ok.visualReference v hv
      exact repGather_blobs _ _ _ _ this.blob this.mask

/-! ### item 2: the whole document -/

/-- the references of a document: those of its images (later in the document, so first), then those of its
    point clouds -/
theorem gather_root_all (hf : ∀ p ty n, ty ≠ "CompressedVector" → ty ≠ "Blob" → f p ty n = [])
    (ft : FloatText) (fp : FloatParse) (root : Root) (pcs : List PointCloud) (imgs : List Image)
    (exts : List (String × String))
    (hcr : ∀ d, root.creation = some d → F64OK ft fp d.gpsTime) :
    gather f "" (rootTree ft root pcs imgs exts)
      = gatherIdx f ("" ++ "/" ++ "e57Root" ++ "/" ++ "images2D") 0 (imgs.map (Image.tree ft (e57Prefix exts)))
        ++ gatherIdx f ("" ++ "/" ++ "e57Root" ++ "/" ++ "data3D") 0 (pcs.map (PointCloud.tree ft exts)) := by
  have hd : (vectorT (e57Prefix exts) "data3D" (pcs.map (PointCloud.tree ft exts))).isElement = true := rfl
  have hi : (vectorT (e57Prefix exts) "images2D" (imgs.map (Image.tree ft (e57Prefix exts)))).isElement = true := rfl
  rw [rootTree_eq', gather_structT_meta f _ _ _ _ _ hf (all_metaOk (rootHead_ok fp [] ft root _ hcr)).2]
  simp only [sep]
  rw [gatherList_elem f _ _ _ _ _ hd, gatherList_nl, gatherList_elem f _ _ _ _ _ hi, gatherList_nl]
  rw [gather_vectorT, gather_vectorT]
  simp only [lines]
  rw [gatherList_nl, gatherList_nl, gatherList_sep_idx f _ _ _ (by
    intro x hx
    obtain ⟨i, _, rfl⟩ := List.mem_map.1 hx
    rfl), gatherList_sep_idx f _ _ _ (by
    intro x hx
    obtain ⟨pc, _, rfl⟩ := List.mem_map.1 hx
    rw [PointCloud_tree_eq]; rfl)]
  simp only [gatherList, List.nil_append, Bool.false_eq_true, if_false]

theorem gatherIdx_images_points (ft : FloatText) (p0 : Option String) (path : String) :
    ∀ (imgs : List Image) (k : Nat), gatherIdx pointsAt path k (imgs.map (Image.tree ft p0)) = []
  | [], _ => rfl
  | i :: imgs, k => by
    rw [List.map_cons, gatherIdx, gatherIdx_images_points ft p0 path imgs (k + 1), gather_points_image]
    rfl

/-- the path the walk gives the `k`-th child of `images2D` -/
def imagePath (k : Nat) : String := "" ++ "/" ++ "e57Root" ++ "/" ++ "images2D" ++ s!"[{k}]"

/-- the blob references of all images from index `k` on, LAST FIRST (the walk conses) -/
def imagesBlobRefs : Nat → List Image → List (String × Nat × Nat)
  | _, [] => []
  | k, i :: imgs => imagesBlobRefs (k + 1) imgs ++ imageBlobRefs (imagePath k) i

theorem gatherIdx_images_blobs (ft : FloatText) (fp : FloatParse) (p0 : Option String) :
    ∀ (imgs : List Image) (k : Nat), (∀ i ∈ imgs, Image.OK ft fp i) →
      gatherIdx blobsAt ("" ++ "/" ++ "e57Root" ++ "/" ++ "images2D") k (imgs.map (Image.tree ft p0))
        = imagesBlobRefs k imgs
  | [], _, _ => rfl
  | i :: imgs, k, h => by
    rw [List.map_cons, gatherIdx, gatherIdx_images_blobs ft fp p0 imgs (k + 1) (fun j hj => h j (by simp [hj])),
      gather_blobs_image _ ft fp p0 i (h i (by simp))]
    rfl

/-- **item 2: the walk over the writer's document, images allowed**: it succeeds; `points` has one entry per point
    cloud as in `walk_clouds` (images do not disturb it); `blobs` is the concatenation of `imageBlobRefs` over the
    images at the paths `/e57Root/images2D[k]/vectorChild/…`, in reverse document order -/
theorem walk_clouds_images (ft : FloatText) (fp : FloatParse) (root : Root) (pcs : List PointCloud)
    (imgs : List Image) (exts : List (String × String))
    (hcr : ∀ d, root.creation = some d → F64OK ft fp d.gpsTime)
    (okpc : ∀ pc ∈ pcs, PointCloud.OK ft fp exts pc) (okimg : ∀ i ∈ imgs, Image.OK ft fp i) :
    ∃ w, walkNode fp (declaredOf exts) "" (rootTree ft root pcs imgs exts) {} = .ok w ∧
      w.points = cloudRefs ft exts 0 pcs ∧ w.blobs = imagesBlobRefs 0 imgs := by
  have hw := rootTree_walkOk fp ft root pcs imgs exts hcr okpc okimg
  obtain ⟨w, e, hp, hb⟩ := walkNode_spec fp (declaredOf exts) _ "" {} hw
  refine ⟨w, e, ?_, ?_⟩
  · rw [hp, gather_root_all pointsAt pointsAt_quiet ft fp root pcs imgs exts hcr, gatherIdx_images_points,
      gatherIdx_points ft fp exts pcs 0 okpc]
    exact List.append_nil _
  · rw [hb, gather_root_all blobsAt blobsAt_quiet ft fp root pcs imgs exts hcr,
      gatherIdx_images_blobs ft fp _ imgs 0 okimg, gatherIdx_blobs ft fp exts _ pcs 0 okpc, List.append_nil]
    exact List.append_nil _

end Images

/-! ## 5d. C02 on the closed file, images allowed -/

section CapstoneImages
open E57.MT

open WF Closed Session in
/-- **`C02_closed_file_walked` with images allowed** (`e.imgs` arbitrary).  Proved from `WF.C02_decodeFile` (which
    takes the blob references the walk publishes) instead of `Closed.C02_closed_file_closed` (which demands
    `w.blobs = []`).  As there, the file is closed right behind the point-cloud section (`e.pw = pw2`) and the writer
    state holds one point cloud `pc'` with the section's offset, count and prototype.  Then the decoder's walk
    SUCCEEDS, `w.blobs = imagesBlobRefs 0 e.imgs`, and `Spec.decodeFile` returns the points added and, for every
    image blob in document order, its path and the bytes `bd` names.
    The one hypothesis that is new and NOT discharged here is binary, not XML: every blob reference of `e.imgs` must
    point at a blob section of the closed file (`WF.BlobOk … (bd x)`, i.e. offset legal and 4-aligned, id 0, zero
    reserved bytes, section length = 16 + length padded, data = `bd x`).  `WF.blobOk_of_final` gives exactly this for
    a blob written by `blobWrite` whose window is still in `e.pw.abs.data` (`blob_keeps_window`,
    `later_section_keeps_window`); what is missing to discharge it is the link between `e.imgs` and the `blobWrite`
    calls that produced their `BlobRef`s (the session invariant of `Session.lean` keeps no such record).
    `blobOk_before_section` below discharges it for one blob written right before the section. -/
theorem C02_closed_file_walked_images (pw : PW) (exts : List (String × String)) (guid : String)
    (proto : Prototype) (pts : List (List Value))
    (hpw : pw.Inv) (hal : pw.abs.cur % 4 = 0) (h48 : 48 ≤ pw.abs.cur)
    (hi : ProtoI64 proto) (hn : NoDupNames proto)
    (pw0 : PW) (w0 : PcW) (hnew : PcW.new pw exts guid proto = .ok (pw0, w0))
    (hpts : ∀ pt ∈ pts, pt.length = proto.length ∧ checkValues proto pt = true) :
    ∃ pw1 w1 pw2 w2 pc,
      addPoints pts (pw0, w0) = .ok (pw1, w1) ∧ w1.finalize pw1 = .ok (pw2, w2, pc) ∧
      ∀ (ft : FloatText) (e e' : EW) (pc' : PointCloud),
        e.pw = pw2 → EW.finalize ft e (fun x => some x) = .ok e' → e'.pw.dev.data.length < 2 ^ 64 →
        XmlP.InputOK ft e.root e.pcs e.imgs e.exts →
        e.pcs = [pc'] →
        pc'.fileOffset = pc.fileOffset → pc'.records = pc.records → pc'.prototype = proto →
        PagesOk e'.pw.dev.data e'.pw.abs.data ∧
        CloudOk e'.pw.dev.data e'.pw.abs.data pc.fileOffset pc.records proto.length (pointBits proto = 0)
          (dataChunks (Layout.streamsOf (specTypes proto) (specPoints pts)) (emitted pw exts guid proto pts)
            (List.replicate (specTypes proto).length 0)) ∧
        ∃ xml doc, serializeRoot ft e.root e.pcs e.imgs e.exts = some xml ∧
          leanXo (utf8 xml) = some doc ∧ MT.rootDoc ft e.root e.pcs e.imgs e.exts = some doc ∧
          HeaderOk e'.pw.dev.data e'.pw.abs.data (utf8 xml) ∧
          ∀ (fp : FloatParse), (∀ d, e.root.creation = some d → F64OK ft fp d.gpsTime) →
            PointCloud.OK ft fp e.exts pc' → (∀ i ∈ e.imgs, Image.OK ft fp i) →
            ∀ (bd : String × Nat × Nat → Bytes),
              (∀ x ∈ imagesBlobRefs 0 e.imgs, BlobOk e'.pw.dev.data e'.pw.abs.data x.2.1 x.2.2 (bd x)) →
            ∃ w, walkNode fp (doc.rootNamespaces.map (·.2)) "" doc.root {} = .ok w ∧
              w.blobs = imagesBlobRefs 0 e.imgs ∧
              decodeFile e'.pw.dev.data (utf8 xml) doc fp []
                = .ok ⟨w.leaves.reverse,
                    [(cloudPath, pts.map (fun p => (List.range proto.length).map (fun i =>
                      entryText (Layout.dtAt proto i) (p.getD i (.integer 0)))))],
                    (imagesBlobRefs 0 e.imgs).reverse.map (fun x => (x.1, bd x))⟩ := by
  obtain ⟨pw1, w1, pw2, w2, pc, e1, e2, L⟩ :=
    writer_layout_legal pw exts guid proto hpw hal hi hn pw0 w0 hnew pts hpts
  have hv := (PcW.new_ok pw exts guid proto pw0 w0 hnew).2.1
  refine ⟨pw1, w1, pw2, w2, pc, e1, e2, ?_⟩
  intro ft e e' pc' he hfin h64 hin hpcs hoff hrec hproto
  subst he
  have hc := L.cursor
  have F : FinalFile ft e e' (fun x => some x) := ⟨L.inv, by omega, hfin, h64⟩
  have hcur : pw.abs.cur + RoundTrip.sectionLen proto (emitted pw exts guid proto pts) ≤ e.pw.abs.cur := by
    rw [hc]; unfold RoundTrip.sectionLen; omega
  refine ⟨pagesOk_of_final F, cloudOk_of_final F L hal hi h48 hcur rfl, ?_⟩
  obtain ⟨xml0, xml, hs, ht, hdec⟩ := C02_decodeFile F L hal h48 hv hi hpts hcur rfl
  obtain ⟨xml0', xml', hs', ht', hH⟩ := headerOk_of_final F
  rw [hs] at hs'; injection hs' with hs'; subst hs'
  rw [ht] at ht'; injection ht' with ht'; subst ht'
  cases ht
  have hX := serializeRoot_nonempty ft _ _ _ _ xml0 hs
  have hor := leanXo_serialize ft _ _ _ _ hin xml0 hs
  have hsome : (MT.rootDoc ft e.root e.pcs e.imgs e.exts).isSome = true := by
    rw [MT.rootDoc_isSome_iff, hs]; rfl
  obtain ⟨doc, hdoc⟩ := Option.isSome_iff_exists.mp hsome
  refine ⟨xml0, doc, hs, hor.trans hdoc, hdoc, hH hX, ?_⟩
  intro fp hcr ok okimg bd hbd
  have hd : doc = ⟨rootTree ft e.root [pc'] e.imgs e.exts, rootNamespaces e.exts⟩ := by
    rw [hpcs] at hdoc
    unfold rootDoc at hdoc
    split at hdoc
    · cases hdoc
    · cases hdoc; rfl
  obtain ⟨w, hw, hp, hb⟩ := walk_clouds_images ft fp e.root [pc'] e.imgs e.exts hcr
    (by intro p hp; rw [List.mem_singleton] at hp; subst hp; exact ok) okimg
  have hroot := rootDoc_root ft _ _ _ _ doc hdoc
  subst hd
  refine ⟨w, hw, hb, ?_⟩
  have := hdec hX ⟨rootTree ft e.root [pc'] e.imgs e.exts, rootNamespaces e.exts⟩ fp w ⟨cloudPath, pc'.fileOffset, pc'.records, recsOf ft e.exts pc'.prototype⟩ [] bd hroot hw hp
    hoff hrec (by rw [hproto]; exact recsOf_types ft fp e.exts proto (hproto ▸ ok.prototype))
    (by intro x hx; rw [hb] at hx; simp at hx; exact hbd x hx)
  rw [this, hb]
  simp
end CapstoneImages

section BlobBefore
open E57.MT

open WF Closed Session in
/-- **the binary hypothesis of `C02_closed_file_walked_images`, discharged for a blob written right before the
    section**: `blobWrite pwb data = .ok (pw, b)` at a 4-aligned cursor behind the file header, then the point-cloud
    session from `pw` (`new`, `addPoints`, `finalize` to `pw2`), then the file is closed (`e.pw = pw2`).  The
    session leaves the blob's window alone (`RoundTrip.later_section_keeps_window`), so `WF.blobOk_of_final` applies:
    the reference `b` points at a blob section of the closed file whose data is `data`.  Also returned: the
    hypotheses `pw.Inv`, `pw.abs.cur % 4 = 0`, `48 ≤ pw.abs.cur` that `C02_closed_file_walked_images` asks of `pw`. -/
theorem blobOk_before_section (pwb : PW) (data : Bytes) (hpwb : pwb.Inv) (halb : pwb.abs.cur % 4 = 0)
    (h48b : 48 ≤ pwb.abs.cur) (pw : PW) (b : BlobRef) (hbw : blobWrite pwb data = .ok (pw, b))
    (exts : List (String × String)) (guid : String) (proto : Prototype) (pts : List (List Value))
    (hi : ProtoI64 proto) (hn : NoDupNames proto)
    (pw0 : PW) (w0 : PcW) (hnew : PcW.new pw exts guid proto = .ok (pw0, w0))
    (hpts : ∀ pt ∈ pts, pt.length = proto.length ∧ checkValues proto pt = true)
    (pw1 : PW) (w1 : PcW) (pw2 : PW) (w2 : PcW) (pc : PointCloud)
    (e1 : addPoints pts (pw0, w0) = .ok (pw1, w1)) (e2 : w1.finalize pw1 = .ok (pw2, w2, pc))
    (ft : FloatText) (e e' : EW) (tr : String → Option String)
    (he : e.pw = pw2) (hfin : EW.finalize ft e tr = .ok e') (h64 : e'.pw.dev.data.length < 2 ^ 64) :
    pw.Inv ∧ pw.abs.cur % 4 = 0 ∧ 48 ≤ pw.abs.cur ∧
      BlobOk e'.pw.dev.data e'.pw.abs.data b.offset b.length data := by
  obtain ⟨hwin, _, hle, _, hpw, habs⟩ := BlobRT.blob_window pwb data hpwb pw b hbw
  have hal : pw.abs.cur % 4 = 0 := by rw [habs]; exact (RoundTrip.align_cur _).1
  obtain ⟨pw1', w1', pw2', w2', pc', e1', e2', L⟩ :=
    writer_layout_legal pw exts guid proto hpw hal hi hn pw0 w0 hnew pts hpts
  rw [e1] at e1'; cases e1'
  rw [e2] at e2'; cases e2'
  subst he
  have hc := L.cursor
  have F : FinalFile ft e e' tr := ⟨L.inv, by omega, hfin, h64⟩
  refine ⟨hpw, hal, by omega, ?_⟩
  refine blobOk_of_final F pwb data hpwb pw b hbw halb h48b (by omega) ?_
  rw [RoundTrip.later_section_keeps_window L pwb.abs.cur (16 + data.length) (by omega)]
  exact hwin
end BlobBefore

/-! ## 6. non-vacuity -/

namespace Example
open E57 E57.Spec E57.MT E57.MT.Example

theorem hcr : ∀ d, root.creation = some d → F64OK ft fp d.gpsTime := by
  intro d h; cases h; decide

/-- non-vacuity of `rootTree_walkOk`: the example document of `MT.Example` (a point cloud with every optional
    field and an extension record, an image with two representations and a mask) satisfies all hypotheses -/
theorem walkOk_example : WalkOk fp (declaredOf exts) (rootTree ft root [pc] [img] exts) = true :=
  rootTree_walkOk fp ft root [pc] [img] exts hcr
    (by intro p hp; rw [List.mem_singleton] at hp; subst hp; exact pc_ok)
    (by intro i hi; rw [List.mem_singleton] at hi; subst hi; exact img_ok)

/-- non-vacuity of `walk_one_cloud` -/
theorem walk_example :
    ∃ w, walkNode fp (declaredOf exts) "" (rootTree ft root [pc] [] exts) {} = .ok w ∧
      w.points = [⟨"/e57Root/data3D[0]/vectorChild/points", 48, 7, recsOf ft exts pc.prototype⟩] ∧ w.blobs = [] := by
  have := walk_one_cloud ft fp root pc exts hcr pc_ok
  rw [cloudPath_eq] at this
  exact this

/-- the predicate is not vacuous: a Float whose text does not parse, an element outside the declared namespaces,
    an unknown type and a Blob without `length` are rejected -/
theorem walkOk_rejects :
    WalkOk fp [] (el none "x" [tattr "Float"] [.text "abc"]) = false ∧
    WalkOk fp [] (.elem (some "urn:other") none "x" [tattr "String"] []) = false ∧
    WalkOk fp [] (el none "x" [tattr "Real"] []) = false ∧
    WalkOk fp [] (el none "x" [tattr "Blob", at_ "fileOffset" "48"] []) = false := by decide

/-- the walk itself, evaluated by the kernel on the example with the image: it succeeds and publishes one
    compressed vector and the three blobs (visual reference, its mask, the cylindrical representation) -/
theorem walk_evaluated :
    (match walkNode fp (declaredOf exts) "" (rootTree ft root [pc] [img] exts) {} with
     | .ok w => (w.points.map (fun p => (p.path, p.fileOffset, p.recordCount)), w.blobs.reverse)
     | .error _ => ([], []))
      = ([("/e57Root/data3D[0]/vectorChild/points", 48, 7)],
         [("/e57Root/images2D[0]/vectorChild/visualReferenceRepresentation/pngImage", 100, 20),
          ("/e57Root/images2D[0]/vectorChild/visualReferenceRepresentation/imageMask", 200, 5),
          ("/e57Root/images2D[0]/vectorChild/cylindricalRepresentation/jpegImage", 1, 2)]) := by decide +kernel

/-- non-vacuity of `walk_clouds_images`, and `imagesBlobRefs` computed: the example with the image publishes the
    point cloud and — last first — the cylindrical representation's blob, the visual reference's mask and blob
    (the same three references `walk_evaluated` gets by running the walk, there reversed) -/
theorem walk_images_example :
    ∃ w, walkNode fp (declaredOf exts) "" (rootTree ft root [pc] [img] exts) {} = .ok w ∧
      w.points = cloudRefs ft exts 0 [pc] ∧
      w.blobs = [("/e57Root/images2D[0]/vectorChild/cylindricalRepresentation/jpegImage", 1, 2),
        ("/e57Root/images2D[0]/vectorChild/visualReferenceRepresentation/imageMask", 200, 5),
        ("/e57Root/images2D[0]/vectorChild/visualReferenceRepresentation/pngImage", 100, 20)] := by
  have h := walk_clouds_images ft fp root [pc] [img] exts hcr
    (by intro p hp; rw [List.mem_singleton] at hp; subst hp; exact pc_ok)
    (by intro i hi; rw [List.mem_singleton] at hi; subst hi; exact img_ok)
  have e : imagesBlobRefs 0 [img]
      = [("/e57Root/images2D[0]/vectorChild/cylindricalRepresentation/jpegImage", 1, 2),
        ("/e57Root/images2D[0]/vectorChild/visualReferenceRepresentation/imageMask", 200, 5),
        ("/e57Root/images2D[0]/vectorChild/visualReferenceRepresentation/pngImage", 100, 20)] := by decide
  rw [e] at h
  exact h
end Example

end E57.WalkP
