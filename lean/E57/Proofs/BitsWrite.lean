/- Write buffer: invariant and value semantics of `add_bits` / `add_bytes` / drains. Core Lean only. -/
import E57.Model.Bits
import E57.Proofs.Bytes
namespace E57

/-- number of stream bits held by the buffer -/
def WBuf.used (w : WBuf) : Nat :=
  if w.lastBit = 0 then 8 * w.buffer.length else 8 * (w.buffer.length - 1) + w.lastBit

/-- invariant: bit cursor in range, a partial byte exists when the cursor is inside a byte, and all
    bits above the cursor are zero -/
structure WBuf.Inv (w : WBuf) : Prop where
  lt8 : w.lastBit < 8
  nonempty : w.lastBit ≠ 0 → w.buffer ≠ []
  clean : leVal w.buffer < 2 ^ w.used

theorem WBuf.inv_new : WBuf.new.Inv := ⟨by decide, by simp [WBuf.new], by simp [WBuf.new, WBuf.used]⟩

theorem WBuf.length_eq (w : WBuf) (h : w.Inv) : w.buffer.length = (w.used + 7) / 8 := by
  unfold WBuf.used
  have := h.lt8
  by_cases h0 : w.lastBit = 0
  · simp [h0]; omega
  · have hne := h.nonempty h0
    have : w.buffer.length ≠ 0 := by simpa using hne
    simp [h0]; omega

theorem testBit_leVal (l : Bytes) (b : Nat) (h : b / 8 < l.length) :
    (leVal l).testBit b = (l[b / 8]'h).toNat.testBit (b % 8) := by
  induction l generalizing b with
  | nil => simp at h
  | cons x xs ih =>
    have hx := x.toNat_lt
    have e : leVal (x :: xs) = 2 ^ 8 * leVal xs + x.toNat := by simp [leVal]; omega
    rw [e, Nat.testBit_two_pow_mul_add _ (by omega)]
    by_cases hb : b < 8
    · have h0 : b / 8 = 0 := by omega
      have h1 : b % 8 = b := by omega
      simp [hb, h0, h1]
    · have hb8 : b / 8 = (b - 8) / 8 + 1 := by omega
      have hm : b % 8 = (b - 8) % 8 := by omega
      have hlt : (b - 8) / 8 < xs.length := by simp at h; omega
      simp only [hb, if_false]
      rw [ih (b - 8) hlt]
      simp [hb8, hm]

theorem mod_pow_succ_shift (x b n : Nat) :
    (x >>> b) % 2 ^ (n + 1) = (if x.testBit b then 1 else 0) + 2 * ((x >>> (b + 1)) % 2 ^ n) := by
  have h1 : x >>> (b + 1) = (x >>> b) / 2 := by
    rw [Nat.shiftRight_succ]
  have h2 : (x >>> b) % 2 = if x.testBit b then 1 else 0 := by
    rw [Nat.testBit, Nat.one_and_eq_mod_two]
    by_cases h : (x >>> b) % 2 = 1
    · simp [h]
    · have : (x >>> b) % 2 = 0 := by omega
      simp [this]
  rw [h1, Nat.pow_succ, Nat.mul_comm (2 ^ n) 2, Nat.mod_mul, h2]

theorem or_pow_of_lt (old : UInt8) (k : Nat) (hk : k < 8) (hold : old.toNat < 2 ^ k) :
    (old ||| UInt8.ofNat (2 ^ k)).toNat = old.toNat + 2 ^ k := by
  have hp : 2 ^ k < 256 := by
    have : 2 ^ k ≤ 2 ^ 7 := Nat.pow_le_pow_right (by omega) (by omega)
    omega
  rw [UInt8.toNat_or]
  have : (UInt8.ofNat (2 ^ k)).toNat = 2 ^ k := by
    simp [UInt8.toNat_ofNat', Nat.mod_eq_of_lt hp]
  rw [this]
  have := Nat.two_pow_add_eq_or_of_lt hold 1
  rw [Nat.mul_one] at this
  rw [Nat.or_comm, ← this, Nat.add_comm]

theorem leVal_snoc (init : Bytes) (x : UInt8) :
    leVal (init ++ [x]) = leVal init + 2 ^ (8 * init.length) * x.toNat := by
  rw [leVal_append]; simp [leVal]

/-- the per-bit loop: no panic, cursor arithmetic, value semantics -/
theorem addBitsLoop_spec (data : Bytes) (sB sb : Nat) :
    ∀ (n b : Nat) (buf : Bytes) (lb : Nat),
      b + n ≤ 8 * data.length →
      lb = (sb + b) % 8 →
      buf.length = (8 * sB + sb + b + 7) / 8 →
      leVal buf < 2 ^ (8 * sB + sb + b) →
      ∃ buf', addBitsLoop data sB sb n b buf lb = .ok ⟨buf', (sb + b + n) % 8⟩
        ∧ buf'.length = (8 * sB + sb + b + n + 7) / 8
        ∧ leVal buf' = leVal buf + 2 ^ (8 * sB + sb + b) * ((leVal data >>> b) % 2 ^ n) := by
  intro n
  induction n with
  | zero =>
    intro b buf lb _ hlb hlen _
    exact ⟨buf, by simp [addBitsLoop, hlb], by simpa using hlen, by simp [Nat.mod_one]⟩
  | succ n ih =>
    intro b buf lb hbn hlb hlen hclean
    have hsrc : b / 8 < data.length := by omega
    let pos := 8 * sB + sb + b
    have htgt : sB + (sb + b) / 8 = pos / 8 := by simp only [pos]; omega
    -- the buffer after the optional push: init ++ [old] with init.length = pos / 8
    let buf1 : Bytes := if sB + (sb + b) / 8 ≥ buf.length then buf ++ [0] else buf
    have hbuf1len : buf1.length = pos / 8 + 1 := by
      simp only [buf1]
      split
      · simp; omega
      · omega
    have hbuf1val : leVal buf1 = leVal buf := by
      simp only [buf1]
      split
      · rw [leVal_snoc]; simp
      · rfl
    -- decompose buf1
    have hne : buf1 ≠ [] := by intro h; rw [h] at hbuf1len; simp at hbuf1len
    obtain ⟨init, old, hio⟩ : ∃ init old, buf1 = init ++ [old] :=
      ⟨buf1.dropLast, buf1.getLast hne, (List.dropLast_concat_getLast hne).symm⟩
    have hinitlen : init.length = pos / 8 := by
      have := hbuf1len; rw [hio] at this; simp at this; omega
    have hval1 : leVal init + 2 ^ (8 * (pos / 8)) * old.toNat < 2 ^ pos := by
      have := hclean; rw [← hbuf1val, hio, leVal_snoc, hinitlen] at this; exact this
    have hold : old.toNat < 2 ^ (pos % 8) := by
      have hp : 2 ^ pos = 2 ^ (8 * (pos / 8)) * 2 ^ (pos % 8) := by
        rw [← Nat.pow_add]; congr 1; omega
      rw [hp] at hval1
      have hpos := Nat.two_pow_pos (8 * (pos / 8))
      have : 2 ^ (8 * (pos / 8)) * old.toNat < 2 ^ (8 * (pos / 8)) * 2 ^ (pos % 8) := by omega
      exact Nat.lt_of_mul_lt_mul_left this
    have hlbpos : lb = pos % 8 := by simp only [pos]; omega
    have hlb8 : lb < 8 := by omega
    -- evaluate one iteration
    have hget : buf1[sB + (sb + b) / 8]? = some old := by
      rw [htgt, hio, ← hinitlen]; simp
    let bit := (data[b / 8]'hsrc).toNat.testBit (b % 8)
    let mask : UInt8 := if bit then UInt8.ofNat (2 ^ lb) else 0
    have hset : buf1.set (sB + (sb + b) / 8) (old ||| mask) = init ++ [old ||| mask] := by
      rw [htgt, hio, ← hinitlen]; simp
    have hnewval : leVal (init ++ [old ||| mask])
        = leVal buf + 2 ^ pos * (if bit then 1 else 0) := by
      rw [leVal_snoc, ← hbuf1val, hio, leVal_snoc, hinitlen]
      have hp : 2 ^ pos = 2 ^ (8 * (pos / 8)) * 2 ^ (pos % 8) := by
        rw [← Nat.pow_add]; congr 1; omega
      by_cases hb : bit
      · simp only [mask, hb, if_true]
        rw [hlbpos, or_pow_of_lt old (pos % 8) (by omega) hold, hp]
        rw [Nat.mul_add, Nat.mul_one, Nat.add_assoc]
      · simp [mask, hb]
    have hnewclean : leVal (init ++ [old ||| mask]) < 2 ^ (8 * sB + sb + (b + 1)) := by
      rw [hnewval]
      have : 2 ^ (8 * sB + sb + (b + 1)) = 2 * 2 ^ pos := by
        rw [show 8 * sB + sb + (b + 1) = pos + 1 by simp only [pos]; omega, Nat.pow_succ]; omega
      rw [this]
      have hc : leVal buf < 2 ^ pos := hclean
      split <;> omega
    have hnewlen : (init ++ [old ||| mask]).length = (8 * sB + sb + (b + 1) + 7) / 8 := by
      simp [hinitlen]; simp only [pos]; omega
    have hnewlb : (lb + 1) % 8 = (sb + (b + 1)) % 8 := by omega
    obtain ⟨buf', hrun, hlen', hval'⟩ :=
      ih (b + 1) (init ++ [old ||| mask]) ((lb + 1) % 8) (by omega) hnewlb hnewlen hnewclean
    refine ⟨buf', ?_, ?_, ?_⟩
    · rw [addBitsLoop]
      simp only [List.getElem?_eq_getElem hsrc]
      show (match buf1[sB + (sb + b) / 8]? with
        | none => Outcome.panic "bs_write: buffer[target_byte]"
        | some old => addBitsLoop data sB sb n (b + 1)
            (buf1.set (sB + (sb + b) / 8) (old ||| if bit then UInt8.ofNat (2 ^ lb) else 0)) ((lb + 1) % 8)) = _
      rw [hget]
      simp only []
      rw [show (old ||| if bit then UInt8.ofNat (2 ^ lb) else 0) = (old ||| mask) from rfl, hset, hrun]
      congr 2; omega
    · rw [hlen']; congr 1; omega
    · rw [hval', hnewval, mod_pow_succ_shift, testBit_leVal data b hsrc]
      have : 2 ^ (8 * sB + sb + (b + 1)) = 2 ^ pos * 2 := by
        rw [show 8 * sB + sb + (b + 1) = pos + 1 by simp only [pos]; omega, Nat.pow_succ]
      rw [this]
      simp only [bit]
      rw [Nat.mul_add, Nat.add_assoc, Nat.mul_assoc]

end E57

namespace E57

theorem add_mul_lt {a b m n : Nat} (ha : a < 2 ^ m) (hb : b < 2 ^ n) : a + 2 ^ m * b < 2 ^ (m + n) := by
  rw [Nat.pow_add]
  have hpos := Nat.two_pow_pos m
  have : 2 ^ m * b + 2 ^ m ≤ 2 ^ m * 2 ^ n := by
    rw [← Nat.mul_succ]; exact Nat.mul_le_mul_left _ hb
  omega

/-- `add_bits` on a well-formed buffer with data that fits its width: no panic, the invariant is
    kept, and the field lands exactly at the bit cursor. -/
theorem WBuf.addBitsLit_spec (w : WBuf) (data : Bytes) (bits : Nat)
    (hinv : w.Inv) (hfit : leVal data < 2 ^ bits) (hlen : bits ≤ 8 * data.length) :
    ∃ w', w.addBitsLit data bits = .ok w' ∧ w'.Inv ∧ w'.used = w.used + bits
      ∧ leVal w'.buffer = leVal w.buffer + 2 ^ w.used * leVal data := by
  have hlt8 := hinv.lt8
  by_cases h0 : w.lastBit = 0
  · -- aligned: whole bytes are appended
    have hk : (bits + 7) / 8 ≤ data.length := by omega
    have hused : w.used = 8 * w.buffer.length := by simp [WBuf.used, h0]
    have htake : leVal (data.take ((bits + 7) / 8)) = leVal data := by
      rw [leVal_take]
      apply Nat.mod_eq_of_lt
      have : 2 ^ bits ≤ 2 ^ (8 * ((bits + 7) / 8)) := Nat.pow_le_pow_right (by omega) (by omega)
      omega
    refine ⟨⟨w.buffer ++ data.take ((bits + 7) / 8), bits % 8⟩, ?_, ?_, ?_, ?_⟩
    · simp [WBuf.addBitsLit, h0]; omega
    · have hu : (⟨w.buffer ++ data.take ((bits + 7) / 8), bits % 8⟩ : WBuf).used = w.used + bits := by
        simp only [WBuf.used, List.length_append, List.length_take, Nat.min_eq_left hk]
        rw [if_pos h0]
        split <;> omega
      refine ⟨by simp; omega, ?_, ?_⟩
      · intro hne h; simp at hne h
        have : (bits + 7) / 8 = 0 ∨ data = [] := by
          rcases h with ⟨_, h2⟩; simpa [List.take_eq_nil_iff] using h2
        rcases this with h | h
        · omega
        · rw [h] at hlen; simp at hlen; omega
      · rw [hu, leVal_append, htake, hused]
        have hc := hinv.clean; rw [hused] at hc
        exact add_mul_lt hc hfit
    · simp only [WBuf.used, List.length_append, List.length_take, Nat.min_eq_left hk]
      rw [if_pos h0]
      split <;> omega
    · simp only []
      rw [leVal_append, htake, hused]
  · -- unaligned: the per-bit loop
    have hne := hinv.nonempty h0
    have hlen0 : w.buffer.length ≠ 0 := by simpa using hne
    have hused : w.used = 8 * (w.buffer.length - 1) + w.lastBit := by simp [WBuf.used, h0]
    obtain ⟨buf', hrun, hlen', hval'⟩ :=
      addBitsLoop_spec data (w.buffer.length - 1) w.lastBit bits 0 w.buffer w.lastBit
        (by omega) (by simp; omega) (by omega) (by have := hinv.clean; rw [hused] at this; simpa using this)
    simp only [Nat.add_zero, Nat.shiftRight_zero, Nat.mod_eq_of_lt hfit] at hrun hlen' hval'
    refine ⟨⟨buf', (w.lastBit + bits) % 8⟩, ?_, ?_, ?_, ?_⟩
    · simp [WBuf.addBitsLit, h0, hlen0, hrun]
    · have hu : (⟨buf', (w.lastBit + bits) % 8⟩ : WBuf).used = w.used + bits := by
        simp only [WBuf.used, hlen', hused]
        split <;> omega
      refine ⟨by simp; omega, ?_, ?_⟩
      · intro _ h
        have h' : buf' = [] := h
        have : buf'.length = 0 := by simp [h']
        omega
      · rw [hu]; simp only []
        rw [hval', ← hused]
        exact add_mul_lt hinv.clean hfit
    · simp only [WBuf.used, hlen', hused]
      split <;> omega
    · simp only []; rw [hval', ← hused]


/-- frame lemma: the per-bit loop never touches the bytes before `start_byte` -/
theorem addBitsLoop_frame (data init : Bytes) (sb : Nat) :
    ∀ (n b s : Nat) (tail : Bytes) (lb : Nat),
      addBitsLoop data (init.length + s) sb n b (init ++ tail) lb
        = Outcome.mapBuf init (addBitsLoop data s sb n b tail lb) := by
  intro n
  induction n with
  | zero => intro b s tail lb; simp [addBitsLoop, Outcome.mapBuf]
  | succ n ih =>
    intro b s tail lb
    rw [addBitsLoop, addBitsLoop]
    cases hd : data[b / 8]? with
    | none => simp [Outcome.mapBuf]
    | some src =>
      simp only []
      have hge : (init.length + s + (sb + b) / 8 ≥ (init ++ tail).length) ↔ (s + (sb + b) / 8 ≥ tail.length) := by
        simp only [List.length_append]; omega
      have hbuf1 : (if init.length + s + (sb + b) / 8 ≥ (init ++ tail).length then init ++ tail ++ [0] else init ++ tail)
          = init ++ (if s + (sb + b) / 8 ≥ tail.length then tail ++ [0] else tail) := by
        by_cases h : s + (sb + b) / 8 ≥ tail.length
        · rw [if_pos (hge.2 h), if_pos h, List.append_assoc]
        · rw [if_neg (fun h' => h (hge.1 h')), if_neg h]
      rw [hbuf1]
      have hidx : init.length + s + (sb + b) / 8 = init.length + (s + (sb + b) / 8) := by omega
      rw [hidx, List.getElem?_append_right (by omega)]
      have hsub : init.length + (s + (sb + b) / 8) - init.length = s + (sb + b) / 8 := by omega
      rw [hsub]
      cases hg : (if s + (sb + b) / 8 ≥ tail.length then tail ++ [0] else tail)[s + (sb + b) / 8]? with
      | none => simp [Outcome.mapBuf]
      | some old =>
        simp only []
        rw [List.set_append_right _ _ (by omega), hsub]
        have := ih (b + 1) s ((if s + (sb + b) / 8 ≥ tail.length then tail ++ [0] else tail).set (s + (sb + b) / 8)
          (old ||| if src.toNat.testBit (b % 8) = true then UInt8.ofNat (2 ^ lb) else 0)) ((lb + 1) % 8)
        exact this

/-- the executed `add_bits` equals the literal transcription, for all inputs -/
theorem WBuf.addBits_eq_lit (w : WBuf) (data : Bytes) (bits : Nat) :
    w.addBits data bits = w.addBitsLit data bits := by
  unfold WBuf.addBits WBuf.addBitsLit
  by_cases h0 : w.lastBit = 0
  · simp [h0]
  · by_cases hl : w.buffer.length = 0
    · simp [h0, hl]
    · simp only [h0, hl, if_false]
      have hsplit : w.buffer = w.buffer.take (w.buffer.length - 1) ++ w.buffer.drop (w.buffer.length - 1) :=
        (List.take_append_drop _ _).symm
      have hlen : (w.buffer.take (w.buffer.length - 1)).length = w.buffer.length - 1 := by
        simp
      have := addBitsLoop_frame data (w.buffer.take (w.buffer.length - 1)) w.lastBit bits 0 0
        (w.buffer.drop (w.buffer.length - 1)) w.lastBit
      rw [← hsplit, hlen, Nat.add_zero] at this
      rw [this]

theorem WBuf.addBits_spec (w : WBuf) (data : Bytes) (bits : Nat)
    (hinv : w.Inv) (hfit : leVal data < 2 ^ bits) (hlen : bits ≤ 8 * data.length) :
    ∃ w', w.addBits data bits = .ok w' ∧ w'.Inv ∧ w'.used = w.used + bits
      ∧ leVal w'.buffer = leVal w.buffer + 2 ^ w.used * leVal data := by
  rw [WBuf.addBits_eq_lit]
  exact WBuf.addBitsLit_spec w data bits hinv hfit hlen

theorem WBuf.addBytes_spec (w : WBuf) (data : Bytes) (hinv : w.Inv) :
    ∃ w', w.addBytes data = .ok w' ∧ w'.Inv ∧ w'.used = w.used + 8 * data.length
      ∧ leVal w'.buffer = leVal w.buffer + 2 ^ w.used * leVal data := by
  by_cases h0 : w.lastBit = 0
  · have hused : w.used = 8 * w.buffer.length := by simp [WBuf.used, h0]
    refine ⟨⟨w.buffer ++ data, 0⟩, by simp [WBuf.addBytes, h0], ⟨by simp, by simp, ?_⟩, ?_, ?_⟩
    · simp only [WBuf.used, if_true, List.length_append, leVal_append]
      have hc := hinv.clean; rw [hused] at hc
      have := add_mul_lt hc (leVal_lt data)
      rw [Nat.mul_add]; exact this
    · simp only [WBuf.used, if_true, List.length_append, h0]; omega
    · simp [leVal_append, hused]
  · have := WBuf.addBits_spec w data (data.length * 8) hinv
      (by have := leVal_lt data; rw [Nat.mul_comm] at this; exact this) (by omega)
    simp only [WBuf.addBytes, h0, if_false]
    rw [Nat.mul_comm 8]
    exact this

/-- draining whole bytes keeps the invariant and splits the buffer -/
theorem WBuf.getFullBytes_spec (w : WBuf) (hinv : w.Inv) :
    (w.getFullBytes.2).Inv ∧ w.getFullBytes.1 ++ (w.getFullBytes.2).buffer = w.buffer
      ∧ 8 * w.getFullBytes.1.length + (w.getFullBytes.2).used = w.used := by
  have hlt8 := hinv.lt8
  by_cases h0 : w.lastBit = 0
  · simp [WBuf.getFullBytes, WBuf.fullBytes, h0, WBuf.used]
    exact ⟨by simp, by simp, by simp [WBuf.used]⟩
  · have hne := hinv.nonempty h0
    have hlen0 : w.buffer.length ≠ 0 := by simpa using hne
    simp only [WBuf.getFullBytes, WBuf.fullBytes, h0, ne_eq, not_false_eq_true, if_true]
    refine ⟨⟨hlt8, ?_, ?_⟩, by simp, ?_⟩
    · intro _ h
      have h' : w.buffer.drop (w.buffer.length - 1) = [] := h
      have : (w.buffer.drop (w.buffer.length - 1)).length = 0 := by rw [h']; rfl
      simp at this; omega
    · simp only [WBuf.used, h0, if_false, List.length_drop]
      have hc := hinv.clean
      simp only [WBuf.used, h0, if_false] at hc
      rw [leVal_drop, Nat.shiftRight_eq_div_pow]
      have : w.buffer.length - (w.buffer.length - 1) - 1 = 0 := by omega
      rw [this]; simp only [Nat.mul_zero, Nat.zero_add]
      rw [Nat.div_lt_iff_lt_mul (Nat.two_pow_pos _), ← Nat.pow_add, Nat.add_comm]
      exact hc
    · simp only [WBuf.used, h0, if_false, List.length_drop, List.length_take]
      omega

end E57
