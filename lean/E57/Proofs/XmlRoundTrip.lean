/-
C04 obligation C / C02 — TEXT → TREE.  The XML parser `E57.XmlP.parseDocument`
(`E57/Spec/XmlParse.lean`: roxmltree 0.20.0 decision for decision, differentially tested against the
real crate through `E57/Drv/Xml.lean`) inverts the writer.  Namespace `E57.XmlP`.

  `parse_render`        (E57/Proofs/XmlRender.lean)  Dialect exts t →
                          parseDocument (MT.renderDoc exts t) = some ⟨t, MT.rootNamespaces exts⟩
  `cdata_roundtrip`     `<![CDATA[` ++ cdataEscape v ++ `]]>` as the content of an element is read back as
                        the single text node `v`, for EVERY string `v` of XML characters (CR, `]]>` included);
                        `cdata_needs_xmlChars`: the hypothesis is necessary
  `attr_roundtrip`      (XmlRender.lean) the escaped extension URL is read back unchanged (every XML-char URL)
  `formatNameUnescaped` the former hypothesis `MT.FormatNameUnescaped` is a theorem
  `rootTree_dialect`    the tree of a whole file is in the dialect, from `InputOK` = properties of the INPUT:
                        `FloatTextSafe ft` (floats print as non-empty `[0-9a-zA-Z+.-]` texts), `ExtsXmlOK exts`
                        (`ExtsOk`, prefixes pass `validate_xml_name`, URLs are XML characters and not one of
                        the two reserved namespaces), all strings are XML characters, `validateExtensions`
                        for every prototype and extension record names start with a letter or `_`
  `C04_text_roundtrip`  (serializeRoot …).bind parseDocument = MT.rootDoc …          (the capstone)
  `wellformed_of_serialize`  every text the writer model emits is accepted by the parser (C02)
  `serializeRoot_xmlChars`   … and consists of XML characters only
  `Necessary.*`         each clause of `Dialect` violated in turn: the text does not parse back to the tree
                        (kernel evaluation of the parser on the rendered text); `Necessary.baseline`,
                        `Necessary.string_cr`, `Necessary.ext_special`: positive controls
  `Example.inputOK`, `Example.text_roundtrip`, `Example.smallDoc_parses`: non-vacuity (the hypotheses are
                        satisfiable by the example file of MetaRoundTrip.lean; the parser evaluated in the
                        kernel on a document with an extension, CR and `]]>` in a string, nesting)

Evaluation notes: statements checked by evaluation are phrased over `parseDocumentL (renderDocL …)`
(character lists; `roundTrips_iff`/`rejected_iff` connect them to the `String` functions) because `String`
append/`toList` are very slow in the kernel; `XNode` has no `DecidableEq`, hence `eqNode` (+ soundness).

Core Lean only.
-/
import E57.Proofs.XmlRender
import E57.Proofs.MetaRoundTrip
namespace E57.XmlP
open E57 E57.MT
set_option linter.unusedSimpArgs false
set_option linter.unusedVariables false

/-! ## 1. `cdata_roundtrip` -/

/-- `FormatNameUnescaped` is now a theorem: `cdataEscape` is a structural recursion -/
theorem formatNameUnescaped : MT.FormatNameUnescaped := by
  unfold MT.FormatNameUnescaped; decide

/-- the content `<![CDATA[` ++ cdataEscape v ++ `]]>` of an element `name`, followed by its closing tag:
    the parser reports exactly one text child, `v` — for every `v` made of XML characters, carriage
    returns and `]]>` included -/
theorem cdata_roundtrip (v : String) (hv : v.toList.all isXmlChar = true) (nss : Nss) (name : String)
    (hn : isNCNameL name.toList = true) (rest : Str) (f : Nat)
    (hf : (("<![CDATA[" ++ cdataEscape v ++ "]]>" ++ "</" ++ name ++ ">").toList ++ rest).length < f) :
    parseContent f nss (("<![CDATA[" ++ cdataEscape v ++ "]]>" ++ "</" ++ name ++ ">").toList ++ rest)
      = some ([.text v], ([], name.toList), rest) := by
  have h1 : "<![CDATA[".toList = cdataOpen := by decide
  have h2 : "]]>".toList = cdataClose := by decide
  have h3 : "</".toList = ['<', '/'] := by decide
  have h4 : ">".toList = ['>'] := by decide
  have hc := parsesTo_close nss (pfx := none) hn rfl rest
  have := parsesTo_cdata nss v.toList.length v.toList (Nat.le_refl _) hv hc
  have e : ("<![CDATA[" ++ cdataEscape v ++ "]]>" ++ "</" ++ name ++ ">").toList ++ rest
      = cdataOpen ++ (cdataEscL v.toList ++ (cdataClose ++ (closeTagL none name ++ rest))) := by
    simp only [String.toList_append, h1, h2, h3, h4, cdataEscape, String.toList_ofList, closeTagL, qnameL,
      List.append_assoc, List.cons_append, List.nil_append]
  rw [e] at hf ⊢
  rw [this f hf]
  simp [consText, optL, String.ofList_toList]

/-- the hypothesis is necessary: U+0001 inside a string makes the document ill-formed -/
theorem cdata_needs_xmlChars :
    parseContent 100 [] (("<![CDATA[" ++ cdataEscape (String.ofList [Char.ofNat 1]) ++ "]]>" ++ "</a>").toList) = none := by
  decide

/-! ## 2. characters of numbers and names -/

/-- `[0-9a-zA-Z+.-]`, and `?`, `:` which occur only in the placeholder `?f64:<bits>` that the MODEL's
    finite float table `FloatText` answers for a value it does not contain (so that the hypothesis
    below is satisfiable by concrete tables, see `FloatTextSafe_of_table`) -/
def numN (n : Nat) : Bool :=
  (48 ≤ n && n ≤ 57) || (65 ≤ n && n ≤ 90) || (97 ≤ n && n ≤ 122) || n == 43 || n == 45 || n == 46
    || n == 63 || n == 58

/-- a non-empty text of such characters: what Rust prints for numbers -/
def safeText (s : String) : Bool := !s.toList.isEmpty && s.toList.all (fun c => numN c.toNat)

/-- the external float printer only produces such texts (checked exhaustively for f32 and on
    samples for f64 by the float-text engine) -/
structure FloatTextSafe (ft : FloatText) : Prop where
  f64 : ∀ v, safeText (ft.show64 v) = true
  f32 : ∀ v, safeText (ft.show32 v) = true

/-- none of these characters is white space (Rust `char::is_whitespace`) -/
theorem numN_noWs {c : Char} (h : numN c.toNat = true) : rustIsWhitespace c = false := by
  simp only [numN, Bool.or_eq_true, Bool.and_eq_true, decide_eq_true_eq, beq_iff_eq] at h
  simp [rustIsWhitespace]
  omega

/-- a safe text is its own `trim` -/
theorem rustTrim_safeText {s : String} (h : safeText s = true) : rustTrim s = s := by
  simp only [safeText, Bool.and_eq_true, List.all_eq_true] at h
  exact MT.rustTrim_of_noWs s (fun c hc => numN_noWs (h.2 c hc))

/-- the second half of `MT.F64OK` / `MT.F32OK` (the printed text has no white space around it) is a consequence of
    `FloatTextSafe ft`: with it, `F64OK` is again just "the parser inverts the printer on `v`" -/
theorem F64OK_of_safe {ft : FloatText} (hft : FloatTextSafe ft) {fp : FloatParse} {v : UInt64}
    (h : fp.f64 (ft.show64 v) = some v) : MT.F64OK ft fp v := ⟨h, rustTrim_safeText (hft.f64 v)⟩
theorem F32OK_of_safe {ft : FloatText} (hft : FloatTextSafe ft) {fp : FloatParse} {v : UInt32}
    (h : fp.f32 (ft.show32 v) = some v) : MT.F32OK ft fp v := ⟨h, rustTrim_safeText (hft.f32 v)⟩
theorem F64OK_iff_of_safe {ft : FloatText} (hft : FloatTextSafe ft) (fp : FloatParse) (v : UInt64) :
    MT.F64OK ft fp v ↔ fp.f64 (ft.show64 v) = some v := ⟨fun h => h.1, F64OK_of_safe hft⟩
theorem F32OK_iff_of_safe {ft : FloatText} (hft : FloatTextSafe ft) (fp : FloatParse) (v : UInt32) :
    MT.F32OK ft fp v ↔ fp.f32 (ft.show32 v) = some v := ⟨fun h => h.1, F32OK_of_safe hft⟩

theorem numN_xml {c : Char} (h : numN c.toNat = true) : isXmlChar c = true := by
  simp only [numN, Bool.or_eq_true, Bool.and_eq_true, decide_eq_true_eq, beq_iff_eq] at h
  unfold isXmlChar
  have : ¬ c.toNat < 32 := by omega
  simp only [this, if_false]
  simp
  omega

theorem numN_attrVal {c : Char} (h : numN c.toNat = true) : attrValChar c = true := by
  have hx := numN_xml h
  have h1 : c ≠ '"' := by rintro rfl; revert h; decide
  have h2 : c ≠ '<' := by rintro rfl; revert h; decide
  have h3 : c ≠ '&' := by rintro rfl; revert h; decide
  have h4 : c ≠ '\t' := by rintro rfl; revert h; decide
  have h5 : c ≠ '\n' := by rintro rfl; revert h; decide
  have h6 : c ≠ '\r' := by rintro rfl; revert h; decide
  simp [attrValChar, hx, h1, h2, h3, h4, h5, h6]

theorem containsSub_cdataClose_false {s : Str} (h : ']' ∉ s) : containsSub cdataClose s = false := by
  induction s with
  | nil => rfl
  | cons c cs ih =>
    have hc : ¬ ']' = c := by intro e; apply h; rw [e]; simp
    have := ih (by intro hm; apply h; simp [hm])
    simp only [cdataClose] at this
    simp [containsSub, startsWith, cdataClose, strip, hc, this]

theorem safeText_plain {s : String} (h : safeText s = true) : plainTextOk s.toList = true := by
  simp only [safeText, Bool.and_eq_true, Bool.not_eq_true'] at h
  obtain ⟨hne, hall⟩ := h
  rw [List.all_eq_true] at hall
  simp only [plainTextOk, Bool.and_eq_true, Bool.not_eq_true', hne, true_and]
  constructor
  · rw [List.all_eq_true]
    intro c hc
    have hn := hall c hc
    have hv := numN_attrVal hn
    simp only [attrValChar, Bool.and_eq_true] at hv
    simp only [Bool.and_eq_true]
    exact ⟨⟨⟨hv.1.1.1.1.1.1, hv.1.1.1.1.2⟩, hv.1.1.1.2⟩, hv.2⟩
  · apply containsSub_cdataClose_false
    intro hm
    have := hall _ hm
    revert this; decide

theorem safeText_attr {s : String} (h : safeText s = true) : s.toList.all attrValChar = true := by
  simp only [safeText, Bool.and_eq_true] at h
  have hall := h.2
  rw [List.all_eq_true] at hall ⊢
  intro c hc
  exact numN_attrVal (hall c hc)

theorem safeText_xml {s : String} (h : safeText s = true) : s.toList.all isXmlChar = true := by
  simp only [safeText, Bool.and_eq_true] at h
  have hall := h.2
  rw [List.all_eq_true] at hall ⊢
  intro c hc
  exact numN_xml (hall c hc)

theorem isDigit_toNat {c : Char} (h : c.isDigit = true) : 48 ≤ c.toNat ∧ c.toNat ≤ 57 := by
  simp only [Char.isDigit, Bool.and_eq_true, decide_eq_true_eq, ge_iff_le] at h
  have h1 := UInt32.le_iff_toNat_le.mp h.1
  have h2 := UInt32.le_iff_toNat_le.mp h.2
  simp at h1 h2
  exact ⟨h1, h2⟩

theorem isAlpha_toNat {c : Char} (h : c.isAlpha = true) :
    (65 ≤ c.toNat ∧ c.toNat ≤ 90) ∨ (97 ≤ c.toNat ∧ c.toNat ≤ 122) := by
  simp only [Char.isAlpha, Char.isUpper, Char.isLower, Bool.or_eq_true, Bool.and_eq_true, decide_eq_true_eq,
    ge_iff_le] at h
  rcases h with h | h
  · have h1 := UInt32.le_iff_toNat_le.mp h.1
    have h2 := UInt32.le_iff_toNat_le.mp h.2
    simp at h1 h2
    exact Or.inl ⟨h1, h2⟩
  · have h1 := UInt32.le_iff_toNat_le.mp h.1
    have h2 := UInt32.le_iff_toNat_le.mp h.2
    simp at h1 h2
    exact Or.inr ⟨h1, h2⟩

theorem safeText_nat (n : Nat) : safeText (toString n) = true := by
  simp only [safeText, toList_toString_nat, Bool.and_eq_true, Bool.not_eq_true']
  constructor
  · cases h : Nat.toDigits 10 n with
    | nil => exact absurd h Nat.toDigits_ne_nil
    | cons c cs => rfl
  · rw [List.all_eq_true]
    intro c hc
    have := isDigit_toNat (Nat.isDigit_of_mem_toDigits (by decide) (by decide) hc)
    simp only [numN, Bool.or_eq_true, Bool.and_eq_true, decide_eq_true_eq, beq_iff_eq]
    omega

theorem safeText_int (i : Int) : safeText (toString i) = true := by
  rw [Int.toString_eq_repr, Int.repr_eq_if]
  split
  · have := safeText_nat i.toNat
    rwa [Nat.toString_eq_repr] at this
  · have := safeText_nat (-i).toNat
    rw [Nat.toString_eq_repr] at this
    simp only [safeText, Bool.and_eq_true, Bool.not_eq_true'] at this ⊢
    have hm : "-".toList = ['-'] := by decide
    simp only [String.toList_append, hm, List.cons_append, List.nil_append, List.isEmpty_cons, List.all_cons,
      this.2, Bool.and_true, true_and]
    decide

/-! ### names -/

/-- what `Extension::validate_xml_name` accepts: `[A-Za-z_][A-Za-z0-9_-]*`, not starting with `xml`
    in any letter case (the model's `validName` plus the start character) -/
def XmlNameOK (s : String) : Prop :=
  validName s = true ∧ ∃ c cs, s.toList = c :: cs ∧ (c.isAlpha = true ∨ c = '_')

theorem isAlphanum_nameChar {c : Char} (h : (c.isAlphanum || c == '_' || c == '-') = true) :
    isNameCharNC c = true := by
  simp only [Bool.or_eq_true, beq_iff_eq, Char.isAlphanum] at h
  rcases h with (h | rfl) | rfl
  · rcases h with h | h
    · have := isAlpha_toNat h
      simp only [isNameCharNC, isAsciiLetter]
      have hle : c.toNat ≤ 128 := by omega
      simp only [hle, if_true, Bool.or_eq_true, Bool.and_eq_true, decide_eq_true_eq, beq_iff_eq]
      omega
    · have := isDigit_toNat h
      simp only [isNameCharNC, isAsciiLetter]
      have hle : c.toNat ≤ 128 := by omega
      simp only [hle, if_true, Bool.or_eq_true, Bool.and_eq_true, decide_eq_true_eq, beq_iff_eq]
      omega
  · decide
  · decide

theorem XmlNameOK.ncname {s : String} (h : XmlNameOK s) : isNCNameL s.toList = true := by
  obtain ⟨hv, c, cs, hs, hc⟩ := h
  simp only [validName, Bool.and_eq_true] at hv
  have hall := hv.1.2
  rw [hs] at hall ⊢
  simp only [List.all_cons, Bool.and_eq_true] at hall
  simp only [isNCNameL, Bool.and_eq_true]
  constructor
  · rcases hc with hc | rfl
    · have := isAlpha_toNat hc
      simp only [isNameStartNC, isAsciiLetter]
      have hle : c.toNat ≤ 128 := by omega
      simp only [hle, if_true, Bool.or_eq_true, Bool.and_eq_true, decide_eq_true_eq, beq_iff_eq]
      omega
    · decide
  · rw [List.all_eq_true]
    intro d hd
    exact isAlphanum_nameChar ((List.all_eq_true.mp hall.2) d hd)

theorem XmlNameOK.ne_xmlns {s : String} (h : XmlNameOK s) : s.toList ≠ xmlnsL := by
  intro e
  have : s = "xmlns" := by
    apply String.toList_inj.mp; rw [e]; decide
  subst this
  have := h.1
  revert this; decide +kernel

theorem XmlNameOK.ne_xml {s : String} (h : XmlNameOK s) : s.toList ≠ xmlL := by
  intro e
  have : s = "xml" := by
    apply String.toList_inj.mp; rw [e]; decide
  subst this
  have := h.1
  revert this; decide +kernel

/-! ## 3. the trees of `E57/Model/MetaTree.lean` are in the dialect -/

theorem lookupPrefix_eq_MT (nss : Nss) (uri : String) : lookupPrefix nss uri = MT.lookupPrefix nss uri := rfl

/-- the facts about the namespace list that the E57 elements need: the default namespace is the E57
    namespace and no prefix is bound to it -/
structure E57Scope (nss : Nss) : Prop where
  dflt : nsOfPrefix nss [] = some (some XNode.e57NsUri)
  noPfx : lookupPrefix nss XNode.e57NsUri = none

section Trees
variable {nss : Nss} (sc : E57Scope nss)
include sc

theorem nodeOk_el {name : String} {attrs : List XAttr} {cs : List XNode}
    (hn : isNCNameL name.toList = true) (ha : attrsOk attrs = true)
    (hk : kidsOk nss (isStringTyped attrs) cs = true) : nodeOk nss (el none name attrs cs) = true := by
  simp only [el, nodeOk, headOk, hn, prefixOk, optL, sc.dflt, Option.getD_some, sc.noPfx, decide_true,
    Bool.and_self, ha, hk]

omit sc in
theorem kidsOk_cons_node {k : XNode} {cs : List XNode} {cd : Bool} (hk : nodeOk nss k = true) :
    kidsOk nss cd (k :: cs) = kidsOk nss cd cs := by
  cases k with
  | elem ns p n a ks => simp only [kidsOk, hk, Bool.true_and]
  | text s => simp [nodeOk] at hk
  | comment => simp [nodeOk] at hk
  | pi => simp [nodeOk] at hk

omit sc in
theorem startsWithText_node {k : XNode} {cs : List XNode} (hk : nodeOk nss k = true) :
    startsWithText (k :: cs) = false := by
  cases k with
  | elem ns p n a ks => rfl
  | text s => simp [nodeOk] at hk
  | comment => simp [nodeOk] at hk
  | pi => simp [nodeOk] at hk

omit sc in
theorem nlOk : textOk false "\n" = true := by decide

omit sc in
theorem kidsOk_sep (kids : List XNode) (h : kids.all (nodeOk nss) = true) : kidsOk nss false (sep kids) = true := by
  induction kids with
  | nil => rfl
  | cons k ks ih =>
    simp only [List.all_cons, Bool.and_eq_true] at h
    have hst : startsWithText (sep ks) = false := by
      cases ks with
      | nil => rfl
      | cons k' ks' =>
        simp only [List.all_cons, Bool.and_eq_true] at h
        exact startsWithText_node h.2.1
    rw [sep, kidsOk_cons_node h.1, nl, kidsOk, nlOk, hst, ih h.2]
    rfl

omit sc in
theorem kidsOk_lines (kids : List XNode) (h : kids.all (nodeOk nss) = true) :
    kidsOk nss false (lines kids) = true := by
  have hst : startsWithText (sep kids) = false := by
    cases kids with
    | nil => rfl
    | cons k' ks' =>
      simp only [List.all_cons, Bool.and_eq_true] at h
      exact startsWithText_node h.1
  rw [lines, nl, kidsOk, nlOk, hst, kidsOk_sep kids h]
  rfl

omit sc in
theorem all_optT {α} (o : Option α) (f : α → XNode) (p : XNode → Bool)
    (h : ∀ a, o = some a → p (f a) = true) : (optT o f).all p = true := by
  cases o with
  | none => rfl
  | some a => simp [optT, h a rfl]

theorem nodeOk_structT {tag : String} {kids : List XNode} (hn : isNCNameL tag.toList = true)
    (hk : kids.all (nodeOk nss) = true) : nodeOk nss (structT none tag kids) = true :=
  nodeOk_el sc hn (by decide) (by
    have : isStringTyped [tattr "Structure"] = false := by decide
    rw [this]; exact kidsOk_lines kids hk)

theorem nodeOk_vectorT {tag : String} {kids : List XNode} (hn : isNCNameL tag.toList = true)
    (hk : kids.all (nodeOk nss) = true) : nodeOk nss (vectorT none tag kids) = true :=
  nodeOk_el sc hn (by decide) (by
    have : isStringTyped [tattr "Vector", at_ "allowHeterogeneousChildren" "1"] = false := by decide
    rw [this]; exact kidsOk_lines kids hk)

theorem nodeOk_string {tag v : String} (hn : isNCNameL tag.toList = true)
    (hv : v.toList.all isXmlChar = true) : nodeOk nss (genStringTree none tag v) = true :=
  nodeOk_el sc hn (by decide) (by
    have : isStringTyped [tattr "String"] = true := by decide
    rw [this]
    simp [kidsOk, textOk, cdataTextOk, hv, startsWithText])

/-- a leaf whose text is a number -/
theorem nodeOk_numLeaf {tag : String} {attrs : List XAttr} {s : String} (hn : isNCNameL tag.toList = true)
    (ha : attrsOk attrs = true) (hty : isStringTyped attrs = false) (hs : safeText s = true) :
    nodeOk nss (el none tag attrs [.text s]) = true :=
  nodeOk_el sc hn ha (by
    rw [hty]
    simp [kidsOk, textOk, safeText_plain hs, startsWithText])

theorem nodeOk_float (ft : FloatText) (hft : FloatTextSafe ft) {tag : String} (v : UInt64)
    (hn : isNCNameL tag.toList = true) : nodeOk nss (genFloatTree ft none tag v) = true :=
  nodeOk_numLeaf sc hn (by decide) (by decide) (hft.f64 v)

theorem nodeOk_int {tag : String} (v : Int) (hn : isNCNameL tag.toList = true) :
    nodeOk nss (genIntTree none tag v) = true :=
  nodeOk_numLeaf sc hn (by decide) (by decide) (safeText_int v)

theorem nodeOk_dateTime (ft : FloatText) (hft : FloatTextSafe ft) (d : DateTime) {tag : String}
    (hn : isNCNameL tag.toList = true) : nodeOk nss (DateTime.tree ft none d tag) = true := by
  apply nodeOk_structT sc hn
  simp only [List.all_cons, List.all_nil, Bool.and_true, Bool.and_eq_true]
  refine ⟨nodeOk_float sc ft hft _ (by decide), ?_⟩
  apply nodeOk_numLeaf sc (by decide) (by decide) (by decide)
  cases d.atomic <;> decide

theorem nodeOk_transform (ft : FloatText) (hft : FloatTextSafe ft) (t : Transform) {tag : String}
    (hn : isNCNameL tag.toList = true) : nodeOk nss (Transform.tree ft none t tag) = true := by
  apply nodeOk_structT sc hn
  simp only [List.all_cons, List.all_nil, Bool.and_true, Bool.and_eq_true]
  constructor
  · apply nodeOk_structT sc (by decide)
    simp only [List.all_cons, List.all_nil, Bool.and_true, Bool.and_eq_true]
    exact ⟨nodeOk_float sc ft hft _ (by decide), nodeOk_float sc ft hft _ (by decide),
      nodeOk_float sc ft hft _ (by decide), nodeOk_float sc ft hft _ (by decide)⟩
  · apply nodeOk_structT sc (by decide)
    simp only [List.all_cons, List.all_nil, Bool.and_true, Bool.and_eq_true]
    exact ⟨nodeOk_float sc ft hft _ (by decide), nodeOk_float sc ft hft _ (by decide),
      nodeOk_float sc ft hft _ (by decide)⟩

omit sc in
theorem all_optT_append {α} (o : Option α) (f : α → XNode) (p : XNode → Bool) (rest : List XNode) :
    (optT o f ++ rest).all p = ((optT o f).all p && rest.all p) := List.all_append

theorem nodeOk_cartesianBounds (ft : FloatText) (hft : FloatTextSafe ft) (b : CartesianBounds) :
    nodeOk nss (CartesianBounds.tree ft none b) = true := by
  apply nodeOk_structT sc (by decide)
  simp only [List.all_append, Bool.and_eq_true]
  refine ⟨⟨⟨⟨⟨?_, ?_⟩, ?_⟩, ?_⟩, ?_⟩, ?_⟩ <;>
  · apply all_optT; intro a _; exact nodeOk_float sc ft hft _ (by decide)

theorem nodeOk_sphericalBounds (ft : FloatText) (hft : FloatTextSafe ft) (b : SphericalBounds) :
    nodeOk nss (SphericalBounds.tree ft none b) = true := by
  apply nodeOk_structT sc (by decide)
  simp only [List.all_append, Bool.and_eq_true]
  refine ⟨⟨⟨⟨⟨?_, ?_⟩, ?_⟩, ?_⟩, ?_⟩, ?_⟩ <;>
  · apply all_optT; intro a _; exact nodeOk_float sc ft hft _ (by decide)

theorem nodeOk_indexBounds (b : IndexBounds) : nodeOk nss (IndexBounds.tree none b) = true := by
  apply nodeOk_structT sc (by decide)
  simp only [List.all_append, Bool.and_eq_true]
  refine ⟨⟨⟨⟨⟨?_, ?_⟩, ?_⟩, ?_⟩, ?_⟩, ?_⟩ <;>
  · apply all_optT; intro a _; exact nodeOk_int sc _ (by decide)

theorem nodeOk_recordValue (ft : FloatText) (hft : FloatTextSafe ft) {tag : String} (v : Value)
    (hn : isNCNameL tag.toList = true) : nodeOk nss (recordValueTree ft none tag v) = true := by
  cases v with
  | integer i => exact nodeOk_numLeaf sc hn (by decide) (by decide) (safeText_int i)
  | scaled i => exact nodeOk_numLeaf sc hn (by decide) (by decide) (safeText_int i)
  | single b => exact nodeOk_numLeaf sc hn (by decide) (by decide) (hft.f32 b)
  | double b => exact nodeOk_numLeaf sc hn (by decide) (by decide) (hft.f64 b)

theorem nodeOk_intensityLimits (ft : FloatText) (hft : FloatTextSafe ft) (l : IntensityLimits) :
    nodeOk nss (IntensityLimits.tree ft none l) = true := by
  apply nodeOk_structT sc (by decide)
  simp only [List.all_append, Bool.and_eq_true]
  refine ⟨?_, ?_⟩ <;>
  · apply all_optT; intro a _; exact nodeOk_recordValue sc ft hft _ (by decide)

theorem nodeOk_colorLimits (ft : FloatText) (hft : FloatTextSafe ft) (l : ColorLimits) :
    nodeOk nss (ColorLimits.tree ft none l) = true := by
  apply nodeOk_structT sc (by decide)
  simp only [List.all_append, Bool.and_eq_true]
  refine ⟨⟨⟨⟨⟨?_, ?_⟩, ?_⟩, ?_⟩, ?_⟩, ?_⟩ <;>
  · apply all_optT; intro a _; exact nodeOk_recordValue sc ft hft _ (by decide)

end Trees

/-! ### prototype entries, point clouds, images -/

theorem attrOk_at {name v : String} (hn : isNCNameL name.toList = true) (hx : (name.toList != xmlnsL) = true)
    (hv : safeText v = true) : attrOk (at_ name v) = true := by
  simp [attrOk, at_, hn, hx, safeText_attr hv]

theorem attrOk_tattr {v : String} (hv : safeText v = true) : attrOk (tattr v) = true :=
  attrOk_at (by decide) (by decide) hv

theorem attrsOk_of {attrs : List XAttr} (h1 : ∀ a ∈ attrs, attrOk a = true)
    (h2 : distinct (attrs.map (·.name)) = true) : attrsOk attrs = true := by
  simp only [attrsOk, Bool.and_eq_true, h2, and_true]
  exact List.all_eq_true.mpr h1

theorem safeText_lits : safeText "Float" = true ∧ safeText "single" = true ∧ safeText "ScaledInteger" = true
    ∧ safeText "Integer" = true ∧ safeText "CompressedVector" = true ∧ safeText "Blob" = true := by decide

theorem attrsOk_recordType (ft : FloatText) (hft : FloatTextSafe ft) (dt : DataType) :
    attrsOk (recordTypeTree ft dt).1 = true := by
  obtain ⟨l1, l2, l3, l4, _, _⟩ := safeText_lits
  have hmin : ∀ v, safeText v = true → attrOk (at_ "minimum" v) = true :=
    fun v hv => attrOk_at (by decide) (by decide) hv
  have hmax : ∀ v, safeText v = true → attrOk (at_ "maximum" v) = true :=
    fun v hv => attrOk_at (by decide) (by decide) hv
  have f1 : ∀ v, attrOk (at_ "minimum" (ft.show32 v)) = true := fun v => hmin _ (hft.f32 v)
  have f2 : ∀ v, attrOk (at_ "maximum" (ft.show32 v)) = true := fun v => hmax _ (hft.f32 v)
  have f3 : ∀ v, attrOk (at_ "minimum" (ft.show64 v)) = true := fun v => hmin _ (hft.f64 v)
  have f4 : ∀ v, attrOk (at_ "maximum" (ft.show64 v)) = true := fun v => hmax _ (hft.f64 v)
  have f5 : ∀ v : Int, attrOk (at_ "minimum" (toString v)) = true := fun v => hmin _ (safeText_int v)
  have f6 : ∀ v : Int, attrOk (at_ "maximum" (toString v)) = true := fun v => hmax _ (safeText_int v)
  have f7 : ∀ v, attrOk (at_ "scale" (ft.show64 v)) = true :=
    fun v => attrOk_at (by decide) (by decide) (hft.f64 v)
  have f8 : ∀ v, attrOk (at_ "offset" (ft.show64 v)) = true :=
    fun v => attrOk_at (by decide) (by decide) (hft.f64 v)
  have g1 : attrOk (at_ "precision" "single") = true := attrOk_at (by decide) (by decide) l2
  have g2 := attrOk_tattr l1
  have g3 := attrOk_tattr l3
  have g4 := attrOk_tattr l4
  cases dt with
  | single min max =>
    apply attrsOk_of
    · apply List.all_eq_true.mp
      cases min <;> cases max <;>
        simp only [recordTypeTree, optT, List.append_nil, List.cons_append, List.nil_append, List.all_cons,
          List.all_nil, f1, f2, g1, g2, Bool.and_self]
    · cases min <;> cases max <;> simp [recordTypeTree, optT, distinct, tattr, at_]
  | double min max =>
    apply attrsOk_of
    · apply List.all_eq_true.mp
      cases min <;> cases max <;>
        simp only [recordTypeTree, optT, List.append_nil, List.cons_append, List.nil_append, List.all_cons,
          List.all_nil, f3, f4, g2, Bool.and_self]
    · cases min <;> cases max <;> simp [recordTypeTree, optT, distinct, tattr, at_]
  | scaled min max scale offset =>
    apply attrsOk_of
    · apply List.all_eq_true.mp
      simp only [recordTypeTree, List.all_cons, List.all_nil, f5, f6, f7, f8, g3, Bool.and_self]
    · simp [recordTypeTree, distinct, tattr, at_]
  | integer min max =>
    apply attrsOk_of
    · apply List.all_eq_true.mp
      simp only [recordTypeTree, List.all_cons, List.all_nil, f5, f6, g4, Bool.and_self]
    · simp [recordTypeTree, distinct, tattr, at_]

theorem safeText_recordType (ft : FloatText) (hft : FloatTextSafe ft) (dt : DataType) :
    safeText (recordTypeTree ft dt).2 = true := by
  cases dt with
  | single min max => exact hft.f32 _
  | double min max => exact hft.f64 _
  | scaled min max scale offset => exact safeText_int _
  | integer min max => exact safeText_int _

theorem tagName_std_ncname (n : RecordName) (h : n.namespace? = none) : isNCNameL n.tagName.toList = true := by
  cases n <;> first | decide | simp [RecordName.namespace?] at h

/-- an extension record can be written and read back: both names are XML names and the prefix is
    bound, on the root, to a URL whose first prefix it is -/
def RecordXmlOK (exts : List (String × String)) : RecordName → Prop
  | .unknown ns name => XmlNameOK ns ∧ XmlNameOK name ∧
      ∃ url, extUrl exts ns = some url ∧ MT.lookupPrefix (rootNamespaces exts) url = some ns
  | _ => True

theorem nsOfPrefix_root {exts : List (String × String)} {ns url : String} (hne : ns.toList ≠ [])
    (h : extUrl exts ns = some url) : nsOfPrefix (rootNamespaces exts) ns.toList = some (some url) := by
  have hp : optPrefix ns.toList = some ns := by
    have : ns.toList.isEmpty = false := by cases hh : ns.toList <;> simp_all
    simp [optPrefix, this, String.ofList_toList]
  unfold extUrl at h
  cases hf : exts.find? (fun e => e.1 == ns) with
  | none => rw [hf] at h; cases h
  | some e =>
    rw [hf] at h
    simp only [Option.map_some, Option.some.injEq] at h
    unfold nsOfPrefix rootNamespaces
    rw [hp, List.find?_append, List.find?_map]
    have : ((fun n : Option String × String => n.1 == some ns) ∘ fun e : String × String => (some e.1, e.2))
        = fun e => e.1 == ns := by
      funext x; simp
    rw [this, hf]
    simp [h]

theorem nodeOk_record {exts : List (String × String)} (sc : E57Scope (rootNamespaces exts))
    (h0 : e57Prefix exts = none) (ft : FloatText) (hft : FloatTextSafe ft) (r : Record)
    (hr : RecordXmlOK exts r.name) : nodeOk (rootNamespaces exts) (Record.tree ft exts r) = true := by
  have hkids : kidsOk (rootNamespaces exts) (isStringTyped (recordTypeTree ft r.dt).1)
      [.text (recordTypeTree ft r.dt).2] = true := by
    rw [isStringTyped_recordTypeTree]
    simp [kidsOk, textOk, safeText_plain (safeText_recordType ft hft r.dt), startsWithText]
  cases hn : r.name.namespace? with
  | none =>
    have hrec : recordNs exts r.name = (some XNode.e57NsUri, none) := by simp [recordNs, hn, h0]
    simp only [Record.tree, hrec]
    exact nodeOk_el sc (tagName_std_ncname _ hn) (attrsOk_recordType ft hft r.dt) hkids
  | some ns =>
    cases hname : r.name with
    | unknown ns' nm =>
      rw [hname] at hn hr
      simp only [RecordName.namespace?, Option.some.injEq] at hn
      subst hn
      obtain ⟨h1, h2, url, h3, h4⟩ := hr
      have hrec : recordNs exts (.unknown ns' nm) = (some url, some ns') := by
        simp [recordNs, RecordName.namespace?, h3, h4]
      simp only [Record.tree, hname, hrec, RecordName.tagName]
      have hhead : headOk (rootNamespaces exts) (some url) (some ns') nm = true := by
        have hne : (ns'.toList != xmlnsL) = true := by simpa [bne] using h1.ne_xmlns
        simp only [headOk, h2.ncname, prefixOk, h1.ncname, hne, optL,
          nsOfPrefix_root (isNCNameL_ne_nil h1.ncname) h3, Option.getD_some, lookupPrefix_eq_MT, h4,
          decide_true, Bool.and_self]
      simp only [nodeOk, hhead, attrsOk_recordType ft hft, hkids, Bool.and_self]
    | _ => simp [hname, RecordName.namespace?] at hn

section Trees2
variable {exts : List (String × String)} (sc : E57Scope (rootNamespaces exts)) (h0 : e57Prefix exts = none)
  (ft : FloatText) (hft : FloatTextSafe ft)
include sc h0 hft

theorem nodeOk_points (pc : PointCloud) (hp : ∀ r ∈ pc.prototype, RecordXmlOK exts r.name) :
    nodeOk (rootNamespaces exts) (pointsTree ft exts pc) = true := by
  simp only [pointsTree, h0]
  apply nodeOk_el sc (by decide)
  · apply attrsOk_of
    · intro a ha
      simp only [List.mem_cons, List.not_mem_nil, or_false] at ha
      rcases ha with ha | ha | ha <;> subst ha
      · exact attrOk_tattr safeText_lits.2.2.2.2.1
      · exact attrOk_at (by decide) (by decide) (safeText_nat _)
      · exact attrOk_at (by decide) (by decide) (safeText_nat _)
    · simp [distinct, tattr, at_]
  · have : isStringTyped [tattr "CompressedVector", at_ "fileOffset" (toString pc.fileOffset),
        at_ "recordCount" (toString pc.records)] = false := by
      simp [isStringTyped, tattr, at_]
    rw [this]
    apply kidsOk_lines
    simp only [List.all_cons, List.all_nil, Bool.and_true]
    apply nodeOk_structT sc (by decide)
    rw [List.all_map, List.all_eq_true]
    intro r hr
    exact nodeOk_record sc h0 ft hft r (hp r hr)

omit h0 hft in
theorem nodeOk_originalGuids (gs : List String) (hg : ∀ g ∈ gs, g.toList.all isXmlChar = true) :
    nodeOk (rootNamespaces exts) (originalGuidsTree none gs) = true := by
  apply nodeOk_el sc (by decide) (by decide)
  have : isStringTyped [tattr "Vector", at_ "allowHeterogeneousChildren" "0"] = false := by decide
  rw [this]
  apply kidsOk_lines
  rw [List.all_map, List.all_eq_true]
  intro g hgm
  exact nodeOk_string sc (by decide) (hg g hgm)

end Trees2

/-! ### whole point clouds and images -/

/-- every string field of a point cloud -/
def pcStrings (pc : PointCloud) : List String :=
  pc.guid.toList ++ pc.name.toList ++ pc.description.toList ++ pc.sensorVendor.toList ++ pc.sensorModel.toList
    ++ pc.sensorSerial.toList ++ pc.sensorHwVersion.toList ++ pc.sensorSwVersion.toList
    ++ pc.sensorFwVersion.toList ++ pc.originalGuids.getD []

/-- every string field of an image -/
def imgStrings (i : Image) : List String :=
  i.guid.toList ++ i.pointcloudGuid.toList ++ i.name.toList ++ i.description.toList ++ i.sensorVendor.toList
    ++ i.sensorModel.toList ++ i.sensorSerial.toList

/-- every string field of the root -/
def rootStrings (r : Root) : List String := [r.guid] ++ r.coordinateMetadata.toList ++ r.libraryVersion.toList

def XmlStr (s : String) : Prop := s.toList.all isXmlChar = true

instance (s : String) : Decidable (XmlStr s) := by unfold XmlStr; infer_instance

section Trees3
variable {exts : List (String × String)} (sc : E57Scope (rootNamespaces exts)) (h0 : e57Prefix exts = none)
  (ft : FloatText) (hft : FloatTextSafe ft)
include sc h0 hft

theorem nodeOk_pointCloud (pc : PointCloud) (hs : ∀ s ∈ pcStrings pc, XmlStr s)
    (hp : ∀ r ∈ pc.prototype, RecordXmlOK exts r.name) :
    nodeOk (rootNamespaces exts) (PointCloud.tree ft exts pc) = true := by
  simp only [PointCloud.tree, h0]
  apply nodeOk_structT sc (by decide)
  simp only [List.all_append, Bool.and_eq_true]
  repeat' apply And.intro
  all_goals first
    | (apply all_optT; intro a ha
       exact nodeOk_string sc (by decide) (hs a (by simp [pcStrings, ha])))
    | (apply all_optT; intro a ha
       exact nodeOk_originalGuids sc a (fun g hg => hs g (by simp [pcStrings, ha, hg])))
    | (apply all_optT; intro a ha; exact nodeOk_cartesianBounds sc ft hft a)
    | (apply all_optT; intro a ha; exact nodeOk_sphericalBounds sc ft hft a)
    | (apply all_optT; intro a ha; exact nodeOk_indexBounds sc a)
    | (apply all_optT; intro a ha; exact nodeOk_colorLimits sc ft hft a)
    | (apply all_optT; intro a ha; exact nodeOk_intensityLimits sc ft hft a)
    | (apply all_optT; intro a ha; exact nodeOk_transform sc ft hft a (by decide))
    | (apply all_optT; intro a ha; exact nodeOk_dateTime sc ft hft a (by decide))
    | (apply all_optT; intro a ha; exact nodeOk_float sc ft hft a (by decide))
    | (simp only [List.all_cons, List.all_nil, Bool.and_true]; exact nodeOk_points sc h0 ft hft pc hp)

omit h0 hft in
theorem nodeOk_blobRef (b : BlobRef) {tag : String} (hn : isNCNameL tag.toList = true) :
    nodeOk (rootNamespaces exts) (BlobRef.tree none b tag) = true := by
  apply nodeOk_el sc hn
  · apply attrsOk_of
    · intro a ha
      simp only [List.mem_cons, List.not_mem_nil, or_false] at ha
      rcases ha with ha | ha | ha <;> subst ha
      · exact attrOk_tattr safeText_lits.2.2.2.2.2
      · exact attrOk_at (by decide) (by decide) (safeText_nat _)
      · exact attrOk_at (by decide) (by decide) (safeText_nat _)
    · simp [distinct, tattr, at_]
  · rfl

omit h0 hft in
theorem nodeOk_imageBlob (b : ImageBlob) : nodeOk (rootNamespaces exts) (ImageBlob.tree none b) = true := by
  unfold ImageBlob.tree
  split <;> exact nodeOk_blobRef sc _ (by decide)

omit h0 hft in
theorem nodeOk_visualRef (v : VisualRef) : nodeOk (rootNamespaces exts) (VisualRef.tree none v) = true := by
  apply nodeOk_structT sc (by decide)
  simp only [List.all_append, Bool.and_eq_true, List.all_cons, List.all_nil, Bool.and_true]
  refine ⟨⟨nodeOk_imageBlob sc _, ?_⟩, nodeOk_int sc _ (by decide), nodeOk_int sc _ (by decide)⟩
  apply all_optT; intro a _; exact nodeOk_blobRef sc a (by decide)

omit h0 in
theorem nodeOk_pinhole (p : Pinhole) : nodeOk (rootNamespaces exts) (Pinhole.tree ft none p) = true := by
  apply nodeOk_structT sc (by decide)
  simp only [List.all_append, Bool.and_eq_true, List.all_cons, List.all_nil, Bool.and_true]
  refine ⟨⟨nodeOk_imageBlob sc _, ?_⟩, nodeOk_int sc _ (by decide), nodeOk_int sc _ (by decide),
    nodeOk_float sc ft hft _ (by decide), nodeOk_float sc ft hft _ (by decide),
    nodeOk_float sc ft hft _ (by decide), nodeOk_float sc ft hft _ (by decide),
    nodeOk_float sc ft hft _ (by decide)⟩
  apply all_optT; intro a _; exact nodeOk_blobRef sc a (by decide)

omit h0 in
theorem nodeOk_sphericalImg (p : SphericalImg) :
    nodeOk (rootNamespaces exts) (SphericalImg.tree ft none p) = true := by
  apply nodeOk_structT sc (by decide)
  simp only [List.all_append, Bool.and_eq_true, List.all_cons, List.all_nil, Bool.and_true]
  refine ⟨⟨nodeOk_imageBlob sc _, ?_⟩, nodeOk_int sc _ (by decide), nodeOk_int sc _ (by decide),
    nodeOk_float sc ft hft _ (by decide), nodeOk_float sc ft hft _ (by decide)⟩
  apply all_optT; intro a _; exact nodeOk_blobRef sc a (by decide)

omit h0 in
theorem nodeOk_cylindrical (p : Cylindrical) :
    nodeOk (rootNamespaces exts) (Cylindrical.tree ft none p) = true := by
  apply nodeOk_structT sc (by decide)
  simp only [List.all_append, Bool.and_eq_true, List.all_cons, List.all_nil, Bool.and_true]
  refine ⟨⟨nodeOk_imageBlob sc _, ?_⟩, nodeOk_int sc _ (by decide), nodeOk_int sc _ (by decide),
    nodeOk_float sc ft hft _ (by decide), nodeOk_float sc ft hft _ (by decide),
    nodeOk_float sc ft hft _ (by decide), nodeOk_float sc ft hft _ (by decide)⟩
  apply all_optT; intro a _; exact nodeOk_blobRef sc a (by decide)

omit h0 in
theorem nodeOk_projection (p : Projection) : nodeOk (rootNamespaces exts) (Projection.tree ft none p) = true := by
  cases p with
  | pinhole p => exact nodeOk_pinhole sc ft hft p
  | spherical p => exact nodeOk_sphericalImg sc ft hft p
  | cylindrical p => exact nodeOk_cylindrical sc ft hft p

omit h0 in
theorem nodeOk_image (i : Image) (hs : ∀ s ∈ imgStrings i, XmlStr s) :
    nodeOk (rootNamespaces exts) (Image.tree ft none i) = true := by
  simp only [Image.tree]
  apply nodeOk_structT sc (by decide)
  simp only [List.all_append, Bool.and_eq_true]
  repeat' apply And.intro
  all_goals first
    | (apply all_optT; intro a ha
       exact nodeOk_string sc (by decide) (hs a (by simp [imgStrings, ha])))
    | (apply all_optT; intro a ha; exact nodeOk_visualRef sc a)
    | (apply all_optT; intro a ha; exact nodeOk_projection sc ft hft a)
    | (apply all_optT; intro a ha; exact nodeOk_transform sc ft hft a (by decide))
    | (apply all_optT; intro a ha; exact nodeOk_dateTime sc ft hft a (by decide))

end Trees3

/-! ## 4. the whole file: `rootTree_dialect`, the capstone, well-formedness -/

/-- what the writer guarantees about its extension list: the invariant `ExtsOk` of `register_extension`
    (prefixes distinct, URLs distinct, non-empty, not the E57 namespace), prefixes accepted by
    `validate_xml_name`, URLs made of XML characters and none of the two reserved namespaces -/
structure ExtsXmlOK (exts : List (String × String)) : Prop where
  ok : ExtsOk exts = true
  names : ∀ e ∈ exts, XmlNameOK e.1
  urls : ∀ e ∈ exts, XmlStr e.2 ∧ e.2 ≠ xmlNsUri ∧ e.2 ≠ xmlnsNsUri

theorem distinct_of_ExtsOk {exts : List (String × String)} (h : ExtsOk exts = true) :
    distinct (exts.map (·.1)) = true := by
  induction exts with
  | nil => rfl
  | cons e es ih =>
    simp only [ExtsOk, Bool.and_eq_true, List.all_eq_true, bne_iff_ne, ne_eq] at h
    simp only [List.map_cons, distinct, Bool.and_eq_true, Bool.not_eq_true', ih h.2, and_true]
    apply Bool.eq_false_iff.mpr
    intro hc
    simp only [List.contains_eq_mem, List.mem_map, decide_eq_true_eq] at hc
    obtain ⟨x, hx, hx2⟩ := hc
    exact (h.1.2 x hx).1 hx2

theorem extsDialect_of {exts : List (String × String)} (h : ExtsXmlOK exts) : extsDialect exts = true := by
  simp only [extsDialect, Bool.and_eq_true, distinct_of_ExtsOk h.ok, and_true]
  rw [List.all_eq_true]
  intro e he
  obtain ⟨h1, h2, h3⟩ := h.urls e he
  have hn := h.names e he
  have hx : (e.1.toList != xmlL) = true := by simpa [bne] using hn.ne_xml
  have h2' : (e.2 != xmlNsUri) = true := by simpa [bne] using h2
  have h3' : (e.2 != xmlnsNsUri) = true := by simpa [bne] using h3
  have h1' : e.2.toList.all isXmlChar = true := h1
  simp only [hn.ncname, hx, h1', h2', h3', Bool.and_self]

theorem e57Scope_of {exts : List (String × String)} (h0 : e57Prefix exts = none) :
    E57Scope (rootNamespaces exts) where
  dflt := by
    unfold nsOfPrefix rootNamespaces
    have hp : optPrefix [] = none := rfl
    rw [hp, List.find?_append, List.find?_map]
    have : ((fun n : Option String × String => n.1 == none) ∘ fun e : String × String => (some e.1, e.2))
        = fun _ => false := by
      funext x; simp
    rw [this]
    have hnone : exts.find? (fun _ => false) = none := by
      apply List.find?_eq_none.mpr; intro x _; simp
    rw [hnone]
    rfl
  noPfx := h0

theorem recordXmlOK_of_validate {exts : List (String × String)} (h : ExtsXmlOK exts) (p : Prototype)
    (hv : validateExtensions p exts = true)
    (hstart : ∀ r ∈ p, ∀ ns nm, r.name = .unknown ns nm →
      (∃ c cs, ns.toList = c :: cs ∧ (c.isAlpha = true ∨ c = '_')) ∧
      (∃ c cs, nm.toList = c :: cs ∧ (c.isAlpha = true ∨ c = '_'))) :
    ∀ r ∈ p, RecordXmlOK exts r.name := by
  intro r hr
  have hx : ∀ e ∈ exts, e.2 ≠ MT.xmlNsUri := fun e he => (h.urls e he).2.1
  have hok := RecordNameOK_of_validate h.ok hx p hv r hr
  have hval := (List.all_eq_true.mp hv) r hr
  cases hn : r.name with
  | unknown ns nm =>
    rw [hn] at hok hval
    obtain ⟨url, h1, h2, _⟩ := hok
    simp only [Bool.and_eq_true] at hval
    obtain ⟨s1, s2⟩ := hstart r hr ns nm hn
    exact ⟨⟨hval.1.1, s1⟩, ⟨hval.1.2, s2⟩, url, h1, h2⟩
  | _ => trivial

/-- the hypotheses of the text round trip: all of them are properties of the INPUT of the writer
    that its own checks establish (or, for `ft`, of Rust's float printer) -/
structure InputOK (ft : FloatText) (root : Root) (pcs : List PointCloud) (imgs : List Image)
    (exts : List (String × String)) : Prop where
  /-- floats print as non-empty texts over `[0-9a-zA-Z+.-]` -/
  floats : FloatTextSafe ft
  /-- the extension list as `register_extension` builds it -/
  extsOk : ExtsXmlOK exts
  /-- all strings consist of XML characters (`finalize` refuses other documents) -/
  rootStr : ∀ s ∈ rootStrings root, XmlStr s
  pcStr : ∀ pc ∈ pcs, ∀ s ∈ pcStrings pc, XmlStr s
  imgStr : ∀ i ∈ imgs, ∀ s ∈ imgStrings i, XmlStr s
  /-- `Extension::validate_prototype` passed for every point cloud … -/
  protos : ∀ pc ∈ pcs, validateExtensions pc.prototype exts = true
  /-- … including its check that names start with a letter or an underscore -/
  starts : ∀ pc ∈ pcs, ∀ r ∈ pc.prototype, ∀ ns nm, r.name = .unknown ns nm →
      (∃ c cs, ns.toList = c :: cs ∧ (c.isAlpha = true ∨ c = '_')) ∧
      (∃ c cs, nm.toList = c :: cs ∧ (c.isAlpha = true ∨ c = '_'))

/-- `rootTree_dialect`: the tree of every file the writer accepts is in the dialect -/
theorem rootTree_dialect (ft : FloatText) (root : Root) (pcs : List PointCloud) (imgs : List Image)
    (exts : List (String × String)) (h : InputOK ft root pcs imgs exts) :
    Dialect exts (rootTree ft root pcs imgs exts) := by
  have h0 := e57Prefix_none_of_ExtsOk h.extsOk.ok
  have sc := e57Scope_of h0
  have hft := h.floats
  have hkids : (([genStringTree none "formatName" "ASTM E57 3D Imaging Data File",
        genStringTree none "guid" root.guid, genIntTree none "versionMajor" 1, genIntTree none "versionMinor" 0]
      ++ optT root.coordinateMetadata (genStringTree none "coordinateMetadata")
      ++ optT root.libraryVersion (genStringTree none "e57LibraryVersion")
      ++ optT root.creation (fun d => DateTime.tree ft none d "creationDateTime")
      ++ [vectorT none "data3D" (pcs.map (PointCloud.tree ft exts)),
          vectorT none "images2D" (imgs.map (Image.tree ft none))]).all (nodeOk (rootNamespaces exts))) = true := by
    simp only [List.all_append, Bool.and_eq_true, List.all_cons, List.all_nil, Bool.and_true]
    refine ⟨⟨⟨⟨⟨nodeOk_string sc (by decide) (by decide), nodeOk_string sc (by decide) (h.rootStr _ (by simp [rootStrings])),
      nodeOk_int sc _ (by decide), nodeOk_int sc _ (by decide)⟩, ?_⟩, ?_⟩, ?_⟩, ?_, ?_⟩
    · apply all_optT; intro a ha
      exact nodeOk_string sc (by decide) (h.rootStr a (by simp [rootStrings, ha]))
    · apply all_optT; intro a ha
      exact nodeOk_string sc (by decide) (h.rootStr a (by simp [rootStrings, ha]))
    · apply all_optT; intro a ha
      exact nodeOk_dateTime sc ft hft a (by decide)
    · apply nodeOk_vectorT sc (by decide)
      rw [List.all_map, List.all_eq_true]
      intro pc hpc
      exact nodeOk_pointCloud sc h0 ft hft pc (h.pcStr pc hpc)
        (recordXmlOK_of_validate h.extsOk pc.prototype (h.protos pc hpc) (h.starts pc hpc))
    · apply nodeOk_vectorT sc (by decide)
      rw [List.all_map, List.all_eq_true]
      intro i hi
      exact nodeOk_image sc ft hft i (h.imgStr i hi)
  have hlines := kidsOk_lines _ hkids
  simp only [Dialect, rootTree, h0, structT, el, dialect, extsDialect_of h.extsOk, headOk, prefixOk, optL, sc.dflt,
    Option.getD_some, sc.noPfx, decide_true, Bool.and_self, Bool.true_and, hlines, Bool.and_true]
  decide

/-- C04, obligation C as a theorem: the text the writer emits, parsed by the XML parser, is exactly the
    tree `MT.rootDoc` (whose reading back is `MT.C04_document_roundtrip`) -/
theorem C04_text_roundtrip (ft : FloatText) (root : Root) (pcs : List PointCloud) (imgs : List Image)
    (exts : List (String × String)) (h : InputOK ft root pcs imgs exts) :
    (serializeRoot ft root pcs imgs exts).bind parseDocument = rootDoc ft root pcs imgs exts := by
  by_cases hg : root.guid.isEmpty = true
  · simp [serializeRoot, rootDoc, hg]
  · have hg' : root.guid.isEmpty = false := by simpa using hg
    have htxt := document_text ft root pcs imgs exts hg' h.extsOk.ok (fun e he => (h.extsOk.urls e he).2.1) h.protos
      formatNameUnescaped
    rw [← htxt]
    simp only [Option.bind_some, rootDoc, hg', Bool.false_eq_true, if_false]
    exact parse_render exts _ (rootTree_dialect ft root pcs imgs exts h)

/-- C02: every XML text the writer model emits is well-formed and namespace-correct as judged by the
    independent parser -/
theorem wellformed_of_serialize (ft : FloatText) (root : Root) (pcs : List PointCloud) (imgs : List Image)
    (exts : List (String × String)) (h : InputOK ft root pcs imgs exts) (xml : String)
    (hx : serializeRoot ft root pcs imgs exts = some xml) : parseDocument xml ≠ none := by
  have := C04_text_roundtrip ft root pcs imgs exts h
  rw [hx, Option.bind_some] at this
  rw [this]
  have hg : root.guid.isEmpty = false := by
    cases hh : root.guid.isEmpty
    · rfl
    · simp [serializeRoot, hh] at hx
  simp [rootDoc, hg]

/-! ## 5. a concrete float table; Boolean equality of documents -/

theorem lookup_mem {α β} [BEq α] [LawfulBEq α] {l : List (α × β)} {a : α} {b : β} (h : l.lookup a = some b) :
    (a, b) ∈ l := by
  induction l with
  | nil => simp at h
  | cons x xs ih =>
    obtain ⟨k, v⟩ := x
    simp only [List.lookup] at h
    split at h
    · rename_i he
      have : a = k := by simpa using he
      simp only [Option.some.injEq] at h
      subst this h
      simp
    · simp [ih h]

theorem safeText_append {a b : String} (ha : safeText a = true) (hb : b.toList.all (fun c => numN c.toNat) = true) :
    safeText (a ++ b) = true := by
  simp only [safeText, Bool.and_eq_true, Bool.not_eq_true', String.toList_append, List.all_append] at ha ⊢
  refine ⟨?_, ha.2, hb⟩
  cases h : a.toList with
  | nil => rw [h] at ha; simp at ha
  | cons c cs => rfl

/-- a float table all of whose texts are safe gives a safe printer (the placeholder for a missing
    value is safe by construction) -/
theorem FloatTextSafe_of_table (ft : FloatText) (h64 : ∀ e ∈ ft.f64, safeText e.2 = true)
    (h32 : ∀ e ∈ ft.f32, safeText e.2 = true) : FloatTextSafe ft where
  f64 := by
    intro v
    unfold FloatText.show64
    split
    · rename_i s hs; exact h64 _ (lookup_mem hs)
    · have h1 : safeText "?f64:" = true := by decide
      have h2 := safeText_nat v.toNat
      simp only [safeText, Bool.and_eq_true] at h2
      have := safeText_append (safeText_append h1 h2.2) (b := "") (by decide)
      simpa [toString_str] using this
  f32 := by
    intro v
    unfold FloatText.show32
    split
    · rename_i s hs; exact h32 _ (lookup_mem hs)
    · have h1 : safeText "?f32:" = true := by decide
      have h2 := safeText_nat v.toNat
      simp only [safeText, Bool.and_eq_true] at h2
      have := safeText_append (safeText_append h1 h2.2) (b := "") (by decide)
      simpa [toString_str] using this

mutual
/-- Boolean equality of trees (`XNode` has no `DecidableEq`), for statements checked by evaluation -/
def eqNode : XNode → XNode → Bool
  | .elem n1 p1 l1 a1 c1, .elem n2 p2 l2 a2 c2 => n1 == n2 && p1 == p2 && l1 == l2 && decide (a1 = a2) && eqNodes c1 c2
  | .text s1, .text s2 => s1 == s2
  | .comment, .comment => true
  | .pi, .pi => true
  | _, _ => false
def eqNodes : List XNode → List XNode → Bool
  | [], [] => true
  | a :: as, b :: bs => eqNode a b && eqNodes as bs
  | _, _ => false
end

mutual
theorem eqNode_sound : ∀ a b : XNode, eqNode a b = true → a = b
  | .elem n1 p1 l1 a1 c1, .elem n2 p2 l2 a2 c2, h => by
    simp only [eqNode, Bool.and_eq_true, beq_iff_eq, decide_eq_true_eq] at h
    obtain ⟨⟨⟨⟨rfl, rfl⟩, rfl⟩, rfl⟩, hc⟩ := h
    rw [eqNodes_sound c1 c2 hc]
  | .text s1, .text s2, h => by simp only [eqNode, beq_iff_eq] at h; rw [h]
  | .comment, .comment, _ => rfl
  | .pi, .pi, _ => rfl
  | .elem .., .text _, h => by simp [eqNode] at h
  | .elem .., .comment, h => by simp [eqNode] at h
  | .elem .., .pi, h => by simp [eqNode] at h
  | .text _, .elem .., h => by simp [eqNode] at h
  | .text _, .comment, h => by simp [eqNode] at h
  | .text _, .pi, h => by simp [eqNode] at h
  | .comment, .elem .., h => by simp [eqNode] at h
  | .comment, .text _, h => by simp [eqNode] at h
  | .comment, .pi, h => by simp [eqNode] at h
  | .pi, .elem .., h => by simp [eqNode] at h
  | .pi, .text _, h => by simp [eqNode] at h
  | .pi, .comment, h => by simp [eqNode] at h
theorem eqNodes_sound : ∀ a b : List XNode, eqNodes a b = true → a = b
  | [], [], _ => rfl
  | a :: as, b :: bs, h => by
    simp only [eqNodes, Bool.and_eq_true] at h
    rw [eqNode_sound a b h.1, eqNodes_sound as bs h.2]
  | [], _ :: _, h => by simp [eqNodes] at h
  | _ :: _, [], h => by simp [eqNodes] at h
end

mutual
theorem eqNode_refl : ∀ a : XNode, eqNode a a = true
  | .elem n p l a c => by simp [eqNode, eqNodes_refl c]
  | .text s => by simp [eqNode]
  | .comment => rfl
  | .pi => rfl
theorem eqNodes_refl : ∀ a : List XNode, eqNodes a a = true
  | [] => rfl
  | a :: as => by simp [eqNodes, eqNode_refl a, eqNodes_refl as]
end

/-- does the text written for `t` (with extensions `exts`) parse back to `t` and the root's namespace list -/
def roundTrips (exts : List (String × String)) (t : XNode) : Bool :=
  match parseDocumentL (renderDocL exts t) with
  | some d => eqNode d.root t && d.rootNamespaces == MT.rootNamespaces exts
  | none => false

theorem roundTrips_iff (exts : List (String × String)) (t : XNode) :
    roundTrips exts t = true ↔ parseDocument (MT.renderDoc exts t) = some ⟨t, MT.rootNamespaces exts⟩ := by
  rw [parseDocument, renderDoc_toList, roundTrips]
  constructor
  · intro h
    split at h
    · rename_i d hd
      simp only [Bool.and_eq_true, beq_iff_eq] at h
      rw [hd]
      cases d
      simp only [Option.some.injEq, XDoc.mk.injEq]
      exact ⟨eqNode_sound _ _ h.1, h.2⟩
    · cases h
  · intro h
    rw [h]
    simp [eqNode_refl]

/-- the text is not even well-formed -/
def rejected (exts : List (String × String)) (t : XNode) : Bool := (parseDocumentL (renderDocL exts t)).isNone

theorem rejected_iff (exts : List (String × String)) (t : XNode) :
    rejected exts t = true ↔ parseDocument (MT.renderDoc exts t) = none := by
  rw [parseDocument, renderDoc_toList, rejected]
  simp

/-! ## 6. every clause of `Dialect` is necessary (kernel evaluation of the parser on the rendered text)

`r cs` is the E57 root element with children `cs`; each example violates exactly one clause. -/

namespace Necessary

def r (attrs : List XAttr) (cs : List XNode) : XNode := el none "r" attrs cs
def leaf (tag text : String) : XNode := el none tag [tattr "Float"] [.text text]

/-- the baseline IS in the dialect and round-trips -/
theorem baseline : Dialect [] (r [] [leaf "v" "1.5"]) ∧ roundTrips [] (r [] [leaf "v" "1.5"]) = true := by
  decide +kernel

/-- a carriage return in plain text comes back as a line feed -/
theorem plain_cr : roundTrips [] (r [] [leaf "v" "1\r"]) = false := by decide +kernel
/-- … but inside a `String` element it now survives (`cdataEscape` writes `&#13;`), together with `]]>` -/
theorem string_cr : roundTrips [] (r [] [el none "s" [tattr "String"] [.text "a\rb]]>c\r\n"]]) = true := by
  decide +kernel
/-- `<` in a number's text: not well-formed -/
theorem plain_lt : rejected [] (r [] [leaf "v" "1<2"]) = true := by decide +kernel
/-- `&` in plain text: a malformed reference -/
theorem plain_amp : rejected [] (r [] [leaf "v" "a&b"]) = true := by decide +kernel
/-- `]]>` in plain text is rejected by roxmltree -/
theorem plain_cdataEnd : rejected [] (r [] [leaf "v" "a]]>b"]) = true := by decide +kernel
/-- an empty plain text leaves no text node -/
theorem plain_empty : roundTrips [] (r [] [leaf "v" ""]) = false := by decide +kernel
/-- two adjacent text nodes are merged -/
theorem adjacent_text : roundTrips [] (r [] [.text "a", .text "b"]) = false := by decide +kernel
/-- comments and PIs are not rendered -/
theorem comment_lost : roundTrips [] (r [] [.comment]) = false := by decide +kernel
/-- a character outside the XML `Char` production, even inside CDATA: rejected -/
theorem nonXmlChar : rejected [] (r [] [el none "s" [tattr "String"] [.text (String.ofList [Char.ofNat 1])]]) = true := by
  decide +kernel
/-- tab in an attribute value is normalised to a space -/
theorem attr_tab : roundTrips [] (r [at_ "a" "x\ty"] []) = false := by decide +kernel
/-- a quote in an attribute value ends it -/
theorem attr_quote : rejected [] (r [at_ "a" "x\"y"] []) = true := by decide +kernel
/-- `<` / `&` in an attribute value -/
theorem attr_lt : rejected [] (r [at_ "a" "x<y"] []) = true := by decide +kernel
theorem attr_amp : rejected [] (r [at_ "a" "x&y"] []) = true := by decide +kernel
/-- an attribute called `xmlns` is a namespace declaration, not an attribute -/
theorem attr_xmlns : roundTrips [] (r [at_ "xmlns" "u"] []) = false := by decide +kernel
/-- attribute names must be distinct -/
theorem attr_dup : rejected [] (r [at_ "a" "1", at_ "a" "2"] []) = true := by decide +kernel
/-- attributes with a namespace are written without prefix: the namespace is lost -/
theorem attr_ns : roundTrips [] (r [⟨some "u", "a", "1"⟩] []) = false := by decide +kernel
/-- names must be XML names -/
theorem bad_name : rejected [] (r [] [leaf "1v" "1"]) = true := by decide +kernel
theorem name_colon : rejected [] (r [] [leaf "a:b" "1"]) = true := by decide +kernel
/-- the namespace of an element must be what its prefix resolves to … -/
theorem wrong_ns : roundTrips [] (r [] [.elem none none "v" [] []]) = false := by decide +kernel
/-- … an unbound prefix is an error … -/
theorem unbound_prefix : rejected [] (r [] [.elem (some "u") (some "p") "v" [] []]) = true := by decide +kernel
/-- … and the reported prefix is the FIRST one bound to the namespace (here `a`, not `b`) -/
theorem second_prefix : roundTrips [("a", "u"), ("b", "u")] (r [] [.elem (some "u") (some "b") "v" [] []]) = false := by
  decide +kernel
/-- extension prefixes: `xml` cannot be declared, duplicates are rejected -/
theorem ext_xml : rejected [("xml", "u")] (r [] []) = true := by decide +kernel
theorem ext_dup : rejected [("p", "u"), ("p", "v")] (r [] []) = true := by decide +kernel
/-- extension URLs: the two reserved namespaces are rejected -/
theorem ext_xmlUri : rejected [("p", "http://www.w3.org/XML/1998/namespace")] (r [] []) = true := by decide +kernel
theorem ext_xmlnsUri : rejected [("p", "http://www.w3.org/2000/xmlns/")] (r [] []) = true := by decide +kernel
/-- … whereas tab, line feed, carriage return, quotes, `&`, `<` in a URL DO come back (`attr_roundtrip`) -/
theorem ext_special : roundTrips [("p", "a\t\n\r\"&<'b")] (r [] [.elem (some "a\t\n\r\"&<'b") (some "p") "v" [] []]) = true := by
  decide +kernel

end Necessary

/-! ## 7. non-vacuity -/

namespace Example
open MT.Example

/-- the hypotheses of the capstone hold for the example file of `E57/Proofs/MetaRoundTrip.lean` (an
    extension whose URL needs escaping, a GUID containing `]]>`, an extension record, all optional
    fields, an image) -/
theorem inputOK : InputOK ft root [pc] [img] exts where
  floats := FloatTextSafe_of_table ft (by decide) (by decide)
  extsOk := {
    ok := exts_ok
    names := by
      intro e he
      simp only [exts, List.mem_cons, List.not_mem_nil, or_false] at he
      rcases he with rfl | rfl
      · exact ⟨by decide +kernel, 'e', ['x', 't'], by decide, Or.inl (by decide)⟩
      · exact ⟨by decide +kernel, 'e', ['2'], by decide, Or.inl (by decide)⟩
    urls := by
      intro e he
      simp only [exts, List.mem_cons, List.not_mem_nil, or_false] at he
      rcases he with rfl | rfl <;> exact ⟨by decide, by decide, by decide⟩ }
  rootStr := by decide
  pcStr := by decide
  imgStr := by decide
  protos := by decide +kernel
  starts := by
    intro p hp r hr ns nm hn
    simp only [List.mem_cons, List.not_mem_nil, or_false] at hp
    subst hp
    simp only [pc, List.mem_cons, List.not_mem_nil, or_false] at hr
    rcases hr with rfl | rfl | rfl | rfl | rfl <;> simp only [reduceCtorEq] at hn
    simp only [RecordName.unknown.injEq] at hn
    obtain ⟨rfl, rfl⟩ := hn
    exact ⟨⟨'e', ['x', 't'], by decide, Or.inl (by decide)⟩, ⟨'f', ['o', 'o'], by decide, Or.inl (by decide)⟩⟩

/-- the capstone on the example file -/
theorem text_roundtrip :
    (serializeRoot ft root [pc] [img] exts).bind parseDocument = rootDoc ft root [pc] [img] exts :=
  C04_text_roundtrip ft root [pc] [img] exts inputOK

/-- and by plain evaluation of the parser (independent of the proofs above) on a small document with an
    extension whose URL needs every escape, a string with CR and `]]>`, a nested structure and an
    extension record -/
def smallExts : List (String × String) := [("ext", "u&<\"\t")]
def smallDoc : XNode :=
  structT none "e57Root" [genStringTree none "guid" "a\rb]]>c", structT none "pose" [genIntTree none "x" (-5)],
    .elem (some "u&<\"\t") (some "ext") "foo" [tattr "Integer", at_ "minimum" "0"] [.text "0"]]

theorem smallDoc_parses :
    parseDocument (MT.renderDoc smallExts smallDoc) = some ⟨smallDoc, MT.rootNamespaces smallExts⟩ :=
  (roundTrips_iff _ _).mp (by decide +kernel)

theorem smallDoc_dialect : Dialect smallExts smallDoc := by decide +kernel

end Example

/-! ## 8. by-product: the emitted text consists of XML characters -/

namespace Chars

theorem nameChar_xml {c : Char} (h : isNameCharNC c = true) : isXmlChar c = true := by
  unfold isNameCharNC at h
  unfold isXmlChar
  by_cases hn : c.toNat ≤ 128
  · simp only [hn, if_true, isAsciiLetter, Bool.or_eq_true, Bool.and_eq_true, decide_eq_true_eq, beq_iff_eq] at h
    have : ¬ c.toNat < 32 := by omega
    simp only [this, if_false]
    simp
    omega
  · simp only [hn, if_false, inRanges, nameRanges, List.any_cons, List.any_nil, Bool.or_false, Bool.or_eq_true,
      Bool.and_eq_true, decide_eq_true_eq] at h
    have : ¬ c.toNat < 32 := by omega
    simp only [this, if_false]
    simp
    omega

theorem ncname_xml {s : Str} (h : isNCNameL s = true) : s.all isXmlChar = true := by
  have := isNCNameL_all h
  rw [List.all_eq_true] at this ⊢
  intro c hc
  exact nameChar_xml (this c hc)

theorem qname_xml {pfx : Option String} {name : String} (hn : isNCNameL name.toList = true)
    (hp : prefixOk pfx = true) : (qnameL pfx name).all isXmlChar = true := by
  cases pfx with
  | none => exact ncname_xml hn
  | some p =>
    simp only [prefixOk, Bool.and_eq_true] at hp
    simp only [qnameL, List.all_append, List.all_cons, ncname_xml hp.1, ncname_xml hn, Bool.true_and, Bool.and_true]
    decide

theorem attrVal_xml {v : Str} (h : v.all attrValChar = true) : v.all isXmlChar = true := by
  rw [List.all_eq_true] at h ⊢
  intro c hc
  have := h c hc
  simp only [attrValChar, Bool.and_eq_true] at this
  exact this.1.1.1.1.1.1

theorem attrs_xml {attrs : List XAttr} (h : attrs.all attrOk = true) : (renderAttrsL attrs).all isXmlChar = true := by
  induction attrs with
  | nil => rfl
  | cons a as ih =>
    simp only [List.all_cons, Bool.and_eq_true] at h
    have ha := h.1
    simp only [attrOk, Bool.and_eq_true] at ha
    simp only [renderAttrsL, List.flatMap_cons, List.all_append] at ih ⊢
    rw [ih h.2, Bool.and_true]
    simp only [renderAttrL, List.all_cons, List.all_append, ncname_xml ha.1.1.2, attrVal_xml ha.2, List.all_nil,
      Bool.and_true, Bool.true_and]
    decide

theorem cdataEsc_xml : ∀ (n : Nat) (v : Str), v.length ≤ n → v.all isXmlChar = true →
    (cdataEscL v).all isXmlChar = true := by
  intro n
  induction n with
  | zero =>
    intro v hn _
    have : v = [] := by cases v <;> simp_all
    subst this; rw [cdataEscL_nil]; rfl
  | succ n ih =>
    intro v hn hv
    cases v with
    | nil => rw [cdataEscL_nil]; rfl
    | cons c r =>
      simp only [List.all_cons, Bool.and_eq_true] at hv
      simp only [List.length_cons] at hn
      rw [cdataEscL_cons]
      split
      · simp only [List.all_append, ih r (by omega) hv.2, Bool.and_true]
        decide
      · split
        · have hd : (r.drop 2).all isXmlChar = true := by
            rw [List.all_eq_true] at hv ⊢
            intro x hx
            exact hv.2 x (List.mem_of_mem_drop hx)
          simp only [List.all_append, List.all_cons, ih (r.drop 2) (by simp; omega) hd, Bool.and_true]
          decide
        · simp only [List.all_cons, hv.1, ih r (by omega) hv.2, Bool.and_self]

mutual
theorem node_xml (nss : Nss) : ∀ (t : XNode) (cd : Bool), nodeOk nss t = true → (renderL cd t).all isXmlChar = true
  | .elem ns pfx name attrs [], cd, h => by
    simp only [nodeOk, headOk, attrsOk, Bool.and_eq_true] at h
    simp only [renderL, List.all_cons, List.all_append, qname_xml h.1.1.1.1.1 h.1.1.1.1.2, attrs_xml h.1.2.1,
      List.all_nil, Bool.and_true, Bool.true_and]
    decide
  | .elem ns pfx name attrs (k :: ks), cd, h => by
    simp only [nodeOk, headOk, attrsOk, Bool.and_eq_true] at h
    have hk := kids_xml nss (k :: ks) (MT.isStringTyped attrs) h.2
    simp only [renderL, closeTagL, List.all_cons, List.all_append, qname_xml h.1.1.1.1.1 h.1.1.1.1.2,
      attrs_xml h.1.2.1, hk, List.all_nil, Bool.and_true, Bool.true_and]
    decide
  | .text s, _, h => by simp [nodeOk] at h
  | .comment, _, h => by simp [nodeOk] at h
  | .pi, _, h => by simp [nodeOk] at h
theorem kids_xml (nss : Nss) : ∀ (ts : List XNode) (cd : Bool), kidsOk nss cd ts = true →
    (renderListL cd ts).all isXmlChar = true
  | [], _, _ => rfl
  | .text s :: ts, cd, h => by
    simp only [kidsOk, Bool.and_eq_true] at h
    have ih := kids_xml nss ts cd h.2
    cases cd with
    | true =>
      have hs : s.toList.all isXmlChar = true := by simpa [textOk, cdataTextOk] using h.1.1
      simp only [renderListL, renderL, if_true, List.all_append, ih,
        cdataEsc_xml _ _ (Nat.le_refl _) hs, Bool.and_true]
      decide
    | false =>
      have hs : plainTextOk s.toList = true := by simpa [textOk] using h.1.1
      simp only [plainTextOk, Bool.and_eq_true] at hs
      have hx : s.toList.all isXmlChar = true := by
        have := hs.1.2
        rw [List.all_eq_true] at this ⊢
        intro c hc
        have := this c hc
        simp only [Bool.and_eq_true] at this
        exact this.1.1.1
      simp [renderListL, renderL, List.all_append, ih, hx]
  | .elem ns p n attrs ks :: ts, cd, h => by
    simp only [kidsOk, Bool.and_eq_true] at h
    simp only [renderListL, List.all_append, node_xml nss (.elem ns p n attrs ks) cd h.1, kids_xml nss ts cd h.2,
      Bool.and_self]
  | .comment :: _, _, h => by simp [kidsOk] at h
  | .pi :: _, _, h => by simp [kidsOk] at h
end

theorem nsDecls_xml {exts : List (String × String)} (h : extsDialect exts = true) :
    (nsDeclsL exts).all isXmlChar = true := by
  obtain ⟨hm, _⟩ := extsDialect_mem h
  simp only [nsDeclsL, List.all_append, Bool.and_eq_true]
  constructor
  · rw [List.all_flatMap, List.all_eq_true]
    intro e he
    obtain ⟨h1, _, h3, _, _⟩ := hm e he
    have hr := rawChars_esc h3
    have hr' : (attrEscL e.2.toList).all isXmlChar = true := by
      rw [List.all_eq_true] at hr ⊢
      intro c hc
      have := hr c hc
      simp only [Bool.and_eq_true] at this
      exact this.1.1
    simp only [nsDeclL, List.all_append, List.all_cons, ncname_xml h1, hr', List.all_nil, Bool.and_true,
      Bool.true_and]
    decide
  · decide

/-- the text rendered for a tree of the dialect consists of XML characters -/
theorem renderDoc_xml {exts : List (String × String)} {t : XNode} (h : Dialect exts t) :
    (MT.renderDoc exts t).toList.all isXmlChar = true := by
  rw [renderDoc_toList]
  cases t with
  | text s => rfl
  | comment => rfl
  | pi => rfl
  | elem ns pfx name attrs cs =>
    simp only [Dialect, dialect, headOk, attrsOk, Bool.and_eq_true] at h
    have e : renderDocL exts (.elem ns pfx name attrs cs) = declL ++ ('<' :: (qnameL pfx name ++
      (renderAttrsL attrs ++ (' ' :: (nsDeclsL exts ++ ('>' ::
      (renderListL false cs ++ (closeTagL pfx name ++ ['\n'])))))))) := by
        rw [renderDocL]
    have hq := qname_xml h.1.1.2.1.1.1 h.1.1.2.1.1.2
    rw [e]
    simp only [closeTagL, List.all_append, List.all_cons, hq, attrs_xml h.1.2.1, nsDecls_xml h.1.1.1,
      kids_xml _ cs false h.2, List.all_nil, Bool.and_true, Bool.true_and]
    decide

end Chars

/-- the XML section the writer emits consists of characters of the XML `Char` production whenever its
    inputs do (so the new check in `finalize` never fires on such input) -/
theorem serializeRoot_xmlChars (ft : FloatText) (root : Root) (pcs : List PointCloud) (imgs : List Image)
    (exts : List (String × String)) (h : InputOK ft root pcs imgs exts) (xml : String)
    (hx : serializeRoot ft root pcs imgs exts = some xml) : xml.toList.all isXmlChar = true := by
  have hg : root.guid.isEmpty = false := by
    cases hh : root.guid.isEmpty
    · rfl
    · simp [serializeRoot, hh] at hx
  have htxt := document_text ft root pcs imgs exts hg h.extsOk.ok (fun e he => (h.extsOk.urls e he).2.1) h.protos
    formatNameUnescaped
  rw [hx] at htxt
  simp only [Option.some.injEq] at htxt
  rw [← htxt]
  exact Chars.renderDoc_xml (rootTree_dialect ft root pcs imgs exts h)

end E57.XmlP
