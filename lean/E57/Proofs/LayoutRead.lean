/-
C03 / C01 core — the reader decodes every legal layout of a compressed-vector section.

Specification side: `Spec.encodeSection start (.cv types points packets)` (E57/Spec/Encoder.lean) lays
the section out from the format description: per record one bit-packed byte stream, cut into data
packets by `packets` in any way (`PacketSpec.data chunkLens`), index / ignored packets anywhere.
Model side: `QR.new`, `QR.advance`, `refill`, `RawIter.next` (E57/Model/Reader.lean) over the paged
reader `PR`.

Main results (all in namespace `E57.Layout`, the important names re-exported into `E57`):
* `readPacketHeader_data / _index / _ignored`, `readCvHeader_section`, `QR_new_at` — byte-level parsing;
* `advance_data`, `advance_index`, `advance_ignored`, `advance_step` — one `advance` per packet kind;
* `RecInv`, `QInv`, `Run`, `queue_inv` — the queue invariant after any prefix of the packets;
* `C03_reader_decodes_any_layout`, `C03_kth_item`, `C03_roundtrip` — the capstone;
* `fileCtx_exists` and two `example`s — the hypotheses are satisfiable.

Remarks.
* The crate starts reading at the header's `data_offset`: packets before the first data packet are
  skipped by a seek and never parsed (`skip_pre`, `QR_new_at`).
* Without any data packet `data_offset` is 0 and the reader is left at the file start; no packet is
  read in that case (no points, or only zero-width records: `zw_run`).
* The queues may hold more items than there are points (complete fields inside the zero padding of
  a stream's last byte); the iterator stops after `records` points, so they are never seen.
* Records of zero bit size are constants of the prototype (`constOf`): their queues stay empty
  (`RecInv`), `pop_point` takes their value from the prototype (`QInv.pop`).
* `FileCtx.hphys` (physical size below 2^64) is needed because the header stores offsets as `u64`.

Core Lean only.  No `sorry`, no new axioms.
-/
import E57.Spec.Encoder
import E57.Proofs.ReaderTotal
import E57.Proofs.BitCodec

namespace E57
namespace Layout

/-! ## 1. the reader over a paged image, at a logical offset -/

/-- reader `r` is a healthy reader over the paged image of `d`, positioned at logical offset `o` -/
def At (d : Bytes) (r : PR) (o : Nat) : Prop :=
  r.CacheInv ∧ r.pageSize = 1024 ∧ r.dev.data = Spec.image d ∧ r.offset = o

/-- the logical stream `d` carries the bytes `X` at logical offset `o` -/
def Holds (d : Bytes) (o : Nat) (X : Bytes) : Prop :=
  ∃ pre post, d = pre ++ X ++ post ∧ pre.length = o

theorem Holds.of_slice (d : Bytes) (o : Nat) (X : Bytes) (h : (d.drop o).take X.length = X)
    (hne : X ≠ []) : Holds d o X := by
  refine ⟨d.take o, (d.drop o).drop X.length, ?_, ?_⟩
  · conv => lhs; rw [← List.take_append_drop o d, ← List.take_append_drop X.length (d.drop o), h]
    simp
  · have hl := congrArg List.length h
    simp only [List.length_take, List.length_drop] at hl
    have : 0 < X.length := List.length_pos_iff.mpr hne
    simp; omega

theorem Holds.slice {d : Bytes} {o : Nat} {X : Bytes} (h : Holds d o X) :
    (d.drop o).take X.length = X := by
  obtain ⟨pre, post, rfl, rfl⟩ := h
  simp

theorem Holds.le {d : Bytes} {o : Nat} {X : Bytes} (h : Holds d o X) : o + X.length ≤ d.length := by
  obtain ⟨pre, post, rfl, rfl⟩ := h
  simp

theorem Holds.left {d : Bytes} {o : Nat} {X Y : Bytes} (h : Holds d o (X ++ Y)) : Holds d o X := by
  obtain ⟨pre, post, rfl, rfl⟩ := h
  exact ⟨pre, Y ++ post, by simp, rfl⟩

theorem Holds.right {d : Bytes} {o : Nat} {X Y : Bytes} (h : Holds d o (X ++ Y)) :
    Holds d (o + X.length) Y := by
  obtain ⟨pre, post, rfl, rfl⟩ := h
  exact ⟨pre ++ X, post, by simp, by simp⟩

theorem Holds.right' {d : Bytes} {o o' : Nat} {X Y : Bytes} (h : Holds d o (X ++ Y))
    (e : o' = o + X.length) : Holds d o' Y := e ▸ h.right

theorem Holds.nil {d : Bytes} {o : Nat} (h : o ≤ d.length) : Holds d o [] :=
  ⟨d.take o, d.drop o, by simp, by simp; omega⟩

theorem At.inv {d r o} (h : At d r o) : r.CacheInv := h.1

theorem At.logSize {d : Bytes} {r : PR} {o : Nat} (hd : d.length % 1020 = 0) (h : At d r o) :
    r.logSize = d.length := by
  obtain ⟨hinv, hps, hdata, _⟩ := h
  have hp := pr_image_pages d r hd hinv hps hdata
  obtain ⟨_, _, _, _, h5, _⟩ := hinv
  rw [h5, hps, hp]; omega

theorem At.physSize {d : Bytes} {r : PR} {o : Nat} (hd : d.length % 1020 = 0) (h : At d r o) :
    r.physSize = 1024 * (d.length / 1020) := by
  obtain ⟨hinv, hps, hdata, _⟩ := h
  have hp := pr_image_pages d r hd hinv hps hdata
  obtain ⟨_, h2, _⟩ := hinv
  rw [h2, hps, hp]; omega

/-- `read_exact` of bytes known to be in the stream -/
theorem readExact_holds {d : Bytes} (hd : d.length % 1020 = 0) {r : PR} {o : Nat} (X : Bytes)
    (h : At d r o) (hX : Holds d o X) :
    ∃ r', r.readExact X.length = (r', some X) ∧ At d r' (o + X.length) := by
  obtain ⟨hinv, hps, hdata, ho⟩ := h
  obtain ⟨k1, _, k3⟩ := pr_reads_stream_exact_partial d r X.length hd hinv hps hdata
  by_cases hn : X.length = 0
  · have : X = [] := List.length_eq_zero_iff.mp hn
    subst this
    exact ⟨r, k3 rfl, hinv, hps, hdata, by simpa using ho⟩
  · obtain ⟨r', e, o', inv', sf⟩ := k1 (by rw [ho]; exact hX.le)
    rw [ho, hX.slice] at e
    exact ⟨r', e, inv', sf.2.1.trans hps, sf.1.trans hdata, by rw [o', ho]⟩

theorem readExact_holds' {d : Bytes} (hd : d.length % 1020 = 0) {r : PR} {o : Nat} (X : Bytes) (n : Nat)
    (h : At d r o) (hX : Holds d o X) (hn : X.length = n) :
    ∃ r', r.readExact n = (r', some X) ∧ At d r' (o + n) := by
  subst hn; exact readExact_holds hd X h hX

/-- `align` when the padding is inside the stream -/
theorem align_at {d : Bytes} (hd : d.length % 1020 = 0) {r : PR} {o : Nat}
    (h : At d r o) (hle : o + Spec.pad4 o ≤ d.length) :
    ∃ r', r.align = .ok r' ∧ At d r' (o + Spec.pad4 o) := by
  have hls := At.logSize hd h
  obtain ⟨hinv, hps, hdata, ho⟩ := h
  unfold PR.align
  simp only [Spec.pad4] at hle ⊢
  by_cases hm : r.offset % 4 = 0
  · refine ⟨r, by simp [hm], hinv, hps, hdata, ?_⟩
    rw [ho] at hm ⊢; omega
  · have hgt : ¬ (r.offset + (4 - r.offset % 4) > r.logSize) := by rw [hls, ho] at *; omega
    refine ⟨{ r with offset := r.offset + (4 - r.offset % 4) }, by simp [hm, hgt], hinv, hps, hdata, ?_⟩
    simp only; rw [ho] at hm ⊢; omega

theorem l2p_p2l (x : Nat) : Spec.l2p x - Spec.l2p x / 1024 * 4 = x := by
  unfold Spec.l2p; omega

/-- `seek_physical` to the physical image of a logical offset inside the stream -/
theorem seek_at {d : Bytes} (hd : d.length % 1020 = 0) {r : PR} {o : Nat} (x : Nat)
    (h : At d r o) (hx : x < d.length) :
    ∃ r', r.seekPhysical (Spec.l2p x) = .ok (r', x) ∧ At d r' x := by
  have hph := At.physSize hd h
  obtain ⟨hinv, hps, hdata, ho⟩ := h
  have hlt : ¬ (Spec.l2p x ≥ r.physSize) := by rw [hph]; unfold Spec.l2p; omega
  refine ⟨{ r with offset := x }, ?_, hinv, hps, hdata, rfl⟩
  simp only [PR.seekPhysical, hlt, if_false, hps, l2p_p2l]

theorem seek_zero {d : Bytes} (hd : d.length % 1020 = 0) {r : PR} {o : Nat} (h : At d r o) :
    ∃ r', r.seekPhysical 0 = .ok (r', 0) ∧ At d r' 0 := by
  have hph := At.physSize hd h
  obtain ⟨hinv, hps, hdata, ho⟩ := h
  have hp := pr_image_pages d r hd hinv hps hdata
  have hpos : 0 < r.pages := hinv.2.2.2.1
  have hlt : ¬ (0 ≥ r.physSize) := by rw [hph]; omega
  refine ⟨{ r with offset := 0 }, ?_, hinv, hps, hdata, rfl⟩
  simp only [PR.seekPhysical, hlt, if_false]; simp

end Layout
end E57

namespace E57
namespace Layout
open Spec

/-! ## 2. the packet stream of a section, packet by packet -/

/-- the chunks a data packet carries: for every stream the next `lens[i]` bytes after the cursor -/
def chunks (streams : List Bytes) (cursors lens : List Nat) : List Bytes :=
  (List.range streams.length).map (fun i =>
    ((streams.getD i []).drop (cursors.getD i 0)).take (lens.getD i 0))

/-- bytes of one packet (cursors = bytes of each stream already emitted) -/
def pktBytes (streams : List Bytes) (cursors : List Nat) : PacketSpec → Bytes
  | .data lens =>
    let ch := chunks streams cursors lens
    let body := (ch.map (fun c => toLE c.length 2)).flatten ++ ch.flatten
    let len0 := 6 + body.length
    let len := len0 + pad4 len0
    [1, 0] ++ toLE (len - 1) 2 ++ toLE streams.length 2 ++ body ++ zeros (pad4 len0)
  | .index len => [0, 0] ++ toLE (len - 1) 2 ++ toLE 0 2 ++ [0] ++ zeros 9 ++ zeros (len - 16)
  | .ignored len => [2, 0] ++ toLE (len - 1) 2 ++ zeros (len - 4)

/-- how far the encoder moves its position for a packet -/
def pktAdv (streams : List Bytes) (cursors : List Nat) : PacketSpec → Nat
  | .data lens =>
    let ch := chunks streams cursors lens
    let body := (ch.map (fun c => toLE c.length 2)).flatten ++ ch.flatten
    let len0 := 6 + body.length
    len0 + pad4 len0
  | .index len => len
  | .ignored len => len

def nextCursors (streams : List Bytes) (cursors : List Nat) : PacketSpec → List Nat
  | .data lens => (List.range streams.length).map (fun i =>
      cursors.getD i 0 + ((chunks streams cursors lens).getD i []).length)
  | _ => cursors

def pktsBytes (streams : List Bytes) : List PacketSpec → List Nat → Bytes
  | [], _ => []
  | p :: ps, c => pktBytes streams c p ++ pktsBytes streams ps (nextCursors streams c p)

def finalCursors (streams : List Bytes) : List PacketSpec → List Nat → List Nat
  | [], c => c
  | p :: ps, c => finalCursors streams ps (nextCursors streams c p)

def firstData : List PacketSpec → Nat → Option Nat
  | [], _ => none
  | .data _ :: _, pos => some pos
  | .index len :: ps, pos => firstData ps (pos + len)
  | .ignored len :: ps, pos => firstData ps (pos + len)

theorem enc_step (streams : List Bytes) (p : PacketSpec) (ps : List PacketSpec) (c : List Nat) (pos : Nat)
    (acc : Bytes) (fd fi : Option Nat) :
    ∃ fd' fi', encodePackets streams (p :: ps) c pos acc fd fi =
      encodePackets streams ps (nextCursors streams c p) (pos + pktAdv streams c p)
        (acc ++ pktBytes streams c p) fd' fi' ∧
      (∀ x, fd = some x → fd' = some x) ∧
      (fd = none → fd' = match p with | .data _ => some pos | _ => none) := by
  cases p with
  | data lens => exact ⟨_, _, rfl, fun x hx => by subst hx; rfl, fun h => by subst h; rfl⟩
  | index len => exact ⟨_, _, rfl, fun x hx => hx, fun h => h⟩
  | ignored len => exact ⟨_, _, rfl, fun x hx => hx, fun h => h⟩

theorem enc_bytes (streams : List Bytes) (ps : List PacketSpec) : ∀ (c : List Nat) (pos : Nat)
    (acc : Bytes) (fd fi : Option Nat),
    (encodePackets streams ps c pos acc fd fi).1 = acc ++ pktsBytes streams ps c := by
  induction ps with
  | nil => intro c pos acc fd fi; simp [encodePackets, pktsBytes]
  | cons p ps ih =>
    intro c pos acc fd fi
    obtain ⟨fd', fi', e, _, _⟩ := enc_step streams p ps c pos acc fd fi
    rw [e, ih, pktsBytes, List.append_assoc]

theorem enc_fd_some (streams : List Bytes) (ps : List PacketSpec) : ∀ (c : List Nat) (pos : Nat)
    (acc : Bytes) (x : Nat) (fi : Option Nat),
    (encodePackets streams ps c pos acc (some x) fi).2.1 = some x := by
  induction ps with
  | nil => intro c pos acc x fi; simp [encodePackets]
  | cons p ps ih =>
    intro c pos acc x fi
    obtain ⟨fd', fi', e, h1, _⟩ := enc_step streams p ps c pos acc (some x) fi
    rw [e, h1 x rfl, ih]

/-- packets as Legal requires them (`n` = number of records) -/
def PktOk (n : Nat) : PacketSpec → Prop
  | .data lens => lens.length = n ∧
      (6 + 2 * n + lens.sum) + pad4 (6 + 2 * n + lens.sum) ≤ 65536
  | .index len => len % 4 = 0 ∧ 16 ≤ len ∧ len ≤ 65536
  | .ignored len => len % 4 = 0 ∧ 4 ≤ len ∧ len ≤ 65536

instance (n : Nat) (p : PacketSpec) : Decidable (PktOk n p) := by
  cases p <;> (unfold PktOk; infer_instance)

theorem enc_fd_none (streams : List Bytes) (ps : List PacketSpec) : ∀ (c : List Nat) (pos : Nat)
    (acc : Bytes) (fi : Option Nat),
    (encodePackets streams ps c pos acc none fi).2.1 = firstData ps pos := by
  induction ps with
  | nil => intro c pos acc fi; simp [encodePackets, firstData]
  | cons p ps ih =>
    intro c pos acc fi
    obtain ⟨fd', fi', e, _, h2⟩ := enc_step streams p ps c pos acc none fi
    rw [e, h2 rfl]
    cases p with
    | data lens => simp only [firstData]; exact enc_fd_some ..
    | index len => simp only [firstData, pktAdv]; exact ih ..
    | ignored len => simp only [firstData, pktAdv]; exact ih ..

/-- the byte streams of a section -/
def streamsOf (types : List RecType) (points : List (List Int)) : List Bytes :=
  (List.range types.length).map (recordStream types points)

/-- the `data_offset` field of the section header -/
def dataOff (start : Nat) : Option Nat → Nat
  | some rel => l2p (start + rel)
  | none => 0

/-- the section bytes: 32-byte header, then the packets -/
theorem encodeSection_cv (start : Nat) (types : List RecType) (points : List (List Int))
    (packets : List PacketSpec) :
    ∃ ix, encodeSection start (.cv types points packets) =
      ([1] ++ zeros 7 ++
        toLE (32 + (pktsBytes (streamsOf types points) packets (List.replicate types.length 0)).length) 8 ++
        toLE (dataOff start (firstData packets 32)) 8 ++ toLE ix 8) ++
      pktsBytes (streamsOf types points) packets (List.replicate types.length 0) := by
  have e1 := enc_bytes (streamsOf types points) packets (List.replicate types.length 0) 32 [] none none
  have e2 := enc_fd_none (streamsOf types points) packets (List.replicate types.length 0) 32 [] none
  refine ⟨dataOff start (encodePackets (streamsOf types points) packets (List.replicate types.length 0) 32 [] none none).2.2, ?_⟩
  simp only [List.nil_append] at e1
  rw [← e1, ← e2]
  simp only [encodeSection]
  rfl

end Layout
end E57

namespace E57
namespace Layout
open Spec

/-! ## 3. byte-level parsing: packet headers, section header -/

theorem toLE_two (x : Nat) : toLE x 2 = [UInt8.ofNat (x % 256), UInt8.ofNat (x / 256 % 256)] := rfl

theorem leVal_pair (x : Nat) : leVal [UInt8.ofNat (x % 256), UInt8.ofNat (x / 256 % 256)] = x % 65536 := by
  have := leVal_toLE x 2
  rw [toLE_two] at this
  rw [this]

theorem len_field (len : Nat) (h1 : 1 ≤ len) (h2 : len ≤ 65536) : (len - 1) % 65536 + 1 = len := by omega


theorem readPacketHeader_ignored {d : Bytes} (hd : d.length % 1020 = 0) {r : PR} {o : Nat} (streams : List Bytes) (c : List Nat) (len : Nat)
    (h : At d r o) (hX : Holds d o (pktBytes streams c (.ignored len)))
    (hok : PktOk streams.length (.ignored len)) :
    ∃ r1, readPacketHeader r = (r1, some (.ignored len)) ∧ At d r1 (o + 4) := by
  obtain ⟨h4, hlo, hhi⟩ := hok
  have hX' : Holds d o ([2] ++ ([0] ++ toLE (len - 1) 2) ++ zeros (len - 4)) := by
    simpa [pktBytes] using hX
  obtain ⟨r1, e1, a1⟩ := readExact_holds' hd [2] 1 h hX'.left.left rfl
  obtain ⟨r2, e2, a2⟩ := readExact_holds' hd ([0] ++ toLE (len - 1) 2) 3 a1 hX'.left.right
    (by simp [toLE_length])
  refine ⟨r2, ?_, by rw [show o + 4 = o + 1 + 3 by omega]; exact a2⟩
  simp only [readPacketHeader, e1, e2]
  simp only [toLE_two, List.cons_append, List.nil_append, List.drop_succ_cons, List.drop_zero,
    List.take_succ_cons, List.take_zero, leVal_pair]
  rw [len_field len (by omega) hhi]
  simp [h4]

theorem readPacketHeader_index {d : Bytes} (hd : d.length % 1020 = 0) {r : PR} {o : Nat} (streams : List Bytes) (c : List Nat) (len : Nat)
    (h : At d r o) (hX : Holds d o (pktBytes streams c (.index len)))
    (hok : PktOk streams.length (.index len)) :
    ∃ r1, readPacketHeader r = (r1, some (.index len)) ∧ At d r1 (o + 16) := by
  obtain ⟨h4, hlo, hhi⟩ := hok
  have hX' : Holds d o ([0] ++ ([0] ++ toLE (len - 1) 2 ++ toLE 0 2 ++ [0] ++ zeros 9) ++ zeros (len - 16)) := by
    simpa [pktBytes] using hX
  obtain ⟨r1, e1, a1⟩ := readExact_holds' hd [0] 1 h hX'.left.left rfl
  obtain ⟨r2, e2, a2⟩ := readExact_holds' hd ([0] ++ toLE (len - 1) 2 ++ toLE 0 2 ++ [0] ++ zeros 9) 15 a1
    hX'.left.right (by simp [toLE_length, zeros])
  refine ⟨r2, ?_, by rw [show o + 16 = o + 1 + 15 by omega]; exact a2⟩
  simp only [readPacketHeader, e1, e2]
  simp only [toLE_two, List.cons_append, List.nil_append, List.drop_succ_cons, List.drop_zero,
    List.take_succ_cons, List.take_zero, leVal_pair]
  rw [len_field len (by omega) hhi]
  simp [h4, zeros]

/-- length of the body of a data packet is bounded by the declared chunk lengths -/
theorem sum_range_le (f g : Nat → Nat) (n : Nat) (h : ∀ i, i < n → f i ≤ g i) :
    ((List.range n).map f).sum ≤ ((List.range n).map g).sum := by
  induction n with
  | zero => simp
  | succ n ih =>
    rw [List.range_succ, List.map_append, List.map_append, List.sum_append, List.sum_append]
    have := ih (fun i hi => h i (by omega))
    have := h n (by omega)
    simp; omega

theorem sum_eq_range (l : List Nat) : l.sum = ((List.range l.length).map (fun i => l.getD i 0)).sum := by
  congr 1
  apply List.ext_getElem
  · simp
  · intro i h1 h2
    simp [List.getD_eq_getElem?_getD, h1]

theorem chunks_length (streams : List Bytes) (c lens : List Nat) :
    (chunks streams c lens).length = streams.length := by simp [chunks]

theorem flatten_length_eq (l : List Bytes) : l.flatten.length = (l.map List.length).sum := by
  simp [List.length_flatten]

theorem chunks_flat_le (streams : List Bytes) (c lens : List Nat) (hl : lens.length = streams.length) :
    (chunks streams c lens).flatten.length ≤ lens.sum := by
  rw [flatten_length_eq, sum_eq_range lens, hl, chunks, List.map_map]
  apply sum_range_le
  intro i _
  simp only [Function.comp, List.length_take]
  omega

theorem sizes_flat_length (ch : List Bytes) : ((ch.map (fun c => toLE c.length 2)).flatten).length = 2 * ch.length := by
  induction ch with
  | nil => rfl
  | cons a ch ih => simp [toLE_length, ih]; omega

theorem getD_le_sum (l : List Nat) (i : Nat) : l.getD i 0 ≤ l.sum := by
  induction l generalizing i with
  | nil => simp
  | cons a l ih =>
    cases i with
    | zero => simp
    | succ i => have := ih i; simp at this ⊢; omega

/-- the three parts of a data packet after its 6 byte header -/
def dataSizes (streams : List Bytes) (c lens : List Nat) : Bytes :=
  ((chunks streams c lens).map (fun c => toLE c.length 2)).flatten

def dataLen0 (streams : List Bytes) (c lens : List Nat) : Nat :=
  6 + (dataSizes streams c lens ++ (chunks streams c lens).flatten).length

theorem dataLen0_le (streams : List Bytes) (c lens : List Nat) (hl : lens.length = streams.length) :
    dataLen0 streams c lens ≤ 6 + 2 * streams.length + lens.sum := by
  have := chunks_flat_le streams c lens hl
  simp only [dataLen0, dataSizes, List.length_append, sizes_flat_length, chunks_length]
  omega

theorem pkt_data_eq (streams : List Bytes) (c lens : List Nat) :
    pktBytes streams c (.data lens) =
      [1] ++ ([0] ++ toLE (dataLen0 streams c lens + pad4 (dataLen0 streams c lens) - 1) 2
          ++ toLE streams.length 2) ++
        (dataSizes streams c lens ++ ((chunks streams c lens).flatten ++
          zeros (pad4 (dataLen0 streams c lens)))) := by
  simp [pktBytes, dataLen0, dataSizes]

theorem pkt_data_length (streams : List Bytes) (c lens : List Nat) :
    (pktBytes streams c (.data lens)).length = dataLen0 streams c lens + pad4 (dataLen0 streams c lens) := by
  rw [pkt_data_eq]
  simp [toLE_length, dataLen0, zeros]; omega

theorem pad4_mono_bound (a b : Nat) (h : a ≤ b) : a + pad4 a ≤ b + pad4 b := by
  unfold pad4; omega

theorem readPacketHeader_data {d : Bytes} (hd : d.length % 1020 = 0) {r : PR} {o : Nat} (streams : List Bytes) (c lens : List Nat)
    (h : At d r o) (hX : Holds d o (pktBytes streams c (.data lens)))
    (hok : PktOk streams.length (.data lens)) (hne : streams ≠ []) :
    ∃ r1, readPacketHeader r =
        (r1, some (.data false (pktBytes streams c (.data lens)).length streams.length)) ∧
      At d r1 (o + 6) := by
  obtain ⟨hl, hhi⟩ := hok
  have hle := pad4_mono_bound _ _ (dataLen0_le streams c lens hl)
  have hn : streams.length < 65536 := by unfold pad4 at hhi; omega
  have hn0 : 0 < streams.length := List.length_pos_iff.mpr hne
  rw [pkt_data_length]
  rw [pkt_data_eq] at hX
  generalize hL : dataLen0 streams c lens + pad4 (dataLen0 streams c lens) = L at *
  have hL4 : L % 4 = 0 := by rw [← hL]; unfold pad4; omega
  have hL6 : 6 ≤ L := by rw [← hL]; unfold dataLen0; omega
  obtain ⟨r1, e1, a1⟩ := readExact_holds' hd [1] 1 h hX.left.left rfl
  obtain ⟨r2, e2, a2⟩ := readExact_holds' hd ([0] ++ toLE (L - 1) 2 ++ toLE streams.length 2) 5 a1
    hX.left.right (by simp [toLE_length])
  refine ⟨r2, ?_, by rw [show o + 6 = o + 1 + 5 by omega]; exact a2⟩
  simp only [readPacketHeader, e1, e2]
  simp only [toLE_two, List.cons_append, List.nil_append, List.drop_succ_cons, List.drop_zero,
    List.take_succ_cons, List.take_zero, leVal_pair]
  rw [len_field L (by omega) (by omega), Nat.mod_eq_of_lt hn]
  have : streams.length ≠ 0 := by omega
  simp [hL4, this, leVal]

end Layout
end E57

namespace E57
namespace Layout
open Spec

/-! ## 4. spec types/values vs model types/values; one record's `parse_byte_streams` -/

/-- a model data type that stores its values the way the spec record type does -/
inductive TypeMatch : RecType → DataType → Prop
  | f32 (a b : Option UInt32) : TypeMatch .f32 (.single a b)
  | f64 (a b : Option UInt64) : TypeMatch .f64 (.double a b)
  | int (mn mx : Int) : TypeMatch (.int mn mx) (.integer mn mx)
  | scaled (mn mx : Int) (sc off : UInt64) : TypeMatch (.int mn mx) (.scaled mn mx sc off)

def toDataType : RecType → DataType
  | .f32 => .single none none
  | .f64 => .double none none
  | .int mn mx => .integer mn mx

theorem typeMatch_toDataType (t : RecType) : TypeMatch t (toDataType t) := by
  cases t <;> constructor

/-- raw Int (spec side) → model value: the integer itself, or the float bit pattern -/
def toValue : DataType → Int → Value
  | .single _ _, v => .single (UInt32.ofNat v.toNat)
  | .double _ _, v => .double (UInt64.ofNat v.toNat)
  | .scaled _ _ _ _, v => .scaled v
  | .integer _ _, v => .integer v

/-- integer bounds are ordered and within `i64` -/
def TypeOk : RecType → Prop
  | .int mn mx => mn ≤ mx ∧ inI64 mn = true ∧ inI64 mx = true
  | _ => True

instance (t : RecType) : Decidable (TypeOk t) := by cases t <;> (unfold TypeOk; infer_instance)

/-- a raw value the record type can store -/
def ValOk : RecType → Int → Prop
  | .f32, v => v < 2 ^ 32
  | .f64, v => v < 2 ^ 64
  | .int mn mx, v => mn ≤ v ∧ v ≤ mx

instance (t : RecType) (v : Int) : Decidable (ValOk t v) := by cases t <;> (unfold ValOk; infer_instance)

theorem int_bits (mn mx : Int) (h : mn ≤ mx) (h1 : inI64 mn = true) (h2 : inI64 mx = true) :
    RecType.bits (.int mn mx) = integerBits mn mx := by
  have ⟨a, b⟩ := C12.integerBits_least mn mx h
  have c := C12.integerBits_le_64 mn mx h h1 h2
  have : (List.range 65).find? (fun w => decide ((mx - mn).toNat < 2 ^ w)) = some (integerBits mn mx) := by
    rw [List.find?_range_eq_some]
    refine ⟨by simpa using a, by simp; omega, ?_⟩
    intro j hj
    have := b j
    simp only [Bool.not_eq_eq_eq_not, Bool.not_true, decide_eq_false_iff_not]
    intro hlt; have := this hlt; omega
  simp only [RecType.bits, this, Option.getD_some]

theorem bits_eq {t : RecType} {dt : DataType} (hm : TypeMatch t dt) (hok : TypeOk t) :
    t.bits = dt.bitSize := by
  cases hm with
  | f32 a b => rfl
  | f64 a b => rfl
  | int mn mx => exact int_bits mn mx hok.1 hok.2.1 hok.2.2
  | scaled mn mx sc off => exact int_bits mn mx hok.1 hok.2.1 hok.2.2

theorem rangeOk_of_match {t : RecType} {dt : DataType} (hm : TypeMatch t dt) (hok : TypeOk t) :
    dt.RangeOk := by
  cases hm with
  | f32 a b => trivial
  | f64 a b => trivial
  | int mn mx => exact hok
  | scaled mn mx sc off => exact hok

/-- how the queue reader turns an extracted field into a value -/
def dec : DataType → Nat → Value
  | .single _ _, v => .single (UInt32.ofNat v)
  | .double _ _, v => .double (UInt64.ofNat v)
  | .scaled mn _ _ _, v => .scaled (wrapI64 ((v : Int) + mn))
  | .integer mn _, v => .integer (wrapI64 ((v : Int) + mn))

theorem dec_field {t : RecType} {dt : DataType} (hm : TypeMatch t dt) (hok : TypeOk t) (v : Int)
    (hv : ValOk t v) : dec dt (t.field v) = toValue dt v := by
  cases hm with
  | f32 a b => rfl
  | f64 a b => rfl
  | int mn mx =>
    obtain ⟨h0, h1, h2⟩ := hok
    obtain ⟨v1, v2⟩ := hv
    rw [inI64_iff] at h1 h2
    simp only [dec, toValue, RecType.field]
    have e : (((v - mn).toNat : Nat) : Int) + mn = v := by omega
    rw [e, wrapI64_id v (by rw [inI64_iff]; omega)]
  | scaled mn mx sc off =>
    obtain ⟨h0, h1, h2⟩ := hok
    obtain ⟨v1, v2⟩ := hv
    rw [inI64_iff] at h1 h2
    simp only [dec, toValue, RecType.field]
    have e : (((v - mn).toNat : Nat) : Int) + mn = v := by omega
    rw [e, wrapI64_id v (by rw [inI64_iff]; omega)]

theorem field_lt {t : RecType} (hok : TypeOk t) (v : Int) (hv : ValOk t v) : t.field v < 2 ^ t.bits := by
  cases t with
  | f32 => simp only [ValOk] at hv; simp only [RecType.field, RecType.bits]; omega
  | f64 => simp only [ValOk] at hv; simp only [RecType.field, RecType.bits]; omega
  | int mn mx =>
    obtain ⟨h0, h1, h2⟩ := hok
    obtain ⟨v1, v2⟩ := hv
    rw [int_bits mn mx h0 h1 h2]
    have := (C12.integerBits_least mn mx h0).1
    simp only [RecType.field]
    omega

/-- a zero-width record can only hold its minimum -/
theorem zero_width_value {t : RecType} {dt : DataType} (hm : TypeMatch t dt) (hok : TypeOk t)
    (hz : dt.bitSize = 0) (v : Int) (hv : ValOk t v) : zeroValue dt = toValue dt v := by
  cases hm with
  | f32 a b => simp [DataType.bitSize] at hz
  | f64 a b => simp [DataType.bitSize] at hz
  | int mn mx =>
    have := (C12.integerBits_eq_zero_iff mn mx hok.1).1 hz
    obtain ⟨v1, v2⟩ := hv
    simp only [zeroValue, toValue]; congr 1; omega
  | scaled mn mx sc off =>
    have := (C12.integerBits_eq_zero_iff mn mx hok.1).1 hz
    obtain ⟨v1, v2⟩ := hv
    simp only [zeroValue, toValue]; congr 1; omega

theorem sub_mul_div' (A cnt w : Nat) (hw : 0 < w) (h : cnt * w ≤ A) : (A - cnt * w) / w = A / w - cnt := by
  have : A = (A - cnt * w) + cnt * w := by omega
  conv => rhs; rw [this, Nat.add_mul_div_right _ _ hw]
  rw [Nat.add_sub_cancel]

theorem cnt_le_div (A cnt w : Nat) (hw : 0 < w) (h : cnt * w ≤ A) : cnt ≤ A / w :=
  (Nat.le_div_iff_mul_le hw).2 h

/-- the values of the complete `w`-bit fields `from … upto` of a byte string -/
def fieldVals (dt : DataType) (S : Bytes) (lo n : Nat) : List Value :=
  (List.range n).map (fun j => dec dt (Spec.field (leVal S) dt.bitSize (lo + j)))

/-- `parse_byte_streams` for one sized record whose buffer stands at a field boundary:
    all remaining complete fields are appended to the queue, the cursor moves to the last
    field boundary -/
theorem parseStream_sized (dt : DataType) (hr : dt.RangeOk) (hw : dt.bitSize ≠ 0) (s : RBuf)
    (S : Bytes) (cnt : Nat) (q : List Value) (hrep : s.Rep S (cnt * dt.bitSize)) :
    ∃ s', parseStream dt s q =
        some (s', q ++ fieldVals dt S cnt (8 * S.length / dt.bitSize - cnt)) ∧
      s'.Rep S (8 * S.length / dt.bitSize * dt.bitSize) := by
  have hP : cnt * dt.bitSize ≤ 8 * S.length := by
    obtain ⟨c, _, _, _, _, h⟩ := hrep; exact h
  have hw0 : 0 < dt.bitSize := by omega
  have hcnt := cnt_le_div _ _ _ hw0 hP
  have hdiv := sub_mul_div' _ _ _ hw0 hP
  have hcur : cnt * dt.bitSize + (8 * S.length - cnt * dt.bitSize) / dt.bitSize * dt.bitSize
      = 8 * S.length / dt.bitSize * dt.bitSize := by
    rw [hdiv, ← Nat.add_mul]; congr 1; omega
  have hfuel := C12.rep_fuel s S (cnt * dt.bitSize) dt.bitSize hrep
  cases dt with
  | single a b =>
    obtain ⟨s', hrun, hrep'⟩ := unpackFixedLoop_spec 32 S (by omega) (by omega) _ s _ [] hrep hfuel
    refine ⟨s', ?_, by rw [← hcur]; exact hrep'⟩
    simp only [parseStream, unpackFixed, hrun, DataType.bitSize] at hdiv ⊢
    simp only [hdiv, fieldVals, List.reverse_nil, List.nil_append, List.map_map, C12.fieldAt_eq_field,
      DataType.bitSize]
    rfl
  | double a b =>
    obtain ⟨s', hrun, hrep'⟩ := unpackFixedLoop_spec 64 S (by omega) (by omega) _ s _ [] hrep hfuel
    refine ⟨s', ?_, by rw [← hcur]; exact hrep'⟩
    simp only [parseStream, unpackFixed, hrun, DataType.bitSize] at hdiv ⊢
    simp only [hdiv, fieldVals, List.reverse_nil, List.nil_append, List.map_map, C12.fieldAt_eq_field,
      DataType.bitSize]
    rfl
  | scaled mn mx sc off =>
    have hlt := lt_of_integerBits_ne_zero mn mx hw
    obtain ⟨eb, hb0, hb⟩ := unpack_bits mn mx hlt hr.2.1 hr.2.2
    obtain ⟨s', hrun, hrep'⟩ := unpackIntsLoop_spec (integerBits mn mx) mn S hb0 hb _ s _ [] hrep hfuel
    refine ⟨s', ?_, by rw [← hcur]; exact hrep'⟩
    have hr' : ¬ (mx - mn ≤ 0) := by omega
    simp only [DataType.bitSize] at hdiv hw
    simp only [parseStream, DataType.bitSize, hw, if_false, unpackInts, hr', eb, hrun]
    simp only [hdiv, fieldVals, List.reverse_nil, List.nil_append, List.map_map, C12.fieldAt_eq_field,
      DataType.bitSize]
    rfl
  | integer mn mx =>
    have hlt := lt_of_integerBits_ne_zero mn mx hw
    obtain ⟨eb, hb0, hb⟩ := unpack_bits mn mx hlt hr.2.1 hr.2.2
    obtain ⟨s', hrun, hrep'⟩ := unpackIntsLoop_spec (integerBits mn mx) mn S hb0 hb _ s _ [] hrep hfuel
    refine ⟨s', ?_, by rw [← hcur]; exact hrep'⟩
    have hr' : ¬ (mx - mn ≤ 0) := by omega
    simp only [DataType.bitSize] at hdiv hw
    simp only [parseStream, DataType.bitSize, hw, if_false, unpackInts, hr', eb, hrun]
    simp only [hdiv, fieldVals, List.reverse_nil, List.nil_append, List.map_map, C12.fieldAt_eq_field,
      DataType.bitSize]
    rfl

/-- a record of zero bit size is not unpacked at all (its value is a constant of the prototype) -/
theorem parseStream_zero (dt : DataType) (hw : dt.bitSize = 0) (s : RBuf) (q : List Value) :
    parseStream dt s q = some (s, q) := parseStream_zero_id dt s q hw

/-- the constant of a record of zero bit size is the value `zeroValue` names -/
theorem constOf_zero (dt : DataType) (hw : dt.bitSize = 0) : constOf dt = some (zeroValue dt) := by
  cases dt with
  | single a b => simp [DataType.bitSize] at hw
  | double a b => simp [DataType.bitSize] at hw
  | scaled mn mx sc off => simp only [constOf, hw, if_true, zeroValue]
  | integer mn mx => simp only [constOf, hw, if_true, zeroValue]

theorem constOf_sized (dt : DataType) (hw : dt.bitSize ≠ 0) : constOf dt = none := by
  have := constOf_isSome dt
  cases h : constOf dt with
  | none => rfl
  | some v => rw [h] at this; simp at this; exact absurd this hw

end Layout
end E57

namespace E57
namespace Layout
open Spec

/-! ## 5. the list recursions of `advance` in index form -/

theorem leVal_toLE2 (x : Nat) (h : x < 65536) : leVal (toLE x 2) = x := by
  rw [leVal_toLE]; exact Nat.mod_eq_of_lt h

/-- reading the `u16` sizes of the chunks `ch` -/
theorem readSizes_holds {d : Bytes} (hd : d.length % 1020 = 0) :
    ∀ (ch : List Bytes) (r : PR) (o : Nat) (acc : List Nat), At d r o →
      Holds d o ((ch.map (fun c => toLE c.length 2)).flatten) → (∀ c ∈ ch, c.length < 65536) →
      ∃ r', readSizes ch.length r acc = (r', some (acc.reverse ++ ch.map List.length)) ∧
        At d r' (o + 2 * ch.length) := by
  intro ch
  induction ch with
  | nil => intro r o acc h _ _; exact ⟨r, by simp [readSizes], by simpa using h⟩
  | cons c ch ih =>
    intro r o acc h hX hlt
    simp only [List.map_cons, List.flatten_cons] at hX
    obtain ⟨r1, e1, a1⟩ := readExact_holds' hd (toLE c.length 2) 2 h hX.left (toLE_length _ _)
    obtain ⟨r', e', a'⟩ := ih r1 (o + 2) (leVal (toLE c.length 2) :: acc) a1
      (hX.right' (by rw [toLE_length])) (fun x hx => hlt x (by simp [hx]))
    refine ⟨r', ?_, by rw [List.length_cons, show o + 2 * (ch.length + 1) = o + 2 + 2 * ch.length by omega]; exact a'⟩
    simp only [List.length_cons, readSizes, e1, e']
    rw [leVal_toLE2 _ (hlt c (by simp))]
    simp

/-- the buffer after a successful `append` -/
def appendBuf (s : RBuf) (c : Bytes) : RBuf :=
  ⟨s.buffer.drop (s.offset / 8) ++ c, s.offset - s.offset / 8 * 8⟩

theorem append_eq (s : RBuf) (c : Bytes) (h : s.WF) : s.append c = .ok (appendBuf s c) := by
  unfold RBuf.WF at h
  have : ¬ (s.offset / 8 > s.buffer.length) := by omega
  simp only [RBuf.append, this, if_false, appendBuf]

theorem appendBuf_rep (s : RBuf) (S c : Bytes) (P : Nat) (h : s.Rep S P) : (appendBuf s c).Rep (S ++ c) P := by
  obtain ⟨r', e, hr⟩ := RBuf.append_spec s S c P h
  rw [append_eq s c (RBuf.rep_wf s S P h)] at e
  cases e; exact hr

theorem appendBuf_new_nil : appendBuf RBuf.new [] = RBuf.new := by
  simp [appendBuf, RBuf.new]

/-- reading the chunks `ch` and appending them to the buffers -/
theorem readStreams_holds {d : Bytes} (hd : d.length % 1020 = 0) :
    ∀ (ch : List Bytes) (ss : List RBuf) (r : PR) (o : Nat) (acc : List RBuf), ch.length = ss.length →
      At d r o → Holds d o ch.flatten → (∀ s ∈ ss, s.WF) →
      ∃ r', readStreams (ch.map List.length) ss r acc =
          (r', acc.reverse ++ List.zipWith appendBuf ss ch, true) ∧
        At d r' (o + ch.flatten.length) := by
  intro ch
  induction ch with
  | nil =>
    intro ss r o acc hl h _ _
    have : ss = [] := List.length_eq_zero_iff.mp hl.symm
    subst this
    exact ⟨r, by simp [readStreams], by simpa using h⟩
  | cons c ch ih =>
    intro ss r o acc hl h hX hwf
    cases ss with
    | nil => simp at hl
    | cons s ss =>
      simp only [List.flatten_cons] at hX
      obtain ⟨r1, e1, a1⟩ := readExact_holds hd c h hX.left
      obtain ⟨r', e', a'⟩ := ih ss r1 (o + c.length) (appendBuf s c :: acc) (by simpa using hl) a1
        hX.right (fun x hx => hwf x (by simp [hx]))
      refine ⟨r', ?_, by rw [List.flatten_cons, List.length_append, ← Nat.add_assoc]; exact a'⟩
      simp only [List.map_cons, readStreams, e1, append_eq s c (hwf s (by simp)), e']
      simp

/-- `parseStreams` succeeds when every record's `parseStream` does; results index by index -/
theorem parseStreams_all (P : Nat → RBuf → List Value → Prop) :
    ∀ (rs : List Record) (ss : List RBuf) (qs : List (List Value)) (k : Nat),
      ss.length = rs.length → qs.length = rs.length →
      (∀ i (h : i < rs.length), ∃ s' q',
        parseStream rs[i].dt (ss.getD i RBuf.new) (qs.getD i []) = some (s', q') ∧ P (k + i) s' q') →
      ∃ ss' qs', parseStreams rs ss qs = some (ss', qs') ∧ ss'.length = rs.length ∧
        qs'.length = rs.length ∧
        ∀ i, i < rs.length → P (k + i) (ss'.getD i RBuf.new) (qs'.getD i []) := by
  intro rs
  induction rs with
  | nil =>
    intro ss qs k _ _ _
    exact ⟨[], [], by simp [parseStreams], rfl, rfl, fun i hi => by simp at hi⟩
  | cons r rs ih =>
    intro ss qs k hs hq hall
    cases ss with
    | nil => simp at hs
    | cons s ss =>
      cases qs with
      | nil => simp at hq
      | cons q qs =>
        obtain ⟨s', q', e0, p0⟩ := hall 0 (by simp)
        obtain ⟨ss', qs', e, l1, l2, pall⟩ := ih ss qs (k + 1) (by simpa using hs) (by simpa using hq)
          (by
            intro i hi
            obtain ⟨a, b, e, p⟩ := hall (i + 1) (by simp; omega)
            refine ⟨a, b, by simpa using e, ?_⟩
            rw [show k + 1 + i = k + (i + 1) by omega]; exact p)
        refine ⟨s' :: ss', q' :: qs', ?_, by simp [l1], by simp [l2], ?_⟩
        · simp only [List.getElem_cons_zero, List.getD_cons_zero] at e0
          simp [parseStreams, e0, e]
        · intro i hi
          cases i with
          | zero => simpa using p0
          | succ i =>
            have := pall i (by simpa using hi)
            rw [show k + 1 + i = k + (i + 1) by omega] at this
            simpa using this

/-- a function on a non-empty finite set of indices attains its minimum -/
theorem exists_min_on (P : Nat → Prop) (f : Nat → Nat) :
    ∀ (n : Nat), (∃ i, i < n ∧ P i) →
      ∃ m, (∀ i, i < n → P i → m ≤ f i) ∧ ∃ i, i < n ∧ P i ∧ m = f i := by
  intro n
  induction n with
  | zero => intro ⟨i, hi, _⟩; omega
  | succ n ih =>
    intro hex
    by_cases hprev : ∃ i, i < n ∧ P i
    · obtain ⟨m, hle, j, hj, hPj, ej⟩ := ih hprev
      by_cases hPn : P n
      · by_cases hc : f n ≤ m
        · refine ⟨f n, ?_, n, by omega, hPn, rfl⟩
          intro i hi hPi
          by_cases e : i = n
          · subst e; exact Nat.le_refl _
          · have := hle i (by omega) hPi; omega
        · refine ⟨m, ?_, j, by omega, hPj, ej⟩
          intro i hi hPi
          by_cases e : i = n
          · subst e; omega
          · exact hle i (by omega) hPi
      · refine ⟨m, ?_, j, by omega, hPj, ej⟩
        intro i hi hPi
        by_cases e : i = n
        · subst e; exact absurd hPi hPn
        · exact hle i (by omega) hPi
    · obtain ⟨i, hi, hPi⟩ := hex
      have e : i = n := by
        false_or_by_contra
        exact hprev ⟨i, by omega, hPi⟩
      subst e
      refine ⟨f i, ?_, i, by omega, hPi, rfl⟩
      intro i' hi' hPi'
      by_cases e : i' = i
      · subst e; exact Nat.le_refl _
      · exact absurd ⟨i', by omega, hPi'⟩ hprev

end Layout
end E57

namespace E57
namespace Layout
open Spec

/-! ## 6. the queue invariant and the effect of one data packet on the queues -/

def dtAt (rs : List Record) (i : Nat) : DataType := (rs.getD i ⟨.cartesianX, .integer 0 0⟩).dt

theorem dtAt_eq (rs : List Record) (i : Nat) (h : i < rs.length) : rs[i].dt = dtAt rs i := by
  simp [dtAt, List.getD_eq_getElem?_getD, h]

theorem getD_map_range {α} (f : Nat → α) (n i : Nat) (dflt : α) (h : i < n) :
    ((List.range n).map f).getD i dflt = f i := by
  simp [List.getD_eq_getElem?_getD, h]

theorem streamsOf_length (types : List RecType) (points : List (List Int)) :
    (streamsOf types points).length = types.length := by simp [streamsOf]

theorem streamsOf_getD (types : List RecType) (points : List (List Int)) (i : Nat) (h : i < types.length) :
    (streamsOf types points).getD i [] = recordStream types points i :=
  getD_map_range _ _ _ _ h

/-- what is fixed during the decoding of one section: record types and prototype correspond,
    ranges and values are legal -/
structure Static (types : List RecType) (points : List (List Int)) (proto : List Record) : Prop where
  plen : proto.length = types.length
  tmatch : ∀ i (h : i < types.length), TypeMatch types[i] (dtAt proto i)
  tok : ∀ i (h : i < types.length), TypeOk types[i]
  vok : ∀ p ∈ points, p.length = types.length ∧ ∀ i (h : i < types.length), ValOk types[i] (p.getD i 0)

section
variable {types : List RecType} {points : List (List Int)} {proto : List Record}

theorem Static.rangeOk (st : Static types points proto) (i : Nat) (h : i < types.length) :
    (dtAt proto i).RangeOk := rangeOk_of_match (st.tmatch i h) (st.tok i h)

theorem Static.bits (st : Static types points proto) (i : Nat) (h : i < types.length) :
    types[i].bits = (dtAt proto i).bitSize := bits_eq (st.tmatch i h) (st.tok i h)

theorem Static.stream_eq (st : Static types points proto) (i : Nat) (h : i < types.length) :
    recordStream types points i =
      streamBytes ((points.map (fun p => types[i].field (p.getD i 0))).map
        (fun u => (u, (dtAt proto i).bitSize))) := by
  simp only [recordStream, List.getElem?_eq_getElem h, List.map_map, Function.comp_def, st.bits i h]

theorem Static.stream_length (st : Static types points proto) (i : Nat) (h : i < types.length) :
    (recordStream types points i).length = (points.length * (dtAt proto i).bitSize + 7) / 8 := by
  rw [st.stream_eq i h, streamBytes, toLE_length, pack_width, List.length_map]

theorem Static.stream_zero (st : Static types points proto) (i : Nat) (h : i < types.length)
    (hz : (dtAt proto i).bitSize = 0) : recordStream types points i = [] := by
  apply List.eq_nil_of_length_eq_zero
  rw [st.stream_length i h, hz]; simp

/-- the complete fields of any prefix of a record's stream are the record's values -/
theorem Static.stream_field (st : Static types points proto) (i : Nat) (h : i < types.length)
    (c k : Nat) (hk : k < points.length) (hc : (k + 1) * (dtAt proto i).bitSize ≤ 8 * c)
    (hcl : c ≤ (recordStream types points i).length) :
    Spec.field (leVal ((recordStream types points i).take c)) (dtAt proto i).bitSize k
      = types[i].field (points[k].getD i 0) := by
  have hsplit := List.take_append_drop c (recordStream types points i)
  have h1 := C12.field_append_stable ((recordStream types points i).take c)
    ((recordStream types points i).drop c) (dtAt proto i).bitSize k
    (by rw [List.length_take, Nat.min_eq_left hcl]; exact hc)
  rw [hsplit] at h1
  rw [← h1, st.stream_eq i h]
  generalize hus : points.map (fun p => types[i].field (p.getD i 0)) = us
  have hlt := pack_lt (us.map (fun u => (u, (dtAt proto i).bitSize)))
  have hN := pack_width (dtAt proto i).bitSize us
  have hval : leVal (streamBytes (us.map (fun u => (u, (dtAt proto i).bitSize))))
      = (pack (us.map (fun u => (u, (dtAt proto i).bitSize)))).1 := by
    rw [streamBytes, leVal_toLE]
    apply Nat.mod_eq_of_lt
    have hp : 2 ^ (pack (us.map (fun u => (u, (dtAt proto i).bitSize)))).2
        ≤ 2 ^ (8 * (((pack (us.map (fun u => (u, (dtAt proto i).bitSize)))).2 + 7) / 8)) :=
      Nat.pow_le_pow_right (by omega) (by omega)
    omega
  have hkl : k < us.length := by rw [← hus]; simpa using hk
  rw [hval, field_pack _ us k hkl]
  have : us[k] = types[i].field (points[k].getD i 0) := by subst hus; simp
  rw [this, ← st.bits i h]
  exact Nat.mod_eq_of_lt (field_lt (st.tok i h) _ ((st.vok _ (List.getElem_mem hk)).2 i h))

end

/-- invariant of one record: `c` bytes of its stream `strm` have been appended, `k` values popped;
    sized records hold exactly the complete fields of the bytes seen (at least `M` of them), zero-width
    records are constants of the prototype: nothing is ever queued for them -/
def RecInv (dt : DataType) (strm : Bytes) (c k M : Nat) (s : RBuf) (q : List Value) : Prop :=
  c ≤ strm.length ∧
  (dt.bitSize = 0 → s = RBuf.new ∧ q = []) ∧
  (dt.bitSize ≠ 0 →
    s.Rep (strm.take c) (8 * c / dt.bitSize * dt.bitSize) ∧
    q = (fieldVals dt (strm.take c) 0 (8 * c / dt.bitSize)).drop k ∧
    k ≤ 8 * c / dt.bitSize ∧ M ≤ 8 * c / dt.bitSize)

/-- **the queue invariant** -/
structure QInv (types : List RecType) (points : List (List Int)) (proto : List Record)
    (k M : Nat) (cursors : List Nat) (q : QR) : Prop where
  hproto : q.proto = proto
  slen : q.streams.length = types.length
  qlen : q.queues.length = types.length
  clen : cursors.length = types.length
  recs : ∀ i, i < types.length → RecInv (dtAt proto i) (recordStream types points i)
    (cursors.getD i 0) k M (q.streams.getD i RBuf.new) (q.queues.getD i [])
  wit : ∃ i, i < types.length ∧ (dtAt proto i).bitSize ≠ 0 ∧
    M = 8 * cursors.getD i 0 / (dtAt proto i).bitSize

theorem fieldVals_length (dt : DataType) (S : Bytes) (lo n : Nat) : (fieldVals dt S lo n).length = n := by
  simp [fieldVals]

theorem fieldVals_append (dt : DataType) (S : Bytes) (a b : Nat) :
    fieldVals dt S 0 a ++ fieldVals dt S a b = fieldVals dt S 0 (a + b) := by
  simp only [fieldVals, List.range_add, List.map_append, List.map_map, Nat.zero_add]
  rfl

theorem fieldVals_stable (dt : DataType) (S D : Bytes) (n : Nat) (h : n * dt.bitSize ≤ 8 * S.length) :
    fieldVals dt (S ++ D) 0 n = fieldVals dt S 0 n := by
  simp only [fieldVals]
  apply List.map_congr_left
  intro j hj
  have hj' : j < n := by simpa using hj
  rw [Nat.zero_add, C12.field_append_stable S D dt.bitSize j]
  have : (j + 1) * dt.bitSize ≤ n * dt.bitSize := Nat.mul_le_mul_right _ hj'
  omega

theorem rep_avail (s : RBuf) (S : Bytes) (P : Nat) (h : s.Rep S P) :
    s.buffer.length * 8 - s.offset = 8 * S.length - P := by
  obtain ⟨c, h1, h2, hb, ho, h3⟩ := h
  rw [hb, ho]; simp; omega

theorem div_mul_mono (a b w : Nat) (h : a ≤ b) : 8 * a / w ≤ 8 * b / w :=
  Nat.div_le_div_right (by omega)

/-- one record, one data packet: append the chunk, unpack -/
theorem rec_step (dt : DataType) (hr : dt.RangeOk) (strm : Bytes) (hz : dt.bitSize = 0 → strm = [])
    (c k M len M' : Nat) (s : RBuf) (q : List Value)
    (h : RecInv dt strm c k M s q)
    (hm : dt.bitSize ≠ 0 → M' ≤ 8 * (c + ((strm.drop c).take len).length) / dt.bitSize) :
    ∃ s' q', parseStream dt (appendBuf s ((strm.drop c).take len)) q = some (s', q') ∧
      RecInv dt strm (c + ((strm.drop c).take len).length) k M' s' q' := by
  obtain ⟨hc, hzero, hsized⟩ := h
  have hc' : c + ((strm.drop c).take len).length ≤ strm.length := by
    simp only [List.length_take, List.length_drop]; omega
  have htake : strm.take (c + ((strm.drop c).take len).length) = strm.take c ++ (strm.drop c).take len := by
    rw [List.take_add, take_eq_take_length (strm.drop c) len]
    congr 2
    simp
  by_cases hw : dt.bitSize = 0
  · obtain ⟨es, eq⟩ := hzero hw
    have hs := hz hw
    subst hs
    refine ⟨_, _, parseStream_zero dt hw _ q, hc', fun _ => ⟨?_, eq⟩, fun h => absurd hw h⟩
    rw [es]; simp [appendBuf_new_nil]
  · obtain ⟨hrep, eq, hk, hMle⟩ := hsized hw
    have hw0 : 0 < dt.bitSize := by omega
    have hrep1 := appendBuf_rep s _ ((strm.drop c).take len) _ hrep
    rw [← htake] at hrep1
    obtain ⟨s', e, hrep'⟩ := parseStream_sized dt hr hw _ _ (8 * c / dt.bitSize) q hrep1
    have hlen' : (strm.take (c + ((strm.drop c).take len).length)).length
        = c + ((strm.drop c).take len).length := by
      rw [List.length_take, Nat.min_eq_left hc']
    rw [hlen'] at e hrep'
    refine ⟨s', _, e, hc', fun h => absurd h hw, fun _ => ⟨hrep', ?_, ?_, hm hw⟩⟩
    · have hmono := div_mul_mono c (c + ((strm.drop c).take len).length) dt.bitSize (by omega)
      have hst : fieldVals dt (strm.take c) 0 (8 * c / dt.bitSize)
          = fieldVals dt (strm.take (c + ((strm.drop c).take len).length)) 0 (8 * c / dt.bitSize) := by
        rw [htake, fieldVals_stable]
        rw [List.length_take, Nat.min_eq_left hc]
        exact Nat.div_mul_le_self _ _
      rw [eq, hst, ← List.drop_append_of_le_length (by rw [fieldVals_length]; exact hk), fieldVals_append]
      congr 2
      omega
    · have := div_mul_mono c (c + ((strm.drop c).take len).length) dt.bitSize (by omega)
      omega

end Layout
end E57

namespace E57
namespace Layout
open Spec

/-! ## 7. one data packet on the whole queue state -/

theorem zipWith_getD {α β γ} (f : α → β → γ) (l1 : List α) (l2 : List β) (i : Nat) (a : α) (b : β) (c : γ)
    (h1 : i < l1.length) (h2 : i < l2.length) :
    (List.zipWith f l1 l2).getD i c = f (l1.getD i a) (l2.getD i b) := by
  simp [List.getD_eq_getElem?_getD, List.getElem?_zipWith, h1, h2]

section
variable {types : List RecType} {points : List (List Int)} {proto : List Record}

theorem chunks_getD (cursors lens : List Nat) (i : Nat) (h : i < types.length) :
    (chunks (streamsOf types points) cursors lens).getD i [] =
      ((recordStream types points i).drop (cursors.getD i 0)).take (lens.getD i 0) := by
  unfold chunks
  rw [streamsOf_length, getD_map_range _ _ _ _ h, streamsOf_getD _ _ _ h]

theorem nextCursors_getD (cursors lens : List Nat) (i : Nat) (h : i < types.length) :
    (nextCursors (streamsOf types points) cursors (.data lens)).getD i 0 =
      cursors.getD i 0 +
        (((recordStream types points i).drop (cursors.getD i 0)).take (lens.getD i 0)).length := by
  unfold nextCursors
  rw [streamsOf_length, getD_map_range _ _ _ _ h, chunks_getD _ _ _ h]

theorem nextCursors_length (cursors : List Nat) (p : PacketSpec) (h : cursors.length = types.length) :
    (nextCursors (streamsOf types points) cursors p).length = types.length := by
  cases p <;> simp [nextCursors, streamsOf_length, h]

/-- effect of the bytes of one data packet on the queues (`parse_byte_streams` after the appends) -/
theorem parse_step (st : Static types points proto) (k M : Nat) (cursors lens : List Nat) (q : QR)
    (inv : QInv types points proto k M cursors q) :
    let ss1 := List.zipWith appendBuf q.streams (chunks (streamsOf types points) cursors lens)
    ∃ ss' qs' M', parseStreams q.proto ss1 q.queues = some (ss', qs') ∧
      QInv types points proto k M' (nextCursors (streamsOf types points) cursors (.data lens))
        { q with streams := ss', queues := qs' } := by
  intro ss1
  obtain ⟨hproto, slen, qlen, clen, recs, ⟨j, hj, hjw, hjM⟩⟩ := inv
  have chlen : (chunks (streamsOf types points) cursors lens).length = types.length := by
    rw [chunks_length, streamsOf_length]
  have ss1len : ss1.length = types.length := by simp [ss1, slen, chlen]
  have plen : q.proto.length = types.length := by rw [hproto]; exact st.plen
  have ss1get : ∀ i, i < types.length → ss1.getD i RBuf.new = appendBuf (q.streams.getD i RBuf.new)
      (((recordStream types points i).drop (cursors.getD i 0)).take (lens.getD i 0)) := by
    intro i hi
    rw [← chunks_getD cursors lens i hi]
    exact zipWith_getD _ _ _ _ _ _ _ (by omega) (by omega)
  -- new cursor and the count of complete fields
  let c' := fun i => cursors.getD i 0 +
    (((recordStream types points i).drop (cursors.getD i 0)).take (lens.getD i 0)).length
  -- the minimum over the sized records of the complete fields seen
  obtain ⟨M', hmle, i1, hi1, hi1w, hi1e⟩ := exists_min_on (fun i => (dtAt proto i).bitSize ≠ 0)
    (fun i => 8 * c' i / (dtAt proto i).bitSize) types.length ⟨j, hj, hjw⟩
  obtain ⟨ss', qs', e, l1, l2, pall⟩ := parseStreams_all
    (fun i s' q' => RecInv (dtAt proto i) (recordStream types points i) (c' i) k M' s' q')
    q.proto ss1 q.queues 0 (by omega) (by omega) (by
      intro i hi
      have hi' : i < types.length := by omega
      rw [dtAt_eq q.proto i hi, hproto, ss1get i hi', Nat.zero_add]
      exact rec_step (dtAt proto i) (st.rangeOk i hi') _ (st.stream_zero i hi') _ k M _ M' _ _
        (recs i hi') (hmle i hi'))
  refine ⟨ss', qs', M', e, ⟨hproto, by simp only; omega, by simp only; omega,
    nextCursors_length _ _ clen, ?_, ?_⟩⟩
  · intro i hi
    rw [nextCursors_getD cursors lens i hi]
    have := pall i (by omega)
    rw [Nat.zero_add] at this
    exact this
  · exact ⟨i1, hi1, hi1w, by rw [nextCursors_getD cursors lens i1 hi1]; exact hi1e⟩

end
end Layout
end E57

namespace E57
namespace Layout
open Spec

/-! ## 8. `advance` on each kind of packet -/

theorem Holds.cast {d : Bytes} {o o' : Nat} {X : Bytes} (h : Holds d o X) (e : o' = o) : Holds d o' X := e ▸ h

theorem align_aligned {d : Bytes} {r : PR} {o : Nat} (h : At d r o) (ho : o % 4 = 0) : r.align = .ok r := by
  obtain ⟨_, _, _, e⟩ := h
  unfold PR.align
  simp [e, ho]

theorem pkt_index_length (streams : List Bytes) (c : List Nat) (len : Nat) (h : 16 ≤ len) :
    (pktBytes streams c (.index len)).length = len := by
  simp [pktBytes, toLE_length, zeros]; omega

theorem pkt_ignored_length (streams : List Bytes) (c : List Nat) (len : Nat) (h : 4 ≤ len) :
    (pktBytes streams c (.ignored len)).length = len := by
  simp [pktBytes, toLE_length, zeros]; omega

/-- an ignored packet is skipped -/
theorem advance_ignored {d : Bytes} (hd : d.length % 1020 = 0) {r : PR} {o : Nat} (q : QR)
    (streams : List Bytes) (c : List Nat) (len : Nat) (hzw : q.zw = false)
    (h : At d r o) (ho : o % 4 = 0) (hX : Holds d o (pktBytes streams c (.ignored len)))
    (hok : PktOk streams.length (.ignored len)) :
    ∃ r', q.advance r = (r', q, true) ∧ At d r' (o + len) := by
  obtain ⟨r1, e1, a1⟩ := readPacketHeader_ignored hd streams c len h hX hok
  obtain ⟨h4, hlo, hhi⟩ := hok
  have hX' : Holds d o (([2, 0] ++ toLE (len - 1) 2) ++ zeros (len - 4)) := by
    simpa [pktBytes] using hX
  obtain ⟨r2, e2, a2⟩ := readExact_holds' hd (zeros (len - 4)) (len - 4) a1
    (hX'.right' (by simp [toLE_length])) (by simp [zeros])
  have a2' : At d r2 (o + len) := by rw [show o + len = o + 4 + (len - 4) by omega]; exact a2
  refine ⟨r2, ?_, a2'⟩
  rw [advance_eq, hzw]
  simp only [Bool.false_eq_true, if_false, e1, skipPacket, e2, align_aligned a2' (by omega)]

/-- an index packet is skipped -/
theorem advance_index {d : Bytes} (hd : d.length % 1020 = 0) {r : PR} {o : Nat} (q : QR)
    (streams : List Bytes) (c : List Nat) (len : Nat) (hzw : q.zw = false)
    (h : At d r o) (ho : o % 4 = 0) (hX : Holds d o (pktBytes streams c (.index len)))
    (hok : PktOk streams.length (.index len)) :
    ∃ r', q.advance r = (r', q, true) ∧ At d r' (o + len) := by
  obtain ⟨r1, e1, a1⟩ := readPacketHeader_index hd streams c len h hX hok
  obtain ⟨h4, hlo, hhi⟩ := hok
  have hX' : Holds d o (([0, 0] ++ toLE (len - 1) 2 ++ toLE 0 2 ++ [0] ++ zeros 9) ++ zeros (len - 16)) := by
    simpa [pktBytes] using hX
  obtain ⟨r2, e2, a2⟩ := readExact_holds' hd (zeros (len - 16)) (len - 16) a1
    (hX'.right' (by simp [toLE_length, zeros])) (by simp [zeros])
  have a2' : At d r2 (o + len) := by rw [show o + len = o + 16 + (len - 16) by omega]; exact a2
  have hlt : ¬ (len < 16) := by omega
  refine ⟨r2, ?_, a2'⟩
  rw [advance_eq, hzw]
  simp only [Bool.false_eq_true, if_false, e1, hlt, skipPacket, e2, align_aligned a2' (by omega)]

theorem mem_getD {α} (l : List α) (x d : α) (h : x ∈ l) : ∃ i, i < l.length ∧ l.getD i d = x := by
  obtain ⟨i, hi, e⟩ := List.mem_iff_getElem.mp h
  exact ⟨i, hi, by simp [List.getD_eq_getElem?_getD, hi, e]⟩

section
variable {types : List RecType} {points : List (List Int)} {proto : List Record}

theorem QInv.streams_wf {k M : Nat} {cursors : List Nat} {q : QR}
    (inv : QInv types points proto k M cursors q) : ∀ s ∈ q.streams, s.WF := by
  intro s hs
  obtain ⟨i, hi, e⟩ := mem_getD q.streams s RBuf.new hs
  have hi' : i < types.length := by rw [← inv.slen]; exact hi
  obtain ⟨_, hz, hs⟩ := inv.recs i hi'
  by_cases hw : (dtAt proto i).bitSize = 0
  · rw [← e, (hz hw).1]; exact RBuf.wf_new
  · rw [← e]; exact RBuf.rep_wf _ _ _ (hs hw).1

theorem QInv.zw_false {k M : Nat} {cursors : List Nat} {q : QR}
    (st : Static types points proto) (inv : QInv types points proto k M cursors q) : q.zw = false := by
  obtain ⟨j, hj, hjw, _⟩ := inv.wit
  have hjp : j < proto.length := by rw [st.plen]; exact hj
  have : q.allZeroWidth = false := by
    unfold QR.allZeroWidth
    rw [inv.hproto, List.all_eq_false]
    refine ⟨proto[j], List.getElem_mem hjp, ?_⟩
    rw [dtAt_eq proto j hjp]
    simpa using hjw
  simp [QR.zw, this]

/-- **one data packet**: its chunks are appended to the streams, unpacked greedily, the reader is
    aligned to the next packet -/
theorem advance_data {d : Bytes} (hd : d.length % 1020 = 0) {r : PR} {o : Nat} (q : QR)
    (st : Static types points proto) (hne : types ≠ []) (k M : Nat) (cursors lens : List Nat)
    (inv : QInv types points proto k M cursors q)
    (h : At d r o) (ho : o % 4 = 0)
    (hX : Holds d o (pktBytes (streamsOf types points) cursors (.data lens)))
    (hok : PktOk types.length (.data lens)) :
    ∃ r' q' M', q.advance r = (r', q', true) ∧
      At d r' (o + (pktBytes (streamsOf types points) cursors (.data lens)).length) ∧
      QInv types points proto k M' (nextCursors (streamsOf types points) cursors (.data lens)) q' := by
  have hsl := streamsOf_length types points
  have hsne : streamsOf types points ≠ [] := by
    intro e; rw [e] at hsl; exact hne (List.length_eq_zero_iff.mp hsl.symm)
  obtain ⟨r1, e1, a1⟩ := readPacketHeader_data hd (streamsOf types points) cursors lens h hX
    (by rw [hsl]; exact hok) hsne
  obtain ⟨hl, hhi⟩ := hok
  have hlen := pkt_data_length (streamsOf types points) cursors lens
  have hXle := hX.le
  rw [pkt_data_eq] at hX
  have chlen : (chunks (streamsOf types points) cursors lens).length = types.length := by
    rw [chunks_length, hsl]
  have hA : ∀ x y : Nat, (([1] : Bytes) ++ ([0] ++ toLE x 2 ++ toLE y 2)).length = 6 := by
    intro x y; simp [toLE_length]
  have hS : (dataSizes (streamsOf types points) cursors lens).length
      = 2 * (chunks (streamsOf types points) cursors lens).length := sizes_flat_length _
  -- the sizes
  have hbound : ∀ c ∈ chunks (streamsOf types points) cursors lens, c.length < 65536 := by
    intro c hc
    unfold chunks at hc
    obtain ⟨i, _, rfl⟩ := List.mem_map.mp hc
    have := getD_le_sum lens i
    unfold pad4 at hhi
    simp only [List.length_take]; omega
  obtain ⟨r2, e2, a2⟩ := readSizes_holds hd (chunks (streamsOf types points) cursors lens) r1 (o + 6) [] a1
    (hX.right.left.cast (by rw [hA])) hbound
  -- the chunks
  obtain ⟨r3, e3, a3⟩ := readStreams_holds hd (chunks (streamsOf types points) cursors lens) q.streams r2 _ []
    (by rw [chlen, inv.slen]) a2
    (hX.right.right.left.cast (by rw [hA, hS])) inv.streams_wf
  -- the queues
  obtain ⟨ss', qs', M', e4, inv'⟩ := parse_step st k M cursors lens q inv
  -- alignment
  have hoff : o + 6 + 2 * (chunks (streamsOf types points) cursors lens).length +
      (chunks (streamsOf types points) cursors lens).flatten.length
      = o + dataLen0 (streamsOf types points) cursors lens := by
    simp only [dataLen0, dataSizes, List.length_append, sizes_flat_length]; omega
  rw [hoff] at a3
  have hpad : pad4 (o + dataLen0 (streamsOf types points) cursors lens)
      = pad4 (dataLen0 (streamsOf types points) cursors lens) := by unfold pad4; omega
  obtain ⟨r4, e5, a4⟩ := align_at hd a3 (by rw [hpad]; omega)
  rw [hpad, Nat.add_assoc, ← hlen] at a4
  refine ⟨r4, _, _, ?_, a4, inv'⟩
  rw [advance_eq, inv.zw_false st]
  rw [chlen] at e2
  simp only [List.reverse_nil, List.nil_append] at e2 e3
  simp only [Bool.false_eq_true, if_false, e1, hsl, inv.slen, ne_eq, not_true_eq_false, dataPacket, e2,
    e3, Bool.not_true, e4, e5]

end
end Layout
end E57

namespace E57
namespace Layout
open Spec

/-! ## 9. `available`, `pop_point` under the queue invariant -/

theorem minList_le_mem (l : List Nat) (m x : Nat) (h : minList l = some m) (hx : x ∈ l) : m ≤ x := by
  induction l generalizing m with
  | nil => simp at hx
  | cons a l ih =>
    simp only [minList] at h
    cases hm : minList l with
    | none =>
      rw [hm] at h
      have hl : l = [] := by
        cases l with
        | nil => rfl
        | cons b l => simp only [minList] at hm; split at hm <;> cases hm
      subst hl
      simp at hx h; omega
    | some m' =>
      rw [hm] at h
      simp only [Option.some.injEq] at h
      rcases List.mem_cons.mp hx with rfl | hx'
      · omega
      · have := ih m' hm hx'; omega

section
variable {types : List RecType} {points : List (List Int)} {proto : List Record}

theorem QInv.k_le {k M : Nat} {cursors : List Nat} {q : QR}
    (inv : QInv types points proto k M cursors q) : k ≤ M := by
  obtain ⟨j, hj, hjw, hjM⟩ := inv.wit
  have := ((inv.recs j hj).2.2 hjw).2.2.1; omega

/-- the queue of a sized record holds at least `M - k` values -/
theorem QInv.queue_len {k M : Nat} {cursors : List Nat} {q : QR}
    (inv : QInv types points proto k M cursors q) (i : Nat) (hi : i < types.length)
    (hw : (dtAt proto i).bitSize ≠ 0) :
    M - k ≤ (q.queues.getD i []).length := by
  obtain ⟨_, _, hs⟩ := inv.recs i hi
  obtain ⟨_, eq, hk, hM⟩ := hs hw
  rw [eq, List.length_drop, fieldVals_length]; omega

theorem QInv.allConstant_false {k M : Nat} {cursors : List Nat} {q : QR}
    (st : Static types points proto) (inv : QInv types points proto k M cursors q) :
    q.allConstant = false := by
  rw [← QR.zw_eq_allConstant]; exact inv.zw_false st

/-- a pair of the zip of prototype and queues sits at some index -/
theorem QInv.mem_zip {k M : Nat} {cursors : List Nat} {q : QR}
    (st : Static types points proto) (inv : QInv types points proto k M cursors q)
    (rec : Record) (qu : List Value) (h : (rec, qu) ∈ q.proto.zip q.queues) :
    ∃ i, i < types.length ∧ rec.dt = dtAt proto i ∧ qu = q.queues.getD i [] := by
  obtain ⟨i, hi, e⟩ := List.mem_iff_getElem.mp h
  rw [List.getElem_zip] at e
  simp only [List.length_zip, inv.hproto, st.plen, inv.qlen, Nat.min_self] at hi
  have hip : i < proto.length := by rw [st.plen]; exact hi
  have hiq : i < q.queues.length := by rw [inv.qlen]; exact hi
  simp only [Prod.mk.injEq] at e
  refine ⟨i, hi, ?_, ?_⟩
  · rw [← e.1, ← dtAt_eq proto i hip]; simp only [inv.hproto]
  · rw [← e.2]; simp [List.getD_eq_getElem?_getD, hiq]

theorem sized_of_constOf_none (dt : DataType) (h : (constOf dt).isNone = true) : dt.bitSize ≠ 0 := by
  intro hz
  rw [constOf_zero dt hz] at h; simp at h

theorem QInv.available_eq {k M : Nat} {cursors : List Nat} {q : QR}
    (st : Static types points proto)
    (inv : QInv types points proto k M cursors q) : q.available = M - k := by
  obtain ⟨j, hj, hjw, hjM⟩ := inv.wit
  have hjp : j < proto.length := by rw [st.plen]; exact hj
  have hjq : j < q.queues.length := by rw [inv.qlen]; exact hj
  have hqne : q.queues.isEmpty = false := by
    cases hq : q.queues with
    | nil => rw [hq] at hjq; simp at hjq
    | cons a l => rfl
  have hjlen : (q.queues.getD j []).length = M - k := by
    obtain ⟨_, eq, _, _⟩ := (inv.recs j hj).2.2 hjw
    rw [eq, List.length_drop, fieldVals_length, hjM]
  unfold QR.available QR.countedLengths
  rw [hqne, inv.allConstant_false st]
  simp only [Bool.false_eq_true, if_false]
  generalize hL : (((q.proto.zip q.queues).filter (fun x : Record × List Value =>
      match x with | (rec, _) => (constOf rec.dt).isNone)).map
        (fun x : Record × List Value => match x with | (_, qu) => qu.length)) = L
  have hmem : (q.queues.getD j []).length ∈ L := by
    rw [← hL]
    apply List.mem_map.mpr
    refine ⟨(proto[j], q.queues[j]), ?_, by simp [List.getD_eq_getElem?_getD, hjq]⟩
    apply List.mem_filter.mpr
    refine ⟨?_, ?_⟩
    · apply List.mem_iff_getElem.mpr
      refine ⟨j, by simp only [List.length_zip, inv.hproto]; omega, ?_⟩
      rw [List.getElem_zip]; simp only [inv.hproto]
    · simp only [dtAt_eq proto j hjp, constOf_sized _ hjw, Option.isNone_none]
  have hne : L ≠ [] := by intro e; rw [e] at hmem; simp at hmem
  obtain ⟨m, em, hm⟩ := minList_ge L (M - k) (by
    intro x hx
    rw [← hL] at hx
    obtain ⟨⟨rec, qu⟩, hp, rfl⟩ := List.mem_map.mp hx
    obtain ⟨hz, hc⟩ := List.mem_filter.mp hp
    obtain ⟨i, hi, e1, e2⟩ := inv.mem_zip st rec qu hz
    have hw := sized_of_constOf_none rec.dt hc
    rw [e1] at hw
    simp only [e2]
    exact inv.queue_len i hi hw) hne
  have := minList_le_mem _ m _ em hmem
  rw [em]; simp only [Option.getD_some]; omega

/-- the point the spec says comes `k`-th, as the model represents it -/
def expPoint (proto : List Record) (p : List Int) : List Value :=
  List.zipWith (fun rec v => toValue rec.dt v) proto p

/-- `pop_point` under the invariant: the `k`-th encoded point comes out -/
theorem QInv.pop {k M : Nat} {cursors : List Nat} {q : QR} (st : Static types points proto)
    (inv : QInv types points proto k M cursors q) (hk : k < points.length) (hav : k < M) :
    ∃ q', q.popPoint = some (expPoint proto points[k], q') ∧
      QInv types points proto (k + 1) M cursors q' := by
  have hpk := st.vok _ (List.getElem_mem hk)
  have hnone : (q.proto.zip q.queues).any (fun x : Record × List Value =>
      match x with | (rec, qu) => (constOf rec.dt).isNone && qu.isEmpty) = false := by
    rw [List.any_eq_false]
    intro ⟨rec, qu⟩ hl
    simp only [Bool.and_eq_true, not_and, Bool.not_eq_true]
    intro hc
    obtain ⟨i, hi, e1, e2⟩ := inv.mem_zip st rec qu hl
    have hw := sized_of_constOf_none rec.dt hc
    rw [e1] at hw
    have := inv.queue_len i hi hw
    rw [← e2] at this
    cases qu with
    | nil => simp at this; omega
    | cons a l => rfl
  -- heads and tails, record by record
  have hrec : ∀ i, i < types.length →
      (match constOf (dtAt proto i) with
        | some v => v
        | none => (q.queues.getD i []).headD (.integer 0)) = toValue (dtAt proto i) (points[k].getD i 0) ∧
      RecInv (dtAt proto i) (recordStream types points i) (cursors.getD i 0) (k + 1) M
        (q.streams.getD i RBuf.new)
        (if (constOf (dtAt proto i)).isSome then q.queues.getD i [] else (q.queues.getD i []).tail) := by
    intro i hi
    obtain ⟨hc, hz, hs⟩ := inv.recs i hi
    by_cases hw : (dtAt proto i).bitSize = 0
    · obtain ⟨es, eq⟩ := hz hw
      rw [constOf_zero _ hw]
      simp only [Option.isSome_some, if_true]
      refine ⟨?_, hc, fun _ => ⟨es, eq⟩, fun h => absurd hw h⟩
      exact zero_width_value (st.tmatch i hi) (st.tok i hi) hw _ (hpk.2 i hi)
    · obtain ⟨hrep, eq, hkc, hM⟩ := hs hw
      rw [constOf_sized _ hw]
      simp only [Option.isSome_none, Bool.false_eq_true, if_false]
      have hw0 : 0 < (dtAt proto i).bitSize := by omega
      have hkcnt : k < 8 * cursors.getD i 0 / (dtAt proto i).bitSize := by omega
      have hfield := st.stream_field i hi (cursors.getD i 0) k hk (by
        have h1 : (k + 1) * (dtAt proto i).bitSize
            ≤ 8 * cursors.getD i 0 / (dtAt proto i).bitSize * (dtAt proto i).bitSize :=
          Nat.mul_le_mul_right _ hkcnt
        have := Nat.div_mul_le_self (8 * cursors.getD i 0) (dtAt proto i).bitSize
        omega) hc
      have hdrop : (fieldVals (dtAt proto i) ((recordStream types points i).take (cursors.getD i 0)) 0
            (8 * cursors.getD i 0 / (dtAt proto i).bitSize)).drop k
          = toValue (dtAt proto i) (points[k].getD i 0) ::
            (fieldVals (dtAt proto i) ((recordStream types points i).take (cursors.getD i 0)) 0
              (8 * cursors.getD i 0 / (dtAt proto i).bitSize)).drop (k + 1) := by
        rw [List.drop_eq_getElem_cons (by rw [fieldVals_length]; exact hkcnt)]
        congr 1
        simp only [fieldVals, List.getElem_map, List.getElem_range, Nat.zero_add]
        rw [hfield]
        exact dec_field (st.tmatch i hi) (st.tok i hi) _ (hpk.2 i hi)
      rw [eq, hdrop]
      exact ⟨rfl, hc, fun h => absurd h hw, fun _ => ⟨hrep, rfl, by omega, hM⟩⟩
  have hzl : (q.proto.zip q.queues).length = types.length := by
    simp only [List.length_zip, inv.hproto, st.plen, inv.qlen, Nat.min_self]
  refine ⟨{ q with queues := (q.proto.zip q.queues).map (fun x : Record × List Value =>
      match x with | (rec, qu) => if (constOf rec.dt).isSome then qu else qu.tail) }, ?_,
    ⟨inv.hproto, inv.slen, by simp only [List.length_map, hzl], inv.clen, ?_, inv.wit⟩⟩
  · simp only [QR.popPoint, inv.allConstant_false st, hnone, Bool.false_eq_true, if_false]
    congr 2
    apply List.ext_getElem
    · simp only [List.length_map, hzl, expPoint, List.length_zipWith, st.plen, hpk.1, Nat.min_self]
    · intro i h1 h2
      have hi : i < types.length := by simpa only [List.length_map, hzl] using h1
      have hiq : i < q.queues.length := by rw [inv.qlen]; exact hi
      have hip : i < proto.length := by rw [st.plen]; exact hi
      have hipt : i < points[k].length := by rw [hpk.1]; exact hi
      have := (hrec i hi).1
      simp only [List.getD_eq_getElem?_getD, List.getElem?_eq_getElem hiq, Option.getD_some,
        List.getElem?_eq_getElem hipt] at this
      simp only [expPoint, List.getElem_map, List.getElem_zipWith, List.getElem_zip, inv.hproto,
        dtAt_eq proto i hip]
      exact this
  · intro i hi
    have hiq : i < q.queues.length := by rw [inv.qlen]; exact hi
    have hip : i < proto.length := by rw [st.plen]; exact hi
    have hiz : i < (proto.zip q.queues).length := by rw [← inv.hproto, hzl]; exact hi
    have := (hrec i hi).2
    simp only [List.getD_eq_getElem?_getD, List.getElem?_map, List.getElem?_eq_getElem hiq,
      List.getElem?_eq_getElem hiz, List.getElem_zip, inv.hproto, dtAt_eq proto i hip,
      Option.map_some, Option.getD_some] at this ⊢
    exact this

end
end Layout
end E57

namespace E57
namespace Layout
open Spec

/-! ## 10. the refill loop and the raw iterator over the remaining packets -/

/-- every legal packet is a whole number of words -/
theorem pkt_len_mod4 (streams : List Bytes) (c : List Nat) (p : PacketSpec) (h : PktOk streams.length p) :
    (pktBytes streams c p).length % 4 = 0 := by
  cases p with
  | data lens => rw [pkt_data_length]; unfold pad4; omega
  | index len => obtain ⟨a, b, _⟩ := h; rw [pkt_index_length _ _ _ b]; exact a
  | ignored len => obtain ⟨a, b, _⟩ := h; rw [pkt_ignored_length _ _ _ b]; exact a

theorem pkts_len_mod4 (streams : List Bytes) (ps : List PacketSpec) :
    ∀ c, (∀ p ∈ ps, PktOk streams.length p) → (pktsBytes streams ps c).length % 4 = 0 := by
  induction ps with
  | nil => intro c _; rfl
  | cons p ps ih =>
    intro c h
    have h1 := pkt_len_mod4 streams c p (h p (by simp))
    have h2 := ih (nextCursors streams c p) (fun x hx => h x (by simp [hx]))
    simp only [pktsBytes, List.length_append]; omega

theorem pkt_length_pos (streams : List Bytes) (c : List Nat) (p : PacketSpec) :
    1 ≤ (pktBytes streams c p).length := by
  cases p <;> simp [pktBytes]

theorem pkts_length_ge (streams : List Bytes) (ps : List PacketSpec) :
    ∀ c, ps.length ≤ (pktsBytes streams ps c).length := by
  induction ps with
  | nil => intro c; simp
  | cons p ps ih =>
    intro c
    have := pkt_length_pos streams c p
    have := ih (nextCursors streams c p)
    simp only [pktsBytes, List.length_cons, List.length_append]; omega

/-- state of the decoding of a section after `k` points have been handed out, with the packets
    `todo` still ahead of the reader -/
structure Run (d : Bytes) (types : List RecType) (points : List (List Int)) (proto : List Record)
    (k : Nat) (todo : List PacketSpec) (r : PR) (q : QR) (o M : Nat) (cursors : List Nat) : Prop where
  at_ : At d r o
  al : o % 4 = 0
  holds : Holds d o (pktsBytes (streamsOf types points) todo cursors)
  inv : QInv types points proto k M cursors q
  fin : ∀ i, i < types.length →
    (finalCursors (streamsOf types points) todo cursors).getD i 0 = (recordStream types points i).length
  ok : ∀ p ∈ todo, PktOk types.length p

section
variable {types : List RecType} {points : List (List Int)} {proto : List Record}

/-- with every stream completely appended, all points are in the queues -/
theorem all_available (st : Static types points proto) {k M : Nat} {cursors : List Nat} {q : QR}
    (inv : QInv types points proto k M cursors q)
    (hfin : ∀ i, i < types.length → cursors.getD i 0 = (recordStream types points i).length) :
    points.length ≤ M := by
  obtain ⟨j, hj, hjw, hjM⟩ := inv.wit
  rw [hjM, hfin j hj, st.stream_length j hj]
  have hw0 : 0 < (dtAt proto j).bitSize := by omega
  rw [Nat.le_div_iff_mul_le hw0]
  omega

/-- **one `advance`** on the next packet, whatever its kind: the reader moves to the following
    packet, a data packet's chunks end up in the queues, other packets change nothing -/
theorem advance_step {d : Bytes} (hd : d.length % 1020 = 0) (st : Static types points proto)
    (hne : types ≠ []) (k : Nat) (p : PacketSpec) (ps : List PacketSpec) (r : PR) (q : QR) (o M : Nat)
    (cursors : List Nat) (run : Run d types points proto k (p :: ps) r q o M cursors) :
    ∃ r' q' M', q.advance r = (r', q', true) ∧
      Run d types points proto k ps r' q' (o + (pktBytes (streamsOf types points) cursors p).length) M'
        (nextCursors (streamsOf types points) cursors p) ∧
      ((∀ lens, p ≠ .data lens) → q' = q ∧ M' = M) := by
  obtain ⟨at_, al, holds, inv, fin, ok⟩ := run
  simp only [pktsBytes] at holds
  have hokp := ok p (by simp)
  have hokps : ∀ x ∈ ps, PktOk types.length x := fun x hx => ok x (by simp [hx])
  have hsl := streamsOf_length types points
  have hl4 := pkt_len_mod4 (streamsOf types points) cursors p (by rw [hsl]; exact hokp)
  cases p with
  | data lens =>
    obtain ⟨r1, q1, M1, e, a1, inv1⟩ := advance_data hd q st hne k M cursors lens inv at_ al holds.left hokp
    exact ⟨r1, q1, M1, e, ⟨a1, by omega, holds.right, inv1, fin, hokps⟩, fun h => absurd rfl (h lens)⟩
  | index len =>
    obtain ⟨r1, e, a1⟩ := advance_index hd q (streamsOf types points) cursors len (inv.zw_false st)
      at_ al holds.left (by rw [hsl]; exact hokp)
    obtain ⟨h4, hlo, hhi⟩ := hokp
    rw [pkt_index_length _ _ _ hlo] at hl4 ⊢
    exact ⟨r1, q, M, e, ⟨a1, by omega, holds.right' (by rw [pkt_index_length _ _ _ hlo]), inv, fin, hokps⟩,
      fun _ => ⟨rfl, rfl⟩⟩
  | ignored len =>
    obtain ⟨r1, e, a1⟩ := advance_ignored hd q (streamsOf types points) cursors len (inv.zw_false st)
      at_ al holds.left (by rw [hsl]; exact hokp)
    obtain ⟨h4, hlo, hhi⟩ := hokp
    rw [pkt_ignored_length _ _ _ hlo] at hl4 ⊢
    exact ⟨r1, q, M, e, ⟨a1, by omega, holds.right' (by rw [pkt_ignored_length _ _ _ hlo]), inv, fin, hokps⟩,
      fun _ => ⟨rfl, rfl⟩⟩

theorem refill_ok {d : Bytes} (hd : d.length % 1020 = 0) (st : Static types points proto)
    (hne : types ≠ []) (k : Nat) (hk : k < points.length) :
    ∀ (todo : List PacketSpec) (fuel : Nat) (r : PR) (q : QR) (o M : Nat) (cursors : List Nat),
      todo.length + 1 ≤ fuel → Run d types points proto k todo r q o M cursors →
      ∃ r' q' todo' o' M' cursors', refill fuel q r = (r', q', true) ∧
        Run d types points proto k todo' r' q' o' M' cursors' ∧ k < M' := by
  intro todo
  induction todo with
  | nil =>
    intro fuel r q o M cursors hf run
    have hM := all_available st run.inv run.fin
    cases fuel with
    | zero => omega
    | succ f =>
      refine ⟨r, q, [], o, M, cursors, ?_, run, by omega⟩
      have : q.available ≥ 1 := by rw [run.inv.available_eq st]; omega
      rw [refill_succ, if_pos this]
  | cons p ps ih =>
    intro fuel r q o M cursors hf run
    cases fuel with
    | zero => omega
    | succ f =>
      rw [refill_succ]
      by_cases hav : q.available ≥ 1
      · rw [if_pos hav]
        exact ⟨r, q, p :: ps, o, M, cursors, rfl, run, by rw [run.inv.available_eq st] at hav; omega⟩
      · rw [if_neg hav]
        obtain ⟨r1, q1, M1, e, run1, _⟩ := advance_step hd st hne k p ps r q o M cursors run
        obtain ⟨r', q', todo', o', M', c', e', run', hk'⟩ := ih f r1 q1 _ M1 _ (by simpa using hf) run1
        exact ⟨r', q', todo', o', M', c', by rw [e]; exact e', run', hk'⟩

/-- `n` consecutive calls of `advance` (stopping at the first failure) -/
def advanceN : Nat → QR → PR → PR × QR × Bool
  | 0, q, r => (r, q, true)
  | n + 1, q, r =>
    match q.advance r with
    | (r1, q1, true) => advanceN n q1 r1
    | (r1, q1, false) => (r1, q1, false)

/-- **the queue invariant** after any prefix `done` of the packets ahead of the reader: every
    `advance` succeeds, and the state is again `Run` (the queues hold exactly the complete fields of
    the stream bytes seen so far, the buffers the unconsumed bits, the queues of zero-width records
    stay empty: their value is a constant of the prototype), with the reader at the first packet of `todo` -/
theorem queue_inv {d : Bytes} (hd : d.length % 1020 = 0) (st : Static types points proto)
    (hne : types ≠ []) (k : Nat) :
    ∀ (done todo : List PacketSpec) (r : PR) (q : QR) (o M : Nat) (cursors : List Nat),
      Run d types points proto k (done ++ todo) r q o M cursors →
      ∃ r' q' o' M' cursors', advanceN done.length q r = (r', q', true) ∧
        Run d types points proto k todo r' q' o' M' cursors' := by
  intro done
  induction done with
  | nil => intro todo r q o M cursors run; exact ⟨r, q, o, M, cursors, rfl, run⟩
  | cons p ps ih =>
    intro todo r q o M cursors run
    obtain ⟨r1, q1, M1, e, run1, _⟩ := advance_step hd st hne k p (ps ++ todo) r q o M cursors run
    obtain ⟨r', q', o', M', c', e', run'⟩ := ih todo r1 q1 _ M1 _ run1
    exact ⟨r', q', o', M', c', by simp only [List.length_cons, advanceN, e]; exact e', run'⟩

/-- one call of `next` while points remain: the next encoded point -/
theorem next_ok {d : Bytes} (hd : d.length % 1020 = 0) (st : Static types points proto)
    (hne : types ≠ []) (k : Nat) (hk : k < points.length)
    (todo : List PacketSpec) (r : PR) (q : QR) (o M : Nat) (cursors : List Nat)
    (run : Run d types points proto k todo r q o M cursors) :
    ∃ r' q' todo' o' M' cursors',
      RawIter.next ⟨q, points.length, k⟩ r =
        (r', ⟨q', points.length, k + 1⟩, .value (expPoint proto points[k])) ∧
      Run d types points proto (k + 1) todo' r' q' o' M' cursors' := by
  have hfuel : todo.length + 1 ≤ refillFuel r := by
    have h1 := pkts_length_ge (streamsOf types points) todo cursors
    have h2 := run.holds.le
    have h3 := At.logSize hd run.at_
    unfold refillFuel; omega
  obtain ⟨r', q', todo', o', M', c', e, run', hk'⟩ :=
    refill_ok hd st hne k hk todo _ r q o M cursors hfuel run
  obtain ⟨q'', epop, inv''⟩ := run'.inv.pop st hk hk'
  refine ⟨r', q'', todo', o', M', c', ?_, ⟨run'.at_, run'.al, run'.holds, inv'', run'.fin, run'.ok⟩⟩
  have hlt : ¬ (k ≥ points.length) := by omega
  simp only [RawIter.next, hlt, if_false, e, epop]

theorem run_ok {d : Bytes} (hd : d.length % 1020 = 0) (st : Static types points proto)
    (hne : types ≠ []) : ∀ (n k : Nat), k + n = points.length →
    ∀ (todo : List PacketSpec) (r : PR) (q : QR) (o M : Nat) (cursors : List Nat),
      Run d types points proto k todo r q o M cursors →
      RawIter.run (n + 1) ⟨q, points.length, k⟩ r =
        (points.drop k).map (fun p => Item.value (expPoint proto p)) ++ [.done] := by
  intro n
  induction n with
  | zero =>
    intro k hk todo r q o M cursors _
    have : points.drop k = [] := List.drop_eq_nil_of_le (by omega)
    have hge : k ≥ points.length := by omega
    simp [RawIter.run, RawIter.next, this, hge]
  | succ n ih =>
    intro k hk todo r q o M cursors run
    have hk' : k < points.length := by omega
    obtain ⟨r', q', todo', o', M', c', e, run'⟩ := next_ok hd st hne k hk' todo r q o M cursors run
    rw [RawIter.run, e]
    simp only
    rw [ih (k + 1) (by omega) todo' r' q' o' M' c' run', List.drop_eq_getElem_cons hk']
    simp only [List.map_cons, List.cons_append]

end
end Layout
end E57

namespace E57
namespace Layout
open Spec

/-! ## 11. the section header and `QueueReader::new` -/

theorem hdr_fields (A B C : Bytes) (hA : A.length = 8) (hB : B.length = 8) (hC : C.length = 8) :
    let b := [1] ++ zeros 7 ++ A ++ B ++ C
    b.length = 32 ∧ leVal (b.take 1) = 1 ∧ (b.drop 8).take 8 = A ∧ (b.drop 16).take 8 = B ∧
      (b.drop 24).take 8 = C := by
  intro b
  have e1 : b = ([1] ++ zeros 7) ++ (A ++ (B ++ C)) := by simp [b]
  have e2 : b = ([1] ++ zeros 7 ++ A) ++ (B ++ C) := by simp [b]
  have e3 : b = ([1] ++ zeros 7 ++ A ++ B) ++ C := by simp [b]
  refine ⟨by simp [b, zeros, hA, hB, hC], by simp [b, leVal], ?_, ?_, ?_⟩
  · rw [e1, List.drop_left' (by simp [zeros]), List.take_left' hA]
  · rw [e2, List.drop_left' (by simp [zeros, hA]), List.take_left' hB]
  · rw [e3, List.drop_left' (by simp [zeros, hA, hB]), List.take_of_length_le (by omega)]

theorem readCvHeader_at {d : Bytes} (hd : d.length % 1020 = 0) {r : PR} {s : Nat} (sl dof ix : Nat)
    (h : At d r s)
    (hX : Holds d s ([1] ++ zeros 7 ++ toLE sl 8 ++ toLE dof 8 ++ toLE ix 8)) (hsl : sl % 4 = 0) :
    ∃ r', readCvHeader r = (r', some (sl % 2 ^ 64, dof % 2 ^ 64, ix % 2 ^ 64)) ∧ At d r' (s + 32) := by
  obtain ⟨hlen, f1, f2, f3, f4⟩ := hdr_fields (toLE sl 8) (toLE dof 8) (toLE ix 8)
    (toLE_length _ _) (toLE_length _ _) (toLE_length _ _)
  obtain ⟨r', e, a⟩ := readExact_holds' hd _ 32 h hX hlen
  refine ⟨r', ?_, a⟩
  simp only [readCvHeader, e, f1, f2, f3, f4, leVal_toLE]
  simp [hsl]

/-- the packets before the first data packet are skipped by the seek to `data_offset` -/
theorem skip_pre {d : Bytes} (streams : List Bytes) (c : List Nat) :
    ∀ (packets : List PacketSpec) (pos o : Nat), (∀ p ∈ packets, PktOk streams.length p) →
      Holds d o (pktsBytes streams packets c) →
      match firstData packets pos with
      | some x => ∃ todo, pos ≤ x ∧ Holds d (o + (x - pos)) (pktsBytes streams todo c) ∧
          finalCursors streams todo c = finalCursors streams packets c ∧
          (∀ p ∈ todo, PktOk streams.length p) ∧ (x - pos) % 4 = 0 ∧ todo ≠ []
      | none => finalCursors streams packets c = c := by
  intro packets
  induction packets with
  | nil => intro pos o _ _; rfl
  | cons p ps ih =>
    intro pos o hok hX
    have hokps : ∀ x ∈ ps, PktOk streams.length x := fun x hx => hok x (by simp [hx])
    cases p with
    | data lens =>
      exact ⟨.data lens :: ps, Nat.le_refl _, by simpa using hX, rfl, hok, by simp, by simp⟩
    | index len =>
      obtain ⟨h4, hlo, hhi⟩ := hok (.index len) (by simp)
      simp only [pktsBytes, nextCursors] at hX
      have := ih (pos + len) (o + len) hokps (hX.right' (by rw [pkt_index_length _ _ _ hlo]))
      simp only [firstData, finalCursors, nextCursors]
      split at this
      · rename_i x hx
        obtain ⟨todo, a, b, c', dd, e, f⟩ := this
        refine ⟨todo, by omega, ?_, c', dd, by omega, f⟩
        rw [show o + (x - pos) = o + len + (x - (pos + len)) by omega]; exact b
      · exact this
    | ignored len =>
      obtain ⟨h4, hlo, hhi⟩ := hok (.ignored len) (by simp)
      simp only [pktsBytes, nextCursors] at hX
      have := ih (pos + len) (o + len) hokps (hX.right' (by rw [pkt_ignored_length _ _ _ hlo]))
      simp only [firstData, finalCursors, nextCursors]
      split at this
      · rename_i x hx
        obtain ⟨todo, a, b, c', dd, e, f⟩ := this
        refine ⟨todo, by omega, ?_, c', dd, by omega, f⟩
        rw [show o + (x - pos) = o + len + (x - (pos + len)) by omega]; exact b
      · exact this

/-- total number of bytes of record `i` carried by the data packets -/
def chunkTotal (i : Nat) : List PacketSpec → Nat
  | [] => 0
  | .data lens :: ps => lens.getD i 0 + chunkTotal i ps
  | _ :: ps => chunkTotal i ps

section
variable {types : List RecType} {points : List (List Int)}

/-- when the chunk lengths add up to the stream lengths, every stream is emitted completely -/
theorem final_of_sum : ∀ (packets : List PacketSpec) (c : List Nat), c.length = types.length →
    (∀ i, i < types.length → c.getD i 0 + chunkTotal i packets = (recordStream types points i).length) →
    ∀ i, i < types.length →
      (finalCursors (streamsOf types points) packets c).getD i 0 = (recordStream types points i).length := by
  intro packets
  induction packets with
  | nil => intro c _ h i hi; simpa [chunkTotal, finalCursors] using h i hi
  | cons p ps ih =>
    intro c hc h i hi
    cases p with
    | data lens =>
      simp only [finalCursors]
      apply ih _ (nextCursors_length _ _ hc) _ i hi
      intro j hj
      have := h j hj
      simp only [chunkTotal] at this
      rw [nextCursors_getD c lens j hj]
      simp only [List.length_take, List.length_drop]; omega
    | index len => simp only [finalCursors, nextCursors]; exact ih c hc (by simpa [chunkTotal] using h) i hi
    | ignored len => simp only [finalCursors, nextCursors]; exact ih c hc (by simpa [chunkTotal] using h) i hi

end

/-- **legal layouts** of a compressed-vector section -/
def Legal (types : List RecType) (points : List (List Int)) (packets : List PacketSpec) : Prop :=
  0 < types.length ∧
  (∀ i (h : i < types.length), TypeOk types[i]) ∧
  (∀ p ∈ points, p.length = types.length ∧ ∀ i (h : i < types.length), ValOk types[i] (p.getD i 0)) ∧
  (∀ p ∈ packets, PktOk types.length p) ∧
  (∀ i, i < types.length → chunkTotal i packets = (recordStream types points i).length)

instance (types : List RecType) (points : List (List Int)) (packets : List PacketSpec) :
    Decidable (Legal types points packets) := by
  unfold Legal; infer_instance

end Layout
end E57

namespace E57
namespace Layout
open Spec

/-! ## 12. `QueueReader::new`, the degenerate all-zero-width cloud, and the capstone -/

/-- the file context of the property: a healthy reader over the paged image of `d`, a legal
    section at logical offset `s`, and a point cloud entry that points at it -/
structure FileCtx (types : List RecType) (points : List (List Int)) (packets : List PacketSpec)
    (d : Bytes) (r0 : PR) (s : Nat) (pc : PointCloud) : Prop where
  hd : d.length % 1020 = 0
  hphys : l2p d.length < 2 ^ 64
  hinv : r0.CacheInv
  hps : r0.pageSize = 1024
  hdata : r0.dev.data = image d
  hs4 : s % 4 = 0
  hsec : (d.drop s).take (encodeSection s (.cv types points packets)).length
      = encodeSection s (.cv types points packets)
  hoff : pc.fileOffset = l2p s
  hrec : pc.records = points.length
  hplen : pc.prototype.length = types.length
  hmatch : ∀ i (h1 : i < types.length) (h2 : i < pc.prototype.length), TypeMatch types[i] pc.prototype[i].dt

section
variable {types : List RecType} {points : List (List Int)} {packets : List PacketSpec}
  {d : Bytes} {r0 : PR} {s : Nat} {pc : PointCloud}

theorem static_of (hL : Legal types points packets) (fc : FileCtx types points packets d r0 s pc) :
    Static types points pc.prototype := by
  obtain ⟨_, tok, vok, _, _⟩ := hL
  refine ⟨fc.hplen, ?_, tok, vok⟩
  intro i hi
  have hip : i < pc.prototype.length := by rw [fc.hplen]; exact hi
  rw [← dtAt_eq _ i hip]
  exact fc.hmatch i hi hip

/-- the section bytes are in the stream: header at `s`, packets at `s + 32` -/
theorem section_holds (fc : FileCtx types points packets d r0 s pc) :
    ∃ ix, Holds d s ([1] ++ zeros 7 ++
        toLE (32 + (pktsBytes (streamsOf types points) packets (List.replicate types.length 0)).length) 8 ++
        toLE (dataOff s (firstData packets 32)) 8 ++ toLE ix 8) ∧
      Holds d (s + 32) (pktsBytes (streamsOf types points) packets (List.replicate types.length 0)) := by
  obtain ⟨ix, esec⟩ := encodeSection_cv s types points packets
  have hsec := fc.hsec
  rw [esec] at hsec
  have hX := Holds.of_slice d s _ hsec (by simp)
  have hhl : ∀ a b c : Nat, (([1] : Bytes) ++ zeros 7 ++ toLE a 8 ++ toLE b 8 ++ toLE c 8).length = 32 := by
    intro a b c; simp [toLE_length, zeros]
  have hXp := hX.right
  rw [hhl] at hXp
  exact ⟨ix, hX.left, hXp⟩

/-- the `data_offset` written by the encoder fits into the `u64` field -/
theorem dataOff_lt (hL : Legal types points packets) (fc : FileCtx types points packets d r0 s pc) :
    dataOff s (firstData packets 32) < 2 ^ 64 := by
  obtain ⟨hn, tok, vok, pok, hsum⟩ := hL
  obtain ⟨ix, _, hXp⟩ := section_holds fc
  have hsl := streamsOf_length types points
  have hpok : ∀ p ∈ packets, PktOk (streamsOf types points).length p := by rw [hsl]; exact pok
  have hskip := skip_pre (d := d) (streamsOf types points) (List.replicate types.length 0) packets 32 (s + 32)
    hpok hXp
  cases hfd : firstData packets 32 with
  | none => simp [dataOff]
  | some x =>
    rw [hfd] at hskip
    obtain ⟨todo, h32, hT, _, _, _, hne⟩ := hskip
    have := hT.le
    have := fc.hphys
    have : l2p (s + x) ≤ l2p d.length := by unfold l2p; omega
    simp only [dataOff]; omega

/-- the queue reader `QueueReader::new` builds -/
def q0 (pc : PointCloud) : QR :=
  ⟨pc.prototype, List.replicate pc.prototype.length RBuf.new, List.replicate pc.prototype.length []⟩

/-- `QueueReader::new` succeeds and leaves the reader at the first data packet (at the start of
    the file when the section has no data packet) -/
theorem QR_new_at (hL : Legal types points packets) (fc : FileCtx types points packets d r0 s pc) :
    ∃ r1 o, QR.new pc r0 = (r1, some (q0 pc)) ∧ At d r1 o ∧
      Holds d (s + 32) (pktsBytes (streamsOf types points) packets (List.replicate types.length 0)) ∧
      match firstData packets 32 with
      | some x => o = s + x
      | none => o = 0 := by
  obtain ⟨hn, tok, vok, pok, hsum⟩ := hL
  have hd := fc.hd
  have hat0 : At d r0 r0.offset := ⟨fc.hinv, fc.hps, fc.hdata, rfl⟩
  obtain ⟨ix, esec⟩ := encodeSection_cv s types points packets
  have hsec := fc.hsec
  rw [esec] at hsec
  have hX := Holds.of_slice d s _ hsec (by simp)
  have hhl : ∀ a b c : Nat, (([1] : Bytes) ++ zeros 7 ++ toLE a 8 ++ toLE b 8 ++ toLE c 8).length = 32 := by
    intro a b c; simp [toLE_length, zeros]
  have hXp := hX.right
  rw [hhl] at hXp
  have hsl := streamsOf_length types points
  have hpok : ∀ p ∈ packets, PktOk (streamsOf types points).length p := by rw [hsl]; exact pok
  have hmod := pkts_len_mod4 (streamsOf types points) packets (List.replicate types.length 0) hpok
  -- seek to the section, read its header
  have hslt : s < d.length := by have := hX.left.le; rw [hhl] at this; omega
  obtain ⟨r1, e1, a1⟩ := seek_at hd s hat0 hslt
  obtain ⟨r2, e2, a2⟩ := readCvHeader_at hd _ _ _ a1 hX.left (by omega)
  -- seek to the data offset
  have key : ∃ r3 o, r2.seekPhysical (dataOff s (firstData packets 32) % 2 ^ 64) = .ok (r3, o) ∧ At d r3 o ∧
      match firstData packets 32 with
      | some x => o = s + x
      | none => o = 0 := by
    have hskip := skip_pre (d := d) (streamsOf types points) (List.replicate types.length 0) packets 32 (s + 32)
      hpok hXp
    cases hfd : firstData packets 32 with
    | none =>
      obtain ⟨r3, e3, a3⟩ := seek_zero hd a2
      exact ⟨r3, 0, by simpa [dataOff] using e3, a3, rfl⟩
    | some x =>
      rw [hfd] at hskip
      obtain ⟨todo, h32, hT, _, _, _, hne⟩ := hskip
      have hlen1 : 1 ≤ (pktsBytes (streamsOf types points) todo (List.replicate types.length 0)).length := by
        have := pkts_length_ge (streamsOf types points) todo (List.replicate types.length 0)
        have : 0 < todo.length := List.length_pos_iff.mpr hne
        omega
      have hxlt : s + x < d.length := by have := hT.le; omega
      have hbig : l2p (s + x) < 2 ^ 64 := by
        have := fc.hphys
        have : l2p (s + x) ≤ l2p d.length := by unfold l2p; omega
        omega
      obtain ⟨r3, e3, a3⟩ := seek_at hd (s + x) a2 hxlt
      refine ⟨r3, s + x, ?_, a3, rfl⟩
      simp only [dataOff, Nat.mod_eq_of_lt hbig]; exact e3
  obtain ⟨r3, o, e3, a3, ho⟩ := key
  refine ⟨r3, o, ?_, a3, hXp, ho⟩
  simp only [QR.new, fc.hoff, e1, e2, e3, q0]

/-- the initial queue state satisfies the invariant -/
theorem qinv_init (st : Static types points pc.prototype)
    (hsized : ∃ i, i < types.length ∧ (dtAt pc.prototype i).bitSize ≠ 0) :
    QInv types points pc.prototype 0 0 (List.replicate types.length 0) (q0 pc) := by
  have hget : ∀ i, (List.replicate types.length 0).getD i 0 = 0 := by
    intro i; simp [List.getD_eq_getElem?_getD, List.getElem?_replicate]; split <;> rfl
  refine ⟨rfl, by simp [q0, st.plen], by simp [q0, st.plen], by simp, ?_, ?_⟩
  · intro i hi
    have hi' : i < pc.prototype.length := by rw [st.plen]; exact hi
    have hs : (q0 pc).streams.getD i RBuf.new = RBuf.new := by
      simp [q0, List.getD_eq_getElem?_getD, hi']
    have hq : (q0 pc).queues.getD i [] = [] := by
      simp [q0, List.getD_eq_getElem?_getD, hi']
    rw [hs, hq, hget]
    refine ⟨Nat.zero_le _, fun _ => ⟨rfl, by simp⟩, fun _ => ⟨?_, ?_, by simp, by simp⟩⟩
    · simpa using RBuf.rep_new
    · simp [fieldVals]
  · obtain ⟨i, hi, hw⟩ := hsized
    exact ⟨i, hi, hw, by rw [hget]; simp⟩

/-- after `QueueReader::new` the decoding state is `Run` with no point handed out -/
theorem run_init (hL : Legal types points packets) (fc : FileCtx types points packets d r0 s pc)
    (hsized : ∃ i, i < types.length ∧ (dtAt pc.prototype i).bitSize ≠ 0) :
    ∃ r1 todo o, QR.new pc r0 = (r1, some (q0 pc)) ∧
      Run d types points pc.prototype 0 todo r1 (q0 pc) o 0 (List.replicate types.length 0) := by
  have st := static_of hL fc
  obtain ⟨r1, o, e, a, hXp, ho⟩ := QR_new_at hL fc
  obtain ⟨hn, tok, vok, pok, hsum⟩ := hL
  have hsl := streamsOf_length types points
  have hpok : ∀ p ∈ packets, PktOk (streamsOf types points).length p := by rw [hsl]; exact pok
  have hfinal := final_of_sum (types := types) (points := points) packets (List.replicate types.length 0) (by simp)
    (by intro i hi
        have : (List.replicate types.length 0).getD i 0 = 0 := by
          simp [List.getD_eq_getElem?_getD, List.getElem?_replicate]; split <;> rfl
        rw [this, Nat.zero_add]; exact hsum i hi)
  have hskip := skip_pre (d := d) (streamsOf types points) (List.replicate types.length 0) packets 32 (s + 32)
    hpok hXp
  have inv := qinv_init st hsized
  have hs4 := fc.hs4
  cases hfd : firstData packets 32 with
  | none =>
    rw [hfd] at hskip ho
    subst ho
    refine ⟨r1, [], 0, e, ⟨a, rfl, Holds.nil (Nat.zero_le _), inv, ?_, by simp⟩⟩
    intro i hi
    rw [← hfinal i hi, hskip]; rfl
  | some x =>
    rw [hfd] at hskip ho
    subst ho
    obtain ⟨todo, h32, hT, hfc, hok, hx4, _⟩ := hskip
    refine ⟨r1, todo, s + x, e, ⟨a, by omega, ?_, inv, ?_, by rw [← hsl]; exact hok⟩⟩
    · rw [show s + x = s + 32 + (x - 32) by omega]; exact hT
    · intro i hi; rw [hfc]; exact hfinal i hi

/-! ### the degenerate cloud: every record has width zero, no packet is ever read -/

theorem minList_replicate (n L : Nat) : minList (List.replicate (n + 1) L) = some L := by
  induction n with
  | zero => rfl
  | succ n ih => rw [List.replicate_succ, minList, ih]; simp

theorem zw_next (proto : List Record) (hne : proto ≠ []) (hz : ∀ rec ∈ proto, rec.dt.bitSize = 0)
    (ss : List RBuf) (N k : Nat) (hk : k < N) (r : PR) :
    RawIter.next ⟨⟨proto, ss, List.replicate proto.length []⟩, N, k⟩ r =
      (r, ⟨⟨proto, ss, List.replicate proto.length []⟩, N, k + 1⟩,
        .value (proto.map (fun rec => zeroValue rec.dt))) := by
  obtain ⟨n, hn⟩ : ∃ n, proto.length = n + 1 := ⟨proto.length - 1, by
    have := List.length_pos_iff.mpr hne; omega⟩
  have hlt : ¬ (k ≥ N) := by omega
  have hzw : (QR.mk proto ss (List.replicate proto.length [])).zw = true := by
    simp only [QR.zw, QR.allZeroWidth, Bool.and_eq_true, List.all_eq_true, Bool.not_eq_true',
      List.isEmpty_eq_false_iff]
    exact ⟨fun rec hrec => by simpa using hz rec hrec, hne⟩
  have hac : ∀ qs, (QR.mk proto ss qs).allConstant = true := by
    intro qs
    rw [← QR.zw_eq_allConstant]
    exact hzw
  have hav0 : ¬ ((QR.mk proto ss (List.replicate proto.length [])).available ≥ 1) := by
    simp only [QR.available, QR.countedLengths, hac, if_true, List.map_replicate, List.length_nil, hn,
      minList_replicate]
    simp
  have hzip : (proto.zip (List.replicate proto.length ([] : List Value))).map
      (fun (x : Record × List Value) => x.2 ++ [zeroValue x.1.dt]) = proto.map (fun rec => [zeroValue rec.dt]) := by
    apply List.ext_getElem
    · simp
    · intro i h1 h2; simp
  have hav1 : (QR.mk proto ss (proto.map (fun rec => [zeroValue rec.dt]))).available ≥ 1 := by
    have : (proto.map (fun rec => [zeroValue rec.dt])).map List.length = List.replicate (n + 1) 1 := by
      rw [List.map_map, ← hn]
      apply List.ext_getElem
      · simp
      · intro i h1 h2; simp
    have hne' : (proto.map (fun rec => [zeroValue rec.dt])).isEmpty = false := by
      cases proto with
      | nil => exact absurd rfl hne
      | cons a l => rfl
    simp only [QR.available, QR.countedLengths, hac, if_true, hne', this, minList_replicate]
    simp
  have hfuel : refillFuel r = (r.logSize) + 1 + 1 := rfl
  have hadv : (QR.mk proto ss (List.replicate proto.length [])).advance r =
      (r, QR.mk proto ss (proto.map (fun rec => [zeroValue rec.dt])), true) := by
    rw [advance_eq, hzw]
    simp only [if_true]
    rw [hzip]
  have hrefill : refill (refillFuel r) (QR.mk proto ss (List.replicate proto.length [])) r =
      (r, QR.mk proto ss (proto.map (fun rec => [zeroValue rec.dt])), true) := by
    rw [hfuel, refill_succ, if_neg hav0, hadv]
    simp only
    rw [refill_succ, if_pos hav1]
  have hany : (proto.map (fun rec => [zeroValue rec.dt])).any List.isEmpty = false := by
    rw [List.any_eq_false]
    intro l hl
    obtain ⟨rec, _, rfl⟩ := List.mem_map.mp hl
    simp
  have hpop : (QR.mk proto ss (proto.map (fun rec => [zeroValue rec.dt]))).popPoint =
      some (proto.map (fun rec => zeroValue rec.dt), QR.mk proto ss (List.replicate proto.length [])) := by
    have hq : List.map (List.tail ∘ fun rec : Record => [zeroValue rec.dt]) proto
        = List.replicate proto.length ([] : List Value) := by
      apply List.ext_getElem
      · simp
      · intro i h1 h2; simp
    simp only [QR.popPoint, hac, if_true, hany, Bool.false_eq_true, if_false, List.map_map, hq]
    rfl
  simp only [RawIter.next, hlt, if_false, hrefill, hpop]

theorem zw_run (proto : List Record) (hne : proto ≠ []) (hz : ∀ rec ∈ proto, rec.dt.bitSize = 0)
    (ss : List RBuf) (N : Nat) (r : PR) : ∀ (n k : Nat), k + n = N →
    RawIter.run (n + 1) ⟨⟨proto, ss, List.replicate proto.length []⟩, N, k⟩ r =
      List.replicate n (.value (proto.map (fun rec => zeroValue rec.dt))) ++ [.done] := by
  intro n
  induction n with
  | zero =>
    intro k hk
    have hge : k ≥ N := by omega
    simp [RawIter.run, RawIter.next, hge]
  | succ n ih =>
    intro k hk
    rw [RawIter.run, zw_next proto hne hz ss N k (by omega) r]
    simp only
    rw [ih (k + 1) (by omega), List.replicate_succ]
    rfl

end
end Layout
end E57

namespace E57
namespace Layout
open Spec

/-! ## 13. the capstone -/

section
variable {types : List RecType} {points : List (List Int)} {packets : List PacketSpec}
  {d : Bytes} {r0 : PR} {s : Nat} {pc : PointCloud}

/-- `CompressedVectorSectionHeader::read` at the start of a legal section -/
theorem readCvHeader_section (hL : Legal types points packets)
    (fc : FileCtx types points packets d r0 s pc) {r : PR} (h : At d r s) :
    ∃ r' ix, readCvHeader r =
        (r', some (32 + (pktsBytes (streamsOf types points) packets (List.replicate types.length 0)).length,
          dataOff s (firstData packets 32), ix)) ∧ At d r' (s + 32) := by
  have hdo := dataOff_lt hL fc
  obtain ⟨hn, tok, vok, pok, hsum⟩ := hL
  have hd := fc.hd
  obtain ⟨ix, esec⟩ := encodeSection_cv s types points packets
  have hsec := fc.hsec
  rw [esec] at hsec
  have hX := Holds.of_slice d s _ hsec (by simp)
  have hsl := streamsOf_length types points
  have hpok : ∀ p ∈ packets, PktOk (streamsOf types points).length p := by rw [hsl]; exact pok
  have hmod := pkts_len_mod4 (streamsOf types points) packets (List.replicate types.length 0) hpok
  obtain ⟨r2, e2, a2⟩ := readCvHeader_at hd _ _ _ h hX.left (by omega)
  refine ⟨r2, ix % 2 ^ 64, ?_, a2⟩
  rw [e2]
  have hle := hX.le
  have hphys := fc.hphys
  have : 32 + (pktsBytes (streamsOf types points) packets (List.replicate types.length 0)).length < 2 ^ 64 := by
    simp only [List.length_append, List.length_cons, List.length_nil, toLE_length, zeros,
      List.length_replicate] at hle
    unfold l2p at hphys; omega
  rw [Nat.mod_eq_of_lt this, Nat.mod_eq_of_lt hdo]

theorem hz_of_not_sized (st : Static types points pc.prototype)
    (h : ¬ ∃ i, i < types.length ∧ (dtAt pc.prototype i).bitSize ≠ 0) :
    ∀ rec ∈ pc.prototype, rec.dt.bitSize = 0 := by
  intro rec hrec
  obtain ⟨i, hi, e⟩ := List.mem_iff_getElem.mp hrec
  false_or_by_contra
  rename_i hne
  apply h
  refine ⟨i, by rw [← st.plen]; exact hi, ?_⟩
  rw [← dtAt_eq _ i hi, e]; exact hne

/-- **C03/C01 core.**  Whatever legal layout was chosen for a compressed-vector section — any split
    of each record's byte stream over the data packets (unequal per record, values straddling
    packets, empty chunks), index and ignored packets anywhere, the section anywhere relative to the
    page boundaries — `QueueReader::new` succeeds and the raw iterator returns exactly the encoded
    points, in order, bit-identical, `points.length` of them, and then `done`. -/
theorem C03_reader_decodes_any_layout (hL : Legal types points packets)
    (fc : FileCtx types points packets d r0 s pc) :
    ∃ r1 q, QR.new pc r0 = (r1, some q) ∧
      RawIter.run (points.length + 1) ⟨q, pc.records, 0⟩ r1 =
        points.map (fun p => Item.value (expPoint pc.prototype p)) ++ [.done] := by
  have st := static_of hL fc
  have hne : types ≠ [] := by
    intro e; have := hL.1; rw [e] at this; simp at this
  rw [fc.hrec]
  by_cases hsized : ∃ i, i < types.length ∧ (dtAt pc.prototype i).bitSize ≠ 0
  · obtain ⟨r1, todo, o, e, run⟩ := run_init hL fc hsized
    refine ⟨r1, q0 pc, e, ?_⟩
    have := run_ok fc.hd st hne points.length 0 (by omega) todo r1 (q0 pc) o 0 _ run
    simpa using this
  · obtain ⟨r1, o, e, _, _, _⟩ := QR_new_at hL fc
    have hz := hz_of_not_sized st hsized
    have hpne : pc.prototype ≠ [] := by
      intro e
      have := st.plen; rw [e] at this
      exact hne (List.length_eq_zero_iff.mp this.symm)
    refine ⟨r1, q0 pc, e, ?_⟩
    have := zw_run pc.prototype hpne hz (List.replicate pc.prototype.length RBuf.new) points.length r1
      points.length 0 (by omega)
    unfold q0
    rw [this]
    congr 1
    apply List.ext_getElem
    · simp
    · intro k h1 h2
      have hk : k < points.length := by simpa using h2
      obtain ⟨hpl, hv⟩ := st.vok _ (List.getElem_mem hk)
      simp only [List.getElem_replicate, List.getElem_map]
      congr 1
      apply List.ext_getElem
      · simp [expPoint, hpl, st.plen]
      · intro i h3 h4
        have hi : i < pc.prototype.length := by simpa using h3
        have hi' : i < types.length := by rw [← st.plen]; exact hi
        have hip : i < points[k].length := by rw [hpl]; exact hi'
        simp only [List.getElem_map, expPoint, List.getElem_zipWith]
        have := zero_width_value (st.tmatch i hi') (st.tok i hi')
          (by rw [← dtAt_eq _ i hi]; exact hz _ (List.getElem_mem hi)) _ (hv i hi')
        rw [← dtAt_eq _ i hi] at this
        rw [this]
        simp [List.getD_eq_getElem?_getD, hip]

/-- the same, call by call: the `k`-th call of `next` returns point `k`, call `points.length`
    returns `done` -/
theorem C03_kth_item (hL : Legal types points packets) (fc : FileCtx types points packets d r0 s pc) :
    ∃ r1 q, QR.new pc r0 = (r1, some q) ∧
      (∀ k (hk : k < points.length),
        (RawIter.run (points.length + 1) ⟨q, pc.records, 0⟩ r1)[k]? =
          some (.value (expPoint pc.prototype points[k]))) ∧
      (RawIter.run (points.length + 1) ⟨q, pc.records, 0⟩ r1)[points.length]? = some .done := by
  obtain ⟨r1, q, e, hrun⟩ := C03_reader_decodes_any_layout hL fc
  refine ⟨r1, q, e, ?_, ?_⟩
  · intro k hk
    rw [hrun, List.getElem?_append_left (by simpa using hk)]
    simp [hk]
  · rw [hrun, List.getElem?_append_right (by simp)]
    simp

end

/-! ### the hypotheses are satisfiable: every legal section can be put into a file -/

/-- for every section and every word-aligned logical offset `s` there is a file context: the
    logical stream `zeros s ++ section ++ zero fill`, the reader `PagedReader::new` builds on its
    paged image, and the point cloud entry with the canonical prototype -/
theorem fileCtx_exists (types : List RecType) (points : List (List Int)) (packets : List PacketSpec)
    (s : Nat) (hs4 : s % 4 = 0)
    (hsmall : s + (encodeSection s (.cv types points packets)).length < 2 ^ 62) :
    ∃ d r0 pc, FileCtx types points packets d r0 s pc ∧
      pc.prototype = types.map (fun t => ⟨.cartesianX, toDataType t⟩) := by
  generalize hsec : encodeSection s (.cv types points packets) = sec at hsmall
  obtain ⟨ix, esec⟩ := encodeSection_cv s types points packets
  have hL : 32 ≤ sec.length := by
    rw [← hsec, esec]; simp [toLE_length, zeros]; omega
  let pad := (1020 - (s + sec.length) % 1020) % 1020
  let d : Bytes := zeros s ++ (sec ++ zeros pad)
  have hdl : d.length = s + sec.length + pad := by simp [d, zeros]; omega
  have hd : d.length % 1020 = 0 := by rw [hdl]; simp only [pad]; omega
  have hne : d ≠ [] := by
    intro e; have := congrArg List.length e; rw [hdl, List.length_nil] at this; omega
  obtain ⟨r0, e0, _, _, _⟩ := pr_new_image d 0 hd hne
  have hdata := pr_new_data _ _ _ e0
  let pc : PointCloud :=
    { fileOffset := l2p s
      records := points.length
      prototype := types.map (fun t => ⟨.cartesianX, toDataType t⟩) }
  refine ⟨d, r0, pc, ?_, rfl⟩
  refine ⟨hd, ?_, pr_new_inv _ _ _ e0, hdata.2.1, hdata.1, hs4, ?_, rfl, rfl, by simp [pc], ?_⟩
  · have hpad : pad < 1020 := Nat.mod_lt _ (by omega)
    have h62 : (2 : Nat) ^ 62 = 4611686018427387904 := by decide
    have h64 : (2 : Nat) ^ 64 = 18446744073709551616 := by decide
    rw [hdl, h64]; rw [h62] at hsmall; unfold l2p; omega
  · rw [hsec]
    simp only [d]
    rw [List.drop_left' (by simp [zeros]), List.take_left' rfl]
  · intro i h1 h2
    simp only [pc, List.getElem_map]
    exact typeMatch_toDataType _

/-- **end to end**, without any hypothesis about the file: encode a legal section at any aligned
    offset, page it, open it, read it back -/
theorem C03_roundtrip (types : List RecType) (points : List (List Int)) (packets : List PacketSpec)
    (hL : Legal types points packets) (s : Nat) (hs4 : s % 4 = 0)
    (hsmall : s + (encodeSection s (.cv types points packets)).length < 2 ^ 62) :
    ∃ d r0 pc r1 q, FileCtx types points packets d r0 s pc ∧ QR.new pc r0 = (r1, some q) ∧
      RawIter.run (points.length + 1) ⟨q, pc.records, 0⟩ r1 =
        points.map (fun p => Item.value (expPoint pc.prototype p)) ++ [.done] := by
  obtain ⟨d, r0, pc, fc, _⟩ := fileCtx_exists types points packets s hs4 hsmall
  obtain ⟨r1, q, e, h⟩ := C03_reader_decodes_any_layout hL fc
  exact ⟨d, r0, pc, r1, q, fc, e, h⟩

/-! ### non-vacuity -/

/-- two records (`f32`, integer 0..7 = 3 bits), three points, two data packets with an ignored
    packet between them; the first packet carries 5 of the 12 float bytes (it splits the second
    value) and 1 of the 2 integer bytes (the third 3-bit value straddles the byte boundary) -/
example : Legal [.f32, .int 0 7] [[0x3f800000, 5], [0x40000000, 7], [0, 2]]
    [.data [5, 1], .ignored 8, .data [7, 1]] := by decide

/-- also with an index packet first and an empty chunk -/
example : Legal [.f32, .int 0 7] [[0x3f800000, 5], [0x40000000, 7], [0, 2]]
    [.index 16, .data [0, 2], .ignored 4, .data [12, 0]] := by decide

end Layout
end E57



namespace E57
export Layout (Legal TypeMatch toDataType toValue FileCtx
  readPacketHeader_data readPacketHeader_index readPacketHeader_ignored readCvHeader_section QR_new_at
  advance_data advance_index advance_ignored advance_step queue_inv
  C03_reader_decodes_any_layout C03_kth_item C03_roundtrip fileCtx_exists)
end E57

/-! ## axioms used -/
