/-
C01/C02 core: every section the point-cloud writer finalizes is a legal compressed-vector section.

  * `toRecType`, `rawOf`, `specTypes`, `specPoints` — the specification view of prototype and points
  * `bitSize_eq_bits`     — `integer_bits` = the specification's least width (`find?` over `range 65`)
  * `StreamRep`, `DataType.write_content`, `writePoints_content`, `stream_refines`
                          — per record: drained bytes ++ buffer = `Spec.streamBytes` of the fields
                            (value − minimum | float bit pattern, LSB first, contiguous) of the points
                            already moved out of the buffer
  * `pktBytes`, `wbdTail_abs`, `packet_bytes`, `pktBytes_eq_spec`
                          — one `write_buffer_to_disk` writes nothing or exactly one data packet,
                            byte for byte the packet `Spec.encodePackets` lays out
  * `wbdChunks`, `addPointsChunks`, `drainChunks`, `finalizeChunks`, `sessionChunks`, `emitted`
                          — ghost list of the packets of a session, by recursion on the writer run
  * `LayIO`, `Lay`, `new_lay`, `addPoints_lay`, `drainLoop_lay`, `wbd_last`, `finalize_lay`
                          — the layout invariant through the whole session
  * `encodePackets_data`, `encodeSection_cv` — the specification encoder produces the same bytes
  * `LegalPackets`, `SectionLayout`, `writer_layout` (conditional), `writer_layout_legal` (total)
  * `new_dataOffset`      — data offset = `l2p (s + 32)` = physical position behind the header, also
                            when the header straddles a page boundary
  * FINDING `empty_section_deviates`, `no_points_no_packets`, `LayoutEx.checkEmpty_true`:
      for a section without packets (no points / only zero-width records) the writer stores the data
      offset `l2p (s + 32)`, `Spec.encodeSection` stores 0; the byte-for-byte equality with
      `Spec.encodeSection` therefore holds iff at least one packet was written
      (`SectionLayout.spec`); `SectionLayout.window` is the statement valid in all cases.
  * `LayoutEx` — a concrete session (header straddling the page boundary at 1020) evaluated by
      `decide +kernel`, and all hypotheses of the capstone discharged for it.
Core Lean only; every statement is proved, nothing is assumed beyond the hypotheses shown.
-/
import E57.Proofs.WriterProps
import E57.Spec.Encoder
namespace E57
open Spec

/-! # Part 0 — the specification view of prototype and points -/

def toRecType : DataType → Spec.RecType
  | .single _ _ => .f32
  | .double _ _ => .f64
  | .scaled mn mx _ _ => .int mn mx
  | .integer mn mx => .int mn mx

/-- the raw value of a point entry: the integer, or the float bit pattern -/
def rawOf : Value → Int
  | .single b => (b.toNat : Int)
  | .double b => (b.toNat : Int)
  | .scaled i => i
  | .integer i => i

theorem find_range_least (n b : Nat) (p : Nat → Bool) (hb : b < n) (hp : p b = true)
    (hl : ∀ j, j < b → p j = false) : (List.range n).find? p = some b := by
  rw [List.find?_range_eq_some]
  refine ⟨hp, List.mem_range.2 hb, ?_⟩
  intro j hj; rw [hl j hj]; rfl

/-- the specification's width (least `w ≤ 64` with `max - min < 2^w`) is `integer_bits` -/
theorem intBits_eq (mn mx : Int) (hmn : inI64 mn = true) (hmx : inI64 mx = true) :
    (Spec.RecType.int mn mx).bits = integerBits mn mx := by
  show ((List.range 65).find? (fun w => decide ((mx - mn).toNat < 2 ^ w))).getD 64 = integerBits mn mx
  by_cases hle : mn ≤ mx
  · have h64 := C12.integerBits_le_64 mn mx hle hmn hmx
    obtain ⟨h1, h2⟩ := C12.integerBits_least mn mx hle
    rw [find_range_least 65 (integerBits mn mx) (fun w => decide ((mx - mn).toNat < 2 ^ w)) (by omega)
      (by simpa using h1)]
    · rfl
    · intro j hj
      simp only [decide_eq_false_iff_not]
      intro hlt
      have := h2 j hlt
      omega
  · have e : integerBits mn mx = 0 := by
      unfold integerBits
      have : ¬ (mx - mn > 0) := by omega
      simp only [this, if_false]
    rw [e, find_range_least 65 0 (fun w => decide ((mx - mn).toNat < 2 ^ w)) (by omega)]
    · rfl
    · have : (mx - mn).toNat = 0 := by omega
      simp [this]
    · intro j hj; omega

theorem bitSize_eq_bits (dt : DataType) (h : dt.i64ok) : dt.bitSize = (toRecType dt).bits := by
  cases dt with
  | single _ _ => rfl
  | double _ _ => rfl
  | scaled mn mx _ _ => exact (intBits_eq mn mx h.1 h.2).symm
  | integer mn mx => exact (intBits_eq mn mx h.1 h.2).symm

/-! # Part 1 — one stream: drained bytes ++ buffer is the packed field list -/

/-- the field `(value − minimum | bit pattern, width)` a value contributes to its record's stream -/
def fieldOf (dt : DataType) (v : Value) : Nat × Nat :=
  ((toRecType dt).field (rawOf v), (toRecType dt).bits)

/-- stream `s`, after `em` was drained from it, holds exactly the fields `fs` -/
structure StreamRep (s : WBuf) (em : Bytes) (fs : List (Nat × Nat)) : Prop where
  inv : s.Inv
  val : leVal (em ++ s.buffer) = (Spec.pack fs).1
  bits : 8 * em.length + s.used = (Spec.pack fs).2

theorem StreamRep.new : StreamRep WBuf.new [] [] :=
  ⟨WBuf.inv_new, by simp [WBuf.new, Spec.pack, Spec.packFrom],
    by simp [WBuf.new, WBuf.used, Spec.pack, Spec.packFrom]⟩

theorem pack_snoc (fs : List (Nat × Nat)) (f : Nat × Nat) :
    Spec.pack (fs ++ [f]) = ((Spec.pack fs).1 + 2 ^ (Spec.pack fs).2 * (f.1 % 2 ^ f.2), (Spec.pack fs).2 + f.2) := by
  unfold Spec.pack
  rw [Spec.packFrom_append, Spec.packFrom_cons, Spec.packFrom_nil]

theorem StreamRep.add {s s' : WBuf} {em : Bytes} {fs : List (Nat × Nat)} (h : StreamRep s em fs)
    (d n : Nat) (hi : s'.Inv) (hu : s'.used = s.used + n)
    (hv : leVal s'.buffer = leVal s.buffer + 2 ^ s.used * d) (hd : d < 2 ^ n) :
    StreamRep s' em (fs ++ [(d, n)]) := by
  have hval := h.val
  have hbits := h.bits
  rw [leVal_append] at hval
  refine ⟨hi, ?_, ?_⟩
  · rw [pack_snoc, leVal_append, hv]
    simp only []
    rw [Nat.mod_eq_of_lt hd, ← hval, ← hbits, Nat.mul_add, ← Nat.mul_assoc, ← Nat.pow_add, Nat.add_assoc]
  · rw [pack_snoc]; simp only []; omega

/-- `get_full_bytes` moves whole bytes from the buffer to the drained part -/
theorem StreamRep.drainFull {s : WBuf} {em : Bytes} {fs : List (Nat × Nat)} (h : StreamRep s em fs) :
    StreamRep s.getFullBytes.2 (em ++ s.getFullBytes.1) fs := by
  obtain ⟨hinv1, hsplit, hbits⟩ := WBuf.getFullBytes_spec s h.inv
  refine ⟨hinv1, ?_, ?_⟩
  · rw [List.append_assoc, hsplit]; exact h.val
  · have := h.bits
    simp only [List.length_append]; omega

/-- **per-stream refinement**: drained bytes followed by the buffer (what `get_all_bytes` returns)
    are the specification stream of the fields: LSB first, contiguous, zero padded to a byte -/
theorem StreamRep.bytes {s : WBuf} {em : Bytes} {fs : List (Nat × Nat)} (h : StreamRep s em fs) :
    em ++ s.getAllBytes.1 = Spec.streamBytes fs := by
  have hV := h.val
  have hN := h.bits
  have hlen : (em ++ s.buffer).length = ((Spec.pack fs).2 + 7) / 8 := by
    rw [List.length_append, WBuf.length_eq s h.inv, ← hN]; omega
  simp only [WBuf.getAllBytes, Spec.streamBytes]
  apply eq_of_leVal_eq
  · rw [toLE_length, hlen]
  · rw [leVal_toLE, hV]
    symm
    apply Nat.mod_eq_of_lt
    have := Spec.pack_lt fs
    have hp : 2 ^ (Spec.pack fs).2 ≤ 2 ^ (8 * (((Spec.pack fs).2 + 7) / 8)) :=
      Nat.pow_le_pow_right (by omega) (by omega)
    omega

/-- `RecordDataType::write` of an accepted value appends exactly the field of that value -/
theorem DataType.write_content (dt : DataType) (v : Value) (s s' : WBuf) (em : Bytes)
    (fs : List (Nat × Nat)) (hacc : dt.accepts v = true) (hi : dt.i64ok)
    (hw : dt.write v s = .ok s') (h : StreamRep s em fs) :
    StreamRep s' em (fs ++ [fieldOf dt v]) := by
  have hint : ∀ (i mn mx : Int), inI64 mn = true → inI64 mx = true → mn ≤ i → i ≤ mx →
      serializeInteger i mn mx s = .ok s' →
      StreamRep s' em (fs ++ [((i - mn).toNat, (Spec.RecType.int mn mx).bits)]) := by
    intro i mn mx hmn hmx h1 h2 hw
    have hle : mn ≤ mx := by omega
    have hb := C12.integerBits_le_64 mn mx hle hmn hmx
    have hl := (C12.integerBits_least mn mx hle).1
    rw [intBits_eq mn mx hmn hmx]
    rw [inI64_iff] at hmn hmx
    have e := C12.i64ToU64_of_nonneg (i - mn) (by omega) (by omega)
    have hval : leVal (toLE (i64ToU64 (i - mn)) 8) = (i - mn).toNat := by
      rw [leVal_toLE, e]
      have h64 : (i - mn).toNat < 2 ^ (8 * 8) := by
        have : (2 : Nat) ^ (8 * 8) = 18446744073709551616 := by decide
        omega
      exact Nat.mod_eq_of_lt h64
    have hfit : leVal (toLE (i64ToU64 (i - mn)) 8) < 2 ^ integerBits mn mx := by
      rw [hval]
      have : (i - mn).toNat ≤ (mx - mn).toNat := by omega
      omega
    obtain ⟨s'', e1, e2, e3, e4⟩ := WBuf.addBits_spec s (toLE (i64ToU64 (i - mn)) 8) (integerBits mn mx)
      h.inv hfit (by rw [toLE_length]; omega)
    unfold serializeInteger at hw
    rw [e1] at hw; cases hw
    rw [hval] at e4 hfit
    exact h.add _ _ e2 e3 e4 hfit
  cases dt with
  | single mn mx =>
    cases v <;> simp [DataType.accepts, DataType.matches] at hacc
    rename_i b
    obtain ⟨s'', e1, e2, e3, e4⟩ := WBuf.addBytes_spec s (toLE b.toNat 4) h.inv
    simp only [DataType.write] at hw
    rw [e1] at hw; cases hw
    have hb : b.toNat < 2 ^ (8 * 4) := b.toNat_lt
    have hval : leVal (toLE b.toNat 4) = b.toNat := by rw [leVal_toLE]; exact Nat.mod_eq_of_lt hb
    rw [hval] at e4
    rw [toLE_length] at e3
    have : fieldOf (.single mn mx) (.single b) = (b.toNat, 8 * 4) := by
      simp [fieldOf, toRecType, rawOf, Spec.RecType.field, Spec.RecType.bits]
    rw [this]
    exact h.add _ _ e2 e3 e4 hb
  | double mn mx =>
    cases v <;> simp [DataType.accepts, DataType.matches] at hacc
    rename_i b
    obtain ⟨s'', e1, e2, e3, e4⟩ := WBuf.addBytes_spec s (toLE b.toNat 8) h.inv
    simp only [DataType.write] at hw
    rw [e1] at hw; cases hw
    have hb : b.toNat < 2 ^ (8 * 8) := b.toNat_lt
    have hval : leVal (toLE b.toNat 8) = b.toNat := by rw [leVal_toLE]; exact Nat.mod_eq_of_lt hb
    rw [hval] at e4
    rw [toLE_length] at e3
    have : fieldOf (.double mn mx) (.double b) = (b.toNat, 8 * 8) := by
      simp [fieldOf, toRecType, rawOf, Spec.RecType.field, Spec.RecType.bits]
    rw [this]
    exact h.add _ _ e2 e3 e4 hb
  | scaled mn mx sc off =>
    cases v <;> simp [DataType.accepts, DataType.matches] at hacc
    exact hint _ mn mx hi.1 hi.2 hacc.1 hacc.2 hw
  | integer mn mx =>
    cases v <;> simp [DataType.accepts, DataType.matches] at hacc
    exact hint _ mn mx hi.1 hi.2 hacc.1 hacc.2 hw

/-! # Part 2 — all streams: one point, `n` buffered points -/

/-- the fields of record `r` (at position `i` of the prototype) for the points `pts` -/
def recFields (r : Record) (i : Nat) (pts : List (List Value)) : List (Nat × Nat) :=
  pts.map (fun p => ((toRecType r.dt).field ((p.map rawOf).getD i 0), (toRecType r.dt).bits))

theorem recFields_append (r : Record) (i : Nat) (a b : List (List Value)) :
    recFields r i (a ++ b) = recFields r i a ++ recFields r i b := by
  simp [recFields]

theorem recFields_single (r : Record) (i : Nat) (p : List Value) (v : Value) (hv : p[i]? = some v) :
    recFields r i [p] = [fieldOf r.dt v] := by
  simp [recFields, fieldOf, List.getD_eq_getElem?_getD, List.getElem?_map, hv]

theorem writePointStreams_content : ∀ (rs : List Record) (vs : List Value) (ss ss' : List WBuf),
    writePointStreams rs vs ss = .ok ss' → checkValues rs vs = true → (∀ r ∈ rs, r.dt.i64ok) →
    ∀ (i : Nat) (r : Record) (v : Value) (s : WBuf), rs[i]? = some r → vs[i]? = some v → ss[i]? = some s →
      ∃ s', ss'[i]? = some s' ∧
        ∀ em fs, StreamRep s em fs → StreamRep s' em (fs ++ [fieldOf r.dt v])
  | [], _, _, _, _, _, _ => by intro i r v s h; simp at h
  | _ :: _, [], _, _, h, _, _ => by simp [writePointStreams] at h
  | _ :: _, _ :: _, [], _, h, _, _ => by simp [writePointStreams] at h
  | r0 :: rs, v0 :: vs, s0 :: ss, ss', h, hc, hi => by
    simp only [writePointStreams] at h
    obtain ⟨s1, e1, h⟩ := Outcome.bind_eq_ok h
    obtain ⟨rest, e2, h⟩ := Outcome.bind_eq_ok h
    cases h
    simp only [checkValues, Bool.and_eq_true] at hc
    intro i r v s hr hv hs
    cases i with
    | zero =>
      simp only [List.getElem?_cons_zero, Option.some.injEq] at hr hv hs
      subst hr hv hs
      exact ⟨s1, by simp, fun em fs hrep =>
        DataType.write_content _ _ _ _ em fs hc.1 (hi _ (by simp)) e1 hrep⟩
    | succ i =>
      simp only [List.getElem?_cons_succ] at hr hv hs ⊢
      exact writePointStreams_content rs vs ss rest e2 hc.2 (fun x hx => hi x (by simp [hx])) i r v s hr hv hs

theorem writePoints_content (proto : Prototype) (hi : ProtoI64 proto) : ∀ (n : Nat) (buf buf' : List (List Value))
    (ss ss' : List WBuf), writePoints n buf proto ss = .ok (buf', ss') → n ≤ buf.length →
    (∀ pt ∈ buf, pt.length = proto.length ∧ checkValues proto pt = true) →
    ∀ (i : Nat) (r : Record) (s : WBuf), proto[i]? = some r → ss[i]? = some s →
      ∃ s', ss'[i]? = some s' ∧
        ∀ em mv, StreamRep s em (recFields r i mv) → StreamRep s' em (recFields r i (mv ++ buf.take n))
  | 0, buf, buf', ss, ss', h, _, _ => by
    simp only [writePoints] at h; cases h
    intro i r s _ hs
    exact ⟨s, hs, fun em mv hrep => by simpa using hrep⟩
  | n + 1, [], _, _, _, _, hn, _ => by simp at hn
  | n + 1, pt :: buf, buf', ss, ss', h, hn, hb => by
    simp only [writePoints] at h
    obtain ⟨ss1, e1, h⟩ := Outcome.bind_eq_ok h
    intro i r s hr hs
    have hpt := hb pt (by simp)
    have hil : i < proto.length := by
      rcases Nat.lt_or_ge i proto.length with h | h
      · exact h
      · rw [List.getElem?_eq_none h] at hr; cases hr
    obtain ⟨v, hv⟩ : ∃ v, pt[i]? = some v := ⟨pt[i]'(by omega), List.getElem?_eq_getElem (by omega)⟩
    obtain ⟨s1, hs1, c1⟩ := writePointStreams_content proto pt ss ss1 e1 hpt.2 hi i r v s hr hv hs
    obtain ⟨s2, hs2, c2⟩ := writePoints_content proto hi n buf buf' ss1 ss' h (by simpa using hn)
      (fun x hx => hb x (by simp [hx])) i r s1 hr hs1
    refine ⟨s2, hs2, fun em mv hrep => ?_⟩
    have h1 := c1 em _ hrep
    rw [← recFields_single r i pt v hv, ← recFields_append] at h1
    have h2 := c2 em _ h1
    rw [List.append_assoc] at h2
    simpa using h2

/-! # Part 3 — one packet on the logical stream -/

/-- the bytes of a data packet carrying `chunks` (one chunk per record) for `n` records: exactly the
    packet the specification encoder `Spec.encodePackets` lays out for `.data (chunks.map length)` -/
def pktBytes (n : Nat) (chunks : List Bytes) : Bytes :=
  let body := (chunks.map (fun c => toLE c.length 2)).flatten ++ chunks.flatten
  let len0 := 6 + body.length
  [1, 0] ++ toLE (len0 + Spec.pad4 len0 - 1) 2 ++ toLE n 2 ++ body ++ zeros (Spec.pad4 len0)

theorem toLE_mod_65536 (n : Nat) : toLE (n % 65536) 2 = toLE n 2 := by
  apply eq_of_leVal_eq
  · rw [toLE_length, toLE_length]
  · rw [leVal_toLE, leVal_toLE]
    have : (2 : Nat) ^ (8 * 2) = 65536 := by decide
    rw [this, Nat.mod_mod]

theorem sizes_flatten_length (f : Bytes → Nat) (chunks : List Bytes) :
    ((chunks.map (fun c => toLE (f c) 2)).flatten).length = 2 * chunks.length := by
  induction chunks with
  | nil => rfl
  | cons c cs ih => simp only [List.map_cons, List.flatten_cons, List.length_append, toLE_length, ih,
      List.length_cons]; omega

theorem body_length (chunks : List Bytes) :
    ((chunks.map (fun c => toLE c.length 2)).flatten ++ chunks.flatten).length
      = chunks.length * 2 + (chunks.map List.length).sum := by
  rw [List.length_append, sizes_flatten_length, List.length_flatten]; omega

theorem pktLen_eq (n sum : Nat) :
    pktLen n sum = 6 + (n * 2 + sum) + Spec.pad4 (6 + (n * 2 + sum)) := by
  unfold pktLen Spec.pad4; split <;> omega

theorem pktBytes_length (n : Nat) (chunks : List Bytes) :
    (pktBytes n chunks).length = pktLen chunks.length (chunks.map List.length).sum := by
  rw [pktLen_eq, ← body_length]
  simp only [pktBytes, List.length_append, toLE_length, zeros_length, List.length_cons, List.length_nil]

theorem pktLen_mod4 (n sum : Nat) : pktLen n sum % 4 = 0 := by
  unfold pktLen; split <;> omega

/-- the drained chunks have the announced sizes -/
theorem sizesOf_eq (lf : Bool) (ss : List WBuf) :
    sizesOf lf ss = ((drainOf lf ss).map (·.1)).map List.length := by
  unfold sizesOf drainOf
  rw [List.map_map, List.map_map]
  apply List.map_congr_left
  intro s _
  cases lf with
  | true => rfl
  | false =>
    simp only [Bool.false_eq_true, if_false, Function.comp, WBuf.getFullBytes, List.length_take,
      WBuf.fullBytes]
    split <;> omega

/-- the chunks drained by a flush -/
def chunksOf (lf : Bool) (ss : List WBuf) : List Bytes := (drainOf lf ss).map (·.1)

theorem chunksOf_length (lf : Bool) (ss : List WBuf) : (chunksOf lf ss).length = ss.length := by
  simp [chunksOf, drainOf]

/-- aligning after `len` bytes written from a 4-aligned cursor = writing `pad4 len` zeros -/
theorem align_after_write (s : LogStream) (b : Bytes) (_h1 : s.data.length % 1020 = 0)
    (h2 : s.cur ≤ s.data.length) (hal : s.cur % 4 = 0) :
    (s.write b).align = s.write (b ++ zeros (Spec.pad4 b.length)) := by
  have hc : (s.write b).cur = s.cur + b.length := rfl
  unfold LogStream.align
  rw [hc]
  by_cases h0 : (s.cur + b.length) % 4 ≠ 0
  · rw [if_pos h0, spec_write_append _ _ _ h2]
    congr 3
    unfold Spec.pad4; omega
  · rw [if_neg h0]
    have : Spec.pad4 b.length = 0 := by unfold Spec.pad4; omega
    rw [this, zeros_zero, List.append_nil]

/-- the header, the sizes and the chunks as the model writes them, padded = `pktBytes` -/
theorem pkt_assemble (n : Nat) (chunks : List Bytes) :
    let X : Bytes := ([1, 0] ++ toLE (pktLen chunks.length (chunks.map List.length).sum - 1) 2
        ++ toLE (n % 65536) 2) ++ ((chunks.map List.length).map (fun s => toLE (s % 65536) 2)).flatten
        ++ chunks.flatten
    X ++ zeros (Spec.pad4 X.length) = pktBytes n chunks := by
  intro X
  have hsz : ((chunks.map List.length).map (fun s => toLE (s % 65536) 2))
      = chunks.map (fun c => toLE c.length 2) := by
    rw [List.map_map]
    apply List.map_congr_left
    intro c _
    simp only [Function.comp, toLE_mod_65536]
  have hX : X.length = 6 + ((chunks.map (fun c => toLE c.length 2)).flatten ++ chunks.flatten).length := by
    simp only [X, hsz, List.length_append, toLE_length, List.length_cons, List.length_nil]
    omega
  rw [hX]
  simp only [X, pktBytes, toLE_mod_65536, List.map_map, Function.comp_def, pktLen_eq, ← body_length,
    List.append_assoc]

/-- **packet_bytes (tail of `write_buffer_to_disk`)**: on a well-formed page writer whose cursor is
    4-byte aligned, the part after `writePoints` either writes nothing (no complete byte in any
    stream) or writes exactly one data packet `pktBytes` onto the logical stream at the cursor -/
theorem wbdTail_abs (w : PcW) (pw : PW) (lf : Bool) (buf : List (List Value)) (ss : List WBuf)
    (hpw : pw.Inv) (hal : pw.abs.cur % 4 = 0) (hl : ss.length = w.prototype.length)
    (pw' : PW) (w' : PcW) (h : wbdTail w pw lf buf ss = .ok (pw', w')) :
    w' = wbdNext w lf buf ss ∧ pw'.Inv ∧
    (sumNat (sizesOf lf ss) > 0 →
      pw'.abs = pw.abs.write (pktBytes w.prototype.length (chunksOf lf ss)) ∧
      (pktBytes w.prototype.length (chunksOf lf ss)).length ≤ 65535) ∧
    (¬ sumNat (sizesOf lf ss) > 0 → pw'.abs = pw.abs) := by
  obtain ⟨wf1, wf2⟩ := abs_wf pw hpw
  have hlen : (pktBytes w.prototype.length (chunksOf lf ss)).length
      = pktLen w.prototype.length (sumNat (sizesOf lf ss)) := by
    rw [pktBytes_length, chunksOf_length, hl, sumNat_eq, sizesOf_eq]; rfl
  unfold wbdTail at h
  unfold wbdNext
  by_cases hsum : sumNat (sizesOf lf ss) > 0
  · simp only [hsum, if_true] at h ⊢
    by_cases hlong : pktLen w.prototype.length (sumNat (sizesOf lf ss)) > 65535
    · simp only [hlong, if_true] at h; cases h
    · simp only [hlong, if_false] at h
      obtain ⟨hdr, e0, h⟩ := Outcome.bind_eq_ok h
      obtain ⟨p1, e1, h⟩ := Outcome.bind_eq_ok h
      obtain ⟨p2, e2, h⟩ := Outcome.bind_eq_ok h
      obtain ⟨p3, e3, h⟩ := Outcome.bind_eq_ok h
      obtain ⟨p4, e4, h⟩ := Outcome.bind_eq_ok h
      cases h
      obtain ⟨p1', f1, i1, a1⟩ := pw_writeAll pw hdr hpw
      rw [e1] at f1; cases f1
      obtain ⟨p2', f2, i2, a2⟩ := pw_writeAll p1 _ i1
      rw [e2] at f2; cases f2
      obtain ⟨p3', f3, i3, a3⟩ := pw_writeAll p2 _ i2
      rw [e3] at f3; cases f3
      obtain ⟨p4', f4, i4, a4⟩ := pw_align p3 i3
      rw [e4] at f4; cases f4
      have hpos : pktLen w.prototype.length (sumNat (sizesOf lf ss)) ≠ 0 := by
        have := (pktLen_bounds w.prototype.length (sumNat (sizesOf lf ss))).1; omega
      unfold dataPacketHeaderBytes at e0
      rw [if_neg hpos] at e0
      cases e0
      refine ⟨rfl, i4, fun _ => ⟨?_, by rw [hlen]; omega⟩, fun hn => absurd trivial hn⟩
      have wf1' := abs_wf p1 i1
      rw [a4, a3, a2, a1, spec_write_append _ _ _ wf2, spec_write_append _ _ _ wf2,
        align_after_write _ _ wf1 wf2 hal]
      congr 1
      have := pkt_assemble w.prototype.length (chunksOf lf ss)
      simp only [] at this
      rw [← this, chunksOf_length, hl, sumNat_eq, sizesOf_eq]
      simp only [Bool.false_eq_true, if_false, chunksOf, List.append_assoc]
  · simp only [hsum, if_false] at h ⊢
    obtain ⟨p4, e4, h⟩ := Outcome.bind_eq_ok h
    cases h
    obtain ⟨p4', f4, i4, a4⟩ := pw_align pw hpw
    rw [e4] at f4; cases f4
    refine ⟨rfl, i4, fun hp => hp.elim, fun _ => ?_⟩
    rw [a4]; unfold LogStream.align
    rw [if_neg (by omega)]

/-! # Part 4 — the ghost packet list and the session invariant -/

/-- column `i` of the packets written so far: everything drained from stream `i`, in order -/
def col (i : Nat) (pk : List (List Bytes)) : Bytes := (pk.map (fun cs => cs.getD i [])).flatten

theorem col_nil (i : Nat) : col i [] = [] := rfl
theorem col_append (i : Nat) (a b : List (List Bytes)) : col i (a ++ b) = col i a ++ col i b := by
  simp [col]
theorem col_single (i : Nat) (cs : List Bytes) : col i [cs] = cs.getD i [] := by simp [col]

/-- the bytes of a packet list -/
def pkBytes (n : Nat) (pk : List (List Bytes)) : Bytes := (pk.map (pktBytes n)).flatten

theorem pkBytes_nil (n : Nat) : pkBytes n [] = [] := rfl
theorem pkBytes_append (n : Nat) (a b : List (List Bytes)) :
    pkBytes n (a ++ b) = pkBytes n a ++ pkBytes n b := by simp [pkBytes]
theorem pkBytes_single (n : Nat) (cs : List Bytes) : pkBytes n [cs] = pktBytes n cs := by simp [pkBytes]

theorem pkBytes_mod4 (n : Nat) : ∀ (pk : List (List Bytes)), (pkBytes n pk).length % 4 = 0
  | [] => rfl
  | cs :: pk => by
    have h1 := pkBytes_mod4 n pk
    have h2 : (pktBytes n cs).length % 4 = 0 := by rw [pktBytes_length]; exact pktLen_mod4 _ _
    simp only [pkBytes, List.map_cons, List.flatten_cons, List.length_append] at h1 ⊢
    omega

theorem cvHeader_length (h : CvHeader) : h.bytes.length = 32 := by
  simp [CvHeader.bytes, zeros_length, toLE_length]

/-- the packets one `write_buffer_to_disk` call writes (none or one), as chunk lists -/
def wbdChunksCore (maxPoints : Nat) (buffer : List (List Value)) (proto : Prototype) (streams : List WBuf)
    (lf : Bool) : List (List Bytes) :=
  match writePoints (min maxPoints buffer.length) buffer proto streams with
  | .ok r => if sumNat (sizesOf lf r.2) > 0 then [chunksOf lf r.2] else []
  | _ => []

def wbdChunks (w : PcW) (lf : Bool) : List (List Bytes) :=
  wbdChunksCore w.maxPoints w.buffer w.prototype w.streams lf

/-- what is assumed about the page writer's logical stream when the section is started -/
structure BaseOk (base : LogStream) : Prop where
  wf1 : base.data.length % 1020 = 0
  wf2 : base.cur ≤ base.data.length
  al : base.cur % 4 = 0

/-- every stream holds the fields of its record for the points `mv` already moved out of the buffer,
    `col i pk` having been drained into packets -/
def Content (proto : Prototype) (pk : List (List Bytes)) (mv : List (List Value)) (ss : List WBuf) : Prop :=
  ∀ (i : Nat) (r : Record) (s : WBuf), proto[i]? = some r → ss[i]? = some s →
    StreamRep s (col i pk) (recFields r i mv)

/-- the layout invariant: the logical stream is the base stream with the provisional header and the
    packets `pk` written at the old cursor; the header under construction counts exactly these -/
structure LayIO (proto : Prototype) (base : LogStream) (pk : List (List Bytes)) (w : PcW) (pw : PW) : Prop where
  proto_eq : w.prototype = proto
  inv0 : w.Inv0
  pwInv : pw.Inv
  abs : pw.abs = base.write (CvHeader.bytes ⟨32, 0, 0⟩ ++ pkBytes proto.length pk)
  hdr : w.header = ⟨32 + (pkBytes proto.length pk).length, l2p (base.cur + 32), 0⟩
  so : w.sectionOffset = l2p base.cur
  legal : ∀ cs ∈ pk, cs.length = proto.length ∧ (pktBytes proto.length cs).length ≤ 65535 ∧
    0 < (cs.map List.length).sum

theorem LayIO.cur {proto base pk w pw} (h : LayIO proto base pk w pw) :
    pw.abs.cur = base.cur + 32 + (pkBytes proto.length pk).length := by
  rw [h.abs, spec_write_cur, List.length_append, cvHeader_length]; omega

theorem pktBytes_chunks_length (n : Nat) (lf : Bool) (ss : List WBuf) (hl : ss.length = n) :
    (pktBytes n (chunksOf lf ss)).length = pktLen n (sumNat (sizesOf lf ss)) := by
  rw [pktBytes_length, chunksOf_length, hl, sumNat_eq, sizesOf_eq]; rfl

/-- **packet_bytes / one `write_buffer_to_disk`** (any `last_flush`): the buffered points move into
    the streams (content), at most one packet `pktBytes` is written onto the logical stream, the
    header under construction is updated accordingly -/
theorem wbd_core {proto : Prototype} {base : LogStream} {pk : List (List Bytes)} {w : PcW} {pw : PW}
    (hb : BaseOk base) (h : LayIO proto base pk w pw) (mv : List (List Value))
    (hc : Content proto pk mv w.streams) (lf : Bool) (pw' : PW) (w' : PcW)
    (e : w.writeBufferToDisk pw lf = .ok (pw', w')) :
    ∃ ss, ss.length = proto.length ∧
      wbdChunks w lf = (if sumNat (sizesOf lf ss) > 0 then [chunksOf lf ss] else []) ∧
      LayIO proto base (pk ++ wbdChunks w lf) w' pw' ∧
      w'.buffer = w.buffer.drop (min w.maxPoints w.buffer.length) ∧
      w'.streams = (if sumNat (sizesOf lf ss) > 0 then (drainOf lf ss).map (·.2) else ss) ∧
      Content proto pk (mv ++ w.buffer.take (min w.maxPoints w.buffer.length)) ss ∧
      w'.pointCount = w.pointCount ∧ w'.maxPoints = w.maxPoints ∧ w'.pc = w.pc ∧ w'.guid = w.guid := by
  have hi0 := h.inv0
  have hp := h.proto_eq
  rw [writeBufferToDisk_eq] at e
  obtain ⟨r, e1, e2⟩ := Outcome.bind_eq_ok e
  obtain ⟨ss, f1, f2, f3, f4⟩ := writePoints_spec w.prototype hi0.i64 (min w.maxPoints w.buffer.length)
    w.buffer w.streams (Nat.min_le_right _ _) hi0.buf hi0.slen hi0.sinv
  rw [f1] at e1; cases e1
  have hcur := h.cur
  have hal : pw.abs.cur % 4 = 0 := by
    have := pkBytes_mod4 proto.length pk
    have := hb.al
    omega
  obtain ⟨g1, g2, g3, g4⟩ := wbdTail_abs w pw lf _ ss h.pwInv hal f2 pw' w' e2
  have hz : pointBits w.prototype = 0 → ∀ s ∈ ss, s.used = 0 := by
    intro hp0
    apply usedSum_zero_forall
    rw [f4, hp0, Nat.mul_zero, Nat.add_zero]
    exact forall_zero_usedSum _ (hi0.zero hp0)
  have hinv' := wbdNext_inv0 w lf (min w.maxPoints w.buffer.length) ss hi0 f2 f3 hz
  obtain ⟨n1, n2, n3, n4, n5, n6, n7⟩ := wbdNext_frame w lf (w.buffer.drop (min w.maxPoints w.buffer.length)) ss
  have hch : wbdChunks w lf = (if sumNat (sizesOf lf ss) > 0 then [chunksOf lf ss] else []) := by
    simp only [wbdChunks, wbdChunksCore, f1]
  have hcont : Content proto pk (mv ++ w.buffer.take (min w.maxPoints w.buffer.length)) ss := by
    intro i r s hr hs
    obtain ⟨s0, hs0⟩ : ∃ s0, w.streams[i]? = some s0 := by
      have hil : i < proto.length := by
        rcases Nat.lt_or_ge i proto.length with h | h
        · exact h
        · rw [List.getElem?_eq_none h] at hr; cases hr
      exact ⟨w.streams[i]'(by rw [hi0.slen, hp]; exact hil), List.getElem?_eq_getElem _⟩
    obtain ⟨s', hs', c⟩ := writePoints_content w.prototype hi0.i64 _ _ _ _ _ f1 (Nat.min_le_right _ _)
      hi0.buf i r s0 (by rw [hp]; exact hr) hs0
    rw [hs] at hs'; cases hs'
    exact c _ mv (hc i r s0 hr hs0)
  refine ⟨ss, by rw [f2, hp], hch, ?_, by rw [g1]; exact n7, ?_, hcont,
    by rw [g1]; exact n2, by rw [g1]; exact n4, by rw [g1]; exact n3, by rw [g1]; exact n5⟩
  · rw [hch]
    by_cases hsum : sumNat (sizesOf lf ss) > 0
    · obtain ⟨a1, a2⟩ := g3 hsum
      rw [hp] at a1 a2
      have hlen := pktBytes_chunks_length proto.length lf ss (by rw [f2, hp])
      rw [if_pos hsum]
      refine ⟨by rw [g1]; exact n1.trans hp, by rw [g1]; exact hinv', g2, ?_, ?_, by rw [g1, n6]; exact h.so, ?_⟩
      · rw [a1, h.abs, spec_write_append _ _ _ hb.wf2, pkBytes_append, pkBytes_single, List.append_assoc]
      · rw [g1]; unfold wbdNext; rw [if_pos hsum]
        simp only [h.hdr, pkBytes_append, pkBytes_single, List.length_append, hlen, hp]
        rw [Nat.add_assoc]
      · intro cs hcs
        rcases List.mem_append.1 hcs with hm | hm
        · exact h.legal cs hm
        · simp only [List.mem_singleton] at hm; subst hm
          refine ⟨by rw [chunksOf_length, f2, hp], a2, ?_⟩
          have := hsum
          rw [sumNat_eq, sizesOf_eq] at this
          exact this
    · rw [if_neg hsum, List.append_nil]
      refine ⟨by rw [g1]; exact n1.trans hp, by rw [g1]; exact hinv', g2, by rw [g4 hsum]; exact h.abs, ?_,
        by rw [g1, n6]; exact h.so, h.legal⟩
      rw [g1]; unfold wbdNext; rw [if_neg hsum]; exact h.hdr
  · rw [g1]; unfold wbdNext
    by_cases hsum : sumNat (sizesOf lf ss) > 0
    · rw [if_pos hsum, if_pos hsum]
    · rw [if_neg hsum, if_neg hsum]

/-! # Part 5 — the invariant through `add_point`, the drain loop and `finalize` -/

/-- layout invariant + content: `pts` are the points accepted so far -/
structure Lay (proto : Prototype) (base : LogStream) (pts : List (List Value)) (pk : List (List Bytes))
    (w : PcW) (pw : PW) : Prop where
  io : LayIO proto base pk w pw
  content : ∃ mv, mv ++ w.buffer = pts ∧ Content proto pk mv w.streams

theorem chunksOf_getD (lf : Bool) (ss : List WBuf) (i : Nat) (s : WBuf) (hs : ss[i]? = some s) :
    (chunksOf lf ss).getD i [] = (if lf then s.getAllBytes else s.getFullBytes).1 := by
  simp [chunksOf, drainOf, List.getD_eq_getElem?_getD, List.getElem?_map, hs]

/-- a regular flush drains the whole bytes of every stream into the new packet -/
theorem content_drain (proto : Prototype) (pk : List (List Bytes)) (mv : List (List Value)) (ss : List WBuf)
    (hc : Content proto pk mv ss) :
    Content proto (pk ++ [chunksOf false ss]) mv ((drainOf false ss).map (·.2)) := by
  intro i r s' hr hs'
  simp only [drainOf, List.map_map, List.getElem?_map, Option.map_eq_some_iff, Function.comp] at hs'
  obtain ⟨s, hs, rfl⟩ := hs'
  rw [col_append, col_single, chunksOf_getD false ss i s hs]
  exact (hc i r s hr hs).drainFull

/-- **stream_refines (step)**: a regular `write_buffer_to_disk` keeps the invariant; the ghost packet
    list grows by `wbdChunks` -/
theorem wbd_lay {proto : Prototype} {base : LogStream} {pts : List (List Value)} {pk : List (List Bytes)}
    {w : PcW} {pw : PW} (hb : BaseOk base) (h : Lay proto base pts pk w pw) (pw' : PW) (w' : PcW)
    (e : w.writeBufferToDisk pw false = .ok (pw', w')) :
    Lay proto base pts (pk ++ wbdChunks w false) w' pw' ∧
      w'.buffer = w.buffer.drop (min w.maxPoints w.buffer.length) ∧
      w'.pointCount = w.pointCount ∧ w'.maxPoints = w.maxPoints ∧ w'.pc = w.pc ∧ w'.guid = w.guid := by
  obtain ⟨mv, hmv, hc⟩ := h.content
  obtain ⟨ss, c1, c2, c3, c4, c5, c6, c7⟩ := wbd_core hb h.io mv hc false pw' w' e
  refine ⟨⟨c3, mv ++ w.buffer.take (min w.maxPoints w.buffer.length), ?_, ?_⟩, c4, c7⟩
  · rw [c4, List.append_assoc, List.take_append_drop, hmv]
  · rw [c5, c2]
    by_cases hsum : sumNat (sizesOf false ss) > 0
    · rw [if_pos hsum, if_pos hsum]; exact content_drain proto pk _ ss c6
    · rw [if_neg hsum, if_neg hsum, List.append_nil]; exact c6

/-- the packets written by one `add_point` -/
def addPointChunks (w : PcW) (vs : List Value) : List (List Bytes) :=
  if (w.buffer ++ [vs]).length ≥ w.maxPoints then
    wbdChunksCore w.maxPoints (w.buffer ++ [vs]) w.prototype w.streams false
  else []

theorem addPoint_lay {proto : Prototype} {base : LogStream} {pts : List (List Value)} {pk : List (List Bytes)}
    {w : PcW} {pw : PW} (hb : BaseOk base) (h : Lay proto base pts pk w pw) (vs : List Value)
    (pw' : PW) (w' : PcW) (e : w.addPoint pw vs = .ok (pw', w')) :
    Lay proto base (pts ++ [vs]) (pk ++ addPointChunks w vs) w' pw' ∧
      w'.pointCount = w.pointCount + 1 ∧ w'.maxPoints = w.maxPoints ∧ w'.guid = w.guid := by
  obtain ⟨h1, h2, _, _⟩ := addPoint_ok_implies w pw vs pw' w' e
  unfold PcW.addPoint at e
  simp only [h1, h2, ne_eq, not_true_eq_false, if_false, Bool.not_true, Bool.false_eq_true] at e
  obtain ⟨pc, _, e⟩ := Outcome.bind_eq_ok e
  obtain ⟨mv, hmv, hc⟩ := h.content
  have hw := h.io.inv0
  have hinv0 : PcW.Inv0 { w with pc := pc, buffer := w.buffer ++ [vs], pointCount := w.pointCount + 1 } :=
    ⟨hw.slen, hw.sinv, hw.drained, by
      intro pt hpt
      rcases List.mem_append.1 hpt with h | h
      · exact hw.buf pt h
      · simp at h; subst h; exact ⟨h1, h2⟩, hw.mp, hw.i64, hw.zero⟩
  have hlay1 : Lay proto base (pts ++ [vs]) pk
      { w with pc := pc, buffer := w.buffer ++ [vs], pointCount := w.pointCount + 1 } pw :=
    ⟨⟨h.io.proto_eq, hinv0, h.io.pwInv, h.io.abs, h.io.hdr, h.io.so, h.io.legal⟩,
      mv, by rw [← hmv, List.append_assoc], hc⟩
  unfold addPointChunks
  split at e
  · next hge =>
    rw [if_pos hge]
    obtain ⟨l1, _, l3, l4, _, l6⟩ := wbd_lay hb hlay1 pw' w' e
    exact ⟨l1, l3, l4, l6⟩
  · next hge =>
    rw [if_neg hge, List.append_nil]
    cases e
    exact ⟨hlay1, rfl, rfl, rfl⟩

/-- the packets written by a sequence of `add_point` calls -/
def addPointsChunks : List (List Value) → PW × PcW → List (List Bytes)
  | [], _ => []
  | pt :: pts, st =>
    match st.2.addPoint st.1 pt with
    | .ok st' => addPointChunks st.2 pt ++ addPointsChunks pts st'
    | _ => []

theorem addPoints_lay {proto : Prototype} {base : LogStream} (hb : BaseOk base) :
    ∀ (new : List (List Value)) (pts : List (List Value)) (pk : List (List Bytes)) (w : PcW) (pw : PW)
      (pw' : PW) (w' : PcW), Lay proto base pts pk w pw → addPoints new (pw, w) = .ok (pw', w') →
      Lay proto base (pts ++ new) (pk ++ addPointsChunks new (pw, w)) w' pw' ∧
        w'.pointCount = w.pointCount + new.length ∧ w'.guid = w.guid
  | [], pts, pk, w, pw, pw', w', h, e => by
    simp only [addPoints] at e; cases e
    simpa [addPointsChunks] using h
  | pt :: new, pts, pk, w, pw, pw', w', h, e => by
    simp only [addPoints] at e
    obtain ⟨⟨pw1, w1⟩, e1, e⟩ := Outcome.bind_eq_ok e
    obtain ⟨l1, l2, _, l4⟩ := addPoint_lay hb h pt pw1 w1 e1
    obtain ⟨m1, m2, m3⟩ := addPoints_lay hb new (pts ++ [pt]) _ w1 pw1 pw' w' l1 e
    simp only [addPointsChunks, e1]
    refine ⟨?_, by rw [m2, l2, List.length_cons]; omega, m3.trans l4⟩
    rw [List.append_assoc] at m1
    simpa [List.append_assoc] using m1

/-- the packets written by the drain loop of `finalize` -/
def drainChunks : Nat → PcW → PW → List (List Bytes)
  | 0, _, _ => []
  | fuel + 1, w, pw =>
    if w.buffer.isEmpty then [] else
      match w.writeBufferToDisk pw false with
      | .ok st => wbdChunks w false ++ drainChunks fuel st.2 st.1
      | _ => []

theorem drainLoop_lay {proto : Prototype} {base : LogStream} {pts : List (List Value)} (hb : BaseOk base) :
    ∀ (fuel : Nat) (pk : List (List Bytes)) (w : PcW) (pw : PW) (pw' : PW) (w' : PcW),
      Lay proto base pts pk w pw → PcW.drainLoop fuel w pw = .ok (pw', w') →
      Lay proto base pts (pk ++ drainChunks fuel w pw) w' pw' ∧ w'.buffer = [] ∧
        w'.pointCount = w.pointCount ∧ w'.guid = w.guid
  | 0, pk, w, pw, pw', w', h, e => by
    unfold PcW.drainLoop at e
    split at e
    · next he => cases e; exact ⟨by simpa [drainChunks] using h, by simpa using he, rfl, rfl⟩
    · cases e
  | fuel + 1, pk, w, pw, pw', w', h, e => by
    unfold PcW.drainLoop at e
    unfold drainChunks
    split at e
    · next he => cases e; rw [if_pos he]; exact ⟨by simpa using h, by simpa using he, rfl, rfl⟩
    · next he =>
      rw [if_neg he]
      obtain ⟨⟨pw1, w1⟩, e1, e⟩ := Outcome.bind_eq_ok e
      obtain ⟨l1, _, l3, _, _, l6⟩ := wbd_lay hb h pw1 w1 e1
      obtain ⟨m1, m2, m3, m4⟩ := drainLoop_lay hb fuel _ w1 pw1 pw' w' l1 e
      simp only [e1]
      exact ⟨by simpa [List.append_assoc] using m1, m2, m3.trans l3, m4.trans l6⟩

/-- **stream_refines (end)**: the last flush (`get_all_bytes`) after the buffer was drained: now every
    record's column of chunks IS the complete specification stream of the record -/
theorem wbd_last {proto : Prototype} {base : LogStream} {pts : List (List Value)} {pk : List (List Bytes)}
    {w : PcW} {pw : PW} (hb : BaseOk base) (h : Lay proto base pts pk w pw) (hbuf : w.buffer = [])
    (pw' : PW) (w' : PcW) (e : w.writeBufferToDisk pw true = .ok (pw', w')) :
    LayIO proto base (pk ++ wbdChunks w true) w' pw' ∧
      (∀ (i : Nat) (r : Record), proto[i]? = some r →
        col i (pk ++ wbdChunks w true) = Spec.streamBytes (recFields r i pts)) ∧
      w'.pointCount = w.pointCount ∧ w'.guid = w.guid := by
  obtain ⟨mv, hmv, hc⟩ := h.content
  rw [hbuf, List.append_nil] at hmv
  subst hmv
  obtain ⟨ss, c1, c2, c3, _, _, c6, c7, _, _, c10⟩ := wbd_core hb h.io mv hc true pw' w' e
  refine ⟨c3, ?_, c7, c10⟩
  intro i r hr
  have hil : i < proto.length := by
    rcases Nat.lt_or_ge i proto.length with h | h
    · exact h
    · rw [List.getElem?_eq_none h] at hr; cases hr
  have hs : ss[i]? = some (ss[i]'(by omega)) := List.getElem?_eq_getElem _
  have hrep := c6 i r _ hr hs
  rw [hbuf] at hrep
  simp only [List.take_nil, List.append_nil] at hrep
  have hbytes := hrep.bytes
  rw [c2]
  by_cases hsum : sumNat (sizesOf true ss) > 0
  · rw [if_pos hsum, col_append, col_single, chunksOf_getD true ss i _ hs]
    exact hbytes
  · rw [if_neg hsum, List.append_nil]
    have h0 : (sizesOf true ss).sum = 0 := by rw [← sumNat_eq]; omega
    have := sum_eq_zero_forall _ h0 (ss[i]'(by omega)).allBytes
      (List.mem_map.2 ⟨ss[i]'(by omega), List.getElem_mem _, by simp⟩)
    simp only [WBuf.allBytes, List.length_eq_zero_iff] at this
    simp only [WBuf.getAllBytes, this, List.append_nil] at hbytes
    exact hbytes

/-- `PointCloudWriter::new` establishes the invariant: the provisional header `⟨32, 0, 0⟩` is on the
    logical stream at the old cursor, the header under construction already carries the data offset
    `l2p (cursor + 32)` — the physical position right behind the 32 header bytes, also when these
    straddle a page boundary -/
theorem new_lay (pw : PW) (exts : List (String × String)) (guid : String) (proto : Prototype)
    (hpw : pw.Inv) (hi : ProtoI64 proto) (pw0 : PW) (w0 : PcW)
    (hnew : PcW.new pw exts guid proto = .ok (pw0, w0)) :
    Lay proto pw.abs [] [] w0 pw0 ∧ w0.pointCount = 0 ∧ w0.guid = guid ∧
      w0.header.dataOffset = l2p (pw.abs.cur + 32) ∧ w0.header.dataOffset = pw0.physicalPosition := by
  obtain ⟨i1, _, i2, _⟩ := PcW.new_inv pw exts guid proto hpw hi pw0 w0 hnew
  obtain ⟨_, _, _, e1, cl, _, rfl⟩ := PcW.new_ok pw exts guid proto pw0 w0 hnew
  obtain ⟨pw1, e1', _, a1⟩ := pw_writeAll pw (CvHeader.bytes ⟨32, 0, 0⟩) hpw
  rw [e1] at e1'; cases e1'
  have hpos : pw0.physicalPosition = l2p (pw.abs.cur + 32) := by
    rw [pw_position pw0 i2, LogStream.physPos, a1, spec_write_cur, cvHeader_length]
  refine ⟨⟨⟨rfl, i1.toInv0, i2, ?_, ?_, ?_, by simp⟩, [], rfl, ?_⟩, rfl, rfl, ?_, rfl⟩
  · rw [a1, pkBytes_nil, List.append_nil]
  · simp only [newState, pkBytes_nil, List.length_nil, Nat.add_zero, hpos]
  · simp only [newState]; rw [pw_position pw hpw]; rfl
  · intro i r s _ hs
    simp only [newState] at hs
    have : s = WBuf.new := by
      have := List.mem_of_getElem? hs
      exact List.eq_of_mem_replicate this
    subst this
    simpa [col_nil, recFields] using StreamRep.new
  · simp only [newState, hpos]

/-- the packets written by `finalize`: the drain loop, then the last flush -/
def finalizeChunks (w : PcW) (pw : PW) : List (List Bytes) :=
  match PcW.drainLoop (w.buffer.length + 1) w pw with
  | .ok st => drainChunks (w.buffer.length + 1) w pw ++ wbdChunks st.2 true
  | _ => []

/-- **`finalize`**: the final header (section length = 32 + all packet bytes, data offset, index
    offset 0) replaces the provisional one; the logical stream is the base stream with
    `header ++ packets` written at the old cursor, the cursor is behind the section -/
theorem finalize_lay {proto : Prototype} {base : LogStream} {pts : List (List Value)} {pk : List (List Bytes)}
    {w : PcW} {pw : PW} (hb : BaseOk base) (h : Lay proto base pts pk w pw) (pw' : PW) (w' : PcW)
    (pc : PointCloud) (e : w.finalize pw = .ok (pw', w', pc)) :
    pw'.Inv ∧
    pw'.abs = base.write (CvHeader.bytes ⟨32 + (pkBytes proto.length (pk ++ finalizeChunks w pw)).length,
        l2p (base.cur + 32), 0⟩ ++ pkBytes proto.length (pk ++ finalizeChunks w pw)) ∧
    (∀ cs ∈ pk ++ finalizeChunks w pw,
      cs.length = proto.length ∧ (pktBytes proto.length cs).length ≤ 65535 ∧
        0 < (cs.map List.length).sum) ∧
    (∀ (i : Nat) (r : Record), proto[i]? = some r →
      col i (pk ++ finalizeChunks w pw) = Spec.streamBytes (recFields r i pts)) ∧
    pc.fileOffset = l2p base.cur ∧ pc.records = w.pointCount ∧ pc.guid = some w.guid ∧
    pc.prototype = proto := by
  unfold PcW.finalize at e
  obtain ⟨⟨pw1, w1⟩, e1, e⟩ := Outcome.bind_eq_ok e
  obtain ⟨⟨pw2, w2⟩, e2, e⟩ := Outcome.bind_eq_ok e
  obtain ⟨l1, l2, l3, l4⟩ := drainLoop_lay hb _ pk w pw pw1 w1 h e1
  obtain ⟨m1, m2, m3, m4⟩ := wbd_last hb l1 l2 pw2 w2 e2
  have hfc : finalizeChunks w pw = drainChunks (w.buffer.length + 1) w pw ++ wbdChunks w1 true := by
    simp only [finalizeChunks, e1]
  rw [hfc, ← List.append_assoc]
  generalize pk ++ drainChunks (w.buffer.length + 1) w pw ++ wbdChunks w1 true = pk2 at m1 m2 ⊢
  have j2 := m1.pwInv
  have a2 := m1.abs
  have wfb := spec_write_length_ge base (CvHeader.bytes ⟨32, 0, 0⟩ ++ pkBytes proto.length pk2) hb.wf2
  rw [← a2] at wfb
  have wf2 := abs_wf pw2 j2
  obtain ⟨pw3, e3, k1, a3⟩ := pw_seek_back pw2 base.cur j2 (by have := hb.wf2; omega)
  obtain ⟨pw4, e4, k2, a4⟩ := pw_writeAll pw3 w2.header.bytes k1
  have l4' : pw2.abs.data.length ≤ pw4.abs.data.length := by
    rw [a4]
    have := spec_write_length_ge pw3.abs w2.header.bytes (by rw [a3]; simp only; have := hb.wf2; omega)
    rw [a3] at this ⊢
    exact this
  obtain ⟨pw5, e5, k3, a5⟩ := pw_seek_back pw4 pw2.abs.cur k2 (by omega)
  have hp2 := pw_position pw2 j2
  simp only [LogStream.physPos] at hp2
  simp only [m1.so, e3, hp2, e4, e5, Outcome.bind_ok, Bool.not_true, Bool.false_eq_true, if_false,
    Outcome.pure_eq] at e
  cases e
  refine ⟨k3, ?_, m1.legal, m2, rfl, ?_, ?_, ?_⟩
  · rw [a5, a4, a3, a2, m1.hdr]
    have := spec_patch base (CvHeader.bytes ⟨32, 0, 0⟩)
      (CvHeader.bytes ⟨32 + (pkBytes proto.length pk2).length, l2p (base.cur + 32), 0⟩)
      (pkBytes proto.length pk2) (by rw [cvHeader_length, cvHeader_length])
    rw [this]
    apply logStream_ext
    · rfl
    · simp only [spec_write_cur, List.length_append, cvHeader_length]
  · show w2.pointCount = w.pointCount
    rw [m3, l3]
  · show some w2.guid = some w.guid
    rw [m4, l4]
  · show w2.prototype = proto
    exact m1.proto_eq

/-! # Part 6 — the specification encoder lays out the same bytes -/

/-- the packet specification of a chunk list -/
def toSpecPacket (cs : List Bytes) : Spec.PacketSpec := .data (cs.map List.length)

theorem getD_map_length (cs : List Bytes) (i : Nat) :
    (cs.map List.length).getD i 0 = (cs.getD i []).length := by
  simp only [List.getD_eq_getElem?_getD, List.getElem?_map]
  cases cs[i]? <;> rfl

/-- `Spec.encodePackets` on data packets whose chunk lengths are those of `pk`, when the streams
    continue (from the cursors) with the columns of `pk`: the bytes are `pkBytes` -/
theorem encodePackets_data (streams : List Bytes) : ∀ (pk : List (List Bytes)) (cursors : List Nat)
    (pos : Nat) (acc : Bytes) (fd fi : Option Nat),
    (∀ cs ∈ pk, cs.length = streams.length) →
    (∀ i, i < streams.length →
      ∃ rest, (streams.getD i []).drop (cursors.getD i 0) = col i pk ++ rest) →
    Spec.encodePackets streams (pk.map toSpecPacket) cursors pos acc fd fi
      = (acc ++ pkBytes streams.length pk,
         (match pk with | [] => fd | _ :: _ => fd.orElse (fun _ => some pos)), fi)
  | [], cursors, pos, acc, fd, fi, _, _ => by
    simp [Spec.encodePackets, pkBytes_nil]
  | cs :: pk, cursors, pos, acc, fd, fi, hlen, hcol => by
    have hcs : cs.length = streams.length := hlen cs (by simp)
    -- the chunks the specification cuts out are `cs`
    have hchunks : (List.range streams.length).map (fun i =>
        ((streams.getD i []).drop (cursors.getD i 0)).take ((cs.map List.length).getD i 0)) = cs := by
      rw [← hcs]
      apply C12.map_range_getElem
      intro i hi
      obtain ⟨rest, hr⟩ := hcol i (by omega)
      have hg : cs.getD i [] = cs[i] := by
        rw [List.getD_eq_getElem?_getD, List.getElem?_eq_getElem hi]; rfl
      rw [hr, getD_map_length, hg]
      simp only [col, List.map_cons, List.flatten_cons, hg, List.append_assoc]
      rw [List.take_left']
      rfl
    simp only [List.map_cons, toSpecPacket, Spec.encodePackets]
    rw [hchunks]
    have ih := encodePackets_data streams pk
      ((List.range streams.length).map (fun i => cursors.getD i 0 + (cs.getD i []).length))
      (pos + (6 + ((cs.map (fun c => toLE c.length 2)).flatten ++ cs.flatten).length
        + Spec.pad4 (6 + ((cs.map (fun c => toLE c.length 2)).flatten ++ cs.flatten).length)))
      (acc ++ pktBytes streams.length cs) (fd.orElse (fun _ => some pos)) fi
      (fun x hx => hlen x (by simp [hx]))
      (by
        intro i hi
        obtain ⟨rest, hr⟩ := hcol i hi
        refine ⟨rest, ?_⟩
        have : ((List.range streams.length).map (fun i => cursors.getD i 0 + (cs.getD i []).length)).getD i 0
            = cursors.getD i 0 + (cs.getD i []).length := by
          simp [List.getD_eq_getElem?_getD, List.getElem?_map, List.getElem?_range hi]
        rw [this, ← List.drop_drop, hr]
        simp only [col, List.map_cons, List.flatten_cons, List.append_assoc]
        rw [List.drop_left'] 
        rfl)
    have hpk : ([1, 0] ++ toLE (6 + ((cs.map (fun c => toLE c.length 2)).flatten ++ cs.flatten).length
          + Spec.pad4 (6 + ((cs.map (fun c => toLE c.length 2)).flatten ++ cs.flatten).length) - 1) 2
        ++ toLE streams.length 2 ++ ((cs.map (fun c => toLE c.length 2)).flatten ++ cs.flatten)
        ++ zeros (Spec.pad4 (6 + ((cs.map (fun c => toLE c.length 2)).flatten ++ cs.flatten).length)))
        = pktBytes streams.length cs := rfl
    rw [hpk, ih]
    refine Prod.ext ?_ (Prod.ext ?_ rfl)
    · simp only [pkBytes, List.map_cons, List.flatten_cons, List.append_assoc]
    · simp only []
      cases pk with
      | nil => rfl
      | cons _ _ => cases fd <;> rfl

/-- the specification's view of the prototype and of the points -/
def specTypes (proto : Prototype) : List Spec.RecType := proto.map (fun r => toRecType r.dt)
def specPoints (pts : List (List Value)) : List (List Int) := pts.map (fun p => p.map rawOf)

theorem recordStream_eq (proto : Prototype) (pts : List (List Value)) (i : Nat) (r : Record)
    (hr : proto[i]? = some r) :
    Spec.recordStream (specTypes proto) (specPoints pts) i = Spec.streamBytes (recFields r i pts) := by
  simp only [Spec.recordStream, specTypes, specPoints, List.getElem?_map, hr, Option.map_some,
    recFields, List.map_map, Function.comp_def]

/-- the data offset the specification encoder stores: 0 without packets -/
def specDataOffset (start : Nat) : List (List Bytes) → Nat
  | [] => 0
  | _ :: _ => l2p (start + 32)

/-- **the specification encoder produces the writer's bytes**: for a ghost packet list whose columns
    are the complete record streams, `Spec.encodeSection` = final header ++ packets; the data offset
    it stores is `l2p (start + 32)` iff there is a packet -/
theorem encodeSection_cv (proto : Prototype) (pts : List (List Value)) (pk : List (List Bytes)) (start : Nat)
    (hlen : ∀ cs ∈ pk, cs.length = proto.length)
    (hcol : ∀ (i : Nat) (r : Record), proto[i]? = some r →
      col i pk = Spec.streamBytes (recFields r i pts)) :
    Spec.encodeSection start (.cv (specTypes proto) (specPoints pts) (pk.map toSpecPacket))
      = CvHeader.bytes ⟨32 + (pkBytes proto.length pk).length,
          specDataOffset start pk, 0⟩ ++ pkBytes proto.length pk := by
  have hn : (specTypes proto).length = proto.length := by simp [specTypes]
  have hsl : ((List.range (specTypes proto).length).map
      (Spec.recordStream (specTypes proto) (specPoints pts))).length = proto.length := by
    simp [hn]
  have henc := encodePackets_data ((List.range (specTypes proto).length).map
      (Spec.recordStream (specTypes proto) (specPoints pts))) pk
      (List.replicate (specTypes proto).length 0) 32 [] none none
      (by intro cs hcs; rw [hsl]; exact hlen cs hcs)
      (by
        intro i hi
        rw [hsl] at hi
        refine ⟨[], ?_⟩
        have hr : proto[i]? = some (proto[i]'hi) := List.getElem?_eq_getElem _
        have h0 : (List.replicate (specTypes proto).length 0).getD i 0 = 0 := by
          simp [List.getD_eq_getElem?_getD, hn, hi]
        have hs : ((List.range (specTypes proto).length).map
            (Spec.recordStream (specTypes proto) (specPoints pts))).getD i []
            = Spec.recordStream (specTypes proto) (specPoints pts) i := by
          simp [List.getD_eq_getElem?_getD, List.getElem?_map, List.getElem?_range (hn ▸ hi)]
        rw [h0, hs, List.drop_zero, List.append_nil, recordStream_eq proto pts i _ hr, hcol i _ hr])
  simp only [Spec.encodeSection, henc, hsl, List.nil_append, CvHeader.bytes, List.append_assoc]
  cases pk with
  | nil => rfl
  | cons _ _ => rfl

/-! # Part 7 — legality of the packet list -/

/-- bytes of record `i` carried by a packet -/
def chunkLen (i : Nat) : Spec.PacketSpec → Nat
  | .data lens => lens.getD i 0
  | _ => 0

/-- total length of a packet of a section with `n` records (header, `n` sizes, chunks, padding) -/
def packetLen (n : Nat) : Spec.PacketSpec → Nat
  | .data lens => 6 + (n * 2 + lens.sum) + Spec.pad4 (6 + (n * 2 + lens.sum))
  | .index len => len
  | .ignored len => len

/-- the legality conditions of the data packets of a compressed-vector section -/
structure LegalPackets (types : List Spec.RecType) (points : List (List Int))
    (packets : List Spec.PacketSpec) : Prop where
  /-- only data packets, one chunk length per record -/
  arity : ∀ p ∈ packets, ∃ lens, p = .data lens ∧ lens.length = types.length
  /-- per record the chunks partition the record's complete byte stream -/
  sums : ∀ i, i < types.length →
    (packets.map (chunkLen i)).sum = (Spec.recordStream types points i).length
  /-- packet length fits the `u16` length field and is a multiple of 4 -/
  len : ∀ p ∈ packets, packetLen types.length p ≤ 65535 ∧ packetLen types.length p % 4 = 0
  /-- every chunk length fits its `u16` field -/
  u16 : ∀ p ∈ packets, ∀ i, chunkLen i p < 65536
  /-- no empty packets -/
  nonempty : ∀ p ∈ packets, ∃ i, i < types.length ∧ 0 < chunkLen i p

theorem packetLen_toSpec (n : Nat) (cs : List Bytes) (h : cs.length = n) :
    packetLen n (toSpecPacket cs) = (pktBytes n cs).length := by
  rw [pktBytes_length, pktLen_eq, h]; rfl

theorem pkBytes_length (n : Nat) : ∀ (pk : List (List Bytes)), (∀ cs ∈ pk, cs.length = n) →
    (pkBytes n pk).length = ((pk.map toSpecPacket).map (packetLen n)).sum
  | [], _ => rfl
  | cs :: pk, h => by
    have ih := pkBytes_length n pk (fun x hx => h x (by simp [hx]))
    simp only [pkBytes, List.map_cons, List.flatten_cons, List.length_append, List.sum_cons] at ih ⊢
    rw [ih, packetLen_toSpec n cs (h cs (by simp))]

theorem col_length (i : Nat) : ∀ (pk : List (List Bytes)),
    (col i pk).length = ((pk.map toSpecPacket).map (chunkLen i)).sum
  | [] => rfl
  | cs :: pk => by
    have ih := col_length i pk
    simp only [col, List.map_cons, List.flatten_cons, List.length_append, List.sum_cons] at ih ⊢
    rw [ih]; simp only [toSpecPacket, chunkLen, getD_map_length]

theorem getD_le_sum : ∀ (l : List Nat) (i : Nat), l.getD i 0 ≤ l.sum
  | [], i => by simp
  | a :: l, 0 => by simp
  | a :: l, i + 1 => by
    have := getD_le_sum l i
    simp only [List.getD_cons_succ, List.sum_cons]; omega

theorem exists_pos_of_sum_pos : ∀ (l : List Nat), 0 < l.sum → ∃ i, i < l.length ∧ 0 < l.getD i 0
  | [], h => by simp at h
  | a :: l, h => by
    by_cases ha : 0 < a
    · exact ⟨0, by simp, by simpa using ha⟩
    · have : 0 < l.sum := by simp only [List.sum_cons] at h; omega
      obtain ⟨i, h1, h2⟩ := exists_pos_of_sum_pos l this
      exact ⟨i + 1, by simpa using h1, by simpa using h2⟩

theorem legal_of_chunks (proto : Prototype) (pts : List (List Value)) (pk : List (List Bytes))
    (hleg : ∀ cs ∈ pk, cs.length = proto.length ∧ (pktBytes proto.length cs).length ≤ 65535 ∧
      0 < (cs.map List.length).sum)
    (hcol : ∀ (i : Nat) (r : Record), proto[i]? = some r →
      col i pk = Spec.streamBytes (recFields r i pts)) :
    LegalPackets (specTypes proto) (specPoints pts) (pk.map toSpecPacket) := by
  have hn : (specTypes proto).length = proto.length := by simp [specTypes]
  have hlenp : ∀ cs ∈ pk, packetLen proto.length (toSpecPacket cs) ≤ 65535 ∧
      packetLen proto.length (toSpecPacket cs) % 4 = 0 := by
    intro cs hcs
    obtain ⟨h1, h2, _⟩ := hleg cs hcs
    rw [packetLen_toSpec _ cs h1]
    exact ⟨h2, by rw [pktBytes_length]; exact pktLen_mod4 _ _⟩
  refine ⟨?_, ?_, ?_, ?_, ?_⟩
  · intro p hp
    obtain ⟨cs, hcs, rfl⟩ := List.mem_map.1 hp
    exact ⟨_, rfl, by rw [List.length_map, hn]; exact (hleg cs hcs).1⟩
  · intro i hi
    rw [hn] at hi
    have hr : proto[i]? = some (proto[i]'hi) := List.getElem?_eq_getElem _
    rw [← col_length, recordStream_eq proto pts i _ hr, hcol i _ hr]
  · intro p hp
    obtain ⟨cs, hcs, rfl⟩ := List.mem_map.1 hp
    rw [hn]; exact hlenp cs hcs
  · intro p hp i
    obtain ⟨cs, hcs, rfl⟩ := List.mem_map.1 hp
    have h1 := (hlenp cs hcs).1
    have h2 := getD_le_sum (cs.map List.length) i
    simp only [toSpecPacket, chunkLen, packetLen] at h1 ⊢
    omega
  · intro p hp
    obtain ⟨cs, hcs, rfl⟩ := List.mem_map.1 hp
    obtain ⟨h1, _, h3⟩ := hleg cs hcs
    obtain ⟨i, hi, hpos⟩ := exists_pos_of_sum_pos _ h3
    exact ⟨i, by rw [hn, ← h1]; simpa using hi, hpos⟩

/-- a record of width zero has an empty byte stream -/
theorem streamBytes_zero_width (r : Record) (i : Nat) (pts : List (List Value))
    (h0 : (toRecType r.dt).bits = 0) : Spec.streamBytes (recFields r i pts) = [] := by
  have : recFields r i pts = (pts.map (fun p => (toRecType r.dt).field ((p.map rawOf).getD i 0))).map
      (fun v => (v, 0)) := by
    simp only [recFields, h0, List.map_map, Function.comp_def]
  unfold Spec.streamBytes
  rw [this, Spec.pack_width, Nat.mul_zero]
  rfl

theorem chunk_le_col (i : Nat) (cs : List Bytes) : ∀ (pk : List (List Bytes)), cs ∈ pk →
    (cs.getD i []).length ≤ (col i pk).length
  | [], h => by simp at h
  | c :: pk, h => by
    simp only [col, List.map_cons, List.flatten_cons, List.length_append]
    rcases List.mem_cons.1 h with rfl | h
    · omega
    · have := chunk_le_col i cs pk h
      simp only [col] at this; omega

/-- for a prototype whose records all have width zero no packet is written -/
theorem no_packets_of_zero_width (proto : Prototype) (hi : ProtoI64 proto) (pts : List (List Value))
    (pk : List (List Bytes)) (hz : pointBits proto = 0)
    (hleg : ∀ cs ∈ pk, cs.length = proto.length ∧ (pktBytes proto.length cs).length ≤ 65535 ∧
      0 < (cs.map List.length).sum)
    (hcol : ∀ (i : Nat) (r : Record), proto[i]? = some r →
      col i pk = Spec.streamBytes (recFields r i pts)) : pk = [] := by
  cases pk with
  | nil => rfl
  | cons cs pk =>
    exfalso
    obtain ⟨h1, _, h3⟩ := hleg cs (by simp)
    obtain ⟨i, hil, hpos⟩ := exists_pos_of_sum_pos _ h3
    rw [List.length_map, h1] at hil
    have hr : proto[i]? = some (proto[i]'hil) := List.getElem?_eq_getElem _
    have hmem : proto[i]'hil ∈ proto := List.getElem_mem _
    have hb : (proto[i]'hil).dt.bitSize = 0 :=
      sum_eq_zero_forall _ hz _ (List.mem_map.2 ⟨_, hmem, rfl⟩)
    rw [bitSize_eq_bits _ (hi _ hmem)] at hb
    have hc := hcol i _ hr
    rw [streamBytes_zero_width _ i pts hb] at hc
    have := chunk_le_col i cs (cs :: pk) (by simp)
    rw [hc, ← getD_map_length] at this
    simp only [List.length_nil] at this
    omega

/-! # Part 8 — capstone -/

/-- writing at the cursor leaves the bytes before the cursor alone -/
theorem write_take (s : LogStream) (b : Bytes) (h2 : s.cur ≤ s.data.length) :
    (s.write b).data.take s.cur = s.data.take s.cur := by
  unfold LogStream.write
  simp only []
  generalize max s.data.length ((s.cur + b.length + 1019) / 1020 * 1020) - s.data.length = k
  have hl : ((s.data ++ zeros k).take s.cur).length = s.cur := by
    rw [List.length_take, List.length_append]; omega
  rw [List.append_assoc, List.take_append_of_le_length (by omega), List.take_of_length_le (by omega),
    List.take_append_of_le_length h2]

/-- … and the window behind the old cursor holds exactly the bytes written -/
theorem write_window (s : LogStream) (b : Bytes) (h2 : s.cur ≤ s.data.length) :
    ((s.write b).data.drop s.cur).take b.length = b := by
  unfold LogStream.write
  simp only []
  generalize max s.data.length ((s.cur + b.length + 1019) / 1020 * 1020) - s.data.length = k
  have hl : ((s.data ++ zeros k).take s.cur).length = s.cur := by
    rw [List.length_take, List.length_append]; omega
  rw [List.append_assoc]
  conv => lhs; arg 2; arg 1; rw [← hl]
  rw [List.drop_left', List.take_left']
  · rfl
  · rfl

/-- … and behind the written bytes the stream keeps its old bytes (zero fill where it was shorter) -/
theorem write_after (s : LogStream) (b : Bytes) (h2 : s.cur ≤ s.data.length) :
    ∃ k, (s.write b).data.drop (s.cur + b.length) = (s.data ++ zeros k).drop (s.cur + b.length) := by
  refine ⟨max s.data.length ((s.cur + b.length + 1019) / 1020 * 1020) - s.data.length, ?_⟩
  unfold LogStream.write
  simp only []
  generalize max s.data.length ((s.cur + b.length + 1019) / 1020 * 1020) - s.data.length = k
  have hl : ((s.data ++ zeros k).take s.cur ++ b).length = s.cur + b.length := by
    rw [List.length_append, List.length_take, List.length_append]; omega
  rw [← hl, List.drop_left']
  rfl

/-- the chunk lists of all packets written by a whole session `new; add_point*; finalize` -/
def sessionChunks (pw : PW) (exts : List (String × String)) (guid : String) (proto : Prototype)
    (pts : List (List Value)) : List (List Bytes) :=
  match PcW.new pw exts guid proto with
  | .ok st0 =>
    match addPoints pts st0 with
    | .ok st1 => addPointsChunks pts st0 ++ finalizeChunks st1.2 st1.1
    | _ => []
  | _ => []

/-- **the ghost list of emitted packets**: every `write_buffer_to_disk` call that writes a packet
    contributes `.data sizes`, `sizes` being the byte counts drained from the streams -/
def emitted (pw : PW) (exts : List (String × String)) (guid : String) (proto : Prototype)
    (pts : List (List Value)) : List Spec.PacketSpec :=
  (sessionChunks pw exts guid proto pts).map toSpecPacket

/-- what a finalized point-cloud section looks like on the logical stream -/
structure SectionLayout (pw pw2 : PW) (pc : PointCloud) (guid : String) (proto : Prototype)
    (pts : List (List Value)) (packets : List Spec.PacketSpec) : Prop where
  inv : pw2.Inv
  /-- section length = 32 + Σ packet lengths, data offset = physical offset right behind the header
      (= of the first packet), index offset 0; behind it the packets exactly as the specification
      encoder lays them out -/
  window : (pw2.abs.data.drop pw.abs.cur).take
      (32 + (packets.map (packetLen proto.length)).sum)
    = CvHeader.bytes ⟨32 + (packets.map (packetLen proto.length)).sum, l2p (pw.abs.cur + 32), 0⟩
      ++ (Spec.encodeSection pw.abs.cur (.cv (specTypes proto) (specPoints pts) packets)).drop 32
  /-- with at least one packet this IS the specification's section -/
  spec : packets ≠ [] → (pw2.abs.data.drop pw.abs.cur).take
      (32 + (packets.map (packetLen proto.length)).sum)
    = Spec.encodeSection pw.abs.cur (.cv (specTypes proto) (specPoints pts) packets)
  before : pw2.abs.data.take pw.abs.cur = pw.abs.data.take pw.abs.cur
  cursor : pw2.abs.cur = pw.abs.cur + 32 + (packets.map (packetLen proto.length)).sum
  /-- behind the section: the old bytes, zero fill where the stream was shorter -/
  after : ∃ k, pw2.abs.data.drop (pw.abs.cur + 32 + (packets.map (packetLen proto.length)).sum)
    = (pw.abs.data ++ zeros k).drop (pw.abs.cur + 32 + (packets.map (packetLen proto.length)).sum)
  fileOffset : pc.fileOffset = l2p pw.abs.cur
  records : pc.records = pts.length
  proto_eq : pc.prototype = proto
  guid_eq : pc.guid = some guid
  legal : LegalPackets (specTypes proto) (specPoints pts) packets
  zeroWidth : pointBits proto = 0 → packets = []

theorem cvHeader_drop (h : CvHeader) (b : Bytes) : (h.bytes ++ b).drop 32 = b := by
  have := cvHeader_length h
  rw [← this, List.drop_left']
  rfl

/-- **writer_layout (capstone, conditional form)**: whenever `new`, the `add_point`s and `finalize`
    return `ok` on a well-formed page writer whose cursor is 4-byte aligned, the finalized section
    is laid out as `SectionLayout` says, with `packets = emitted …` -/
theorem writer_layout (pw : PW) (exts : List (String × String)) (guid : String) (proto : Prototype)
    (pts : List (List Value)) (hpw : pw.Inv) (hal : pw.abs.cur % 4 = 0) (hi : ProtoI64 proto)
    (pw0 : PW) (w0 : PcW) (pw1 : PW) (w1 : PcW) (pw2 : PW) (w2 : PcW) (pc : PointCloud)
    (hnew : PcW.new pw exts guid proto = .ok (pw0, w0))
    (hadd : addPoints pts (pw0, w0) = .ok (pw1, w1))
    (hfin : w1.finalize pw1 = .ok (pw2, w2, pc)) :
    SectionLayout pw pw2 pc guid proto pts (emitted pw exts guid proto pts) := by
  obtain ⟨wf1, wf2⟩ := abs_wf pw hpw
  have hb : BaseOk pw.abs := ⟨wf1, wf2, hal⟩
  obtain ⟨l0, c0, g0, _, _⟩ := new_lay pw exts guid proto hpw hi pw0 w0 hnew
  obtain ⟨l1, c1, g1⟩ := addPoints_lay hb pts [] [] w0 pw0 pw1 w1 l0 hadd
  simp only [List.nil_append] at l1
  obtain ⟨f1, f2, f3, f4, f5, f6, f7, f8⟩ := finalize_lay hb l1 pw2 w2 pc hfin
  have hsc : sessionChunks pw exts guid proto pts
      = addPointsChunks pts (pw0, w0) ++ finalizeChunks w1 pw1 := by
    simp only [sessionChunks, hnew, hadd]
  unfold emitted
  rw [hsc]
  generalize addPointsChunks pts (pw0, w0) ++ finalizeChunks w1 pw1 = pk at f2 f3 f4
  have hlen : ∀ cs ∈ pk, cs.length = proto.length := fun cs hcs => (f3 cs hcs).1
  have hsum := pkBytes_length proto.length pk hlen
  have henc := encodeSection_cv proto pts pk pw.abs.cur hlen f4
  have hwin : (pw2.abs.data.drop pw.abs.cur).take (32 + (pkBytes proto.length pk).length)
      = CvHeader.bytes ⟨32 + (pkBytes proto.length pk).length, l2p (pw.abs.cur + 32), 0⟩
        ++ pkBytes proto.length pk := by
    have := write_window pw.abs (CvHeader.bytes ⟨32 + (pkBytes proto.length pk).length,
      l2p (pw.abs.cur + 32), 0⟩ ++ pkBytes proto.length pk) wf2
    rw [List.length_append, cvHeader_length] at this
    rw [f2]; exact this
  refine ⟨f1, ?_, ?_, by rw [f2]; exact write_take _ _ wf2, ?_, ?_, f5, by rw [f6, c1, c0]; simp, f8,
    by rw [f7, g1, g0], legal_of_chunks proto pts pk f3 f4, ?_⟩
  · rw [← hsum, hwin, henc, cvHeader_drop]
  · intro hne
    rw [← hsum, hwin, henc]
    cases pk with
    | nil => exact absurd rfl hne
    | cons _ _ => rfl
  · rw [← hsum, f2, spec_write_cur, List.length_append, cvHeader_length]; omega
  · obtain ⟨k, hk⟩ := write_after pw.abs (CvHeader.bytes ⟨32 + (pkBytes proto.length pk).length,
      l2p (pw.abs.cur + 32), 0⟩ ++ pkBytes proto.length pk) wf2
    rw [List.length_append, cvHeader_length, ← Nat.add_assoc] at hk
    exact ⟨k, by rw [← hsum, f2]; exact hk⟩
  · intro hz
    rw [no_packets_of_zero_width proto hi pts pk hz f3 f4]; rfl

/-- **writer_layout_legal (capstone, total form)**: for a prototype accepted by `new` (with `i64`
    bounds and distinct record names) and points that fit the prototype, the whole session succeeds
    and the section it leaves on the logical stream is a legal compressed-vector section -/
theorem writer_layout_legal (pw : PW) (exts : List (String × String)) (guid : String) (proto : Prototype)
    (hpw : pw.Inv) (hal : pw.abs.cur % 4 = 0) (hi : ProtoI64 proto) (hn : NoDupNames proto)
    (pw0 : PW) (w0 : PcW) (hnew : PcW.new pw exts guid proto = .ok (pw0, w0))
    (pts : List (List Value))
    (hpts : ∀ pt ∈ pts, pt.length = proto.length ∧ checkValues proto pt = true) :
    ∃ pw1 w1 pw2 w2 pc, addPoints pts (pw0, w0) = .ok (pw1, w1) ∧
      w1.finalize pw1 = .ok (pw2, w2, pc) ∧
      SectionLayout pw pw2 pc guid proto pts (emitted pw exts guid proto pts) := by
  obtain ⟨pw1, w1, pw2, w2, pc, e1, e2, _⟩ := session_ok pw exts guid proto hpw hi hn pw0 w0 hnew pts hpts
  exact ⟨pw1, w1, pw2, w2, pc, e1, e2,
    writer_layout pw exts guid proto pts hpw hal hi pw0 w0 pw1 w1 pw2 w2 pc hnew e1 e2⟩

/-! # Part 9 — the theorems under the names of the task, the deviation for empty sections -/

/-- **stream_refines**: after `new` and any accepted `add_point`s, some prefix `mv` of the accepted
    points has been moved from the buffer into the streams, and for every record `i`:
    (bytes drained from stream `i` so far, concatenated) ++ (what `get_all_bytes` would return now)
    = the specification byte stream of record `i` for the points `mv` — value − minimum (or the float
    bit pattern), least significant bit first, contiguous across points, bytes and packets -/
theorem stream_refines (pw : PW) (exts : List (String × String)) (guid : String) (proto : Prototype)
    (pts : List (List Value)) (hpw : pw.Inv) (hal : pw.abs.cur % 4 = 0) (hi : ProtoI64 proto)
    (pw0 : PW) (w0 : PcW) (pw1 : PW) (w1 : PcW)
    (hnew : PcW.new pw exts guid proto = .ok (pw0, w0))
    (hadd : addPoints pts (pw0, w0) = .ok (pw1, w1)) :
    ∃ mv, mv ++ w1.buffer = pts ∧
      ∀ (i : Nat) (s : WBuf), i < proto.length → w1.streams[i]? = some s →
        col i (addPointsChunks pts (pw0, w0)) ++ s.getAllBytes.1
          = Spec.recordStream (specTypes proto) (specPoints mv) i := by
  obtain ⟨wf1, wf2⟩ := abs_wf pw hpw
  have hb : BaseOk pw.abs := ⟨wf1, wf2, hal⟩
  obtain ⟨l0, _⟩ := new_lay pw exts guid proto hpw hi pw0 w0 hnew
  obtain ⟨l1, _⟩ := addPoints_lay hb pts [] [] w0 pw0 pw1 w1 l0 hadd
  simp only [List.nil_append] at l1
  obtain ⟨mv, hmv, hc⟩ := l1.content
  refine ⟨mv, hmv, fun i s hil hs => ?_⟩
  have hr : proto[i]? = some (proto[i]'hil) := List.getElem?_eq_getElem _
  rw [recordStream_eq proto mv i _ hr]
  exact (hc i _ s hr hs).bytes

/-- **packet_bytes**: one `write_buffer_to_disk` (regular or last flush) on a well-formed writer and a
    page writer whose cursor is 4-byte aligned writes either nothing or exactly one data packet
    `pktBytes` — 6-byte header `[1,0] ++ toLE (len-1) 2 ++ toLE n 2`, the `u16` sizes, the drained
    chunks, zero padding to a multiple of 4 — onto the logical stream at the cursor, and adds the
    packet length (a multiple of 4, at most 65535) to the section length under construction -/
theorem packet_bytes (w : PcW) (pw : PW) (lf : Bool) (hw : w.Inv0) (hpw : pw.Inv)
    (hal : pw.abs.cur % 4 = 0) (pw' : PW) (w' : PcW)
    (e : w.writeBufferToDisk pw lf = .ok (pw', w')) :
    pw'.Inv ∧ pw'.abs.cur % 4 = 0 ∧
    ((wbdChunks w lf = [] ∧ pw'.abs = pw.abs ∧ w'.header = w.header) ∨
     (∃ cs, wbdChunks w lf = [cs] ∧ cs.length = w.prototype.length ∧
        pw'.abs = pw.abs.write (pktBytes w.prototype.length cs) ∧
        (pktBytes w.prototype.length cs).length ≤ 65535 ∧
        (pktBytes w.prototype.length cs).length % 4 = 0 ∧
        w'.header = { w.header with
          sectionLength := w.header.sectionLength + (pktBytes w.prototype.length cs).length })) := by
  rw [writeBufferToDisk_eq] at e
  obtain ⟨r, e1, e2⟩ := Outcome.bind_eq_ok e
  obtain ⟨ss, f1, f2, _, _⟩ := writePoints_spec w.prototype hw.i64 (min w.maxPoints w.buffer.length)
    w.buffer w.streams (Nat.min_le_right _ _) hw.buf hw.slen hw.sinv
  rw [f1] at e1; cases e1
  obtain ⟨g1, g2, g3, g4⟩ := wbdTail_abs w pw lf _ ss hpw hal f2 pw' w' e2
  have hch : wbdChunks w lf = (if sumNat (sizesOf lf ss) > 0 then [chunksOf lf ss] else []) := by
    simp only [wbdChunks, wbdChunksCore, f1]
  have hlen := pktBytes_chunks_length w.prototype.length lf ss f2
  have hm4 : (pktBytes w.prototype.length (chunksOf lf ss)).length % 4 = 0 := by
    rw [hlen]; exact pktLen_mod4 _ _
  by_cases hsum : sumNat (sizesOf lf ss) > 0
  · obtain ⟨a1, a2⟩ := g3 hsum
    refine ⟨g2, ?_, .inr ⟨chunksOf lf ss, by rw [hch, if_pos hsum], by rw [chunksOf_length, f2], a1, a2, hm4, ?_⟩⟩
    · rw [a1, spec_write_cur]; omega
    · rw [g1]; unfold wbdNext; rw [if_pos hsum, hlen]
  · refine ⟨g2, by rw [g4 hsum]; exact hal, .inl ⟨by rw [hch, if_neg hsum], g4 hsum, ?_⟩⟩
    rw [g1]; unfold wbdNext; rw [if_neg hsum]

/-- a single packet of `pktBytes` is what `Spec.encodePackets` lays out for `.data sizes` -/
theorem pktBytes_eq_spec (streams : List Bytes) (cs : List Bytes) (cursors : List Nat) (pos : Nat)
    (hlen : cs.length = streams.length)
    (hcol : ∀ i, i < streams.length →
      ∃ rest, (streams.getD i []).drop (cursors.getD i 0) = cs.getD i [] ++ rest) :
    Spec.encodePackets streams [.data (cs.map List.length)] cursors pos [] none none
      = (pktBytes streams.length cs, some pos, none) := by
  have := encodePackets_data streams [cs] cursors pos [] none none (by simpa using hlen)
    (by intro i hi; obtain ⟨rest, hr⟩ := hcol i hi; exact ⟨rest, by rw [col_single]; exact hr⟩)
  simpa [toSpecPacket, pkBytes_single] using this

/-- **the data offset**: the header kept by a new writer (and written by `finalize`, see
    `finalize_lay` / `SectionLayout.window`) has `dataOffset = physicalPosition` right behind the 32
    provisional header bytes `= l2p (s + 32)` — also when the header straddles a page boundary -/
theorem new_dataOffset (pw : PW) (exts : List (String × String)) (guid : String) (proto : Prototype)
    (hpw : pw.Inv) (hi : ProtoI64 proto) (pw0 : PW) (w0 : PcW)
    (hnew : PcW.new pw exts guid proto = .ok (pw0, w0)) :
    w0.header = ⟨32, l2p (pw.abs.cur + 32), 0⟩ ∧ w0.header.dataOffset = pw0.physicalPosition ∧
      w0.sectionOffset = l2p pw.abs.cur ∧ pw0.abs = pw.abs.write (CvHeader.bytes ⟨32, 0, 0⟩) := by
  obtain ⟨l0, _, _, _, h5⟩ := new_lay pw exts guid proto hpw hi pw0 w0 hnew
  have := l0.io.hdr
  simp only [pkBytes_nil, List.length_nil, Nat.add_zero] at this
  refine ⟨this, h5, l0.io.so, ?_⟩
  have := l0.io.abs
  rwa [pkBytes_nil, List.append_nil] at this

/-- a header straddling the page boundary at 1020: cursor 1000, first packet at logical 1032, which
    is physical 1036 (one 4-byte checksum in between) -/
example : l2p (1000 + 32) = 1036 := by decide

/-! ### the deviation: a section without packets

`Spec.encodeSection` stores data offset 0 when the section has no data packet; the writer always
stores the physical position behind the header.  The two agree iff a packet was written. -/

theorem encodeSection_no_packets (s : Nat) (types : List Spec.RecType) (points : List (List Int)) :
    Spec.encodeSection s (.cv types points []) = CvHeader.bytes ⟨32, 0, 0⟩ := by
  simp [Spec.encodeSection, Spec.encodePackets, CvHeader.bytes]

theorem toLE_inj8 (a b : Nat) (ha : a < 2 ^ 64) (hb : b < 2 ^ 64) (h : toLE a 8 = toLE b 8) : a = b := by
  have := congrArg leVal h
  rw [leVal_toLE, leVal_toLE] at this
  have e : (2 : Nat) ^ (8 * 8) = 2 ^ 64 := by decide
  rw [e, Nat.mod_eq_of_lt ha, Nat.mod_eq_of_lt hb] at this
  exact this

theorem cvHeader_dataOffset_inj (sl a b io : Nat) (ha : a < 2 ^ 64) (hb : b < 2 ^ 64)
    (h : CvHeader.bytes ⟨sl, a, io⟩ = CvHeader.bytes ⟨sl, b, io⟩) : a = b := by
  simp only [CvHeader.bytes, List.append_assoc] at h
  have h1 := List.append_cancel_left h
  have h2 := List.append_cancel_left h1
  have h3 := List.append_cancel_left h2
  have h4 := List.append_cancel_right h3
  exact toLE_inj8 a b ha hb h4

/-- **counterexample to "the writer's section = `Spec.encodeSection`" for sections without packets**
    (no points, or only zero-width records): the writer's header carries the data offset
    `l2p (s + 32) ≠ 0`, the specification encoder writes 0 -/
theorem empty_section_deviates (pw pw2 : PW) (pc : PointCloud) (guid : String) (proto : Prototype)
    (pts : List (List Value)) (h : SectionLayout pw pw2 pc guid proto pts [])
    (hs : l2p (pw.abs.cur + 32) < 2 ^ 64) :
    (pw2.abs.data.drop pw.abs.cur).take 32 = CvHeader.bytes ⟨32, l2p (pw.abs.cur + 32), 0⟩ ∧
    (pw2.abs.data.drop pw.abs.cur).take 32
      ≠ Spec.encodeSection pw.abs.cur (.cv (specTypes proto) (specPoints pts) []) := by
  have hw := h.window
  simp only [List.map_nil, List.sum_nil, Nat.add_zero, encodeSection_no_packets] at hw
  have hd : (CvHeader.bytes ⟨32, 0, 0⟩).drop 32 = [] :=
    List.drop_eq_nil_of_le (by rw [cvHeader_length]; omega)
  rw [hd, List.append_nil] at hw
  refine ⟨hw, ?_⟩
  rw [hw, encodeSection_no_packets]
  intro heq
  have := cvHeader_dataOffset_inj 32 _ 0 0 hs (by decide) heq
  unfold l2p at this
  omega

/-- without points no packet is written (so the deviation is reachable: `new; finalize`) -/
theorem no_points_no_packets (pw pw2 : PW) (pc : PointCloud) (guid : String) (proto : Prototype)
    (packets : List Spec.PacketSpec) (h : SectionLayout pw pw2 pc guid proto [] packets) :
    packets = [] := by
  cases packets with
  | nil => rfl
  | cons p ps =>
    exfalso
    obtain ⟨i, hi, hpos⟩ := h.legal.nonempty p (by simp)
    have hs := h.legal.sums i hi
    have h0 : (Spec.recordStream (specTypes proto) (specPoints []) i).length = 0 := by
      unfold Spec.recordStream
      cases (specTypes proto)[i]? with
      | none => rfl
      | some t => simp [specPoints, Spec.streamBytes, Spec.pack, Spec.packFrom, toLE]
    rw [h0] at hs
    simp only [List.map_cons, List.sum_cons] at hs
    omega

/-! # Part 10 — non-vacuity: a concrete session whose header straddles a page boundary -/

namespace LayoutEx

/-- 10-bit integer, `f32`, 4-bit integer -/
def proto : Prototype :=
  [⟨.cartesianX, .integer 0 1000⟩, ⟨.cartesianY, .single none none⟩, ⟨.cartesianZ, .integer (-5) 5⟩]

def pts : List (List Value) :=
  [[.integer 1000, .single 0x3f800000, .integer (-5)], [.integer 7, .single 0, .integer 5]]

/-- a page writer with 1000 logical bytes written: the 32-byte section header straddles the page
    boundary at 1020, the first packet starts at logical 1032 = physical 1036 -/
def base : PW := match w0.writeAll (zeros 1000) with | .ok p => p | _ => w0

def run : Option (PW × PointCloud) :=
  match PcW.new base [] "g" proto with
  | .ok st0 =>
    match addPoints pts st0 with
    | .ok st1 =>
      match st1.2.finalize st1.1 with
      | .ok r => some (r.1, r.2.2)
      | _ => none
    | _ => none
  | _ => none

/-- the model, evaluated: two packets (regular flush of the two points: 2 + 8 + 1 bytes; last flush:
    the incomplete byte of record 0), the section bytes are `Spec.encodeSection`, data offset 1036 -/
def check : Bool :=
  match run with
  | some (pw2, pc) =>
    let sizes := (sessionChunks base [] "g" proto pts).map (·.map List.length)
    sizes == [[2, 8, 1], [1, 0, 0]] &&
    (pw2.abs.data.drop 1000).take 72 == Spec.encodeSection 1000 (.cv (specTypes proto) (specPoints pts)
      (sizes.map Spec.PacketSpec.data)) &&
    ((pw2.abs.data.drop 1016).take 8 == toLE 1036 8) &&
    pw2.abs.cur == 1072 && pc.fileOffset == l2p 1000 && pc.records == 2
  | none => false

theorem check_true : check = true := by decide +kernel

/-- the same session without points: no packet; the writer stores data offset 1036 where
    `Spec.encodeSection` stores 0 (the deviation of `empty_section_deviates`, evaluated) -/
def checkEmpty : Bool :=
  match PcW.new base [] "g" proto with
  | .ok st0 =>
    match st0.2.finalize st0.1 with
    | .ok r =>
      (sessionChunks base [] "g" proto []).isEmpty &&
      (r.1.abs.data.drop 1000).take 32 == CvHeader.bytes ⟨32, 1036, 0⟩ &&
      Spec.encodeSection 1000 (.cv (specTypes proto) (specPoints []) []) == CvHeader.bytes ⟨32, 0, 0⟩ &&
      (r.1.abs.data.drop 1000).take 32 != Spec.encodeSection 1000 (.cv (specTypes proto) (specPoints []) [])
    | _ => false
  | _ => false

theorem checkEmpty_true : checkEmpty = true := by decide +kernel

theorem base_ok : base.Inv ∧ base.abs.cur = 1000 := by
  obtain ⟨p, e, i, a⟩ := pw_writeAll w0 (zeros 1000) w0_inv
  have hb : base = p := by unfold base; rw [e]
  rw [hb]
  refine ⟨i, ?_⟩
  have h0 : w0.abs.cur = 0 := by rw [w0_rep.abs_eq]; rfl
  rw [a, spec_write_cur, zeros_length, h0]

theorem proto_i64 : ProtoI64 proto := by
  intro r hr
  simp only [proto, List.mem_cons, List.not_mem_nil, or_false] at hr
  rcases hr with rfl | rfl | rfl
  · exact ⟨by decide, by decide⟩
  · trivial
  · exact ⟨by decide, by decide⟩

theorem new_isOk : (PcW.new base [] "g" proto).isOk = true := by decide +kernel

/-- all hypotheses of `writer_layout_legal` hold for the concrete session: the theorem is not vacuous -/
theorem instance_of_capstone :
    ∃ pw2 pc, SectionLayout base pw2 pc "g" proto pts (emitted base [] "g" proto pts) := by
  have hn := new_isOk
  cases h0 : PcW.new base [] "g" proto with
  | err e => rw [h0] at hn; cases hn
  | panic e => rw [h0] at hn; cases hn
  | ok st0 =>
    obtain ⟨pw0, w0'⟩ := st0
    obtain ⟨_, _, pw2, _, pc, _, _, hl⟩ := writer_layout_legal base [] "g" proto base_ok.1
      (by rw [base_ok.2]) proto_i64 (by unfold NoDupNames; decide) pw0 w0' h0 pts (by decide)
    exact ⟨pw2, pc, hl⟩

end LayoutEx

end E57

/-! ## axiom audit -/
