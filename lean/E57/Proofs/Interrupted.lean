/-
C15: an interrupted write is never mistaken for a complete file (model level).

Assumption of the property: device writes reach the device in issue order; a crash leaves the device
with the first `k` writes complete and a prefix of the next one (`crashImage`).

  1  what `Reader.open` rejects
       Unfinal, RejectsEmpty (the exact hypothesis on the external XML front end),
       open_rejects_unfinalized (+ _of_none), Hdr0, Hdr0.unfinal, torn_hdr0
  2  the device writes of the page writer (`Dev` has no log): Log, devWrite, applyWrites, crashImage,
       CrashSafe (⇔ all crash images, CrashSafe.image / .of_images), flushLog … runLog,
       faithfulness: flush_data, write1_data, step_data, run_data
  3  the invariant `Safe` and its preservation by every page-writer operation that does not seek below
       physical offset 48, together with crash safety of every device write issued: run_safe
  4  the page-writer operations of the public writer functions (blobOps, imageBlobsOps, pcNewOps,
       wbdOps, addPointOps, drainOps, pcFinOps; `*_ops`: running them reproduces the function,
       `*_opsOK`: they never seek below 48)
  5  sessions (`Reach`): reach_safe, reach_xml_fields_zero, reach_crashSafe, crash_image_rejected,
       killed_rejected, dropped_rejected, dropped_log_crashSafe
  6  non-vacuity: ex_session (new, one blob, no finalize; kernel-evaluated)
  7  the device writes of the top-level `finalize`: finalizeOps, finalize_ops, finalize_log
  8  the torn header write: tornHeader_early (cut ≤ 32: rejected), tornHeader_mid (32 < cut < 40:
       truncated XML length), tornHeader_late (cut ≥ 40: the complete file up to the 4 checksum bytes
       of page 0), tornHeader_newLength;
       with the header page check of `E57Reader::new` (`checkHeaderPage`): newPage0_valid,
       tornHeader_late_valid_iff (cut ≥ 40: page 0 valid ⇔ the image is the complete file),
       tornHeader_late_rejected, torn_header_rejected (rejected unless the cut is inside the XML-length
       field AND the torn page 0 happens to carry a valid checksum);
       open_swap, tornHeader_late_opens / _accepted (now under the hypothesis that page 0 is valid);
       torn_header_rejected_statement (+ _false, with a kernel-checked witness: a CRC collision)
  9  a whole session ending with finalize: finalize_crash, finalize_succeeds, ex_finalize, ex_finalize_closed
  10 open_unfinalized_iff: the hypothesis `RejectsEmpty` cannot be weakened

Findings
  * `Drop for PagedWriter` flushes: dropping the writer without `finalize` is one MORE device write
    (not "no further writes"); covered by `dropped_rejected`.
  * (repaired in the crate, `validate_header_page`) `Reader.open` did not check the checksum of page 0
    (the header is read raw).  A header write torn at a cut in 40..1023 leaves the final header over the
    old page-0 checksum: such an image was opened like the complete file although page 0 fails its CRC.
    `Reader.open` now reads the 48 header bytes once more through the paged reader: such an image is
    rejected (tornHeader_late_rejected); tornHeader_late states the exact difference (bytes 1020..1024
    only).  What remains is a cut inside the XML-length field (33..39) whose torn page 0 -- truncated XML
    length, checksum of the placeholder page -- collides with a valid checksum:
    torn_header_rejected_statement_false is the machine-checked witness (the file-length field, which
    the reader ignores, is chosen to produce the collision).
  * A cut inside the XML-length field (33..39) yields a header with the XML length reduced modulo
    256^(cut-32) (tornHeader_mid); whether such an image is rejected depends on the XML parser refusing
    a proper prefix of the XML text (outside the model).
Core Lean only.
-/
import E57.Model.Writer
import E57.Model.Reader
import E57.Proofs.PagesWrite
import E57.Proofs.PagesRead
import E57.Proofs.HeaderPage
import E57.Proofs.History
import E57.Proofs.CrcAlgebra
import E57.Proofs.WriterProps
namespace E57
namespace Interrupt

/-! # 1. What the reader rejects -/

/-- the placeholder header `E57Writer::new` writes: XML offset and XML length zero -/
def hdr0 : Bytes := fileHeaderBytes 0 0 0

theorem hdr0_length : hdr0.length = 48 := by decide +kernel

/-- `d` cannot be a finalized file: no parsable header, or a header announcing an empty XML section -/
def Unfinal (d : Bytes) : Prop :=
  FileHeader.read d = none ∨ ∃ h, FileHeader.read d = some h ∧ h.xmlLength = 0

theorem readExact_zero (r : PR) : r.readExact 0 = (r, some []) := by
  simp [PR.readExact, PR.readExactFuel]

theorem extractXml_zero (r : PR) (off : Nat) :
    extractXml r off 0 = none ∨ ∃ r', extractXml r off 0 = some (r', []) := by
  unfold extractXml
  split
  · left; rfl
  · split
    · next r1 _ _ =>
      right
      rw [readExact_zero]
      exact ⟨_, rfl⟩
    · left; rfl

/-- the XML front end (external parser + interpretation of the document) does not produce a file
    description from the empty text -/
def RejectsEmpty (xo : XmlOracle) (fp : FloatParse) : Prop :=
  ∀ doc, xo [] = some doc →
    rootFromDocument fp doc = none ∨ pointcloudsFromDocument fp doc = none ∨
      imagesFromDocument fp doc = none

theorem rejectsEmpty_of_none (xo : XmlOracle) (fp : FloatParse) (h : xo [] = none) : RejectsEmpty xo fp := by
  intro doc hd; rw [h] at hd; cases hd

/-- **(2)** a content without parsable header, or whose header announces an empty XML section, is
    rejected — provided the XML front end does not accept the empty text -/
theorem open_rejects_unfinalized (d : Bytes) (xo : XmlOracle) (fp : FloatParse)
    (hxo : RejectsEmpty xo fp) (hd : Unfinal d) : Reader.open d xo fp = none := by
  unfold Reader.open
  rcases hd with h | ⟨h, hh, hz⟩
  · rw [h]; rfl
  · rw [hh]
    simp only [Option.bind_eq_bind, Option.bind_some]
    cases hp : (PR.new ⟨d, 48⟩ h.pageSize).toOption with
    | none => rfl
    | some pr0 =>
      simp only [Option.bind_some]
      cases hc : checkHeaderPage pr0 with
      | none => rfl
      | some pr =>
      simp only [Option.bind_some]
      rw [hz]
      rcases extractXml_zero pr h.xmlOffset with e | ⟨r', e⟩
      · rw [e]; rfl
      · rw [e]; simp only [Option.bind_some]
        cases hx : xo [] with
        | none => rfl
        | some doc =>
          simp only [Option.bind_some]
          rcases hxo doc hx with h1 | h1 | h1 <;> rw [h1]
          · rfl
          · cases rootFromDocument fp doc <;> rfl
          · cases rootFromDocument fp doc with
            | none => rfl
            | some r => cases pointcloudsFromDocument fp doc <;> rfl

/-- the same under the simpler hypothesis that the external parser rejects the empty text -/
theorem open_rejects_unfinalized_of_none (d : Bytes) (xo : XmlOracle) (fp : FloatParse)
    (hxo : xo [] = none) (hd : Unfinal d) : Reader.open d xo fp = none :=
  open_rejects_unfinalized d xo fp (rejectsEmpty_of_none xo fp hxo) hd

theorem unfinal_short (d : Bytes) (h : d.length < 48) : Unfinal d := by
  left; unfold FileHeader.read; rw [if_pos h]

/-- the XML-length field (bytes 32..40) is zero -/
theorem unfinal_of_xmlLength_zero (d : Bytes) (h : (d.drop 32).take 8 = zeros 8) : Unfinal d := by
  unfold Unfinal FileHeader.read
  simp only [h, leVal_zeros]
  split
  · left; rfl
  · split
    · left; rfl
    · split
      · left; rfl
      · split
        · left; rfl
        · split
          · left; rfl
          · right; exact ⟨_, rfl, rfl⟩

theorem unfinal_bad_signature (d : Bytes) (h : d.take 8 ≠ utf8 "ASTM-E57") : Unfinal d := by
  left
  unfold FileHeader.read
  split
  · rfl
  · simp only
    rw [if_pos h]

theorem hdr0_xmlfields : (hdr0.drop 24).take 16 = zeros 16 := by decide +kernel

def Hdr0 (d : Bytes) : Prop := d.length < 48 ∨ d.take 48 = hdr0

theorem Hdr0.unfinal {d : Bytes} (h : Hdr0 d) : Unfinal d := by
  rcases h with h | h
  · exact unfinal_short d h
  · apply unfinal_of_xmlLength_zero
    have : (d.drop 32).take 8 = ((d.take 48).drop 32).take 8 := by
      rw [List.drop_take, List.take_take]; rfl
    rw [this, h]
    decide +kernel

/-! ## device write log -/
abbrev Log := List (Nat × Bytes)

/-- one `write_all` of `e.2` at absolute position `e.1` on device content `d` -/
def devWrite (d : Bytes) (e : Nat × Bytes) : Bytes := (Dev.writeAll ⟨d, e.1⟩ e.2).data

def applyWrites (l : Log) (d : Bytes) : Bytes := l.foldl devWrite d

theorem devWrite_le (d b : Bytes) (pos : Nat) (h : pos ≤ d.length) :
    devWrite d (pos, b) = d.take pos ++ b ++ d.drop (pos + b.length) := by
  unfold devWrite Dev.writeAll
  simp only
  rw [if_neg (by omega)]

theorem mix_hdr0 (A B : Bytes) (n : Nat) (hA : A.take 48 = hdr0) (hB : B = [] ∨ B.take 48 = hdr0) :
    Hdr0 (A.take n ++ B.drop n) := by
  have hAl : 48 ≤ A.length := by
    have := congrArg List.length hA
    rw [List.length_take, hdr0_length] at this; omega
  by_cases hn : 48 ≤ n
  · right
    rw [List.take_append_of_le_length (by rw [List.length_take]; omega), List.take_take,
      Nat.min_eq_left hn, hA]
  · rcases hB with hB | hB
    · left; subst hB; simp; omega
    · right
      have h1 : (A.take n).length = n := by rw [List.length_take]; omega
      have h2 : 48 = (A.take n).length + (48 - n) := by omega
      rw [h2, List.take_length_add_append]
      have h3 : A.take n = hdr0.take n := by
        rw [← hA, List.take_take, Nat.min_eq_left (by omega)]
      have h4 : (B.drop n).take (48 - n) = hdr0.drop n := by
        rw [← hB, List.drop_take]
      rw [h4, h3, List.take_append_drop]

/-- a write torn after `c` bytes, between an acceptable old and an acceptable new content -/
theorem torn_hdr0 (old b : Bytes) (pos c : Nat) (hpos : pos ≤ old.length)
    (hold : old = [] ∨ old.take 48 = hdr0) (hnew : (devWrite old (pos, b)).take 48 = hdr0) :
    Hdr0 (devWrite old (pos, b.take c)) := by
  have e : devWrite old (pos, b.take c) =
      (devWrite old (pos, b)).take (pos + min c b.length) ++ old.drop (pos + min c b.length) := by
    rw [devWrite_le _ _ _ hpos, devWrite_le _ _ _ hpos, List.length_take]
    have h1 : (old.take pos).length = pos := by rw [List.length_take]; omega
    rw [List.append_assoc (old.take pos) b]
    have : pos + min c b.length = (old.take pos).length + min c b.length := by rw [h1]
    conv => rhs; arg 1; rw [this, List.take_length_add_append]
    rw [List.take_append_of_le_length (by omega), ← List.take_eq_take_min]
  rw [e]
  exact mix_hdr0 _ _ _ hnew hold

/-! ## crash images -/

/-- the device after the first `k` writes of the log, the next one (if any) applied only up to byte `c` -/
def crashImage (l : Log) (d : Bytes) (k c : Nat) : Bytes :=
  match l[k]? with
  | none => applyWrites l d
  | some e => devWrite (applyWrites (l.take k) d) (e.1, e.2.take c)

/-- `P` holds of the initial content, of the content after every complete write and after every
    prefix of every write -/
def CrashSafe (P : Bytes → Prop) : Log → Bytes → Prop
  | [], d => P d
  | e :: l, d => P d ∧ (∀ c, P (devWrite d (e.1, e.2.take c))) ∧ CrashSafe P l (devWrite d e)

theorem CrashSafe.init {P : Bytes → Prop} {l : Log} {d : Bytes} (h : CrashSafe P l d) : P d := by
  cases l with
  | nil => exact h
  | cons e l => exact h.1

theorem CrashSafe.final {P : Bytes → Prop} {l : Log} {d : Bytes} (h : CrashSafe P l d) :
    P (applyWrites l d) := by
  induction l generalizing d with
  | nil => exact h
  | cons e l ih => exact ih h.2.2

theorem CrashSafe.append {P : Bytes → Prop} {l1 l2 : Log} {d : Bytes} (h1 : CrashSafe P l1 d)
    (h2 : CrashSafe P l2 (applyWrites l1 d)) : CrashSafe P (l1 ++ l2) d := by
  induction l1 generalizing d with
  | nil => exact h2
  | cons e l ih => exact ⟨h1.1, h1.2.1, ih h1.2.2 h2⟩

theorem applyWrites_append (l1 l2 : Log) (d : Bytes) :
    applyWrites (l1 ++ l2) d = applyWrites l2 (applyWrites l1 d) := by
  simp [applyWrites, List.foldl_append]

theorem CrashSafe.prefixes {P : Bytes → Prop} {l : Log} {d : Bytes} (h : CrashSafe P l d) (k : Nat) :
    P (applyWrites (l.take k) d) := by
  induction l generalizing d k with
  | nil => rw [List.take_nil]; exact h
  | cons e l ih =>
    cases k with
    | zero => exact h.1
    | succ k => exact ih h.2.2 k

/-- every crash image of a crash-safe log satisfies `P` -/
theorem CrashSafe.image {P : Bytes → Prop} {l : Log} {d : Bytes} (h : CrashSafe P l d) (k c : Nat) :
    P (crashImage l d k c) := by
  induction l generalizing d k with
  | nil => exact h
  | cons e l ih =>
    cases k with
    | zero => exact h.2.1 c
    | succ k =>
      have := ih h.2.2 k
      unfold crashImage at this ⊢
      simpa [applyWrites] using this

/-- conversely: if all crash images (and the initial content) satisfy `P`, the log is crash-safe -/
theorem CrashSafe.of_images {P : Bytes → Prop} {l : Log} {d : Bytes} (h0 : P d)
    (h : ∀ k c, P (crashImage l d k c)) : CrashSafe P l d := by
  induction l generalizing d with
  | nil => exact h0
  | cons e l ih =>
    refine ⟨h0, fun c => h 0 c, ih ?_ ?_⟩
    · have := h 0 e.2.length
      simpa [crashImage, applyWrites] using this
    · intro k c
      have := h (k + 1) c
      unfold crashImage at this ⊢
      simpa [applyWrites] using this

/-! # 2. The device writes of the page writer

`Dev` keeps no log.  The functions below list, for every page-writer operation of the model, the
`Dev.writeAll` calls it issues (position, bytes) in issue order; `*_data` lemmas show that replaying the
list on the old device content gives the new device content (nothing else touches the content). -/

/-- `flush`: one write of the sealed page buffer at the device cursor, if anything is buffered -/
def flushLog (w : PW) : Log := if w.offset > 0 then [(w.dev.pos, sealPage w.page)] else []

/-- one `write` call: a device write exactly when the page becomes full -/
def write1Log (w : PW) (buf : Bytes) : Log :=
  let n := min buf.length (payloadSize - w.offset)
  if w.offset + n = payloadSize then
    [(w.dev.pos, sealPage (w.page.take w.offset ++ buf.take n ++ w.page.drop (w.offset + n)))]
  else []

def writeAllLogFuel : Nat → PW → Bytes → Log
  | _, _, [] => []
  | 0, _, _ :: _ => []
  | fuel + 1, w, buf =>
    write1Log w buf ++
      (if (w.write1 buf).2 = 0 then [] else writeAllLogFuel fuel (w.write1 buf).1 (buf.drop (w.write1 buf).2))

def writeAllLog (w : PW) (buf : Bytes) : Log := writeAllLogFuel (buf.length + 1) w buf

def alignLog (w : PW) : Log := if w.offset % 4 ≠ 0 then writeAllLog w (zeros (4 - w.offset % 4)) else []

/-- device writes of one page-writer operation (`physical_seek` and `physical_size` start with a flush) -/
def stepLog (w : PW) : WOp → Log
  | .write b => writeAllLog w b
  | .seek _ => flushLog w
  | .flush => flushLog w
  | .align => alignLog w
  | .size => flushLog w

def runLog : List WOp → PW → Log
  | [], _ => []
  | op :: ops, w =>
    stepLog w op ++ (match stepConcrete w op with | .ok w' => runLog ops w' | _ => [])

/-! ### the logs are faithful -/

theorem flush_data (w : PW) : applyWrites (flushLog w) w.dev.data = w.flush.dev.data := by
  unfold flushLog PW.flush
  split <;> rfl

theorem write1_data (w : PW) (buf : Bytes) :
    applyWrites (write1Log w buf) w.dev.data = (w.write1 buf).1.dev.data := by
  unfold write1Log PW.write1
  simp only
  split <;> rfl

theorem writeAllFuel_data : ∀ (fuel : Nat) (w : PW) (buf : Bytes) (w' : PW),
    PW.writeAllFuel fuel w buf = .ok w' →
    applyWrites (writeAllLogFuel fuel w buf) w.dev.data = w'.dev.data := by
  intro fuel
  induction fuel with
  | zero =>
    intro w buf w' h
    cases buf with
    | nil => simp [PW.writeAllFuel] at h; subst h; rfl
    | cons x xs => simp [PW.writeAllFuel] at h
  | succ f ih =>
    intro w buf w' h
    cases buf with
    | nil => simp [PW.writeAllFuel] at h; subst h; rfl
    | cons x xs =>
      simp only [PW.writeAllFuel] at h
      simp only [writeAllLogFuel]
      split at h
      · cases h
      · next hn =>
        rw [if_neg hn, applyWrites_append, write1_data]
        exact ih _ _ _ h

theorem physicalSeek_data (w : PW) (p : Nat) : (w.physicalSeek p).1.dev.data = w.flush.dev.data := by
  rw [physicalSeek_eq]
  unfold seekTail
  split
  · rfl
  · split <;> rfl

theorem step_data (w : PW) (op : WOp) (w' : PW) (h : stepConcrete w op = .ok w') :
    applyWrites (stepLog w op) w.dev.data = w'.dev.data := by
  cases op with
  | write b => exact writeAllFuel_data _ _ _ _ h
  | seek p =>
    simp only [stepConcrete, Outcome.ok.injEq] at h
    subst h
    rw [physicalSeek_data]; exact flush_data w
  | flush =>
    simp only [stepConcrete, Outcome.ok.injEq] at h
    subst h; exact flush_data w
  | align =>
    simp only [stepConcrete] at h
    unfold PW.align at h
    simp only [stepLog, alignLog]
    by_cases hm : w.offset % 4 ≠ 0
    · simp only at h
      rw [if_pos hm] at h
      rw [if_pos hm]; exact writeAllFuel_data _ _ _ _ h
    · simp only at h
      rw [if_neg hm] at h
      rw [if_neg hm]; cases h; rfl
  | size =>
    simp only [stepConcrete, Outcome.ok.injEq] at h
    subst h
    rw [physicalSize_eq]; exact flush_data w

theorem run_data : ∀ (ops : List WOp) (w w' : PW), runConcrete ops w = .ok w' →
    applyWrites (runLog ops w) w.dev.data = w'.dev.data := by
  intro ops
  induction ops with
  | nil => intro w w' h; cases h; rfl
  | cons op ops ih =>
    intro w w' h
    change (stepConcrete w op >>= runConcrete ops) = _ at h
    obtain ⟨w1, h1, h2⟩ := Outcome.bind_eq_ok h
    simp only [runLog, h1]
    rw [applyWrites_append, step_data w op w1 h1]
    exact ih w1 w' h2

/-! # 3. The invariant of an unfinalized writer -/

/-- Invariant of the page writer between `E57Writer::new` and the header write of `finalize`:
    the logical stream starts with the placeholder header (XML offset and length zero), the cursor
    is behind it, and the device is either still empty or starts with the placeholder header. -/
structure Safe (w : PW) : Prop where
  inv : w.Inv
  cur : 48 ≤ w.abs.cur
  log : w.abs.data.take 48 = hdr0
  dev : w.dev.data = [] ∨ w.dev.data.take 48 = hdr0

theorem hdr0_of_devOK {d : Bytes} (h : d = [] ∨ d.take 48 = hdr0) : Hdr0 d := by
  rcases h with h | h
  · left; subst h; decide
  · right; exact h

theorem spec_write_take48 (s : Spec.LogStream) (b : Bytes) (h2 : s.cur ≤ s.data.length)
    (hc : 48 ≤ s.cur) : (s.write b).data.take 48 = s.data.take 48 := by
  unfold Spec.LogStream.write
  simp only
  rw [List.append_assoc, List.take_append_of_le_length (by simp; omega), List.take_take,
    Nat.min_eq_left hc, List.take_append_of_le_length (by omega)]

theorem pages_take48 {ps : List Bytes} (h : Uniform 1020 ps) :
    ((ps.map sealP).flatten).take 48 = ps.flatten.take 48 := by
  cases ps with
  | nil => rfl
  | cons p ps =>
    have hp : p.length = 1020 := h.head
    simp only [List.map_cons, List.flatten_cons, sealP]
    rw [List.append_assoc, List.take_append_of_le_length (by omega),
      List.take_append_of_le_length (by omega)]

theorem rep_pos_le {w : PW} {ps : List Bytes} {k : Nat} (h : Rep w ps k) :
    w.dev.pos ≤ w.dev.data.length := by
  rw [h.pos, h.data, pages_length h.uni]
  have := h.hk
  omega

/-- with nothing buffered the device holds exactly the logical stream -/
theorem rep_dev_take48 {w : PW} {ps : List Bytes} {k : Nat} (h : Rep w ps k) (h0 : w.offset = 0) :
    w.dev.data.take 48 = w.abs.data.take 48 := by
  rw [h.abs_eq, h.data]
  simp only [h0, if_true]
  exact pages_take48 h.uni

theorem flushed_dev_take48 {w : PW} {ps : List Bytes} {k : Nat} (h : Flushed w ps k) :
    w.dev.data.take 48 = w.abs.data.take 48 := by
  rw [h.data, h.rep.data]
  exact pages_take48 h.rep.uni

/-- a single device write that leads from an acceptable to an acceptable content -/
theorem crashSafe_single (d b : Bytes) (pos : Nat) (hpos : pos ≤ d.length)
    (hold : d = [] ∨ d.take 48 = hdr0) (hnew : (devWrite d (pos, b)).take 48 = hdr0) :
    CrashSafe Hdr0 [(pos, b)] d :=
  ⟨hdr0_of_devOK hold, fun c => torn_hdr0 d b pos c hpos hold hnew, .inr hnew⟩

theorem flush_safe (w : PW) (h : Safe w) :
    Safe w.flush ∧ CrashSafe Hdr0 (flushLog w) w.dev.data := by
  obtain ⟨ps, k, hr⟩ := h.inv
  obtain ⟨ps', hf, ha⟩ := hr.flush
  have hd : w.flush.dev.data.take 48 = hdr0 := by rw [flushed_dev_take48 hf, ha, h.log]
  refine ⟨⟨⟨ps', k, hf.rep⟩, by rw [ha]; exact h.cur, by rw [ha]; exact h.log, .inr hd⟩, ?_⟩
  have hfd := flush_data w
  unfold flushLog at hfd ⊢
  split
  · rw [if_pos (by assumption)] at hfd
    exact crashSafe_single _ _ _ (rep_pos_le hr) h.dev (by rw [← hd, ← hfd]; rfl)
  · exact hdr0_of_devOK h.dev

theorem write1_safe (w : PW) (buf : Bytes) (h : Safe w) (hb : 0 < buf.length) :
    Safe (w.write1 buf).1 ∧ CrashSafe Hdr0 (write1Log w buf) w.dev.data := by
  obtain ⟨ps, k, hr⟩ := h.inv
  obtain ⟨h2, ps', k', hr', ha⟩ := write1_rep hr buf hb
  have hwf := hr.abs_wf
  have hlog : (w.write1 buf).1.abs.data.take 48 = hdr0 := by
    rw [ha, spec_write_take48 _ _ hwf.2 h.cur, h.log]
  have hcur : 48 ≤ (w.write1 buf).1.abs.cur := by
    rw [ha]; show 48 ≤ w.abs.cur + _; have := h.cur; omega
  have hwd := write1_data w buf
  by_cases he : w.offset + min buf.length (1020 - w.offset) = 1020
  · have hoff : (w.write1 buf).1.offset = 0 := by rw [write1_full w buf he]
    have hd : (w.write1 buf).1.dev.data.take 48 = hdr0 := by rw [rep_dev_take48 hr' hoff, hlog]
    refine ⟨⟨⟨ps', k', hr'⟩, hcur, hlog, .inr hd⟩, ?_⟩
    unfold write1Log at hwd ⊢
    simp only at hwd ⊢
    rw [if_pos (by exact he)] at hwd ⊢
    exact crashSafe_single _ _ _ (rep_pos_le hr) h.dev (by rw [← hd, ← hwd]; rfl)
  · have hdev : (w.write1 buf).1.dev = w.dev := by rw [write1_part w buf he]
    refine ⟨⟨⟨ps', k', hr'⟩, hcur, hlog, by rw [hdev]; exact h.dev⟩, ?_⟩
    unfold write1Log
    simp only
    rw [if_neg (by exact he)]
    exact hdr0_of_devOK h.dev

theorem writeAllFuel_safe (fuel : Nat) : ∀ (buf : Bytes) (w : PW), Safe w → buf.length ≤ fuel →
    ∃ w', PW.writeAllFuel fuel w buf = .ok w' ∧ Safe w' ∧ w'.abs = w.abs.write buf ∧
      CrashSafe Hdr0 (writeAllLogFuel fuel w buf) w.dev.data := by
  induction fuel with
  | zero =>
    intro buf w h hf
    have : buf = [] := List.eq_nil_of_length_eq_zero (by omega)
    subst this
    have hwf := abs_wf w h.inv
    exact ⟨w, by simp [PW.writeAllFuel], h, by rw [spec_write_nil _ hwf.1 hwf.2],
      hdr0_of_devOK h.dev⟩
  | succ f ih =>
    intro buf w h hf
    have hwf := abs_wf w h.inv
    cases buf with
    | nil =>
      exact ⟨w, by simp [PW.writeAllFuel], h, by rw [spec_write_nil _ hwf.1 hwf.2],
        hdr0_of_devOK h.dev⟩
    | cons x xs =>
      obtain ⟨ps, k, hr⟩ := h.inv
      obtain ⟨h2, ps', k', hr', ha⟩ := write1_rep hr (x :: xs) (by simp)
      obtain ⟨hs1, hc1⟩ := write1_safe w (x :: xs) h (by simp)
      have hoff := hr.off
      have hlen : (x :: xs).length = xs.length + 1 := rfl
      have hn0 : (w.write1 (x :: xs)).2 ≠ 0 := by rw [h2]; omega
      have hd : ((x :: xs).drop (w.write1 (x :: xs)).2).length ≤ f := by
        rw [List.length_drop, h2]; simp only [List.length_cons] at hf ⊢; omega
      obtain ⟨w', hw', hs', ha', hc'⟩ := ih ((x :: xs).drop (w.write1 (x :: xs)).2) _ hs1 hd
      refine ⟨w', ?_, hs', ?_, ?_⟩
      · rw [← hw']
        simp only [PW.writeAllFuel]
        rw [if_neg hn0]
      · rw [ha', ha, spec_write_append _ _ _ hwf.2, ← h2, List.take_append_drop]
      · simp only [writeAllLogFuel]
        rw [if_neg hn0]
        exact hc1.append (by rw [write1_data]; exact hc')

theorem writeAll_safe (w : PW) (b : Bytes) (h : Safe w) :
    ∃ w', w.writeAll b = .ok w' ∧ Safe w' ∧ w'.abs = w.abs.write b ∧
      CrashSafe Hdr0 (writeAllLog w b) w.dev.data :=
  writeAllFuel_safe (b.length + 1) b w h (by omega)

/-- operations that keep the placeholder header intact: no seek to a physical offset below 48 -/
def OpOK : WOp → Prop
  | .seek p => 48 ≤ p
  | _ => True

theorem seek_safe (w : PW) (p : Nat) (h : Safe w) (hp : 48 ≤ p) : Safe (w.physicalSeek p).1 := by
  obtain ⟨hf, _⟩ := flush_safe w h
  obtain ⟨h1, h2, h3, h4⟩ := pw_seek w p h.inv
  have hfa := (pw_flush w h.inv).2.1
  refine ⟨h1, ?_, ?_, ?_⟩
  · rw [h3]
    unfold Spec.LogStream.seek
    split
    · next hok =>
      show 48 ≤ Spec.p2l p
      unfold Spec.LogStream.seekOk at hok
      simp only [Bool.and_eq_true, decide_eq_true_eq] at hok
      unfold Spec.p2l; omega
    · exact h.cur
  · rw [h3, spec_seek_data]; exact h.log
  · rw [physicalSeek_data]; exact hf.dev

theorem step_safe (w : PW) (op : WOp) (h : Safe w) (hop : OpOK op) :
    ∃ w', stepConcrete w op = .ok w' ∧ Safe w' ∧ CrashSafe Hdr0 (stepLog w op) w.dev.data := by
  cases op with
  | write b =>
    obtain ⟨w', e, hs, _, hc⟩ := writeAll_safe w b h
    exact ⟨w', e, hs, hc⟩
  | seek p => exact ⟨_, rfl, seek_safe w p h hop, (flush_safe w h).2⟩
  | flush => exact ⟨_, rfl, (flush_safe w h).1, (flush_safe w h).2⟩
  | align =>
    simp only [stepConcrete, stepLog]
    unfold PW.align alignLog
    by_cases hm : w.offset % 4 ≠ 0
    · simp only
      rw [if_pos hm, if_pos hm]
      obtain ⟨w', e, hs, _, hc⟩ := writeAll_safe w (zeros (4 - w.offset % 4)) h
      exact ⟨w', e, hs, hc⟩
    · simp only
      rw [if_neg hm, if_neg hm]
      exact ⟨w, rfl, h, hdr0_of_devOK h.dev⟩
  | size => exact ⟨_, rfl, by rw [physicalSize_eq]; exact (flush_safe w h).1, (flush_safe w h).2⟩

/-- **every sequence of page-writer operations that never seeks below physical offset 48 keeps the
    placeholder header, and every content the device goes through — between two writes or in the
    middle of one — is either shorter than a header or starts with the placeholder header** -/
theorem run_safe (ops : List WOp) : ∀ (w : PW), Safe w → (∀ op ∈ ops, OpOK op) →
    ∃ w', runConcrete ops w = .ok w' ∧ Safe w' ∧ CrashSafe Hdr0 (runLog ops w) w.dev.data := by
  induction ops with
  | nil => intro w h _; exact ⟨w, rfl, h, hdr0_of_devOK h.dev⟩
  | cons op ops ih =>
    intro w h hok
    obtain ⟨w1, e1, hs1, hc1⟩ := step_safe w op h (hok op (by simp))
    obtain ⟨w2, e2, hs2, hc2⟩ := ih w1 hs1 (fun o ho => hok o (by simp [ho]))
    refine ⟨w2, ?_, hs2, ?_⟩
    · show (stepConcrete w op >>= runConcrete ops) = _
      rw [e1, Outcome.bind_ok, e2]
    · simp only [runLog, e1]
      exact hc1.append (by rw [step_data w op w1 e1]; exact hc2)

/-! # 4. The page-writer operations issued by the public writer functions

For every function of `E57/Model/Writer.lean` that touches the page writer, the list of page-writer
operations it performs (read off its definition), with a lemma that running the list reproduces the
function's effect on the page writer. -/

theorem safe_position (w : PW) (h : Safe w) : 48 ≤ w.physicalPosition := by
  rw [pw_position w h.inv]
  unfold Spec.LogStream.physPos Spec.l2p
  have := h.cur
  omega

/-- `Blob::write` -/
def blobOps (pw : PW) (data : Bytes) : List WOp :=
  let pre := [WOp.write (blobHeaderBytes 0), WOp.write data]
  let endOff := match runConcrete pre pw with
    | .ok p => p.physicalPosition
    | _ => 0
  pre ++ [WOp.seek pw.physicalPosition, WOp.write (blobHeaderBytes ((16 + data.length + 3) / 4 * 4)),
    WOp.seek endOff, WOp.align]

theorem blob_ops (pw : PW) (data : Bytes) (pw' : PW) (b : BlobRef)
    (h : blobWrite pw data = .ok (pw', b)) : runConcrete (blobOps pw data) pw = .ok pw' := by
  unfold blobWrite at h
  obtain ⟨p1, e1, h⟩ := Outcome.bind_eq_ok h
  obtain ⟨p2, e2, h⟩ := Outcome.bind_eq_ok h
  cases hs3 : p2.physicalSeek pw.physicalPosition with
  | mk p3 ok3 =>
  simp only [hs3] at h
  cases ok3 with
  | false => simp at h
  | true =>
    simp only [Bool.not_true, Bool.false_eq_true, if_false] at h
    obtain ⟨p4, e4, h⟩ := Outcome.bind_eq_ok h
    cases hs5 : p4.physicalSeek p2.physicalPosition with
    | mk p5 ok5 =>
    simp only [hs5] at h
    cases ok5 with
    | false => simp at h
    | true =>
      simp only [Bool.not_true, Bool.false_eq_true, if_false] at h
      obtain ⟨p6, e6, h⟩ := Outcome.bind_eq_ok h
      cases h
      simp only [blobOps, runConcrete, stepConcrete, List.cons_append, List.nil_append, e1, e2,
        Outcome.bind_ok, hs3, e4, hs5, e6]


theorem run_append (a b : List WOp) (w : PW) :
    runConcrete (a ++ b) w = (runConcrete a w >>= runConcrete b) := by
  induction a generalizing w with
  | nil => rfl
  | cons op a ih =>
    show (stepConcrete w op >>= runConcrete (a ++ b)) = ((stepConcrete w op >>= runConcrete a) >>= runConcrete b)
    cases stepConcrete w op with
    | ok w1 => simp only [Outcome.bind_ok]; exact ih w1
    | err e => rfl
    | panic e => rfl

theorem runLog_append (a b : List WOp) (w w1 : PW) (h : runConcrete a w = .ok w1) :
    runLog (a ++ b) w = runLog a w ++ runLog b w1 := by
  induction a generalizing w with
  | nil => cases h; rfl
  | cons op a ih =>
    change (stepConcrete w op >>= runConcrete a) = _ at h
    obtain ⟨w2, e2, h⟩ := Outcome.bind_eq_ok h
    simp only [List.cons_append, runLog, e2, List.append_assoc]
    rw [ih w2 h]

theorem safe_of_run {ops : List WOp} {w w' : PW} (h : Safe w) (hok : ∀ op ∈ ops, OpOK op)
    (e : runConcrete ops w = .ok w') : Safe w' := by
  obtain ⟨w2, e2, hs, _⟩ := run_safe ops w h hok
  rw [e] at e2; cases e2; exact hs

theorem blob_opsOK (pw : PW) (data : Bytes) (h : Safe pw) : ∀ op ∈ blobOps pw data, OpOK op := by
  obtain ⟨p2, e2, hs2, _⟩ := run_safe [WOp.write (blobHeaderBytes 0), WOp.write data] pw h
    (by intro op hop; simp at hop; rcases hop with rfl | rfl <;> trivial)
  have h0 := safe_position pw h
  have h2 := safe_position p2 hs2
  intro op hop
  simp only [blobOps, e2, List.cons_append, List.nil_append, List.mem_cons, List.mem_nil_iff,
    or_false] at hop
  rcases hop with rfl | rfl | rfl | rfl | rfl | rfl <;> first | trivial | exact h0 | exact h2

/-- `write_blob` of the image writer: the image, then the optional mask -/
def imageBlobsOps (pw : PW) (data : Bytes) (mask : Option Bytes) : List WOp :=
  blobOps pw data ++
    (match mask, blobWrite pw data with
     | some m, .ok (pw1, _) => blobOps pw1 m
     | _, _ => [])

theorem imageBlobs_ops (pw : PW) (fmt : ImageFormat) (data : Bytes) (mask : Option Bytes) (pw' : PW)
    (r : ImageBlob × Option BlobRef) (h : writeImageBlobs pw fmt data mask = .ok (pw', r)) :
    runConcrete (imageBlobsOps pw data mask) pw = .ok pw' := by
  unfold writeImageBlobs at h
  obtain ⟨⟨p1, b1⟩, e1, h⟩ := Outcome.bind_eq_ok h
  have r1 := blob_ops pw data p1 b1 e1
  cases mask with
  | none =>
    cases h
    simp only [imageBlobsOps, List.append_nil]
    exact r1
  | some m =>
    simp only at h
    obtain ⟨⟨p2, b2⟩, e2, h⟩ := Outcome.bind_eq_ok h
    cases h
    simp only [imageBlobsOps, e1]
    rw [run_append, r1, Outcome.bind_ok]
    exact blob_ops p1 m _ b2 e2

theorem imageBlobs_opsOK (pw : PW) (data : Bytes) (mask : Option Bytes) (h : Safe pw) :
    ∀ op ∈ imageBlobsOps pw data mask, OpOK op := by
  intro op hop
  simp only [imageBlobsOps, List.mem_append] at hop
  rcases hop with hop | hop
  · exact blob_opsOK pw data h op hop
  · cases mask with
    | none => simp at hop
    | some m =>
      cases e1 : blobWrite pw data with
      | ok r =>
        obtain ⟨p1, b1⟩ := r
        rw [e1] at hop
        simp only at hop
        have hs1 := safe_of_run h (blob_opsOK pw data h) (blob_ops pw data p1 b1 e1)
        exact blob_opsOK p1 m hs1 op hop
      | err e => rw [e1] at hop; simp at hop
      | panic e => rw [e1] at hop; simp at hop

/-! ### point-cloud writer -/

def pcNewOps : List WOp := [WOp.write (CvHeader.bytes ⟨32, 0, 0⟩)]

theorem pcNew_ops (pw : PW) (exts : List (String × String)) (guid : String) (proto : Prototype)
    (pw' : PW) (w : PcW) (h : PcW.new pw exts guid proto = .ok (pw', w)) :
    runConcrete pcNewOps pw = .ok pw' ∧ w.sectionOffset = pw.physicalPosition := by
  obtain ⟨_, _, _, e, cl, _, rfl⟩ := PcW.new_ok pw exts guid proto pw' w h
  refine ⟨?_, rfl⟩
  simp only [pcNewOps, runConcrete, stepConcrete, e, Outcome.bind_ok]

/-- the page-writer part of `write_buffer_to_disk` (everything after `writePoints`) -/
def wbdTailOps (w : PcW) (lf : Bool) (ss : List WBuf) : List WOp :=
  if sumNat (sizesOf lf ss) > 0 then
    match dataPacketHeaderBytes false (pktLen w.prototype.length (sumNat (sizesOf lf ss)))
        (w.prototype.length % 65536) with
    | .ok hdr =>
      [WOp.write hdr, WOp.write ((sizesOf lf ss).map (fun s => toLE (s % 65536) 2)).flatten,
       WOp.write ((drainOf lf ss).map (·.1)).flatten, WOp.align]
    | _ => []
  else [WOp.align]

def wbdOps (w : PcW) (lf : Bool) : List WOp :=
  match writePoints (min w.maxPoints w.buffer.length) w.buffer w.prototype w.streams with
  | .ok r => wbdTailOps w lf r.2
  | _ => []

theorem wbdTail_ops (w : PcW) (pw : PW) (lf : Bool) (buf : List (List Value)) (ss : List WBuf)
    (pw' : PW) (w' : PcW) (h : wbdTail w pw lf buf ss = .ok (pw', w')) :
    runConcrete (wbdTailOps w lf ss) pw = .ok pw' := by
  unfold wbdTail at h
  unfold wbdTailOps
  split at h
  · next hs =>
    rw [if_pos hs]
    split at h
    · cases h
    · obtain ⟨hdr, e0, h⟩ := Outcome.bind_eq_ok h
      obtain ⟨p1, e1, h⟩ := Outcome.bind_eq_ok h
      obtain ⟨p2, e2, h⟩ := Outcome.bind_eq_ok h
      obtain ⟨p3, e3, h⟩ := Outcome.bind_eq_ok h
      obtain ⟨p4, e4, h⟩ := Outcome.bind_eq_ok h
      cases h
      simp only [e0, runConcrete, stepConcrete, e1, e2, e3, e4, Outcome.bind_ok]
  · next hs =>
    rw [if_neg hs]
    obtain ⟨p4, e4, h⟩ := Outcome.bind_eq_ok h
    cases h
    simp only [runConcrete, stepConcrete, e4, Outcome.bind_ok]

theorem wbd_ops (w : PcW) (pw : PW) (lf : Bool) (pw' : PW) (w' : PcW)
    (h : w.writeBufferToDisk pw lf = .ok (pw', w')) : runConcrete (wbdOps w lf) pw = .ok pw' := by
  rw [writeBufferToDisk_eq] at h
  obtain ⟨r, e, h⟩ := Outcome.bind_eq_ok h
  simp only [wbdOps, e]
  exact wbdTail_ops _ _ _ _ _ _ _ h

theorem wbd_opsOK (w : PcW) (lf : Bool) : ∀ op ∈ wbdOps w lf, OpOK op := by
  intro op hop
  unfold wbdOps at hop
  split at hop
  · unfold wbdTailOps at hop
    split at hop
    · split at hop
      · simp only [List.mem_cons, List.mem_nil_iff, or_false] at hop
        rcases hop with rfl | rfl | rfl | rfl <;> trivial
      · simp at hop
    · simp only [List.mem_cons, List.mem_nil_iff, or_false] at hop
      subst hop; trivial
  · simp at hop

/-- `add_point`: a packet is written when the buffer is full -/
def addPointOps (w : PcW) (values : List Value) : List WOp :=
  match updateAllBounds w.prototype values w.pc with
  | .ok pc =>
    if (w.buffer ++ [values]).length ≥ w.maxPoints then
      wbdOps { w with pc := pc, buffer := w.buffer ++ [values], pointCount := w.pointCount + 1 } false
    else []
  | _ => []

theorem addPoint_ops (w : PcW) (pw : PW) (vs : List Value) (pw' : PW) (w' : PcW)
    (h : w.addPoint pw vs = .ok (pw', w')) :
    runConcrete (addPointOps w vs) pw = .ok pw' ∧ w'.sectionOffset = w.sectionOffset := by
  unfold PcW.addPoint at h
  by_cases h1 : vs.length ≠ w.prototype.length
  · simp [h1] at h
  · cases h2 : checkValues w.prototype vs with
    | false => simp [h1, h2] at h
    | true =>
      simp only [h1, h2, if_false, Bool.not_true] at h
      obtain ⟨pc, e, h⟩ := Outcome.bind_eq_ok h
      simp only [addPointOps, e]
      split at h
      · next hge =>
        rw [if_pos (by simpa using hge)]
        exact ⟨wbd_ops _ _ _ _ _ h, (writeBufferToDisk_frame _ _ _ _ _ h).2.2.2.2.2⟩
      · next hge =>
        rw [if_neg (by simpa using hge)]
        cases h; exact ⟨rfl, rfl⟩

theorem addPoint_opsOK (w : PcW) (vs : List Value) : ∀ op ∈ addPointOps w vs, OpOK op := by
  intro op hop
  unfold addPointOps at hop
  split at hop
  · split at hop
    · exact wbd_opsOK _ _ op hop
    · simp at hop
  · simp at hop

/-- the drain loop of `PointCloudWriter::finalize` -/
def drainOps : Nat → PcW → PW → List WOp
  | 0, _, _ => []
  | fuel + 1, w, pw =>
    if w.buffer.isEmpty then [] else
      wbdOps w false ++
        (match w.writeBufferToDisk pw false with
         | .ok r => drainOps fuel r.2 r.1
         | _ => [])

theorem drain_ops : ∀ (fuel : Nat) (w : PcW) (pw : PW) (pw' : PW) (w' : PcW),
    PcW.drainLoop fuel w pw = .ok (pw', w') →
    runConcrete (drainOps fuel w pw) pw = .ok pw' ∧ w'.sectionOffset = w.sectionOffset
  | 0, w, pw, pw', w', h => by
    unfold PcW.drainLoop at h
    split at h
    · cases h; exact ⟨rfl, rfl⟩
    · cases h
  | fuel + 1, w, pw, pw', w', h => by
    unfold PcW.drainLoop at h
    unfold drainOps
    split at h
    · next he => rw [if_pos he]; cases h; exact ⟨rfl, rfl⟩
    · next he =>
      rw [if_neg he]
      obtain ⟨⟨pw1, w1⟩, e1, h⟩ := Outcome.bind_eq_ok h
      obtain ⟨r1, r2⟩ := drain_ops fuel w1 pw1 pw' w' h
      rw [e1, run_append, wbd_ops _ _ _ _ _ e1, Outcome.bind_ok]
      exact ⟨r1, r2.trans (writeBufferToDisk_frame _ _ _ _ _ e1).2.2.2.2.2⟩

theorem drain_opsOK : ∀ (fuel : Nat) (w : PcW) (pw : PW), ∀ op ∈ drainOps fuel w pw, OpOK op
  | 0, _, _, op, hop => by simp [drainOps] at hop
  | fuel + 1, w, pw, op, hop => by
    unfold drainOps at hop
    split at hop
    · simp at hop
    · rcases List.mem_append.mp hop with hop | hop
      · exact wbd_opsOK _ _ op hop
      · split at hop
        · exact drain_opsOK fuel _ _ op hop
        · simp at hop

/-- `PointCloudWriter::finalize`: drain, last packet, patch the section header, seek back -/
def pcFinOps (w : PcW) (pw : PW) : List WOp :=
  drainOps (w.buffer.length + 1) w pw ++
    (match PcW.drainLoop (w.buffer.length + 1) w pw with
     | .ok r1 =>
       wbdOps r1.2 true ++
         (match r1.2.writeBufferToDisk r1.1 true with
          | .ok r2 =>
            [WOp.seek r2.2.sectionOffset, WOp.write r2.2.header.bytes, WOp.seek r2.1.physicalPosition]
          | _ => [])
     | _ => [])

theorem pcFin_ops (w : PcW) (pw : PW) (pw' : PW) (w' : PcW) (pc : PointCloud)
    (h : w.finalize pw = .ok (pw', w', pc)) : runConcrete (pcFinOps w pw) pw = .ok pw' := by
  unfold PcW.finalize at h
  obtain ⟨⟨pw1, w1⟩, e1, h⟩ := Outcome.bind_eq_ok h
  obtain ⟨⟨pw2, w2⟩, e2, h⟩ := Outcome.bind_eq_ok h
  simp only at h
  cases hs3 : pw2.physicalSeek w2.sectionOffset with
  | mk p3 ok3 =>
  simp only [hs3] at h
  cases ok3 with
  | false => simp at h
  | true =>
    simp only [Bool.not_true, Bool.false_eq_true, if_false] at h
    obtain ⟨p4, e4, h⟩ := Outcome.bind_eq_ok h
    cases hs5 : p4.physicalSeek pw2.physicalPosition with
    | mk p5 ok5 =>
    simp only [hs5] at h
    cases ok5 with
    | false => simp at h
    | true =>
      simp only [Bool.not_true, Bool.false_eq_true, if_false] at h
      cases h
      simp only [pcFinOps, e1, e2]
      rw [run_append, (drain_ops _ _ _ _ _ e1).1, Outcome.bind_ok, run_append,
        wbd_ops _ _ _ _ _ e2, Outcome.bind_ok]
      simp only [runConcrete, stepConcrete, Outcome.bind_ok, hs3, e4, hs5]

/-- under the invariant (and a section offset behind the file header) `finalize` only seeks
    behind the header -/
theorem pcFin_opsOK (w : PcW) (pw : PW) (h : Safe pw) (hso : 48 ≤ w.sectionOffset) :
    ∀ op ∈ pcFinOps w pw, OpOK op := by
  intro op hop
  unfold pcFinOps at hop
  rcases List.mem_append.mp hop with hop | hop
  · exact drain_opsOK _ _ _ op hop
  · cases e1 : PcW.drainLoop (w.buffer.length + 1) w pw with
    | err e => rw [e1] at hop; simp at hop
    | panic e => rw [e1] at hop; simp at hop
    | ok r1 =>
      obtain ⟨pw1, w1⟩ := r1
      rw [e1] at hop
      simp only at hop
      obtain ⟨d1, d2⟩ := drain_ops _ _ _ _ _ e1
      have hs1 := safe_of_run h (drain_opsOK _ _ _) d1
      rcases List.mem_append.mp hop with hop | hop
      · exact wbd_opsOK _ _ op hop
      · cases e2 : w1.writeBufferToDisk pw1 true with
        | err e => rw [e2] at hop; simp at hop
        | panic e => rw [e2] at hop; simp at hop
        | ok r2 =>
          obtain ⟨pw2, w2⟩ := r2
          rw [e2] at hop
          simp only [List.mem_cons, List.mem_nil_iff, or_false] at hop
          have hs2 := safe_of_run hs1 (wbd_opsOK _ _) (wbd_ops _ _ _ _ _ e2)
          have f2 := (writeBufferToDisk_frame _ _ _ _ _ e2).2.2.2.2.2
          rcases hop with rfl | rfl | rfl
          · show 48 ≤ w2.sectionOffset
            rw [f2, d2]; exact hso
          · trivial
          · exact safe_position pw2 hs2

/-! ### `E57Writer::new` -/

/-- the page writer after `E57Writer::new`: nothing on the device, the placeholder header buffered -/
def w1 : PW := ⟨⟨[], 0⟩, 48, hdr0 ++ zeros 976⟩

theorem w0_write_hdr0 : w0.writeAll hdr0 = .ok w1 := by decide +kernel

theorem w1_safe : Safe w1 := by
  obtain ⟨w', e, hi, ha⟩ := pw_writeAll w0 hdr0 w0_inv
  rw [w0_write_hdr0] at e
  cases e
  have h0 : w0.abs = Spec.LogStream.init := by rw [w0_rep.abs_eq]; rfl
  rw [h0] at ha
  refine ⟨hi, ?_, ?_, .inl rfl⟩
  · rw [ha]; show 48 ≤ 0 + hdr0.length; rw [hdr0_length]; omega
  · rw [ha]; decide +kernel

theorem pw_new_ok (dev : Dev) (p0 : PW) (h : PW.new dev = .ok p0) : dev.data = [] ∧ p0 = w0 := by
  obtain ⟨d, p⟩ := dev
  cases d with
  | nil =>
    simp [PW.new, Dev.seekEnd] at h
    exact ⟨rfl, h.symm⟩
  | cons x xs => simp [PW.new, Dev.seekEnd] at h

theorem ew_new (dev : Dev) (guid lib : String) (e : EW) (h : EW.new dev guid lib = .ok e) :
    dev.data = [] ∧ e.pw = w1 := by
  unfold EW.new at h
  obtain ⟨p0, e0, h⟩ := Outcome.bind_eq_ok h
  obtain ⟨p1, e1, h⟩ := Outcome.bind_eq_ok h
  cases h
  obtain ⟨hd, rfl⟩ := pw_new_ok dev p0 e0
  refine ⟨hd, ?_⟩
  have := w0_write_hdr0
  unfold hdr0 at this
  rw [this] at e1
  cases e1
  rfl

theorem new_log : runLog [WOp.write hdr0] w0 = [] := by decide +kernel

theorem new_run : runConcrete [WOp.write hdr0] w0 = .ok w1 := by
  simp only [runConcrete, stepConcrete, w0_write_hdr0, Outcome.bind_ok]

/-! # 5. Sessions: everything a client can do before the top-level `finalize` -/

/-- the sub-writer currently borrowed from the `E57Writer` (Rust's borrow rules allow one at a time) -/
inductive Cur where
  | top
  | pc (w : PcW)
  | img (w : ImgW)

/-- `Reach e c ops`: writer state `e` with open sub-writer `c` is reachable from `E57Writer::new` on an
    empty device by calls of the public writer functions other than the top-level `finalize`; `ops` are
    the page-writer operations issued so far, in order.  A call that returns an error leaves the model
    state unchanged (`Outcome.err` carries no state), so failing calls need no constructor. -/
inductive Reach : EW → Cur → List WOp → Prop
  | new {dev : Dev} {guid lib : String} {e : EW} :
      EW.new dev guid lib = .ok e → Reach e .top [WOp.write hdr0]
  | ext {e e' : EW} {l : List WOp} {ns url : String} :
      Reach e .top l → e.registerExtension ns url = .ok e' → Reach e' .top l
  | setRoot {e : EW} {l : List WOp} (r : Root) :
      Reach e .top l → Reach { e with root := r } .top l
  | blob {e e' : EW} {l : List WOp} {data : Bytes} {b : BlobRef} :
      Reach e .top l → e.addBlob data = .ok (e', b) → Reach e' .top (l ++ blobOps e.pw data)
  | pcNew {e : EW} {l : List WOp} {guid : String} {proto : Prototype} {pw : PW} {w : PcW} :
      Reach e .top l → PcW.new e.pw e.exts guid proto = .ok (pw, w) →
      Reach { e with pw := pw } (.pc w) (l ++ pcNewOps)
  | pcSet {e : EW} {l : List WOp} {w : PcW} (pc : PointCloud) :
      Reach e (.pc w) l → Reach e (.pc { w with pc := pc }) l
  | pcPoint {e : EW} {l : List WOp} {w w' : PcW} {vs : List Value} {pw : PW} :
      Reach e (.pc w) l → w.addPoint e.pw vs = .ok (pw, w') →
      Reach { e with pw := pw } (.pc w') (l ++ addPointOps w vs)
  | pcEnd {e : EW} {l : List WOp} {w w' : PcW} {pw : PW} {pc : PointCloud} :
      Reach e (.pc w) l → w.finalize e.pw = .ok (pw, w', pc) →
      Reach { e with pw := pw, pcs := e.pcs ++ [pc] } (.pc w') (l ++ pcFinOps w e.pw)
  | pcDrop {e : EW} {l : List WOp} {w : PcW} : Reach e (.pc w) l → Reach e .top l
  | imgNew {e : EW} {l : List WOp} (guid : String) : Reach e .top l → Reach e (.img (ImgW.new guid)) l
  | imgSet {e : EW} {l : List WOp} {w : ImgW} (w' : ImgW) : Reach e (.img w) l → Reach e (.img w') l
  | imgVis {e : EW} {l : List WOp} {w w' : ImgW} {fmt : ImageFormat} {data : Bytes} {width height : Nat}
      {mask : Option Bytes} {pw : PW} :
      Reach e (.img w) l → w.addVisualReference e.pw fmt data width height mask = .ok (pw, w') →
      Reach { e with pw := pw } (.img w') (l ++ imageBlobsOps e.pw data mask)
  | imgProj {e : EW} {l : List WOp} {w w' : ImgW} {fmt : ImageFormat} {data : Bytes}
      {mask : Option Bytes} {mk : ImageBlob → Option BlobRef → Projection} {pw : PW} :
      Reach e (.img w) l → w.addProjection e.pw fmt data mask mk = .ok (pw, w') →
      Reach { e with pw := pw } (.img w') (l ++ imageBlobsOps e.pw data mask)
  | imgEnd {e : EW} {l : List WOp} {w : ImgW} {img : Image} :
      Reach e (.img w) l → w.finalize = .ok img → Reach { e with imgs := e.imgs ++ [img] } (.img w) l
  | imgDrop {e : EW} {l : List WOp} {w : ImgW} : Reach e (.img w) l → Reach e .top l

/-- invariant of reachable states -/
structure ReachInv (e : EW) (c : Cur) (l : List WOp) : Prop where
  tail : ∃ l', l = WOp.write hdr0 :: l' ∧ runConcrete l' w1 = .ok e.pw ∧ ∀ op ∈ l', OpOK op
  safe : Safe e.pw
  sect : ∀ w, c = .pc w → 48 ≤ w.sectionOffset

theorem ReachInv.extend {e : EW} {c c' : Cur} {l ops : List WOp} {pw : PW} (e' : EW) (h : ReachInv e c l)
    (hpw : e'.pw = pw) (hr : runConcrete ops e.pw = .ok pw) (hok : ∀ op ∈ ops, OpOK op)
    (hs : ∀ w, c' = .pc w → 48 ≤ w.sectionOffset) : ReachInv e' c' (l ++ ops) := by
  obtain ⟨l', rfl, h1, h2⟩ := h.tail
  refine ⟨⟨l' ++ ops, rfl, ?_, ?_⟩, ?_, hs⟩
  · rw [run_append, h1, Outcome.bind_ok, hpw]; exact hr
  · intro op hop
    rcases List.mem_append.mp hop with hop | hop
    · exact h2 op hop
    · exact hok op hop
  · rw [hpw]; exact safe_of_run h.safe hok hr

theorem pcFin_sect (w : PcW) (pw pw' : PW) (w' : PcW) (pc : PointCloud)
    (h : w.finalize pw = .ok (pw', w', pc)) : w'.sectionOffset = w.sectionOffset := by
  unfold PcW.finalize at h
  obtain ⟨⟨pw1, w1⟩, e1, h⟩ := Outcome.bind_eq_ok h
  obtain ⟨⟨pw2, w2⟩, e2, h⟩ := Outcome.bind_eq_ok h
  have f1 := (drain_ops _ _ _ _ _ e1).2
  have f2 := (writeBufferToDisk_frame _ _ _ _ _ e2).2.2.2.2.2
  cases hs3 : pw2.physicalSeek w2.sectionOffset with
  | mk p3 ok3 =>
  simp only [hs3] at h
  cases ok3 with
  | false => simp at h
  | true =>
    simp only [Bool.not_true, Bool.false_eq_true, if_false] at h
    obtain ⟨p4, e4, h⟩ := Outcome.bind_eq_ok h
    cases hs5 : p4.physicalSeek pw2.physicalPosition with
    | mk p5 ok5 =>
    simp only [hs5] at h
    cases ok5 with
    | false => simp at h
    | true =>
      simp only [Bool.not_true, Bool.false_eq_true, if_false] at h
      cases h
      show w2.sectionOffset = _
      rw [f2, f1]

theorem reach_inv {e : EW} {c : Cur} {l : List WOp} (h : Reach e c l) : ReachInv e c l := by
  induction h with
  | new hn =>
    obtain ⟨_, hpw⟩ := ew_new _ _ _ _ hn
    exact ⟨⟨[], rfl, by rw [hpw]; rfl, by simp⟩, by rw [hpw]; exact w1_safe, by intro w hw; cases hw⟩
  | ext _ he ih =>
    unfold EW.registerExtension at he
    split at he
    · cases he
    · split at he
      · cases he
      · split at he
        · cases he
        · split at he
          · cases he
          · cases he; exact ⟨ih.tail, ih.safe, ih.sect⟩
  | setRoot r _ ih => exact ⟨ih.tail, ih.safe, ih.sect⟩
  | @blob e e' l data b _ hb ih =>
    unfold EW.addBlob at hb
    obtain ⟨⟨pw, b'⟩, e1, hb⟩ := Outcome.bind_eq_ok hb
    cases hb
    exact ih.extend _ rfl (blob_ops _ _ _ _ e1) (blob_opsOK _ _ ih.safe) (by intro w hw; cases hw)
  | pcNew _ hn ih =>
    obtain ⟨r, hso⟩ := pcNew_ops _ _ _ _ _ _ hn
    refine ih.extend _ rfl r (by intro op hop; simp [pcNewOps] at hop; subst hop; trivial) ?_
    intro w hw; cases hw
    rw [hso]; exact safe_position _ ih.safe
  | @pcSet e l w pc _ ih =>
    refine ⟨ih.tail, ih.safe, ?_⟩
    intro w2 hw; cases hw
    exact ih.sect w rfl
  | pcPoint _ hp ih =>
    obtain ⟨r, hso⟩ := addPoint_ops _ _ _ _ _ hp
    refine ih.extend _ rfl r (addPoint_opsOK _ _) ?_
    intro w hw; cases hw
    rw [hso]; exact ih.sect _ rfl
  | pcEnd _ hf ih =>
    refine ih.extend _ rfl (pcFin_ops _ _ _ _ _ hf) (pcFin_opsOK _ _ ih.safe (ih.sect _ rfl)) ?_
    intro w hw; cases hw
    rw [pcFin_sect _ _ _ _ _ hf]; exact ih.sect _ rfl
  | pcDrop _ ih => exact ⟨ih.tail, ih.safe, by intro w hw; cases hw⟩
  | imgNew guid _ ih => exact ⟨ih.tail, ih.safe, by intro w hw; cases hw⟩
  | imgSet w' _ ih => exact ⟨ih.tail, ih.safe, by intro w hw; cases hw⟩
  | imgVis _ hv ih =>
    unfold ImgW.addVisualReference at hv
    obtain ⟨⟨pw1, r⟩, e1, hv⟩ := Outcome.bind_eq_ok hv
    cases hv
    exact ih.extend _ rfl (imageBlobs_ops _ _ _ _ _ _ e1) (imageBlobs_opsOK _ _ _ ih.safe)
      (by intro w hw; cases hw)
  | imgProj _ hv ih =>
    unfold ImgW.addProjection at hv
    split at hv
    · cases hv
    · obtain ⟨⟨pw1, r⟩, e1, hv⟩ := Outcome.bind_eq_ok hv
      cases hv
      exact ih.extend _ rfl (imageBlobs_ops _ _ _ _ _ _ e1) (imageBlobs_opsOK _ _ _ ih.safe)
        (by intro w hw; cases hw)
  | imgEnd _ _ ih => exact ⟨ih.tail, ih.safe, by intro w hw; cases hw⟩
  | imgDrop _ ih => exact ⟨ih.tail, ih.safe, by intro w hw; cases hw⟩

/-! ## the theorems about sessions -/

/-- **(1a)** in every reachable state the page writer satisfies `Safe` -/
theorem reach_safe {e : EW} {c : Cur} {l : List WOp} (h : Reach e c l) : Safe e.pw := (reach_inv h).safe

/-- the ops recorded by `Reach` reproduce the page writer, starting from `PagedWriter::new` on the
    empty device -/
theorem reach_run {e : EW} {c : Cur} {l : List WOp} (h : Reach e c l) : runConcrete l w0 = .ok e.pw := by
  obtain ⟨l', rfl, h1, _⟩ := (reach_inv h).tail
  show (stepConcrete w0 (WOp.write hdr0) >>= runConcrete l') = _
  simp only [stepConcrete, w0_write_hdr0, Outcome.bind_ok]
  exact h1

/-- the device content of a reachable state is the replay of the session's write log on the empty device -/
theorem reach_device {e : EW} {c : Cur} {l : List WOp} (h : Reach e c l) :
    applyWrites (runLog l w0) [] = e.pw.dev.data :=
  run_data l w0 e.pw (reach_run h)

/-- **(1b)** the logical bytes 24..40 (XML offset, XML length) are zero in every reachable state -/
theorem reach_xml_fields_zero {e : EW} {c : Cur} {l : List WOp} (h : Reach e c l) :
    (e.pw.abs.data.drop 24).take 16 = zeros 16 := by
  have := (reach_safe h).log
  have e1 : (e.pw.abs.data.drop 24).take 16 = ((e.pw.abs.data.take 48).drop 24).take 16 := by
    rw [List.drop_take, List.take_take]; rfl
  rw [e1, this]; exact hdr0_xmlfields

/-- a content that is long enough for a header and satisfies `Hdr0` has zero XML offset and length -/
theorem Hdr0.xml_fields_zero {d : Bytes} (h : Hdr0 d) (hl : 48 ≤ d.length) :
    (d.drop 24).take 16 = zeros 16 := by
  rcases h with h | h
  · omega
  · have e1 : (d.drop 24).take 16 = ((d.take 48).drop 24).take 16 := by
      rw [List.drop_take, List.take_take]; rfl
    rw [e1, h]; exact hdr0_xmlfields

/-- **(1c)** every content the device goes through during a session without `finalize` — after any
    number of complete device writes and any prefix of the next one — is shorter than a header or starts
    with the placeholder header -/
theorem reach_crashSafe {e : EW} {c : Cur} {l : List WOp} (h : Reach e c l) :
    CrashSafe Hdr0 (runLog l w0) [] := by
  obtain ⟨l', rfl, h1, h2⟩ := (reach_inv h).tail
  obtain ⟨w', _, _, hc⟩ := run_safe l' w1 w1_safe h2
  have : runLog (WOp.write hdr0 :: l') w0 = runLog l' w1 := by
    show stepLog w0 (WOp.write hdr0) ++ _ = _
    simp only [stepConcrete, w0_write_hdr0]
    have : stepLog w0 (WOp.write hdr0) = [] := by
      have := new_log
      simpa [runLog, stepConcrete, w0_write_hdr0] using this
    rw [this]; rfl
  rw [this]
  exact hc

/-- **(3) prefix images**: the device after the first `k` device writes of the session, the next one
    applied only up to byte `cut`, is rejected by `Reader.open` -/
theorem crash_image_rejected {e : EW} {c : Cur} {l : List WOp} (h : Reach e c l)
    (xo : XmlOracle) (fp : FloatParse) (hxo : RejectsEmpty xo fp) (k cut : Nat) :
    Reader.open (crashImage (runLog l w0) [] k cut) xo fp = none :=
  open_rejects_unfinalized _ xo fp hxo ((reach_crashSafe h).image k cut).unfinal

/-- **(5) the process dies / the writer is leaked**: no further device writes; what is on the
    device is rejected -/
theorem killed_rejected {e : EW} {c : Cur} {l : List WOp} (h : Reach e c l)
    (xo : XmlOracle) (fp : FloatParse) (hxo : RejectsEmpty xo fp) :
    Reader.open e.pw.dev.data xo fp = none :=
  open_rejects_unfinalized _ xo fp hxo (hdr0_of_devOK (reach_safe h).dev).unfinal

/-- **(5) the writer is dropped without `finalize`**: `Drop for PagedWriter` flushes the page
    buffer (one more device write).  The result, and every torn version of that last write, is rejected -/
theorem dropped_rejected {e : EW} {c : Cur} {l : List WOp} (h : Reach e c l)
    (xo : XmlOracle) (fp : FloatParse) (hxo : RejectsEmpty xo fp) :
    Reader.open e.pw.flush.dev.data xo fp = none ∧
    ∀ k cut, Reader.open (crashImage (flushLog e.pw) e.pw.dev.data k cut) xo fp = none := by
  obtain ⟨hs, hc⟩ := flush_safe e.pw (reach_safe h)
  exact ⟨open_rejects_unfinalized _ xo fp hxo (hdr0_of_devOK hs.dev).unfinal,
    fun k cut => open_rejects_unfinalized _ xo fp hxo (hc.image k cut).unfinal⟩

/-- the same as one statement about the log of the session followed by the flush of `Drop` -/
theorem dropped_log_crashSafe {e : EW} {c : Cur} {l : List WOp} (h : Reach e c l) :
    CrashSafe Hdr0 (runLog (l ++ [WOp.flush]) w0) [] := by
  rw [runLog_append _ _ _ _ (reach_run h)]
  refine (reach_crashSafe h).append ?_
  rw [reach_device h]
  have : runLog [WOp.flush] e.pw = flushLog e.pw := by simp [runLog, stepLog, stepConcrete]
  rw [this]
  exact (flush_safe e.pw (reach_safe h)).2

/-! # 6. Non-vacuity: a concrete session (new, one blob of 1100 bytes, no finalize) -/

def exData : Bytes := List.replicate 1100 7

/-- facts about the example session, computed by the kernel (the checksum bytes are not forced) -/
def exCheck : Bool :=
  match EW.new Dev.empty "g" "l" with
  | .ok e0 =>
    match e0.addBlob exData with
    | .ok (e, b) =>
      decide (e.pw.dev.data.length = 2048) && decide (e.pw.dev.data.take 48 = hdr0) &&
      decide (FileHeader.read e.pw.dev.data = some ⟨0, 0, 0, 1024⟩) &&
      decide (b = ⟨48, 1100⟩) &&
      decide ((runLog ([WOp.write hdr0] ++ blobOps w1 exData) w0).map (fun (x : Nat × Bytes) => (x.1, x.2.length))
        = [(0, 1024), (1024, 1024), (0, 1024)])
    | _ => false
  | _ => false

set_option maxRecDepth 100000 in
theorem exCheck_true : exCheck = true := by decide +kernel


def exE0 : EW := ⟨w1, [], [], [], { guid := "g", libraryVersion := some "l" }⟩

theorem ex_new : EW.new Dev.empty "g" "l" = .ok exE0 := by
  have h := w0_write_hdr0
  unfold hdr0 at h
  unfold EW.new
  rw [w0_new]
  simp only [Outcome.bind_ok, h, Outcome.pure_eq]
  rfl

/-- the example is a reachable session: the hypotheses of the session theorems are satisfiable, the
    device holds two pages beginning with the placeholder header (XML offset = XML length = 0, which
    the header parser accepts), three device writes were issued, and `Reader.open` rejects it -/
theorem ex_session :
    ∃ e b, EW.new Dev.empty "g" "l" = .ok exE0 ∧ exE0.addBlob exData = .ok (e, b) ∧
      Reach e .top ([WOp.write hdr0] ++ blobOps w1 exData) ∧
      e.pw.dev.data.length = 2048 ∧ e.pw.dev.data.take 48 = hdr0 ∧
      FileHeader.read e.pw.dev.data = some ⟨0, 0, 0, 1024⟩ ∧
      (runLog ([WOp.write hdr0] ++ blobOps w1 exData) w0).map (fun (x : Nat × Bytes) => (x.1, x.2.length))
        = [(0, 1024), (1024, 1024), (0, 1024)] ∧
      ∀ xo fp, RejectsEmpty xo fp → Reader.open e.pw.dev.data xo fp = none := by
  obtain ⟨pw', b, hb, _⟩ := blobWrite_total w1 exData w1_safe.inv
  have hadd : exE0.addBlob exData = .ok ({ exE0 with pw := pw' }, b) := by
    unfold EW.addBlob
    have : exE0.pw = w1 := rfl
    rw [this]
    simp only [hb, Outcome.bind_ok, Outcome.pure_eq]
  have hr : Reach { exE0 with pw := pw' } .top ([WOp.write hdr0] ++ blobOps w1 exData) :=
    Reach.blob (Reach.new ex_new) hadd
  have hc := exCheck_true
  unfold exCheck at hc
  rw [ex_new] at hc
  simp only [hadd, Bool.and_eq_true, decide_eq_true_eq] at hc
  obtain ⟨⟨⟨⟨h1, h2⟩, h3⟩, _⟩, h5⟩ := hc
  exact ⟨_, _, ex_new, hadd, hr, h1, h2, h3, h5,
    fun xo fp hxo => killed_rejected hr xo fp hxo⟩

/-! # 7. The top-level `finalize` -/

/-- `finalize_customized_xml` after the XML text has been produced: XML, alignment, size query,
    seek to 0, real header, seek back behind the XML, flush -/
def finalizeOps (pw : PW) (xmlBytes : Bytes) : List WOp :=
  match runConcrete [WOp.write xmlBytes, WOp.align] pw with
  | .ok p2 =>
    [WOp.write xmlBytes, WOp.align, WOp.size, WOp.seek 0,
     WOp.write (fileHeaderBytes p2.physicalSize.2 pw.physicalPosition xmlBytes.length),
     WOp.seek p2.physicalPosition, WOp.flush]
  | _ => [WOp.write xmlBytes, WOp.align]

theorem finalize_ops (ft : FloatText) (e : EW) (tr : String → Option String) (e' : EW)
    (h : EW.finalize ft e tr = .ok e') :
    ∃ xml0 xml, serializeRoot ft e.root e.pcs e.imgs e.exts = some xml0 ∧ tr xml0 = some xml ∧
      runConcrete (finalizeOps e.pw (utf8 xml)) e.pw = .ok e'.pw := by
  unfold EW.finalize at h
  cases hx0 : serializeRoot ft e.root e.pcs e.imgs e.exts with
  | none => simp [hx0] at h
  | some xml0 =>
  cases hx : tr xml0 with
  | none =>
    simp only [hx0, hx] at h
    split at h <;> cases h
  | some xml =>
  refine ⟨xml0, xml, rfl, hx, ?_⟩
  simp only [hx0, hx] at h
  split at h
  · cases h
  split at h
  · cases h
  obtain ⟨p1, e1, h⟩ := Outcome.bind_eq_ok h
  obtain ⟨p2, e2, h⟩ := Outcome.bind_eq_ok h
  split at h
  · cases h
  · obtain ⟨p5, e5, h⟩ := Outcome.bind_eq_ok h
    split at h
    · cases h
    · cases h
      simp only [finalizeOps, runConcrete, stepConcrete, e1, e2, Outcome.bind_ok, e5]


/-- `physical_seek(0)`: flush, then load page 0 -/
theorem seek0_eq (w : PW) :
    (w.physicalSeek 0).1 = ⟨⟨w.flush.dev.data, 0⟩, 0,
      w.flush.dev.data.take 1024 ++ zeros (1024 - (w.flush.dev.data.take 1024).length)⟩ := by
  rw [physicalSeek_eq]
  unfold seekTail
  rw [if_neg (by omega), if_neg (by omega)]
  simp [PW.readCurrentPage, Dev.read, Dev.seekStart, pageSize]

theorem write1Log_part (w : PW) (buf : Bytes)
    (he : ¬ w.offset + min buf.length (1020 - w.offset) = 1020) : write1Log w buf = [] := by
  unfold write1Log
  delta payloadSize
  simp only
  rw [if_neg he]

/-- 48 bytes written at the start of a page stay in the page buffer: no device write -/
theorem writeAll_at0 (w : PW) (b : Bytes) (h0 : w.offset = 0) (hb : b.length = 48) :
    w.writeAll b = .ok ⟨w.dev, 48, b ++ w.page.drop 48⟩ ∧ writeAllLog w b = [] := by
  have hne : b ≠ [] := by intro h; rw [h] at hb; cases hb
  obtain ⟨x, xs, rfl⟩ := List.exists_cons_of_ne_nil hne
  have hp : ¬ w.offset + min (x :: xs).length (1020 - w.offset) = 1020 := by rw [h0, hb]; omega
  have hw := write1_part w (x :: xs) hp
  rw [h0, hb] at hw
  simp only [Nat.zero_add, Nat.sub_zero, List.take_zero, List.nil_append] at hw
  have hm : min 48 1020 = 48 := by omega
  rw [hm] at hw
  have ht : (x :: xs).take 48 = x :: xs := List.take_of_length_le (by omega)
  have hd : (x :: xs).drop 48 = [] := List.drop_eq_nil_of_le (by omega)
  rw [ht] at hw
  constructor
  · unfold PW.writeAll
    rw [hb]
    simp only [PW.writeAllFuel, hw, hd]
    simp
  · unfold writeAllLog
    rw [hb]
    simp only [writeAllLogFuel, hw, hd, write1Log_part w (x :: xs) hp]
    simp

theorem flush_dev48 (w : PW) (h : Safe w) : w.flush.dev.data.take 48 = hdr0 := by
  obtain ⟨ps, k, hr⟩ := h.inv
  obtain ⟨ps', hf, ha⟩ := hr.flush
  rw [flushed_dev_take48 hf, ha, h.log]

theorem flush_flush_data (w : PW) (h : w.Inv) : w.flush.flush.dev.data = w.flush.dev.data := by
  obtain ⟨i1, a1, d1⟩ := pw_flush w h
  obtain ⟨_, _, d2⟩ := pw_flush w.flush i1
  rw [d2, a1, d1]

theorem seek_flush_data (w : PW) (p : Nat) (h : w.Inv) :
    (w.physicalSeek p).1.flush.dev.data = w.flush.dev.data := by
  obtain ⟨i1, _, a1, d1⟩ := pw_seek w p h
  obtain ⟨_, _, d2⟩ := pw_flush _ i1
  rw [d2, a1, spec_seek_data, (pw_flush w h).2.2]

theorem runLog_cons_ok {w w' : PW} {op : WOp} (ops : List WOp) (h : stepConcrete w op = .ok w') :
    runLog (op :: ops) w = stepLog w op ++ runLog ops w' := by
  simp only [runLog, h]

theorem fileHeaderBytes_length (a b c : Nat) : (fileHeaderBytes a b c).length = 48 := by
  have : (utf8 "ASTM-E57").length = 8 := by decide +kernel
  simp [fileHeaderBytes, toLE_length, this]

/-- a torn write: the first `pos + c` bytes are those of the completed write, the rest is old -/
theorem devWrite_take (old b : Bytes) (pos c : Nat) (hpos : pos ≤ old.length) :
    devWrite old (pos, b.take c) =
      (devWrite old (pos, b)).take (pos + min c b.length) ++ old.drop (pos + min c b.length) := by
  rw [devWrite_le _ _ _ hpos, devWrite_le _ _ _ hpos, List.length_take]
  have h1 : (old.take pos).length = pos := by rw [List.length_take]; omega
  rw [List.append_assoc (old.take pos) b]
  have : pos + min c b.length = (old.take pos).length + min c b.length := by rw [h1]
  conv => rhs; arg 1; rw [this, List.take_length_add_append]
  rw [List.take_append_of_le_length (by omega), ← List.take_eq_take_min]

/-- rewriting what is already there: no crash image differs from the content -/
theorem noop_write_crash (d b : Bytes) (pos : Nat) (hpos : pos ≤ d.length)
    (hd : devWrite d (pos, b) = d) (k c : Nat) : crashImage [(pos, b)] d k c = d := by
  cases k with
  | zero =>
    show devWrite d (pos, b.take c) = d
    rw [devWrite_take _ _ _ _ hpos, hd, List.take_append_drop]
  | succ k => exact hd

theorem inv_dev_len (w : PW) (h : w.Inv) : w.dev.data.length % 1024 = 0 := by
  obtain ⟨ps, k, hr⟩ := h
  rw [hr.data, pages_length hr.uni]; omega

/-- **the device writes of `finalize`**: a crash-safe part `L` (XML pages, flushes), then ONE write of
    page 0 carrying the real header over an `old` content that still starts with the placeholder
    header, then at most one more write (`L'`) which rewrites the last page with identical bytes -/
theorem finalize_log (pw : PW) (xml : Bytes) (h : Safe pw) :
    ∃ (L L' : Log) (old : Bytes) (pwF : PW),
      runConcrete (finalizeOps pw xml) pw = .ok pwF ∧
      runLog (finalizeOps pw xml) pw =
        L ++ (0, sealPage (fileHeaderBytes old.length pw.physicalPosition xml.length ++
                (old.take 1024).drop 48)) :: L' ∧
      CrashSafe Hdr0 L pw.dev.data ∧ applyWrites L pw.dev.data = old ∧
      old.take 48 = hdr0 ∧ 1024 ≤ old.length ∧
      pwF.dev.data = devWrite old (0, sealPage (fileHeaderBytes old.length pw.physicalPosition xml.length ++
                (old.take 1024).drop 48)) ∧
      ∀ k c, crashImage L' pwF.dev.data k c = pwF.dev.data := by
  have hok : ∀ op ∈ [WOp.write xml, WOp.align], OpOK op := by
    intro op hop; simp at hop; rcases hop with rfl | rfl <;> trivial
  obtain ⟨p2, e2, hs2, hc1⟩ := run_safe [WOp.write xml, WOp.align] pw h hok
  have hd1 := run_data _ _ _ e2
  -- size
  obtain ⟨hs3, hc2⟩ := flush_safe p2 hs2
  have hd2 := flush_data p2
  -- seek 0
  obtain ⟨hs3f, hc3⟩ := flush_safe p2.flush hs3
  have hd3 := flush_data p2.flush
  have hold : p2.flush.flush.dev.data = p2.flush.dev.data := flush_flush_data p2 hs2.inv
  have h48 : p2.flush.dev.data.take 48 = hdr0 := flush_dev48 p2 hs2
  have hlen : 1024 ≤ p2.flush.dev.data.length := by
    have h1 := inv_dev_len _ hs3.inv
    have h2 := congrArg List.length h48
    rw [List.length_take, hdr0_length] at h2
    omega
  have hp4 := seek0_eq p2.flush
  rw [hold] at hp4
  have hz : p2.flush.dev.data.take 1024 ++ zeros (1024 - (p2.flush.dev.data.take 1024).length) =
      p2.flush.dev.data.take 1024 := by
    rw [List.length_take, Nat.min_eq_left hlen]; simp [zeros]
  rw [hz] at hp4
  have hi4 : (p2.flush.physicalSeek 0).1.Inv := (pw_seek p2.flush 0 hs3.inv).1
  -- header
  obtain ⟨hw5, hl5⟩ := writeAll_at0 (p2.flush.physicalSeek 0).1
    (fileHeaderBytes p2.flush.dev.data.length pw.physicalPosition xml.length)
    (by rw [hp4]) (fileHeaderBytes_length _ _ _)
  obtain ⟨p5', e5', hi5, _⟩ := pw_writeAll _ (fileHeaderBytes p2.flush.dev.data.length pw.physicalPosition xml.length) hi4
  rw [hw5] at e5'
  cases e5'
  rw [hp4] at hw5 hl5 hi5
  simp only at hw5 hi5
  generalize hp5 : (⟨⟨p2.flush.dev.data, 0⟩, 48,
    fileHeaderBytes p2.flush.dev.data.length pw.physicalPosition xml.length ++
      (p2.flush.dev.data.take 1024).drop 48⟩ : PW) = p5 at hw5 hi5
  have hfl5 : flushLog p5 = [(0, sealPage (fileHeaderBytes p2.flush.dev.data.length pw.physicalPosition xml.length ++
      (p2.flush.dev.data.take 1024).drop 48))] := by
    subst hp5; rfl
  have hd5 := flush_data p5
  have hp5d : p5.dev.data = p2.flush.dev.data := by subst hp5; rfl
  -- seek back, flush
  have hi6 : (p5.physicalSeek p2.physicalPosition).1.Inv := (pw_seek p5 _ hi5).1
  have hd6 : (p5.physicalSeek p2.physicalPosition).1.dev.data = p5.flush.dev.data := physicalSeek_data _ _
  have hd7 : (p5.physicalSeek p2.physicalPosition).1.flush.dev.data = p5.flush.dev.data :=
    seek_flush_data p5 _ hi5
  refine ⟨runLog [WOp.write xml, WOp.align] pw ++ flushLog p2 ++ flushLog p2.flush,
    flushLog (p5.physicalSeek p2.physicalPosition).1, p2.flush.dev.data,
    (p5.physicalSeek p2.physicalPosition).1.flush, ?_, ?_, ?_, ?_, h48, hlen, ?_, ?_⟩
  · -- run
    simp only [finalizeOps, e2]
    have : [WOp.write xml, WOp.align, WOp.size, WOp.seek 0,
        WOp.write (fileHeaderBytes p2.physicalSize.2 pw.physicalPosition xml.length),
        WOp.seek p2.physicalPosition, WOp.flush] =
      [WOp.write xml, WOp.align] ++ [WOp.size, WOp.seek 0,
        WOp.write (fileHeaderBytes p2.physicalSize.2 pw.physicalPosition xml.length),
        WOp.seek p2.physicalPosition, WOp.flush] := rfl
    rw [this, run_append, e2, Outcome.bind_ok]
    simp only [runConcrete, stepConcrete, Outcome.bind_ok, physicalSize_eq, hp4, hw5]
  · -- log
    simp only [finalizeOps, e2]
    have : [WOp.write xml, WOp.align, WOp.size, WOp.seek 0,
        WOp.write (fileHeaderBytes p2.physicalSize.2 pw.physicalPosition xml.length),
        WOp.seek p2.physicalPosition, WOp.flush] =
      [WOp.write xml, WOp.align] ++ [WOp.size, WOp.seek 0,
        WOp.write (fileHeaderBytes p2.physicalSize.2 pw.physicalPosition xml.length),
        WOp.seek p2.physicalPosition, WOp.flush] := rfl
    rw [this, runLog_append _ _ _ _ e2]
    simp only [runLog, stepConcrete, stepLog, physicalSize_eq, hp4, hw5, hl5, hfl5,
      List.append_nil, List.nil_append, List.append_assoc, List.cons_append]
  · exact (hc1.append (by rw [hd1]; exact hc2)).append
      (by rw [applyWrites_append, hd1, hd2]; exact hc3)
  · rw [applyWrites_append, applyWrites_append, hd1, hd2, hd3, hold]
  · rw [hd7, ← hd5, hfl5, hp5d]; rfl
  · intro k c
    rw [hd7, ← hd6]
    unfold flushLog
    split
    · apply noop_write_crash _ _ _ (rep_pos_le (Classical.choose_spec (Classical.choose_spec hi6)))
      have := flush_data (p5.physicalSeek p2.physicalPosition).1
      unfold flushLog at this
      rw [if_pos (by assumption)] at this
      rw [hd7, ← hd6] at this
      exact this
    · cases k <;> rfl

/-! # 8. The torn header write -/

/-- page 0 as `finalize` writes it: the real header, the old payload behind it, the new checksum -/
def newPage0 (old : Bytes) (L O X : Nat) : Bytes :=
  sealPage (fileHeaderBytes L O X ++ (old.take 1024).drop 48)

/-- the header write of `finalize` torn after `c` bytes -/
def tornHeader (old : Bytes) (L O X c : Nat) : Bytes := devWrite old (0, (newPage0 old L O X).take c)

theorem newPage0_eq (old : Bytes) (L O X : Nat) :
    newPage0 old L O X = fileHeaderBytes L O X ++ (old.drop 48).take 972 ++
      crcBytes (fileHeaderBytes L O X ++ (old.drop 48).take 972) := by
  have h1 : (fileHeaderBytes L O X ++ (old.take 1024).drop 48).take 1020 =
      fileHeaderBytes L O X ++ (old.drop 48).take 972 := by
    rw [List.take_append, fileHeaderBytes_length, List.take_of_length_le (by rw [fileHeaderBytes_length]; omega),
      List.drop_take, List.take_take]
    rfl
  unfold newPage0 sealPage
  delta payloadSize
  rw [h1]

theorem newPage0_length (old : Bytes) (L O X : Nat) (hl : 1024 ≤ old.length) :
    (newPage0 old L O X).length = 1024 := by
  rw [newPage0_eq old L O X]
  simp only [List.length_append, fileHeaderBytes_length, crcBytes_length, List.length_take, List.length_drop]
  omega

theorem tornHeader_eq (old : Bytes) (L O X c : Nat) (hl : 1024 ≤ old.length) :
    tornHeader old L O X c = (newPage0 old L O X).take c ++ old.drop (min c 1024) := by
  unfold tornHeader
  rw [devWrite_le _ _ _ (by omega), List.take_zero, List.nil_append, List.length_take,
    newPage0_length old L O X hl, Nat.zero_add]

/-- the complete header write -/
theorem finalHeader_eq (old : Bytes) (L O X : Nat) (hl : 1024 ≤ old.length) :
    devWrite old (0, newPage0 old L O X) = newPage0 old L O X ++ old.drop 1024 := by
  rw [devWrite_le _ _ _ (by omega), List.take_zero, List.nil_append, newPage0_length old L O X hl]


theorem drop_append_at (a b : Bytes) (n : Nat) (h : a.length = n) : (a ++ b).drop n = b := by
  subst h; exact List.drop_left

theorem take_append_at (a b : Bytes) (n : Nat) (h : a.length = n) : (a ++ b).take n = a := by
  subst h; exact List.take_left

theorem sig_length : (utf8 "ASTM-E57").length = 8 := by decide +kernel

theorem hdr_tail (L O X : Nat) : (fileHeaderBytes L O X).drop 40 = toLE 1024 8 := by
  unfold fileHeaderBytes
  exact drop_append_at _ _ 40 (by simp [toLE_length, sig_length])

theorem hdr_head (L O X : Nat) : (fileHeaderBytes L O X).take 16 = hdr0.take 16 := by
  have e : ∀ a b c, fileHeaderBytes a b c = (utf8 "ASTM-E57" ++ toLE 1 4 ++ toLE 0 4) ++
      (toLE a 8 ++ toLE b 8 ++ toLE c 8 ++ toLE 1024 8) := by
    intro a b c; simp [fileHeaderBytes]
  unfold hdr0
  rw [e, e, take_append_at _ _ 16 (by simp [toLE_length, sig_length]),
    take_append_at _ _ 16 (by simp [toLE_length, sig_length])]

theorem hdr_xmlLength (L O X : Nat) : ((fileHeaderBytes L O X).drop 32).take 8 = toLE X 8 := by
  have e : fileHeaderBytes L O X = (utf8 "ASTM-E57" ++ toLE 1 4 ++ toLE 0 4 ++ toLE L 8 ++ toLE O 8) ++
      (toLE X 8 ++ toLE 1024 8) := by
    simp [fileHeaderBytes]
  rw [e, drop_append_at _ _ 32 (by simp [toLE_length, sig_length]),
    take_append_at _ _ 8 (toLE_length _ _)]

/-- **(4a)** cut at or before byte 32: the XML-length field is still zero — rejected -/
theorem tornHeader_early (old : Bytes) (L O X c : Nat) (hl : 1024 ≤ old.length)
    (h0 : old.take 48 = hdr0) (hc : c ≤ 32) : Unfinal (tornHeader old L O X c) := by
  apply unfinal_of_xmlLength_zero
  rw [tornHeader_eq old L O X c hl, Nat.min_eq_left (by omega)]
  have hlen : ((newPage0 old L O X).take c).length = c := by
    rw [List.length_take, newPage0_length old L O X hl]; omega
  rw [List.drop_append, hlen, List.drop_of_length_le (by omega), List.nil_append, List.drop_drop]
  have : c + (32 - c) = 32 := by omega
  rw [this]
  have e1 : (old.drop 32).take 8 = ((old.take 48).drop 32).take 8 := by
    rw [List.drop_take, List.take_take]; rfl
  rw [e1, h0]
  decide +kernel


theorem newPage0_take1020 (old : Bytes) (L O X : Nat) (hl : 1024 ≤ old.length) :
    (newPage0 old L O X).take 1020 = fileHeaderBytes L O X ++ (old.drop 48).take 972 := by
  rw [newPage0_eq]
  exact take_append_at _ _ 1020 (by
    simp only [List.length_append, fileHeaderBytes_length, List.length_take, List.length_drop]; omega)

theorem old_take1020 (old : Bytes) (h0 : old.take 48 = hdr0) :
    old.take 1020 = hdr0 ++ (old.drop 48).take 972 := by
  have : (1020 : Nat) = 48 + 972 := rfl
  rw [this, List.take_add, h0]

/-- old and new page 0 agree on the bytes 40..1020 (page-size field and payload) -/
theorem agree_from40 (old : Bytes) (L O X c : Nat) (hl : 1024 ≤ old.length) (h0 : old.take 48 = hdr0)
    (hc : 40 ≤ c) :
    ((newPage0 old L O X).drop c).take (1020 - c) = (old.drop c).take (1020 - c) := by
  rw [← List.drop_take, ← List.drop_take, newPage0_take1020 old L O X hl, old_take1020 old h0]
  obtain ⟨j, rfl⟩ : ∃ j, c = 40 + j := ⟨c - 40, by omega⟩
  have hdd : ∀ (l : Bytes), l.drop (40 + j) = (l.drop 40).drop j := fun l => by
    rw [List.drop_drop]
  rw [hdd, hdd]
  congr 1
  rw [List.drop_append_of_le_length (by rw [fileHeaderBytes_length]; omega),
    List.drop_append_of_le_length (by rw [hdr0_length]; omega), hdr_tail]
  unfold hdr0
  rw [hdr_tail]

/-- **(4b)** cut at or behind byte 40: the image differs from the complete file at most in the four
    checksum bytes 1020..1024 of page 0; in particular its first 48 bytes are the final header -/
theorem tornHeader_late (old : Bytes) (L O X c : Nat) (hl : 1024 ≤ old.length)
    (h0 : old.take 48 = hdr0) (hc : 40 ≤ c) :
    (tornHeader old L O X c).take 1020 = (devWrite old (0, newPage0 old L O X)).take 1020 ∧
    (tornHeader old L O X c).drop 1024 = (devWrite old (0, newPage0 old L O X)).drop 1024 ∧
    (tornHeader old L O X c).length = (devWrite old (0, newPage0 old L O X)).length := by
  have hb := newPage0_length old L O X hl
  rw [tornHeader_eq old L O X c hl, finalHeader_eq old L O X hl]
  have hlen : ((newPage0 old L O X).take c).length = min c 1024 := by rw [List.length_take, hb]
  refine ⟨?_, ?_, ?_⟩
  · rw [List.take_append_of_le_length (l₁ := newPage0 old L O X) (by omega)]
    by_cases h1 : 1020 ≤ c
    · rw [List.take_append_of_le_length (by omega), List.take_take, Nat.min_eq_left h1]
    · have hm : min c 1024 = c := by omega
      rw [hm, List.take_append, hlen, hm, List.take_take, Nat.min_eq_right (by omega),
        ← agree_from40 old L O X c hl h0 hc]
      have : (1020 : Nat) = c + (1020 - c) := by omega
      conv => rhs; rw [this, List.take_add]
  · rw [drop_append_at _ _ 1024 hb, List.drop_append, hlen,
      List.drop_of_length_le (by omega), List.nil_append, List.drop_drop]
    congr 1; omega
  · simp only [List.length_append, hlen, hb, List.length_drop]; omega

theorem tornHeader_late_take48 (old : Bytes) (L O X c : Nat) (hl : 1024 ≤ old.length)
    (h0 : old.take 48 = hdr0) (hc : 40 ≤ c) :
    (tornHeader old L O X c).take 48 = fileHeaderBytes L O X := by
  have h1 := (tornHeader_late old L O X c hl h0 hc).1
  have h2 : (tornHeader old L O X c).take 48 = ((tornHeader old L O X c).take 1020).take 48 := by
    rw [List.take_take]; rfl
  rw [h2, h1, finalHeader_eq old L O X hl,
    List.take_append_of_le_length (by rw [newPage0_length old L O X hl]; omega),
    newPage0_take1020 old L O X hl]
  exact take_append_at _ _ 48 (fileHeaderBytes_length _ _ _)


theorem hdr_physLength (L O X : Nat) : ((fileHeaderBytes L O X).drop 16).take 8 = toLE L 8 := by
  have e : fileHeaderBytes L O X = (utf8 "ASTM-E57" ++ toLE 1 4 ++ toLE 0 4) ++
      (toLE L 8 ++ (toLE O 8 ++ toLE X 8 ++ toLE 1024 8)) := by
    simp [fileHeaderBytes]
  rw [e, drop_append_at _ _ 16 (by simp [toLE_length, sig_length]),
    take_append_at _ _ 8 (toLE_length _ _)]

theorem hdr_xmlOffset (L O X : Nat) : ((fileHeaderBytes L O X).drop 24).take 8 = toLE O 8 := by
  have e : fileHeaderBytes L O X = (utf8 "ASTM-E57" ++ toLE 1 4 ++ toLE 0 4 ++ toLE L 8) ++
      (toLE O 8 ++ (toLE X 8 ++ toLE 1024 8)) := by
    simp [fileHeaderBytes]
  rw [e, drop_append_at _ _ 24 (by simp [toLE_length, sig_length]),
    take_append_at _ _ 8 (toLE_length _ _)]

/-- the header parser on a content whose signature/version and page-size fields are the writer's -/
theorem read_of_fields (d : Bytes) (hl : 48 ≤ d.length) (h16 : d.take 16 = hdr0.take 16)
    (h40 : (d.drop 40).take 8 = toLE 1024 8) :
    FileHeader.read d = some ⟨leVal ((d.drop 16).take 8), leVal ((d.drop 24).take 8),
      leVal ((d.drop 32).take 8), 1024⟩ := by
  have s1 : d.take 8 = utf8 "ASTM-E57" := by
    have : d.take 8 = (d.take 16).take 8 := by rw [List.take_take]; rfl
    rw [this, h16]; decide +kernel
  have s2 : (d.drop 8).take 4 = toLE 1 4 := by
    have : (d.drop 8).take 4 = ((d.take 16).drop 8).take 4 := by
      rw [List.drop_take, List.take_take]; rfl
    rw [this, h16]; decide +kernel
  have s3 : (d.drop 12).take 4 = toLE 0 4 := by
    have : (d.drop 12).take 4 = ((d.take 16).drop 12).take 4 := by
      rw [List.drop_take, List.take_take]; rfl
    rw [this, h16]; decide +kernel
  unfold FileHeader.read
  rw [if_neg (by omega)]
  simp only [s1, s2, s3, h40, leVal_toLE]
  simp

theorem slice_of_take {d : Bytes} (a n m : Nat) (h : a + n ≤ m) :
    (d.drop a).take n = ((d.take m).drop a).take n := by
  rw [List.drop_take, List.take_take, Nat.min_eq_left (by omega)]

/-- bytes of a header write torn inside the XML-length field -/
theorem tornHeader_mid_bytes (old : Bytes) (L O X c : Nat) (hl : 1024 ≤ old.length)
    (h0 : old.take 48 = hdr0) (h1 : 32 < c) (h2 : c < 40) :
    (tornHeader old L O X c).take 32 = (fileHeaderBytes L O X).take 32 ∧
    ((tornHeader old L O X c).drop 32).take 8 = (toLE X 8).take (c - 32) ++ zeros (40 - c) ∧
    ((tornHeader old L O X c).drop 40).take 8 = toLE 1024 8 ∧
    48 ≤ (tornHeader old L O X c).length := by
  have hb := newPage0_length old L O X hl
  have hm : min c 1024 = c := by omega
  have ht := tornHeader_eq old L O X c hl
  rw [hm] at ht
  have hlen : ((newPage0 old L O X).take c).length = c := by rw [List.length_take, hb]; omega
  have hb48 : (newPage0 old L O X).take 48 = fileHeaderBytes L O X := by
    have : (newPage0 old L O X).take 48 = ((newPage0 old L O X).take 1020).take 48 := by
      rw [List.take_take]; rfl
    rw [this, newPage0_take1020 old L O X hl]
    exact take_append_at _ _ 48 (fileHeaderBytes_length _ _ _)
  refine ⟨?_, ?_, ?_, ?_⟩
  · rw [ht, List.take_append_of_le_length (by omega), List.take_take, Nat.min_eq_left (by omega),
      ← hb48, List.take_take]
    rfl
  · rw [ht, List.drop_append, hlen, List.drop_take, List.drop_drop]
    have e0 : c + (32 - c) = c := by omega
    rw [e0, List.take_append]
    have e1 : ((newPage0 old L O X).drop 32).take (c - 32) = (toLE X 8).take (c - 32) := by
      rw [← hdr_xmlLength L O X, ← hb48, ← slice_of_take 32 8 48 (by omega), List.take_take,
        (show min (c - 32) 8 = c - 32 by omega)]
    rw [List.take_take, (show min 8 (c - 32) = c - 32 by omega), e1]
    congr 1
    rw [List.length_take, toLE_length]
    have e3 : min (c - 32) 8 = c - 32 := by omega
    rw [e3]
    have e4 : 8 - (c - 32) = 40 - c := by omega
    rw [e4, slice_of_take c (40 - c) 48 (by omega), h0]
    have e5 : (hdr0.drop c).take (40 - c) = ((hdr0.drop 32).take 8).drop (c - 32) := by
      rw [List.drop_take, List.drop_drop, (show 32 + (c - 32) = c by omega),
        (show 8 - (c - 32) = 40 - c by omega)]
    rw [e5]
    have e6 : (hdr0.drop 32).take 8 = zeros 8 := by decide +kernel
    rw [e6, zeros_drop, (show 8 - (c - 32) = 40 - c by omega)]
  · have d40 : (tornHeader old L O X c).drop 40 = old.drop 40 := by
      rw [ht, List.drop_append, hlen, List.drop_of_length_le (by omega), List.nil_append, List.drop_drop]
      congr 1; omega
    rw [d40, slice_of_take 40 8 48 (by omega), h0]
    decide +kernel
  · rw [ht, List.length_append, hlen, List.length_drop]; omega

theorem tornHeader_mid_xmlLength (old : Bytes) (L O X c : Nat) (hl : 1024 ≤ old.length)
    (h0 : old.take 48 = hdr0) (h1 : 32 < c) (h2 : c < 40) :
    leVal (((tornHeader old L O X c).drop 32).take 8) = X % 2 ^ (8 * (c - 32)) := by
  rw [(tornHeader_mid_bytes old L O X c hl h0 h1 h2).2.1, leVal_append, leVal_zeros, leVal_take,
    leVal_toLE]
  have e7 : X % 2 ^ (8 * 8) % 2 ^ (8 * (c - 32)) = X % 2 ^ (8 * (c - 32)) := by
    apply Nat.mod_mod_of_dvd
    exact Nat.pow_dvd_pow 2 (by omega)
  rw [e7]; simp

/-- **(4c)** cut inside the XML-length field: file length and XML offset are final, the XML length is
    the final one truncated to its `c - 32` low bytes -/
theorem tornHeader_mid (old : Bytes) (L O X c : Nat) (hl : 1024 ≤ old.length)
    (h0 : old.take 48 = hdr0) (h1 : 32 < c) (h2 : c < 40) :
    FileHeader.read (tornHeader old L O X c) =
      some ⟨L % 2 ^ 64, O % 2 ^ 64, X % 2 ^ (8 * (c - 32)), 1024⟩ := by
  obtain ⟨t32, _, h40, tl⟩ := tornHeader_mid_bytes old L O X c hl h0 h1 h2
  have h16 : (tornHeader old L O X c).take 16 = hdr0.take 16 := by
    have : (tornHeader old L O X c).take 16 = ((tornHeader old L O X c).take 32).take 16 := by
      rw [List.take_take]; rfl
    rw [this, t32, List.take_take]
    exact hdr_head L O X
  rw [read_of_fields _ tl h16 h40, tornHeader_mid_xmlLength old L O X c hl h0 h1 h2]
  rw [slice_of_take 16 8 32 (by omega), slice_of_take 24 8 32 (by omega), t32,
    ← slice_of_take 16 8 32 (by omega), ← slice_of_take 24 8 32 (by omega),
    hdr_physLength, hdr_xmlOffset, leVal_toLE, leVal_toLE]

theorem take48_split (d : Bytes) :
    d.take 48 = d.take 32 ++ (d.drop 32).take 8 ++ (d.drop 40).take 8 := by
  have h1 : (48 : Nat) = 40 + 8 := rfl
  have h2 : (40 : Nat) = 32 + 8 := rfl
  rw [h1, List.take_add, h2, List.take_add]

/-- **(4) which torn images carry the new XML length**: if the header of a torn image parses and
    announces the final (non-zero) XML length, then its first 48 bytes are the complete file's.
    (By 4a–4c this happens exactly for cuts `c ≥ 40`, and for `32 < c < 40` when the length fits
    into its `c - 32` low bytes.) -/
theorem tornHeader_newLength (old : Bytes) (L O X c : Nat) (hl : 1024 ≤ old.length)
    (h0 : old.take 48 = hdr0) (hX : X % 2 ^ 64 ≠ 0) (hd : FileHeader)
    (hr : FileHeader.read (tornHeader old L O X c) = some hd) (hx : hd.xmlLength = X % 2 ^ 64) :
    (tornHeader old L O X c).take 48 = fileHeaderBytes L O X := by
  by_cases h1 : c ≤ 32
  · rcases tornHeader_early old L O X c hl h0 h1 with hn | ⟨hd', hr', hz⟩
    · rw [hn] at hr; cases hr
    · rw [hr'] at hr; cases hr; omega
  · by_cases h2 : 40 ≤ c
    · exact tornHeader_late_take48 old L O X c hl h0 h2
    · have hm := tornHeader_mid old L O X c hl h0 (by omega) (by omega)
      rw [hm] at hr
      cases hr
      simp only at hx
      obtain ⟨t32, _, h40, _⟩ := tornHeader_mid_bytes old L O X c hl h0 (by omega) (by omega)
      have f32 := tornHeader_mid_xmlLength old L O X c hl h0 (by omega) (by omega)
      have hfield : ((tornHeader old L O X c).drop 32).take 8 = toLE X 8 := by
        apply eq_of_leVal_eq
        · rw [List.length_take, List.length_drop, toLE_length, tornHeader_eq old L O X c hl,
            List.length_append, List.length_take, List.length_drop, newPage0_length old L O X hl]
          omega
        · rw [f32, leVal_toLE, hx]
      rw [take48_split, t32, hfield, h40]
      have := take48_split (fileHeaderBytes L O X)
      rw [List.take_of_length_le (by rw [fileHeaderBytes_length]; omega), hdr_xmlLength,
        hdr_tail, List.take_of_length_le (l := toLE 1024 8) (by rw [toLE_length]; omega)] at this
      exact this.symm

/-- non-vacuity of the hypotheses of the `tornHeader_*` theorems -/
example : ∃ old : Bytes, 1024 ≤ old.length ∧ old.take 48 = hdr0 :=
  ⟨hdr0 ++ zeros 976, by decide +kernel, by decide +kernel⟩

/-! ## a header write torn behind byte 40 is opened like the complete file -/

/-- the same reader state on another device content -/
def swapData (r : PR) (d : Bytes) : PR := { r with dev := { r.dev with data := d } }

theorem drop_pages (d1 d2 : Bytes) (h : d1.drop 1024 = d2.drop 1024) (p : Nat) (hp : 1 ≤ p) :
    d1.drop (p * 1024) = d2.drop (p * 1024) := by
  obtain ⟨q, rfl⟩ : ∃ q, p = 1 + q := ⟨p - 1, by omega⟩
  have : (1 + q) * 1024 = 1024 + q * 1024 := by omega
  rw [this, ← List.drop_drop, ← List.drop_drop, h]

theorem readPage_swap (d2 : Bytes) (r : PR) (p : Nat) (hps : r.pageSize = 1024) (hp : 1 ≤ p)
    (hd : r.dev.data.drop 1024 = d2.drop 1024) :
    (swapData r d2).readPage p = (swapData (r.readPage p).1 d2, (r.readPage p).2) := by
  unfold PR.readPage
  have hdp := drop_pages _ _ hd p hp
  simp only [swapData, Dev.seekStart, Dev.read, hps, hdp]
  split
  · simp [hps]
  · split
    · simp
    · split <;> simp


theorem readPage_frame (r : PR) (p : Nat) :
    (r.readPage p).1.pageSize = r.pageSize ∧ (r.readPage p).1.offset = r.offset ∧
    (r.readPage p).1.dev.data = r.dev.data ∧ (r.readPage p).1.pages = r.pages := by
  obtain ⟨⟨h1, h2, _, _, h5⟩, h6⟩ := pr_readPage_data r p
  exact ⟨h2, h6, h1, h5⟩

/-- one `read` behind page 0 does not depend on page 0 of the device -/
theorem read_swap (d2 : Bytes) (r : PR) (n : Nat) (hps : r.pageSize = 1024) (ho : 1020 ≤ r.offset)
    (hd : r.dev.data.drop 1024 = d2.drop 1024) :
    (∃ e, r.read n = .err e ∧ (swapData r d2).read n = .err e) ∨
    (∃ r' bs, r.read n = .ok (r', bs) ∧ (swapData r d2).read n = .ok (swapData r' d2, bs) ∧
      r'.pageSize = 1024 ∧ r.offset ≤ r'.offset ∧ r'.dev.data = r.dev.data) := by
  have hpage : 1 ≤ r.offset / (r.pageSize - 4) := by
    rw [hps]; exact (Nat.le_div_iff_mul_le (by omega)).2 (by omega)
  unfold PR.read
  have e1 : (swapData r d2).offset = r.offset := rfl
  have e2 : (swapData r d2).pageSize = r.pageSize := rfl
  have e3 : (swapData r d2).pages = r.pages := rfl
  have e4 : (swapData r d2).pageNum = r.pageNum := rfl
  simp only [e1, e2, e3, e4]
  by_cases hpg : r.offset / (r.pageSize - 4) ≥ r.pages
  · rw [if_pos hpg, if_pos hpg]
    exact .inr ⟨r, [], rfl, rfl, hps, Nat.le_refl _, rfl⟩
  · rw [if_neg hpg, if_neg hpg]
    by_cases hc : r.pageNum ≠ some (r.offset / (r.pageSize - 4))
    · rw [if_pos hc, if_pos hc, readPage_swap d2 r _ hps hpage hd]
      obtain ⟨f1, f2, f3, f4⟩ := readPage_frame r (r.offset / (r.pageSize - 4))
      generalize r.readPage (r.offset / (r.pageSize - 4)) = q at *
      obtain ⟨rp, ok⟩ := q
      simp only at f1 f2 f3 f4 ⊢
      cases ok with
      | false => left; exact ⟨"read_page failed", rfl, rfl⟩
      | true =>
        right
        exact ⟨_, _, rfl, rfl, by simp only; rw [f1]; exact hps, by simp only; rw [f2]; omega, f3⟩
    · rw [if_neg hc, if_neg hc]
      right
      exact ⟨_, _, rfl, rfl, hps, by simp only; omega, rfl⟩

theorem readExactFuel_swap (d2 : Bytes) : ∀ (fuel : Nat) (r : PR) (n : Nat) (acc : Bytes),
    r.pageSize = 1024 → 1020 ≤ r.offset → r.dev.data.drop 1024 = d2.drop 1024 →
    (PR.readExactFuel fuel (swapData r d2) n acc).2 = (PR.readExactFuel fuel r n acc).2 := by
  intro fuel
  induction fuel with
  | zero =>
    intro r n acc _ _ _
    cases n <;> rfl
  | succ f ih =>
    intro r n acc hps ho hd
    cases n with
    | zero => rfl
    | succ m =>
      simp only [PR.readExactFuel]
      rcases read_swap d2 r (m + 1) hps ho hd with ⟨e, h1, h2⟩ | ⟨r', bs, h1, h2, g1, g2, g3⟩
      · rw [h1, h2]
      · rw [h1, h2]
        simp only
        split
        · rfl
        · exact ih r' _ _ g1 (by omega) (by rw [g3]; exact hd)

/-- `extract_xml` from a physical offset behind page 0 does not depend on page 0 -/
theorem extractXml_swap (d2 : Bytes) (r : PR) (off len : Nat) (hps : r.pageSize = 1024)
    (hoff : 1024 ≤ off) (hd : r.dev.data.drop 1024 = d2.drop 1024) :
    (extractXml (swapData r d2) off len).map (·.2) = (extractXml r off len).map (·.2) := by
  unfold extractXml
  split
  · rfl
  · unfold PR.seekPhysical
    have e1 : (swapData r d2).physSize = r.physSize := rfl
    have e2 : (swapData r d2).pageSize = r.pageSize := rfl
    simp only [e1, e2]
    by_cases hge : off ≥ r.physSize
    · rw [if_pos hge, if_pos hge]
    · rw [if_neg hge, if_neg hge]
      simp only
      have hsw : (⟨(swapData r d2).dev, r.pageSize, r.physSize, (swapData r d2).logSize,
          (swapData r d2).pages, off - off / r.pageSize * 4, (swapData r d2).pageNum,
          (swapData r d2).page⟩ : PR) =
          swapData { r with offset := off - off / r.pageSize * 4 } d2 := rfl
      rw [hsw]
      have hoff' : 1020 ≤ off - off / r.pageSize * 4 := by
        rw [hps]
        have := Nat.div_add_mod off 1024
        have := Nat.mod_lt off (by omega : 1024 > 0)
        omega
      have := readExactFuel_swap d2 (len + 1) { r with offset := off - off / r.pageSize * 4 } len []
        hps hoff' hd
      unfold PR.readExact
      generalize PR.readExactFuel (len + 1) (swapData { r with offset := off - off / r.pageSize * 4 } d2) len [] = q1 at *
      generalize PR.readExactFuel (len + 1) { r with offset := off - off / r.pageSize * 4 } len [] = q2 at *
      obtain ⟨a1, b1⟩ := q1
      obtain ⟨a2, b2⟩ := q2
      simp only at this
      subst this
      cases b1 <;> rfl

/-- what a client can observe of an opened reader (everything but the paged-reader state) -/
def readerView (r : Reader) : FileHeader × Bytes × RootRead × List PointCloud × List Image × List (String × String) :=
  (r.header, r.xml, r.root, r.pcs, r.imgs, r.exts)

/-- the part of `Reader.open` behind `extract_xml` -/
def openTail (xo : XmlOracle) (fp : FloatParse) (h : FileHeader) (xml : Bytes) :
    Option (FileHeader × Bytes × RootRead × List PointCloud × List Image × List (String × String)) := do
  let doc ← xo xml
  let root ← rootFromDocument fp doc
  let pcs ← pointcloudsFromDocument fp doc
  let imgs ← imagesFromDocument fp doc
  pure (h, xml, root, pcs, imgs, extensionsFromDocument doc)

theorem open_view (d : Bytes) (xo : XmlOracle) (fp : FloatParse) :
    (Reader.open d xo fp).map readerView =
      (FileHeader.read d).bind fun h =>
        ((PR.new ⟨d, 48⟩ h.pageSize).toOption.bind fun pr0 => (checkHeaderPage pr0).bind fun pr =>
          (extractXml pr h.xmlOffset h.xmlLength).map (·.2)).bind (openTail xo fp h) := by
  unfold Reader.open
  cases FileHeader.read d with
  | none => rfl
  | some h =>
    simp only [Option.bind_eq_bind, Option.bind_some]
    cases (PR.new ⟨d, 48⟩ h.pageSize).toOption with
    | none => rfl
    | some pr0 =>
      simp only [Option.bind_some]
      cases checkHeaderPage pr0 with
      | none => rfl
      | some pr =>
      simp only [Option.bind_some]
      cases extractXml pr h.xmlOffset h.xmlLength with
      | none => rfl
      | some q =>
        obtain ⟨pr', xml⟩ := q
        simp only [Option.bind_some, Option.map_some, openTail, Option.bind_eq_bind]
        cases xo xml with
        | none => rfl
        | some doc =>
          simp only [Option.bind_some]
          cases rootFromDocument fp doc with
          | none => rfl
          | some root =>
            simp only [Option.bind_some]
            cases pointcloudsFromDocument fp doc with
            | none => rfl
            | some pcs =>
              simp only [Option.bind_some]
              cases imagesFromDocument fp doc with
              | none => rfl
              | some imgs => rfl

theorem read_congr (d1 d2 : Bytes) (hl : d1.length = d2.length) (h48 : d1.take 48 = d2.take 48) :
    FileHeader.read d1 = FileHeader.read d2 := by
  unfold FileHeader.read
  rw [hl]
  split
  · rfl
  · have e : ∀ a n, a + n ≤ 48 → (d1.drop a).take n = (d2.drop a).take n := by
      intro a n h
      rw [slice_of_take (d := d1) a n 48 h, slice_of_take (d := d2) a n 48 h, h48]
    have e0 : d1.take 8 = d2.take 8 := by
      have := e 0 8 (by omega)
      simpa using this
    simp only [e 8 4 (by omega), e 12 4 (by omega), e 16 8 (by omega), e 24 8 (by omega),
      e 32 8 (by omega), e 40 8 (by omega), e0]

theorem read_pageSize (d : Bytes) (h : FileHeader) (hr : FileHeader.read d = some h) : h.pageSize = 1024 := by
  unfold FileHeader.read at hr
  split at hr
  · cases hr
  · simp only at hr
    split at hr
    · cases hr
    · split at hr
      · cases hr
      · split at hr
        · cases hr
        · split at hr
          · cases hr
          · next hp =>
            cases hr
            simpa using hp

theorem prNew_swap (d1 d2 : Bytes) (hl : d1.length = d2.length) (ps : Nat) :
    (PR.new ⟨d2, 48⟩ ps).toOption = ((PR.new ⟨d1, 48⟩ ps).toOption).map (swapData · d2) ∧
    ∀ r, (PR.new ⟨d1, 48⟩ ps).toOption = some r → r.pageSize = ps ∧ r.dev.data = d1 := by
  by_cases c1 : ps > 1048576
  · simp [PR.new, c1, Outcome.toOption]
  · by_cases c2 : ps ≤ 4
    · simp [PR.new, c1, c2, Outcome.toOption]
    · by_cases c3 : d2.length = 0
      · simp [PR.new, c1, c2, c3, hl, Dev.seekEnd, Outcome.toOption]
      · by_cases c4 : d2.length % ps ≠ 0
        · simp [PR.new, c1, c2, c3, c4, hl, Dev.seekEnd, Outcome.toOption]
        · simp only [PR.new, c1, c2, c3, c4, hl, Dev.seekEnd, Outcome.toOption, if_false]
          refine ⟨rfl, ?_⟩
          intro r h
          simp only [Option.some.injEq] at h
          subst h
          exact ⟨rfl, rfl⟩

theorem toOption_ok {α} {o : Outcome α} {a : α} (h : o.toOption = some a) : o = .ok a := by
  cases o with
  | ok b => cases h; rfl
  | err e => cases h
  | panic e => cases h

/-- two device contents of equal length that agree on the first 48 bytes and on everything behind
    page 0, with the XML section behind page 0, and whose pages 0 are both valid or both invalid, are
    indistinguishable for `Reader.open` (the hypothesis `hv` is new with the header page check of
    `E57Reader::new`: without it the two contents can differ in the checksum bytes of page 0) -/
theorem open_swap (d1 d2 : Bytes) (xo : XmlOracle) (fp : FloatParse) (hl : d1.length = d2.length)
    (h48 : d1.take 48 = d2.take 48) (hd : d1.drop 1024 = d2.drop 1024)
    (hv : pageValid (devPage d1 1024 0) 1024 ↔ pageValid (devPage d2 1024 0) 1024)
    (hoff : ∀ h, FileHeader.read d1 = some h → 1024 ≤ h.xmlOffset) :
    (Reader.open d1 xo fp).map readerView = (Reader.open d2 xo fp).map readerView := by
  rw [open_view, open_view, ← read_congr d1 d2 hl h48]
  cases hr : FileHeader.read d1 with
  | none => rfl
  | some h =>
    simp only [Option.bind_some]
    congr 1
    obtain ⟨hn, hprop⟩ := prNew_swap d1 d2 hl h.pageSize
    rw [hn]
    cases hp : (PR.new ⟨d1, 48⟩ h.pageSize).toOption with
    | none => rfl
    | some r =>
      obtain ⟨g1, g2⟩ := hprop r hp
      rw [hp] at hn
      simp only [Option.map_some, Option.bind_some]
      have hps : r.pageSize = 1024 := by rw [g1]; exact read_pageSize d1 h hr
      have i1 : r.CacheInv := pr_new_inv _ _ r (toOption_ok hp)
      have i2 : (swapData r d2).CacheInv := pr_new_inv _ _ _ (toOption_ok hn)
      have hps2 : (swapData r d2).pageSize = 1024 := hps
      have g3 : (swapData r d2).dev.data = d2 := rfl
      by_cases hv1 : pageValid (devPage d1 1024 0) 1024
      · obtain ⟨r1, e1, -⟩ := checkHeaderPage_valid r i1 (by omega) (by rw [g2, hps]; exact hv1)
        obtain ⟨r2, e2, -⟩ := checkHeaderPage_valid (swapData r d2) i2 (by omega)
          (by rw [g3, hps2]; exact hv.mp hv1)
        rw [e1, e2]
        simp only [Option.bind_some]
        rw [extractXml_after_check r r1 i1 e1, extractXml_after_check _ r2 i2 e2]
        exact (extractXml_swap d2 r h.xmlOffset h.xmlLength hps (hoff h hr) (by rw [g2]; exact hd)).symm
      · have n1 := (checkHeaderPage_none_iff r i1 (by omega)).mpr (by rw [g2, hps]; exact hv1)
        have n2 := (checkHeaderPage_none_iff (swapData r d2) i2 (by omega)).mpr
          (by rw [g3, hps2]; exact fun x => hv1 (hv.mpr x))
        rw [n1, n2]

theorem read_hdr (d : Bytes) (L O X : Nat) (hl : 48 ≤ d.length) (h : d.take 48 = fileHeaderBytes L O X) :
    FileHeader.read d = some ⟨L % 2 ^ 64, O % 2 ^ 64, X % 2 ^ 64, 1024⟩ := by
  have h16 : d.take 16 = hdr0.take 16 := by
    have : d.take 16 = (d.take 48).take 16 := by rw [List.take_take]; rfl
    rw [this, h]; exact hdr_head L O X
  have h40 : (d.drop 40).take 8 = toLE 1024 8 := by
    rw [slice_of_take 40 8 48 (by omega), h, hdr_tail]
    exact List.take_of_length_le (by rw [toLE_length]; omega)
  rw [read_of_fields d hl h16 h40, slice_of_take 16 8 48 (by omega), slice_of_take 24 8 48 (by omega),
    slice_of_take 32 8 48 (by omega), h, hdr_physLength, hdr_xmlOffset, hdr_xmlLength,
    leVal_toLE, leVal_toLE, leVal_toLE]

/-- page 0 of the complete header write carries a valid checksum -/
theorem newPage0_valid (old : Bytes) (L O X : Nat) (hl : 1024 ≤ old.length) :
    pageValid (devPage (devWrite old (0, newPage0 old L O X)) 1024 0) 1024 := by
  have hb := newPage0_length old L O X hl
  have hp : devPage (devWrite old (0, newPage0 old L O X)) 1024 0 = newPage0 old L O X := by
    unfold devPage
    rw [finalHeader_eq old L O X hl, Nat.zero_mul, List.drop_zero]
    exact take_append_at _ _ 1024 hb
  rw [hp]
  unfold pageValid
  rw [show (1024 - 4 : Nat) = 1020 from rfl, newPage0_take1020 old L O X hl, newPage0_eq]
  exact drop_append_at _ _ 1020 (by
    simp only [List.length_append, fileHeaderBytes_length, List.length_take, List.length_drop]; omega)

/-- two contents that agree on the payload of page 0 and behind page 0, both with a valid page 0,
    are equal (the checksum bytes are determined by the payload) -/
theorem eq_of_valid_page0 (T F : Bytes) (h1 : T.take 1020 = F.take 1020)
    (h2 : T.drop 1024 = F.drop 1024) (hT : pageValid (devPage T 1024 0) 1024)
    (hF : pageValid (devPage F 1024 0) 1024) : T = F := by
  unfold pageValid devPage at hT hF
  simp only [Nat.zero_mul, List.drop_zero] at hT hF
  have a : ∀ D : Bytes, D = D.take 1020 ++ ((D.take 1024).drop 1020 ++ D.drop 1024) := by
    intro D
    have e : (D.take 1024).drop 1020 = (D.drop 1020).take 4 := by
      rw [List.drop_take]
    rw [e]
    conv => lhs; rw [← List.take_append_drop 1020 D]
    congr 1
    conv => lhs; rw [← List.take_append_drop 4 (D.drop 1020)]
    rw [List.drop_drop]
  have tt : ∀ D : Bytes, (D.take 1024).take 1020 = D.take 1020 := by
    intro D; rw [List.take_take]; rfl
  have e1 : (1024 - 4 : Nat) = 1020 := rfl
  rw [e1, tt] at hT hF
  rw [a T, a F, h1, h2, hT, hF, h1]

/-- **(4b, with the header page check)** for a cut at or behind byte 40 the torn image carries a valid
    page 0 exactly when it already IS the complete file -/
theorem tornHeader_late_valid_iff (old : Bytes) (L O X c : Nat) (hl : 1024 ≤ old.length)
    (h0 : old.take 48 = hdr0) (hc : 40 ≤ c) :
    pageValid (devPage (tornHeader old L O X c) 1024 0) 1024 ↔
      tornHeader old L O X c = devWrite old (0, newPage0 old L O X) := by
  obtain ⟨t1, t2, _⟩ := tornHeader_late old L O X c hl h0 hc
  constructor
  · intro hv
    exact eq_of_valid_page0 _ _ t1 t2 hv (newPage0_valid old L O X hl)
  · intro e
    rw [e]
    exact newPage0_valid old L O X hl

/-- a header write torn at a cut `c ≥ 40` whose page 0 carries a valid checksum is opened exactly like
    the complete file when the XML section lies behind page 0.  (Before `E57Reader::new` validated the
    header page this held WITHOUT the hypothesis `hv`: the final header over the checksum of the
    placeholder header was accepted.  With the check `hv` is needed, and by
    `tornHeader_late_valid_iff` it holds only when the image is the complete file: see
    `tornHeader_late_rejected`.) -/
theorem tornHeader_late_opens (old : Bytes) (L O X c : Nat) (xo : XmlOracle) (fp : FloatParse)
    (hl : 1024 ≤ old.length) (h0 : old.take 48 = hdr0) (hc : 40 ≤ c) (hO : 1024 ≤ O % 2 ^ 64)
    (hv : pageValid (devPage (tornHeader old L O X c) 1024 0) 1024) :
    (Reader.open (tornHeader old L O X c) xo fp).map readerView =
      (Reader.open (devWrite old (0, newPage0 old L O X)) xo fp).map readerView := by
  obtain ⟨t1, t2, t3⟩ := tornHeader_late old L O X c hl h0 hc
  have t48 := tornHeader_late_take48 old L O X c hl h0 hc
  have f48 : (devWrite old (0, newPage0 old L O X)).take 48 = fileHeaderBytes L O X := by
    have : (devWrite old (0, newPage0 old L O X)).take 48 =
        ((devWrite old (0, newPage0 old L O X)).take 1020).take 48 := by rw [List.take_take]; rfl
    rw [this, ← t1, List.take_take]
    exact t48
  have tl : 48 ≤ (tornHeader old L O X c).length := by
    rw [t3, finalHeader_eq old L O X hl, List.length_append, newPage0_length old L O X hl]; omega
  apply open_swap _ _ xo fp t3 (by rw [t48, f48]) t2
    ⟨fun _ => newPage0_valid old L O X hl, fun _ => hv⟩
  intro h hr
  rw [read_hdr _ L O X tl t48] at hr
  cases hr
  exact hO

/-- in particular: if the complete file is accepted, so is every such torn image -/
theorem tornHeader_late_accepted (old : Bytes) (L O X c : Nat) (xo : XmlOracle) (fp : FloatParse)
    (hl : 1024 ≤ old.length) (h0 : old.take 48 = hdr0) (hc : 40 ≤ c) (hO : 1024 ≤ O % 2 ^ 64)
    (hv : pageValid (devPage (tornHeader old L O X c) 1024 0) 1024)
    (hf : (Reader.open (devWrite old (0, newPage0 old L O X)) xo fp).isSome) :
    (Reader.open (tornHeader old L O X c) xo fp).isSome := by
  have := tornHeader_late_opens old L O X c xo fp hl h0 hc hO hv
  cases h1 : Reader.open (tornHeader old L O X c) xo fp with
  | some r => rfl
  | none =>
    rw [h1] at this
    cases h2 : Reader.open (devWrite old (0, newPage0 old L O X)) xo fp with
    | none => rw [h2] at hf; cases hf
    | some r => rw [h2] at this; cases this

/-- **the finding is repaired**: a header write torn at a cut `c ≥ 40` that is not yet the complete
    file is rejected (its page 0 holds the final header over the checksum of the placeholder header,
    and `E57Reader::new` now validates that page) -/
theorem tornHeader_late_rejected (old : Bytes) (L O X c : Nat) (xo : XmlOracle) (fp : FloatParse)
    (hl : 1024 ≤ old.length) (h0 : old.take 48 = hdr0) (hc : 40 ≤ c)
    (hne : tornHeader old L O X c ≠ devWrite old (0, newPage0 old L O X)) :
    Reader.open (tornHeader old L O X c) xo fp = none := by
  cases h : Reader.open (tornHeader old L O X c) xo fp with
  | none => rfl
  | some rd =>
    exact absurd ((tornHeader_late_valid_iff old L O X c hl h0 hc).mp
      (HeaderPage.open_checks_header_page _ xo fp rd h)) hne

/-- **what is true of the header write now**: an image from the middle of the header write that differs
    from the complete file is rejected for every cut outside the XML-length field (`c ≤ 32` or
    `40 ≤ c`), and for a cut inside it (33..39) unless the torn page 0 -- final file length and XML
    offset, XML length truncated, checksum of the placeholder header -- happens to carry a valid
    checksum (a CRC collision, see `torn_header_rejected_statement_false`) -/
theorem torn_header_rejected (old : Bytes) (L O X c : Nat) (xo : XmlOracle) (fp : FloatParse)
    (hxo : RejectsEmpty xo fp) (hl : 1024 ≤ old.length) (h0 : old.take 48 = hdr0)
    (hne : tornHeader old L O X c ≠ devWrite old (0, newPage0 old L O X))
    (hc : c ≤ 32 ∨ 40 ≤ c ∨ ¬ pageValid (devPage (tornHeader old L O X c) 1024 0) 1024) :
    Reader.open (tornHeader old L O X c) xo fp = none := by
  rcases hc with hc | hc | hc
  · exact open_rejects_unfinalized _ xo fp hxo (tornHeader_early old L O X c hl h0 hc)
  · exact tornHeader_late_rejected old L O X c xo fp hl h0 hc hne
  · cases h : Reader.open (tornHeader old L O X c) xo fp with
    | none => rfl
    | some rd => exact absurd (HeaderPage.open_checks_header_page _ xo fp rd h) hc

/-! ## the full-strength statement is still false at the header write -/

/-- "a device image from the middle of the header write is rejected unless it already equals the
    complete file" -/
def torn_header_rejected_statement : Prop :=
  ∀ (old : Bytes) (L O X c : Nat) (xo : XmlOracle) (fp : FloatParse),
    RejectsEmpty xo fp → 1024 ≤ old.length → old.take 48 = hdr0 →
    tornHeader old L O X c ≠ devWrite old (0, newPage0 old L O X) →
    Reader.open (tornHeader old L O X c) xo fp = none

/-- a file length field for which the header page collides: `wP0c` below has the checksum of the
    placeholder page (found by solving the linear system over GF(2); the reader ignores the field) -/
def wLc : Nat := 3771725925
def wP0old : Bytes := hdr0 ++ zeros 972
/-- page-0 payload of the torn image: final length and offset, XML length 257 truncated to its low byte -/
def wP0c : Bytes := fileHeaderBytes wLc 1024 1 ++ zeros 972
def wP1 : Bytes := zeros 1020
/-- two flushed pages of an unfinalized file: placeholder header, one page of data -/
def wOld : Bytes := sealP wP0old ++ sealP wP1

def sAttr (t : String) : XAttr := ⟨none, "type", t⟩

/-- a minimal document the metadata reader accepts -/
def doc0 : XDoc :=
  ⟨.elem none none "e57Root" [sAttr "Structure"]
     [.elem none none "formatName" [sAttr "String"] [.text "f"],
      .elem none none "guid" [sAttr "String"] [.text "g"],
      .elem none none "versionMajor" [sAttr "Integer"] [.text "1"]], []⟩

def fp0 : FloatParse := ⟨[]⟩
/-- an XML front end that rejects the empty text and accepts everything else -/
def xo0 : XmlOracle := fun b => if b = [] then none else some doc0

theorem doc0_ok : (rootFromDocument fp0 doc0).isSome ∧ (pointcloudsFromDocument fp0 doc0).isSome ∧
    (imagesFromDocument fp0 doc0).isSome := by decide +kernel

theorem xo0_rejectsEmpty : RejectsEmpty xo0 fp0 := rejectsEmpty_of_none xo0 fp0 rfl

set_option maxRecDepth 1000000 in
/-- the CRC collision (kernel-evaluated, bitwise reference CRC) -/
theorem w_crc_eq : crc32cRef wP0old = crc32cRef wP0c := by decide +kernel

theorem wP0old_length : wP0old.length = 1020 := by
  simp [wP0old, hdr0_length, zeros_length]
theorem wP0c_length : wP0c.length = 1020 := by
  simp [wP0c, fileHeaderBytes_length, zeros_length]
theorem wP1_length : wP1.length = 1020 := by simp [wP1, zeros_length]

theorem wOld_length : wOld.length = 2048 := by
  simp [wOld, sealP_length _ wP0old_length, sealP_length _ wP1_length]

theorem wOld_take48 : wOld.take 48 = hdr0 := by
  have : wOld = hdr0 ++ (zeros 972 ++ crcBytes wP0old ++ sealP wP1) := by
    simp [wOld, sealP, wP0old]
  rw [this]
  exact take_append_at _ _ 48 hdr0_length

/-- page 0 of the old device content is valid (`wOld` is what a real session leaves behind) -/
theorem wOld_page0_valid : pageValid (devPage wOld 1024 0) 1024 := by
  have hp : devPage wOld 1024 0 = sealP wP0old := by
    unfold devPage wOld
    rw [Nat.zero_mul, List.drop_zero]
    exact take_append_at _ _ 1024 (sealP_length _ wP0old_length)
  rw [hp]
  unfold pageValid sealP
  rw [show (1024 - 4 : Nat) = 1020 from rfl, take_append_at _ _ 1020 wP0old_length,
    drop_append_at _ _ 1020 wP0old_length]

theorem wD_length : (wP0c ++ wP1).length = 2040 := by
  rw [List.length_append, wP0c_length, wP1_length]

/-- the header write torn after 33 bytes (inside the XML-length field: 257 has become 1) IS a
    well-formed file: the page writer's image of two payload pages -/
theorem wTorn_image : tornHeader wOld wLc 1024 257 33 = Spec.image (wP0c ++ wP1) := by
  have hl : 1024 ≤ wOld.length := by rw [wOld_length]; omega
  rw [tornHeader_eq wOld _ _ _ 33 hl, newPage0_eq]
  have ha : (fileHeaderBytes wLc 1024 257 ++ (wOld.drop 48).take 972 ++
      crcBytes (fileHeaderBytes wLc 1024 257 ++ (wOld.drop 48).take 972)).take 33 =
      (fileHeaderBytes wLc 1024 1).take 33 := by
    rw [List.append_assoc, List.take_append_of_le_length (by rw [fileHeaderBytes_length]; omega)]
    decide +kernel
  rw [ha]
  have hb : wOld.drop (min 33 1024) =
      (fileHeaderBytes wLc 1024 1).drop 33 ++ (zeros 972 ++ (crcBytes wP0old ++ sealP wP1)) := by
    have h1 : wOld = hdr0 ++ (zeros 972 ++ (crcBytes wP0old ++ sealP wP1)) := by
      simp [wOld, sealP, wP0old]
    rw [h1, show min 33 1024 = 33 from rfl,
      List.drop_append_of_le_length (by rw [hdr0_length]; omega)]
    congr 1
    decide +kernel
  rw [hb, ← List.append_assoc, List.take_append_drop]
  have hcrc : crcBytes wP0old = crcBytes wP0c := by
    unfold crcBytes
    rw [crc32c_eq_ref, crc32c_eq_ref, w_crc_eq]
  rw [hcrc]
  have hu : Uniform 1020 [wP0c, wP1] := by
    intro p hp
    simp at hp
    rcases hp with rfl | rfl
    · exact wP0c_length
    · exact wP1_length
  have := image_flatten hu
  simp only [List.flatten_cons, List.flatten_nil, List.append_nil, List.map_cons, List.map_nil] at this
  rw [this]
  simp [sealP, wP0c]

theorem wTorn_take48 : (tornHeader wOld wLc 1024 257 33).take 48 = fileHeaderBytes wLc 1024 1 := by
  rw [wTorn_image]
  have hu : Uniform 1020 [wP0c, wP1] := by
    intro p hp
    simp at hp
    rcases hp with rfl | rfl
    · exact wP0c_length
    · exact wP1_length
  have := image_flatten hu
  simp only [List.flatten_cons, List.flatten_nil, List.append_nil, List.map_cons, List.map_nil] at this
  rw [this]
  have e : sealP wP0c ++ sealP wP1 =
      fileHeaderBytes wLc 1024 1 ++ (zeros 972 ++ crcBytes wP0c ++ sealP wP1) := by
    simp [sealP, wP0c]
  rw [e]
  exact take_append_at _ _ 48 (fileHeaderBytes_length _ _ _)

/-- the image of two payload pages whose header announces one byte of XML at physical offset 1024 is
    accepted by `Reader.open` with the front end `xo0` (header page check included) -/
theorem wImage_accepted (L : Nat) (P0 F : Bytes) (hP0 : P0.length = 1020)
    (h48 : F.take 48 = fileHeaderBytes L 1024 1)
    (hF : F = Spec.image (P0 ++ wP1)) : (Reader.open F xo0 fp0).isSome := by
  have hDl : (P0 ++ wP1).length = 2040 := by rw [List.length_append, hP0, wP1_length]
  have hl : F.length = 2048 := by
    rw [hF, image_length _ (by rw [hDl]), hDl]
  have hv := open_view F xo0 fp0
  rw [read_hdr _ L 1024 1 (by omega) h48] at hv
  simp only [Option.bind_some] at hv
  have e1 : (1024 : Nat) % 2 ^ 64 = 1024 := by decide
  have e2 : (1 : Nat) % 2 ^ 64 = 1 := by decide
  rw [e1, e2] at hv
  have hDne : P0 ++ wP1 ≠ [] := by
    intro h; have := congrArg List.length h; rw [hDl] at this; cases this
  obtain ⟨r0, hnew, _, _, hphys⟩ := pr_new_image (P0 ++ wP1) 48 (by rw [hDl]) hDne
  rw [← hF] at hnew
  rw [hnew] at hv
  simp only [Outcome.toOption, Option.bind_some] at hv
  rw [hF] at hnew
  -- the header page check passes: every page of an image is valid
  obtain ⟨r, hchk, _, _, hsf, _, _, hreach0⟩ :=
    checkHeaderPage_new_image (P0 ++ wP1) 48 (by rw [hDl]) hDne r0 hnew
  rw [hchk] at hv
  simp only [Option.bind_some] at hv
  have hphys' : r.physSize = 1024 * ((P0 ++ wP1).length / 1020) := hsf.2.2.1.trans hphys
  obtain ⟨_, _, hps⟩ := pr_reach_inv _ _ r hreach0
  have hseek : r.seekPhysical 1024 = .ok ({ r with offset := 1020 }, 1020) := by
    unfold PR.seekPhysical
    rw [if_neg (by rw [hphys', hDl]; omega), hps]
  have hreach1 := PR.Reach.seek r 1024 _ _ hreach0 hseek
  obtain ⟨r', hex, _⟩ := (pr_reach_reads_stream (P0 ++ wP1) 48 { r with offset := 1020 } 1
    (by rw [hDl]) hreach1).2.1 (by rw [hDl]; show 1020 + 1 ≤ 2040; omega)
  have hx : extractXml r 1024 1 = some (r', ((P0 ++ wP1).drop 1020).take 1) := by
    unfold extractXml
    rw [if_neg (by simp [maxXmlSize]), hseek]
    simp only
    rw [hex]
  have hb : ((P0 ++ wP1).drop 1020).take 1 = [0] := by
    rw [drop_append_at _ _ 1020 hP0]; rfl
  rw [hx, hb] at hv
  simp only [Option.map_some, Option.bind_some] at hv
  obtain ⟨d1, d2, d3⟩ := doc0_ok
  have ht : (openTail xo0 fp0 ⟨L % 2 ^ 64, 1024, 1, 1024⟩ [0]).isSome := by
    unfold openTail
    have : xo0 [0] = some doc0 := rfl
    simp only [Option.bind_eq_bind, this, Option.bind_some]
    cases h1 : rootFromDocument fp0 doc0 with
    | none => rw [h1] at d1; cases d1
    | some a =>
      cases h2 : pointcloudsFromDocument fp0 doc0 with
      | none => rw [h2] at d2; cases d2
      | some b =>
        cases h3 : imagesFromDocument fp0 doc0 with
        | none => rw [h3] at d3; cases d3
        | some c => rfl
  cases ho : Reader.open F xo0 fp0 with
  | some x => rfl
  | none =>
    rw [ho] at hv
    rw [← hv] at ht
    cases ht

/-- the torn image of the witness is accepted -/
theorem wTorn_accepted : (Reader.open (tornHeader wOld wLc 1024 257 33) xo0 fp0).isSome :=
  wImage_accepted wLc wP0c _ wP0c_length wTorn_take48 wTorn_image

/-- the complete file of the witness announces 257 bytes of XML, the torn image 1 byte -/
theorem wTorn_ne :
    tornHeader wOld wLc 1024 257 33 ≠ devWrite wOld (0, newPage0 wOld wLc 1024 257) := by
  intro h
  have hl : 1024 ≤ wOld.length := by rw [wOld_length]; omega
  have h1 := congrArg (List.take 48) h
  rw [wTorn_take48, finalHeader_eq wOld _ _ _ hl,
    List.take_append_of_le_length (by rw [newPage0_length wOld _ _ _ hl]; omega)] at h1
  have h2 : (newPage0 wOld wLc 1024 257).take 48 = fileHeaderBytes wLc 1024 257 := by
    have : (newPage0 wOld wLc 1024 257).take 48 = ((newPage0 wOld wLc 1024 257).take 1020).take 48 := by
      rw [List.take_take]; rfl
    rw [this, newPage0_take1020 wOld _ _ _ hl]
    exact take_append_at _ _ 48 (fileHeaderBytes_length _ _ _)
  rw [h2] at h1
  revert h1
  decide +kernel

/-- **the statement is still false**, but only through a checksum collision: the witness is a header
    write torn at byte 33 (inside the XML-length field, 257 truncated to 1) over a device whose page 0
    is valid (`wOld_page0_valid`); the file-length field is chosen such that the torn page 0 has the
    CRC of the placeholder page (`w_crc_eq`), so the torn image is a well-formed file
    (`wTorn_image`) and is opened.  The witness of the unrepaired crate (cut 40: final header over the
    old checksum, no collision needed) is now rejected: `tornHeader_late_rejected`. -/
theorem torn_header_rejected_statement_false : ¬ torn_header_rejected_statement := by
  intro h
  have hl : 1024 ≤ wOld.length := by rw [wOld_length]; omega
  have hno := h wOld wLc 1024 257 33 xo0 fp0 xo0_rejectsEmpty hl wOld_take48 wTorn_ne
  have hyes := wTorn_accepted
  rw [hno] at hyes
  cases hyes

/-! # 9. A whole session ending with `finalize` -/

theorem crashImage_append_left (A B : Log) (d : Bytes) (k c : Nat) (hk : k < A.length) :
    crashImage (A ++ B) d k c = crashImage A d k c := by
  unfold crashImage
  rw [List.getElem?_append_left hk, List.take_append_of_le_length (by omega),
    List.getElem?_eq_getElem hk]

theorem crashImage_append_right (A B : Log) (d : Bytes) (k c : Nat) :
    crashImage (A ++ B) d (A.length + k) c = crashImage B (applyWrites A d) k c := by
  unfold crashImage
  rw [List.getElem?_append_right (by omega), Nat.add_sub_cancel_left]
  have : (A ++ B).take (A.length + k) = A ++ B.take k := by
    rw [List.take_append, List.take_of_length_le (by omega), Nat.add_sub_cancel_left]
  rw [this, applyWrites_append, applyWrites_append]

/-- **(3)+(4) for a complete session**: the write log of a session ending with a successful
    `finalize` splits into `L ++ [header write] ++ L'`.
    * every crash image before the header write (`k < L.length`, any cut) is rejected;
    * the crash images of the header write itself are `tornHeader old … cut` (analysed by
      `tornHeader_early / _mid / _late / _newLength`), where `old` starts with the placeholder header;
    * after the header write the device holds the complete file, whatever happens to the rest. -/
theorem finalize_crash {e : EW} {c : Cur} {l : List WOp} (h : Reach e c l)
    (ft : FloatText) (tr : String → Option String) (e' : EW) (hf : EW.finalize ft e tr = .ok e')
    (xo : XmlOracle) (fp : FloatParse) (hxo : RejectsEmpty xo fp) :
    ∃ (xml : String) (L L' : Log) (old : Bytes),
      runConcrete (l ++ finalizeOps e.pw (utf8 xml)) w0 = .ok e'.pw ∧
      runLog (l ++ finalizeOps e.pw (utf8 xml)) w0 =
        L ++ (0, newPage0 old old.length e.pw.physicalPosition (utf8 xml).length) :: L' ∧
      applyWrites L [] = old ∧ old.take 48 = hdr0 ∧ 1024 ≤ old.length ∧
      e'.pw.dev.data = devWrite old (0, newPage0 old old.length e.pw.physicalPosition (utf8 xml).length) ∧
      (∀ k cut, k < L.length →
        Reader.open (crashImage (runLog (l ++ finalizeOps e.pw (utf8 xml)) w0) [] k cut) xo fp = none) ∧
      (∀ cut, crashImage (runLog (l ++ finalizeOps e.pw (utf8 xml)) w0) [] L.length cut =
        tornHeader old old.length e.pw.physicalPosition (utf8 xml).length cut) ∧
      (∀ k cut, L.length < k →
        crashImage (runLog (l ++ finalizeOps e.pw (utf8 xml)) w0) [] k cut = e'.pw.dev.data) := by
  obtain ⟨xml0, xml, _, _, hrun⟩ := finalize_ops ft e tr e' hf
  obtain ⟨L2, L', old, pwF, e2, hlog, hc2, ha2, h48, hlen, hfin, hnoop⟩ :=
    finalize_log e.pw (utf8 xml) (reach_safe h)
  rw [hrun] at e2; cases e2
  have hfin' : e'.pw.dev.data =
      devWrite old (0, newPage0 old old.length e.pw.physicalPosition (utf8 xml).length) := hfin
  have hr := reach_run h
  have hd := reach_device h
  have hc1 := reach_crashSafe h
  have hfull : runLog (l ++ finalizeOps e.pw (utf8 xml)) w0 =
      (runLog l w0 ++ L2) ++ (0, newPage0 old old.length e.pw.physicalPosition (utf8 xml).length) :: L' := by
    rw [runLog_append _ _ _ _ hr, hlog, List.append_assoc]; rfl
  have hcs : CrashSafe Hdr0 (runLog l w0 ++ L2) [] := hc1.append (by rw [hd]; exact hc2)
  have hold : applyWrites (runLog l w0 ++ L2) [] = old := by rw [applyWrites_append, hd, ha2]
  refine ⟨xml, runLog l w0 ++ L2, L', old, ?_, hfull, hold, h48, hlen, hfin, ?_, ?_, ?_⟩
  · rw [run_append, hr, Outcome.bind_ok]; exact hrun
  · intro k cut hk
    rw [hfull, crashImage_append_left _ _ _ _ _ hk]
    exact open_rejects_unfinalized _ xo fp hxo (hcs.image k cut).unfinal
  · intro cut
    rw [hfull]
    have := crashImage_append_right (runLog l w0 ++ L2)
      ((0, newPage0 old old.length e.pw.physicalPosition (utf8 xml).length) :: L') [] 0 cut
    rw [Nat.add_zero] at this
    rw [this, hold]
    rfl
  · intro k cut hk
    obtain ⟨j, rfl⟩ : ∃ j, k = (runLog l w0 ++ L2).length + (1 + j) := ⟨k - (runLog l w0 ++ L2).length - 1, by omega⟩
    rw [hfull, crashImage_append_right, hold]
    have : crashImage ((0, newPage0 old old.length e.pw.physicalPosition (utf8 xml).length) :: L') old (1 + j) cut =
        crashImage L' (devWrite old (0, newPage0 old old.length e.pw.physicalPosition (utf8 xml).length)) j cut := by
      have := crashImage_append_right [(0, newPage0 old old.length e.pw.physicalPosition (utf8 xml).length)] L' old j cut
      exact this
    rw [this, ← hfin']
    exact hnoop j cut

open Spec in
/-- on a reachable state `finalize` fails only for an empty GUID, a string with a character XML cannot carry,
    a failing transformer or XML above 10 MiB (which the reader would refuse): the
    hypothesis `EW.finalize … = .ok e'` of `finalize_crash` is satisfiable for every session -/
theorem finalize_succeeds {e : EW} {c : Cur} {l : List WOp} (h : Reach e c l)
    (ft : FloatText) (tr : String → Option String) (x0 x : String)
    (h0 : serializeRoot ft e.root e.pcs e.imgs e.exts = some x0) (hchars : x0.toList.all xmlChar = true)
    (h1 : tr x0 = some x) (hsmall : (utf8 x).length ≤ 1024 * 1024 * 10) :
    ∃ e', EW.finalize ft e tr = .ok e' := by
  have hpw := (reach_safe h).inv
  have hsmall' : ¬ ((utf8 x).length > 1024 * 1024 * 10) := by omega
  unfold EW.finalize
  simp only [h0, hchars, h1, hsmall', if_false, Bool.not_true, Bool.false_eq_true]
  obtain ⟨p1, e1, i1, a1⟩ := pw_writeAll e.pw (utf8 x) hpw
  obtain ⟨p2, e2, i2, a2⟩ := pw_align p1 i1
  obtain ⟨i3, a3, _, _⟩ := pw_size p2 i2
  have wf2 := abs_wf p2 i2
  have wf3 := abs_wf _ i3
  obtain ⟨p4, e4, i4, a4⟩ := pw_seek_back p2.physicalSize.1 0 i3 (by omega)
  have hl0 : l2p 0 = 0 := rfl
  rw [hl0] at e4
  obtain ⟨p5, e5, i5, a5⟩ := pw_writeAll p4
    (fileHeaderBytes p2.physicalSize.2 e.pw.physicalPosition (utf8 x).length) i4
  have hdata : p4.abs.data = p2.abs.data := by rw [a4, a3]
  have hcur : p4.abs.cur = 0 := by rw [a4]
  have l5 : p2.abs.cur ≤ p5.abs.data.length := by
    have := spec_write_length_ge p4.abs
      (fileHeaderBytes p2.physicalSize.2 e.pw.physicalPosition (utf8 x).length) (by rw [hcur]; omega)
    rw [← a5, hdata] at this
    omega
  obtain ⟨p6, e6, i6, a6⟩ := pw_seek_back p5 p2.abs.cur i5 l5
  have hp2 := pw_position p2 i2
  simp only [LogStream.physPos] at hp2
  refine ⟨{ e with pw := p6.flush }, ?_⟩
  simp only [e1, e2, Outcome.bind_ok, e4, e5, hp2, e6, Bool.not_true, Bool.false_eq_true, if_false,
    Outcome.pure_eq]

set_option maxRecDepth 100000 in
/-- the document of the example session consists of characters XML can carry (evaluated by the kernel) -/
theorem exE0_chars_all :
    (serializeRoot (⟨[], []⟩ : FloatText) exE0.root [] [] []).all (fun x => x.toList.all xmlChar) = true := by
  decide +kernel

theorem exE0_chars (ft : FloatText) (x0 : String) (h : serializeRoot ft exE0.root [] [] [] = some x0) :
    x0.toList.all xmlChar = true := by
  have e : serializeRoot ft exE0.root [] [] [] = serializeRoot (⟨[], []⟩ : FloatText) exE0.root [] [] [] := by
    simp only [serializeRoot, exE0, optS, List.map_nil]
  have h2 := exE0_chars_all
  rw [← e, h] at h2
  exact h2

/-- non-vacuity of `finalize_crash`: the example session can be finalized (identity transformer) — provided
    its XML is at most 10 MiB, which is kept as a hypothesis: the text goes through `cdataEscape` =
    `String.replace`, which the kernel does not evaluate (see `ex_finalize_closed` for an instance without
    any hypothesis) -/
theorem ex_finalize (ft : FloatText)
    (hsmall : ∀ x0, serializeRoot ft exE0.root [] [] [] = some x0 → (utf8 x0).length ≤ 1024 * 1024 * 10) :
    ∃ e b e', exE0.addBlob exData = .ok (e, b) ∧
      Reach e .top ([WOp.write hdr0] ++ blobOps w1 exData) ∧ EW.finalize ft e some = .ok e' := by
  obtain ⟨e, b, _, hadd, hr, _⟩ := ex_session
  have hroot : e.root = exE0.root ∧ e.pcs = [] ∧ e.imgs = [] ∧ e.exts = [] := by
    unfold EW.addBlob at hadd
    obtain ⟨⟨pw, b'⟩, _, hadd⟩ := Outcome.bind_eq_ok hadd
    cases hadd
    exact ⟨rfl, rfl, rfl, rfl⟩
  have hs : ∃ x0, serializeRoot ft e.root e.pcs e.imgs e.exts = some x0 := by
    rw [hroot.1, hroot.2.1, hroot.2.2.1, hroot.2.2.2]
    unfold serializeRoot
    have : exE0.root.guid.isEmpty = false := by decide
    rw [this]
    exact ⟨_, rfl⟩
  obtain ⟨x0, hx0⟩ := hs
  have hx0' := hx0
  rw [hroot.1, hroot.2.1, hroot.2.2.1, hroot.2.2.2] at hx0'
  obtain ⟨e', he'⟩ := finalize_succeeds hr ft some x0 x0 hx0 (exE0_chars ft x0 hx0') rfl (hsmall x0 hx0')
  exact ⟨e, b, e', hadd, hr, he'⟩

/-- non-vacuity of `finalize_crash` without any hypothesis: the example session closed by
    `finalize_customized_xml` with a transformer that replaces the XML by the 4 bytes `<x/>` -/
theorem ex_finalize_closed (ft : FloatText) :
    ∃ e b e', exE0.addBlob exData = .ok (e, b) ∧
      Reach e .top ([WOp.write hdr0] ++ blobOps w1 exData) ∧
      EW.finalize ft e (fun _ => some "<x/>") = .ok e' := by
  obtain ⟨e, b, _, hadd, hr, _⟩ := ex_session
  have hroot : e.root = exE0.root ∧ e.pcs = [] ∧ e.imgs = [] ∧ e.exts = [] := by
    unfold EW.addBlob at hadd
    obtain ⟨⟨pw, b'⟩, _, hadd⟩ := Outcome.bind_eq_ok hadd
    cases hadd
    exact ⟨rfl, rfl, rfl, rfl⟩
  have hs : ∃ x0, serializeRoot ft e.root e.pcs e.imgs e.exts = some x0 := by
    unfold serializeRoot
    have : e.root.guid.isEmpty = false := by rw [hroot.1]; decide
    rw [this]
    exact ⟨_, rfl⟩
  obtain ⟨x0, hx0⟩ := hs
  have hx0' := hx0
  rw [hroot.1, hroot.2.1, hroot.2.2.1, hroot.2.2.2] at hx0'
  obtain ⟨e', he'⟩ := finalize_succeeds hr ft (fun _ => some "<x/>") x0 "<x/>" hx0 (exE0_chars ft x0 hx0') rfl
    (by decide +kernel)
  exact ⟨e, b, e', hadd, hr, he'⟩

/-! # 10. The hypothesis on the XML front end cannot be weakened -/

/-- … and it cannot be weakened: a flushed image of an unfinalized session (whole pages, placeholder
    header, page 0 sealed: `hv0`, needed since `E57Reader::new` validates the header page -- an image
    with a damaged page 0 is rejected whatever the front end does) is rejected **iff** the front end
    rejects the empty text -/
theorem open_unfinalized_iff (d : Bytes) (xo : XmlOracle) (fp : FloatParse)
    (h48 : d.take 48 = hdr0) (hpos : 0 < d.length) (hm : d.length % 1024 = 0)
    (hv0 : pageValid (devPage d 1024 0) 1024) :
    Reader.open d xo fp = none ↔ RejectsEmpty xo fp := by
  refine ⟨?_, fun h => open_rejects_unfinalized d xo fp h (Hdr0.unfinal (.inr h48))⟩
  intro ho doc hx
  have hl : 48 ≤ d.length := by omega
  have hread : FileHeader.read d = some ⟨0, 0, 0, 1024⟩ := by
    have h16 : d.take 16 = hdr0.take 16 := by
      have : d.take 16 = (d.take 48).take 16 := by rw [List.take_take]; rfl
      rw [this, h48]
    have h40 : (d.drop 40).take 8 = toLE 1024 8 := by
      rw [slice_of_take 40 8 48 (by omega), h48]; decide +kernel
    rw [read_of_fields d hl h16 h40, slice_of_take 16 8 48 (by omega), slice_of_take 24 8 48 (by omega),
      slice_of_take 32 8 48 (by omega), h48]
    decide +kernel
  unfold Reader.open at ho
  rw [hread] at ho
  have hnew : PR.new ⟨d, 48⟩ 1024 =
      .ok ⟨⟨d, d.length⟩, 1024, d.length, (d.length / 1024) * (1024 - 4), d.length / 1024, 0, none, zeros 1024⟩ := by
    have hne : d.length ≠ 0 := by omega
    simp [PR.new, Dev.seekEnd, hm, hne]
  simp only [Option.bind_eq_bind, Option.bind_some, hnew, Outcome.toOption] at ho
  -- the header page check passes on a valid page 0
  obtain ⟨rc, hchk, -, -, hsf⟩ := checkHeaderPage_valid _ (pr_new_inv _ _ _ hnew) (by show 52 ≤ 1024; omega) hv0
  rw [hchk] at ho
  simp only [Option.bind_some] at ho
  have hex : ∀ r : PR, r.physSize = d.length → extractXml r 0 0 = some ({ r with offset := 0 }, []) := by
    intro r hr
    unfold extractXml PR.seekPhysical
    rw [if_neg (by simp [maxXmlSize]), if_neg (by omega)]
    simp only [readExact_zero]
    simp
  rw [hex rc hsf.2.2.1] at ho
  simp only [Option.bind_some, hx] at ho
  cases h1 : rootFromDocument fp doc with
  | none => exact .inl rfl
  | some r =>
    cases h2 : pointcloudsFromDocument fp doc with
    | none => exact .inr (.inl rfl)
    | some p =>
      cases h3 : imagesFromDocument fp doc with
      | none => exact .inr (.inr rfl)
      | some i => rw [h1, h2, h3] at ho; simp at ho

end Interrupt
end E57
