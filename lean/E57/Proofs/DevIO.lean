/-
C16 — device faults surface as errors; short I/O changes nothing.

Model: E57/Model/DevIO.lean — the page layer (`FPW` = `PagedWriter` with its failure latch, `FPR` =
`PagedReader`) over a device `FDev` whose every call (`write`, `read`, `seek`/`stream_position`,
`flush`) consumes one behaviour of a schedule: `full`, `short n`, `fail`, `interrupted`.
This file proves that it refines the ideal page layer of E57/Model/Pages.lean (`PW`, `PR` over `Dev`).

  schedules   `Benign` (only `full` / `short n`, n ≥ 1), `Sane` (no `short 0`), `NoFail` (no `fail`)

  1  ideal device: `dev_writeAll_append` (two writes = one write of the concatenation),
       `dev_read_split` (two reads = one read)
  3  device level, for every sane schedule (`DPost` / `LPost` / `EPost`: a prefix `pre` of the
       schedule is consumed; success = the ideal step and `NoFail pre`; error ⇒ `¬ Benign pre`):
       `ctl_post` (seek, stream_position, flush), `writeAll_post` (std `write_all`),
       `readLoop_post` (the loop of `read_current_page`), `readExact_post` (std `read_exact`;
       `UnexpectedEof` iff the ideal read is short)
  4  `Post V latch i s x` / `Sim`: the outcome `x` of an operation against the ideal operation `i`
       (`none` = the ideal model rejects the request too): `ok`/logic error ⇒ ideal result, states
       correspond under `abs`, `NoFail pre`, latch untouched; any other error ⇒ `¬ Benign pre` and
       (public operations) the latch is set; panic impossible.  `Post.bind`, `Post.seq`, `Sim.bind`.
  5  the writer, operation by operation (`Sim VW …`): `readCurrentPage_sim`, `writeInner_sim`
       (= `PW.write1`), `flushInner_sim` (= `PW.flush`), `guardIO_sim`, `guard_sim`, `write_sim`,
       `flush_sim`, `physicalPosition_sim`, `physicalSeek_sim` (accepted and rejected seeks),
       `physicalSize_sim`, `writeAll_pw` (= `PW.writeAll`), `align_pw` (= `PW.align`)
  6  the latch: `latch_absorbing`, `runOps_latched` (device and schedule untouched)
  7  `step_post`: all six public operations in one statement; `iStep_offset`
  8  runs: `no_panic`, `fault_surfaces`, `runOps_clean`, `runOps_benign`,
       `short_io_changes_nothing`; from the device: `new_post`, `run_clean`, `run_benign`;
       down to the file image (via `pw_refines`' lemmas): `finalize_ok_complete_partial`,
       `benign_complete`
  9  the reader (`Sim VR …`): `fillPage_sim`, `readPage_sim` (= `PR.readPage`), `read_sim`
       (= `PR.read`), `readExact_sim` (= `PR.readExact`, an interrupted seek is retried),
       `read_err_state`, `read_fail_equiv` (after a failing read: cache invalid, `PR.Equiv` to the
       reader with its cache dropped — History.lean applies), `rstep_post`, `rrun_clean`,
       `short_reads_change_nothing`, `rstep_no_panic`, `rnew_post`
  10 `Interrupted`: which calls survive it (`ctl_interrupted`, `readLoop_interrupted`,
       `writeAll_interrupted`, `readExact_interrupted`, `writeAllFuel_noFail`)
  11 `finalize_ok_complete_statement` (ANY schedule) is FALSE: `finalize_ok_complete_statement_false`
       (witness: a `read` answering `Ok(0)` before the end of the file, kernel-evaluated)
  12 non-vacuity, kernel-evaluated: `exFaultCheck_true` (short writes across a page boundary, then a
       fault: the error surfaces, the latch holds), `exSoftCheck_true`, `exIntrCheck_true`,
       `exRCheck_true`, `exRFaultCheck_true`

Findings
  * `Interrupted` is retried only inside std `write_all` / `read_exact`.  In the writer an
    `Interrupted` from `seek`, `stream_position`, `flush` or from a `read` of `read_current_page`
    (the loop uses `?`) fails the call; `guard_io` latches on ANY error, so the retry that std
    `write_all` performs over `PagedWriter::write` only finds the latch: one transient `EINTR` at
    such a call makes the writer unusable.  It never corrupts: the call reports an error.
  * A `read` that answers `Ok(0)` before the end of the file (a violation of the `Read` contract) is
    taken for end-of-file by `read_current_page`: the page buffer is zero-filled and a later write to
    that page silently destroys its previous contents, every call reporting success
    (`finalize_ok_complete_statement_false`).  This is why the theorems assume `Sane`.
  * With the latch set, `write_all` of an EMPTY buffer still returns `Ok` (std performs no `write`
    call): `latch_absorbing` states the exception.
  * The reader has no latch: after a device fault the next call simply reads the page again
    (`exRFaultCheck_true`); its cache is invalid in between (`read_err_state`).
Core Lean only.
-/
import E57.Model.DevIO
import E57.Proofs.PagesWrite
import E57.Proofs.PagesRead
import E57.Proofs.History
namespace E57
namespace DIO

/-! # 1. The ideal device: splitting a transfer changes nothing -/

/-- the device contents a write starts from (a cursor beyond the end zero-fills the gap) -/
def wbase (v : Dev) : Bytes :=
  if v.pos > v.data.length then v.data ++ zeros (v.pos - v.data.length) else v.data

theorem wbase_length (v : Dev) : v.pos ≤ (wbase v).length := by
  unfold wbase; split
  · simp [zeros]; omega
  · omega

theorem dev_writeAll_eq (v : Dev) (b : Bytes) :
    v.writeAll b = ⟨(wbase v).take v.pos ++ b ++ (wbase v).drop (v.pos + b.length), v.pos + b.length⟩ := rfl

theorem wbase_of_le (v : Dev) (h : v.pos ≤ v.data.length) : wbase v = v.data := by
  unfold wbase; rw [if_neg (by omega)]

theorem splice_take {α} (B a c : List α) (p : Nat) (h : p ≤ B.length) :
    (B.take p ++ a ++ c).take (p + a.length) = B.take p ++ a := by
  have : (B.take p ++ a).length = p + a.length := by simp; omega
  rw [← this, List.take_left']
  rfl

theorem splice_drop {α} (B a c : List α) (p k : Nat) (h : p ≤ B.length) :
    (B.take p ++ a ++ c).drop (p + a.length + k) = c.drop k := by
  have : (B.take p ++ a).length = p + a.length := by simp; omega
  rw [← this, List.drop_append]
  simp

theorem dev_writeAll_inside (v : Dev) (a : Bytes) :
    (v.writeAll a).pos ≤ (v.writeAll a).data.length := by
  have hl := wbase_length v
  rw [dev_writeAll_eq]; simp; omega

/-- two consecutive writes are one write of the concatenation -/
theorem dev_writeAll_append (v : Dev) (a b : Bytes) :
    (v.writeAll a).writeAll b = v.writeAll (a ++ b) := by
  have hl := wbase_length v
  have h1 := dev_writeAll_inside v a
  rw [dev_writeAll_eq (v.writeAll a), wbase_of_le _ h1, dev_writeAll_eq v a, dev_writeAll_eq v (a ++ b)]
  show Dev.mk _ _ = Dev.mk _ _
  congr 1
  · rw [splice_take _ _ _ _ hl, splice_drop _ _ _ _ _ hl, List.drop_drop]
    simp [Nat.add_assoc]
  · simp [Nat.add_assoc]

theorem dev_writeAll_nil (v : Dev) (h : v.pos ≤ v.data.length) : v.writeAll [] = v := by
  rw [dev_writeAll_eq, wbase_of_le _ h]
  simp

theorem take_split {α} (L : List α) (k n : Nat) (hk : k ≤ n) :
    L.take k ++ (L.drop (L.take k).length).take (n - (L.take k).length) = L.take n := by
  by_cases h : k ≤ L.length
  · have : (L.take k).length = k := by simp; omega
    rw [this]
    have h2 : n = k + (n - k) := by omega
    conv => rhs; rw [h2, List.take_add]
  · have h1 : L.take k = L := List.take_of_length_le (by omega)
    have h2 : L.take n = L := List.take_of_length_le (by omega)
    rw [h1, h2]; simp

/-- a read of `k ≤ n` bytes followed by a read of the rest is one read of `n` bytes -/
theorem dev_read_split (v : Dev) (k n : Nat) (hk : k ≤ n) :
    (v.read k).1 ++ ((v.read k).2.read (n - (v.read k).1.length)).1 = (v.read n).1 ∧
    ((v.read k).2.read (n - (v.read k).1.length)).2 = (v.read n).2 := by
  simp only [Dev.read]
  have h := take_split (v.data.drop v.pos) k n hk
  rw [List.drop_drop] at h
  constructor
  · exact h
  · show Dev.mk _ _ = Dev.mk _ _
    congr 1
    rw [← h]; simp [Nat.add_assoc]

/-- an empty read means the cursor is at or behind the end: every read is empty -/
theorem dev_read_empty (v : Dev) (k n : Nat) (hk : 1 ≤ k) (h : (v.read k).1 = []) :
    (v.read n).1 = [] ∧ (v.read n).2 = v := by
  simp only [Dev.read] at h ⊢
  have hl : v.data.drop v.pos = [] := by
    cases hL : v.data.drop v.pos with
    | nil => rfl
    | cons x xs =>
      rw [hL] at h
      cases k with
      | zero => omega
      | succ k => simp at h
  rw [hl]; simp

theorem dev_read_zero (v : Dev) : v.read 0 = ([], v) := by
  simp [Dev.read]

/-! # 2. Schedules -/

/-- a behaviour under which every device call succeeds: a complete or a short (≥ 1 byte) transfer -/
def Beh.benign : Beh → Bool
  | .full => true
  | .short n => decide (1 ≤ n)
  | _ => false

/-- only complete and short (≥ 1 byte) transfers -/
def Benign (s : List Beh) : Prop := ∀ b ∈ s, b.benign = true

/-- no transfer of zero bytes is announced: `Ok(0)` keeps its contractual meaning (end of file for
    `read`, "cannot take any more" for `write`) -/
def Beh.sane : Beh → Bool
  | .short 0 => false
  | _ => true

def Sane (s : List Beh) : Prop := ∀ b ∈ s, b.sane = true

def Beh.noFail : Beh → Bool
  | .fail => false
  | _ => true

/-- no `fail` in the list -/
def NoFail (s : List Beh) : Prop := ∀ b ∈ s, b.noFail = true

instance (s : List Beh) : Decidable (Benign s) := by unfold Benign; infer_instance
instance (s : List Beh) : Decidable (Sane s) := by unfold Sane; infer_instance

instance (s : List Beh) : Decidable (NoFail s) := by unfold NoFail; infer_instance

theorem Benign.sane {s : List Beh} (h : Benign s) : Sane s := by
  intro b hm
  have := h _ hm
  cases b with
  | short n => cases n <;> simp_all [Beh.benign, Beh.sane]
  | _ => simp_all [Beh.benign, Beh.sane]

theorem Benign.noFail {s : List Beh} (h : Benign s) : NoFail s := by
  intro b hm
  have := h _ hm
  cases b <;> simp_all [Beh.benign, Beh.noFail]

theorem NoFail.nil : NoFail [] := by intro b hb; simp at hb

theorem NoFail.append {a b : List Beh} (ha : NoFail a) (hb : NoFail b) : NoFail (a ++ b) := by
  intro x hx
  rcases List.mem_append.mp hx with h | h
  · exact ha x h
  · exact hb x h

theorem NoFail.not_mem {s : List Beh} (h : NoFail s) : Beh.fail ∉ s := by
  intro hm; have := h _ hm; simp [Beh.noFail] at this

theorem Benign.nil : Benign [] := by intro b hb; simp at hb

theorem Benign.append_left {a b : List Beh} (h : Benign (a ++ b)) : Benign a :=
  fun x hx => h x (List.mem_append_left _ hx)

theorem Benign.append_right {a b : List Beh} (h : Benign (a ++ b)) : Benign b :=
  fun x hx => h x (List.mem_append_right _ hx)

theorem Sane.append_right {a b : List Beh} (h : Sane (a ++ b)) : Sane b :=
  fun x hx => h x (List.mem_append_right _ hx)

theorem Sane.tail {a : Beh} {b : List Beh} (h : Sane (a :: b)) : Sane b :=
  fun x hx => h x (List.mem_cons_of_mem _ hx)

theorem Sane.head_short {n : Nat} {b : List Beh} (h : Sane (.short n :: b)) : 1 ≤ n := by
  cases n with
  | zero => have := h _ List.mem_cons_self; simp [Beh.sane] at this
  | succ n => omega

/-- errors that originate in the device -/
def Err.isDev : Err → Bool
  | .io => true
  | .interrupted => true
  | .writeZero => true
  | _ => false

/-! # 3. Device level: the loops of std over a faulty device -/

/-- Specification of a device-level operation `x = f d` against the ideal operation `g`:
    a prefix `pre` of the schedule has been consumed;
    * success: the ideal device made the step `g`, and no `fail` was consumed;
    * error: it is a device error and the consumed prefix is not benign;
    * never a panic. -/
def DPost {α : Type} (g : Dev → α × Dev) (d : FDev) (x : Res α × FDev) : Prop :=
  ∃ pre, d.sched = pre ++ x.2.sched ∧
    match x.1 with
    | .ok a => g d.dev = (a, x.2.dev) ∧ NoFail pre
    | .err e => ¬ Benign pre ∧ e.isDev = true
    | .panic => False

theorem DPost.extend {α : Type} {g g' : Dev → α × Dev} {d d' : FDev} {x : Res α × FDev}
    (c : List Beh) (hs : d.sched = c ++ d'.sched) (hc : NoFail c) (hg : g d.dev = g' d'.dev)
    (h : DPost g' d' x) : DPost g d x := by
  obtain ⟨pre, hp, hm⟩ := h
  refine ⟨c ++ pre, by rw [hs, hp, List.append_assoc], ?_⟩
  cases hx : x.1 with
  | ok a =>
    rw [hx] at hm
    exact ⟨by rw [hg]; exact hm.1, hc.append hm.2⟩
  | err e =>
    rw [hx] at hm
    exact ⟨fun hb => hm.1 hb.append_right, hm.2⟩
  | panic => rw [hx] at hm; exact hm

theorem not_benign_fail (s : List Beh) : ¬ Benign (Beh.fail :: s) := by
  intro h; have := h .fail (by simp); simp [Beh.benign] at this

theorem not_benign_interrupted (s : List Beh) : ¬ Benign (Beh.interrupted :: s) := by
  intro h; have := h .interrupted (by simp); simp [Beh.benign] at this

/-- `seek`, `stream_position`, `flush`: one behaviour consumed, `fail` and `interrupted` are errors -/
theorem ctl_post {α : Type} (f : Dev → α × Dev) (d : FDev) : DPost f d (d.ctl f) := by
  obtain ⟨v, s⟩ := d
  cases s with
  | nil => exact ⟨[], rfl, rfl, NoFail.nil⟩
  | cons b s =>
    refine ⟨[b], ?_, ?_⟩
    · cases b <;> rfl
    · cases b
      · exact ⟨rfl, by decide⟩
      · exact ⟨rfl, fun b hb => by simp at hb; subst hb; rfl⟩
      · exact ⟨not_benign_fail _, rfl⟩
      · exact ⟨not_benign_interrupted _, rfl⟩

/-! ### one `write` / `read` call, by the behaviour at the head of the schedule -/

theorem write_nil (v : Dev) (buf : Bytes) :
    FDev.write ⟨v, []⟩ buf = (.ok buf.length, ⟨v.writeAll buf, []⟩) := rfl
theorem write_full (v : Dev) (s : List Beh) (buf : Bytes) :
    FDev.write ⟨v, .full :: s⟩ buf = (.ok buf.length, ⟨v.writeAll buf, s⟩) := rfl
theorem write_short (v : Dev) (s : List Beh) (n : Nat) (buf : Bytes) :
    FDev.write ⟨v, .short n :: s⟩ buf = (.ok (min n buf.length), ⟨v.writeAll (buf.take n), s⟩) := rfl
theorem write_fail (v : Dev) (s : List Beh) (buf : Bytes) :
    FDev.write ⟨v, .fail :: s⟩ buf = (.err .io, ⟨v, s⟩) := rfl
theorem write_interrupted (v : Dev) (s : List Beh) (buf : Bytes) :
    FDev.write ⟨v, .interrupted :: s⟩ buf = (.err .interrupted, ⟨v, s⟩) := rfl

theorem read_nil (v : Dev) (n : Nat) :
    FDev.read ⟨v, []⟩ n = (.ok (v.read n).1, ⟨(v.read n).2, []⟩) := rfl
theorem read_full (v : Dev) (s : List Beh) (n : Nat) :
    FDev.read ⟨v, .full :: s⟩ n = (.ok (v.read n).1, ⟨(v.read n).2, s⟩) := rfl
theorem read_short (v : Dev) (s : List Beh) (k n : Nat) :
    FDev.read ⟨v, .short k :: s⟩ n = (.ok (v.read (min k n)).1, ⟨(v.read (min k n)).2, s⟩) := rfl
theorem read_fail (v : Dev) (s : List Beh) (n : Nat) :
    FDev.read ⟨v, .fail :: s⟩ n = (.err .io, ⟨v, s⟩) := rfl
theorem read_interrupted (v : Dev) (s : List Beh) (n : Nat) :
    FDev.read ⟨v, .interrupted :: s⟩ n = (.err .interrupted, ⟨v, s⟩) := rfl

/-! ### `write_all` -/

theorem writeAllFuel_nil (fuel : Nat) (d : FDev) : FDev.writeAllFuel fuel [] d = (.ok (), d) := by
  cases fuel <;> rfl

theorem noFail_single {b : Beh} (h : b.noFail = true) : NoFail [b] := by
  intro x hx; simp at hx; subst hx; exact h

/-- `write_all` over a faulty device writes what an ideal device writes in one piece, whatever the
    chunking and however many `Interrupted` the device reports; it fails only on a `fail`. -/
theorem writeAllFuel_post (fuel : Nat) : ∀ (buf : Bytes) (d : FDev), Sane d.sched →
    d.sched.length + buf.length < fuel → (buf = [] → d.dev.pos ≤ d.dev.data.length) →
    DPost (fun v => ((), v.writeAll buf)) d (FDev.writeAllFuel fuel buf d) := by
  induction fuel with
  | zero => intro buf d _ h; omega
  | succ fuel ih =>
    intro buf d hs hf hnil
    cases buf with
    | nil =>
      rw [writeAllFuel_nil]
      refine ⟨[], rfl, ?_, NoFail.nil⟩
      show ((), d.dev.writeAll []) = ((), d.dev)
      rw [dev_writeAll_nil _ (hnil rfl)]
    | cons b bs =>
      obtain ⟨v, s⟩ := d
      have hdrop : List.drop (bs.length + 1) (b :: bs) = [] := by simp
      cases s with
      | nil =>
        unfold FDev.writeAllFuel
        rw [write_nil]
        simp only [List.length_cons, Nat.add_one_ne_zero, ↓reduceIte]
        rw [hdrop, writeAllFuel_nil]
        exact ⟨[], rfl, rfl, NoFail.nil⟩
      | cons beh s =>
        have hs' : Sane s := hs.tail
        simp only [List.length_cons] at hf
        cases beh with
        | full =>
          unfold FDev.writeAllFuel
          rw [write_full]
          simp only [List.length_cons, Nat.add_one_ne_zero, ↓reduceIte]
          rw [hdrop, writeAllFuel_nil]
          exact ⟨[.full], rfl, rfl, by decide⟩
        | short n =>
          have hn : 1 ≤ n := hs.head_short
          unfold FDev.writeAllFuel
          rw [write_short]
          have hk : min n (b :: bs).length ≠ 0 := by simp; omega
          simp only [hk, ↓reduceIte]
          have := ih ((b :: bs).drop (min n (b :: bs).length)) ⟨v.writeAll ((b :: bs).take n), s⟩ hs'
            (by simp only [List.length_drop, List.length_cons]; omega)
            (fun _ => dev_writeAll_inside _ _)
          refine DPost.extend [.short n] rfl (noFail_single rfl) ?_ this
          show ((), _) = ((), _)
          rw [dev_writeAll_append]
          congr 2
          have : (b :: bs).take n = (b :: bs).take (min n (b :: bs).length) := by
            rw [List.take_eq_take_min]
          rw [this, List.take_append_drop]
        | fail =>
          unfold FDev.writeAllFuel
          rw [write_fail]
          exact ⟨[.fail], rfl, not_benign_fail _, rfl⟩
        | interrupted =>
          unfold FDev.writeAllFuel
          rw [write_interrupted]
          have := ih (b :: bs) ⟨v, s⟩ hs' (by simp only [List.length_cons]; omega) (by simp)
          obtain ⟨pre, hp, hm⟩ := this
          refine ⟨.interrupted :: pre, by simp only [List.cons_append]; rw [← hp], ?_⟩
          split
          · next hx =>
            rw [hx] at hm
            exact ⟨hm.1, (noFail_single (b := .interrupted) rfl).append hm.2⟩
          · next hx => exact ⟨not_benign_interrupted _, by rw [hx] at hm; exact hm.2⟩
          · next hx => rw [hx] at hm; exact hm

theorem writeAll_post (buf : Bytes) (d : FDev) (hs : Sane d.sched) (hne : buf ≠ []) :
    DPost (fun v => ((), v.writeAll buf)) d (d.writeAll buf) :=
  writeAllFuel_post _ buf d hs (by omega) (fun h => absurd h hne)

/-! ### the loop of `read_current_page` -/

/-- what the loop of `read_current_page` delivers: the bytes of ONE ideal read of `want` bytes -/
def LPost (want : Nat) (acc : Bytes) (d : FDev) (R : Res Unit × Bytes × FDev) : Prop :=
  ∃ pre, d.sched = pre ++ R.2.2.sched ∧
    match R.1 with
    | .ok _ => R.2.1 = acc ++ (d.dev.read want).1 ∧ R.2.2.dev = (d.dev.read want).2 ∧ NoFail pre
    | .err e => ¬ Benign pre ∧ e.isDev = true
    | .panic => False

theorem LPost.extend {want want' : Nat} {acc acc' : Bytes} {d d' : FDev}
    {R : Res Unit × Bytes × FDev} (c : List Beh) (hs : d.sched = c ++ d'.sched) (hc : NoFail c)
    (h1 : acc' ++ (d'.dev.read want').1 = acc ++ (d.dev.read want).1)
    (h2 : (d'.dev.read want').2 = (d.dev.read want).2)
    (h : LPost want' acc' d' R) : LPost want acc d R := by
  obtain ⟨pre, hp, hm⟩ := h
  refine ⟨c ++ pre, by rw [hs, hp, List.append_assoc], ?_⟩
  cases hx : R.1 with
  | ok a =>
    rw [hx] at hm
    exact ⟨by rw [hm.1, h1], by rw [hm.2.1, h2], hc.append hm.2.2⟩
  | err e =>
    rw [hx] at hm
    exact ⟨fun hb => hm.1 hb.append_right, hm.2⟩
  | panic => rw [hx] at hm; exact hm

/-- one productive round of either read loop: `k` bytes requested from the device (1 ≤ k ≤ n) -/
theorem read_round (v : Dev) (k n : Nat) (acc : Bytes) (hk1 : 1 ≤ k) (hk : k ≤ n) :
    ((v.read k).1 = [] → (v.read n).1 = [] ∧ (v.read n).2 = v ∧ (v.read k).2 = v) ∧
    (acc ++ (v.read k).1) ++ ((v.read k).2.read (n - (v.read k).1.length)).1 = acc ++ (v.read n).1 ∧
    ((v.read k).2.read (n - (v.read k).1.length)).2 = (v.read n).2 ∧
    (v.read k).1.length ≤ k := by
  refine ⟨fun h => ⟨(dev_read_empty v k n hk1 h).1, (dev_read_empty v k n hk1 h).2,
    (dev_read_empty v k k hk1 h).2⟩, ?_, (dev_read_split v k n hk).2, ?_⟩
  · rw [List.append_assoc, (dev_read_split v k n hk).1]
  · simp only [Dev.read, List.length_take]; omega

theorem readLoopFuel_post (fuel : Nat) : ∀ (want : Nat) (acc : Bytes) (d : FDev), Sane d.sched →
    want < fuel → LPost want acc d (FDev.readLoopFuel fuel want acc d) := by
  induction fuel with
  | zero => intro want acc d _ h; omega
  | succ fuel ih =>
    intro want acc d hs hf
    cases want with
    | zero =>
      unfold FDev.readLoopFuel
      exact ⟨[], rfl, by simp [dev_read_zero], by simp [dev_read_zero], NoFail.nil⟩
    | succ want =>
      obtain ⟨v, s⟩ := d
      -- the common continuation after a successful device read of `k` bytes
      have round : ∀ (k : Nat) (c s' : List Beh), 1 ≤ k → k ≤ want + 1 → s = c ++ s' → NoFail c →
          Sane s' →
          LPost (want + 1) acc ⟨v, s⟩
            (if (v.read k).1.isEmpty then (.ok (), acc, ⟨(v.read k).2, s'⟩)
             else FDev.readLoopFuel fuel (want + 1 - (v.read k).1.length) (acc ++ (v.read k).1)
              ⟨(v.read k).2, s'⟩) := by
        intro k c s' hk1 hk hcs hc hs'
        obtain ⟨he, h1, h2, h3⟩ := read_round v k (want + 1) acc hk1 hk
        split
        · next hemp =>
          have hemp' : (v.read k).1 = [] := by simpa using hemp
          obtain ⟨e1, e2, e3⟩ := he hemp'
          refine ⟨c, hcs, ?_, ?_, hc⟩
          · show acc = acc ++ (v.read (want + 1)).1
            rw [e1]; simp
          · show (v.read k).2 = (v.read (want + 1)).2
            rw [e2, e3]
        · next hemp =>
          have hne : (v.read k).1.length ≠ 0 := by
            intro h0; exact hemp (by simp [List.length_eq_zero_iff.mp h0])
          have := ih (want + 1 - (v.read k).1.length) (acc ++ (v.read k).1) ⟨(v.read k).2, s'⟩ hs'
            (by omega)
          exact LPost.extend c hcs hc h1 h2 this
      cases s with
      | nil =>
        unfold FDev.readLoopFuel
        rw [read_nil]
        exact round (want + 1) [] [] (by omega) (by omega) rfl NoFail.nil hs
      | cons beh s =>
        have hs' : Sane s := hs.tail
        cases beh with
        | full =>
          unfold FDev.readLoopFuel
          rw [read_full]
          exact round (want + 1) [.full] s (by omega) (by omega) rfl (by decide) hs'
        | short n =>
          have hn : 1 ≤ n := hs.head_short
          unfold FDev.readLoopFuel
          rw [read_short]
          exact round (min n (want + 1)) [.short n] s (by omega) (by omega) rfl (noFail_single rfl) hs'
        | fail =>
          unfold FDev.readLoopFuel
          rw [read_fail]
          exact ⟨[.fail], rfl, not_benign_fail _, rfl⟩
        | interrupted =>
          unfold FDev.readLoopFuel
          rw [read_interrupted]
          exact ⟨[.interrupted], rfl, not_benign_interrupted _, rfl⟩

theorem readLoop_post (want : Nat) (d : FDev) (hs : Sane d.sched) :
    LPost want [] d (d.readLoop want) :=
  readLoopFuel_post _ want [] d hs (by omega)

/-! ### `read_exact` -/

/-- what `read_exact` delivers: the bytes of ONE ideal read of `want` bytes; `UnexpectedEof` exactly
    when the ideal read comes up short -/
def EPost (want : Nat) (acc : Bytes) (d : FDev) (R : Res Unit × Bytes × FDev) : Prop :=
  ∃ pre, d.sched = pre ++ R.2.2.sched ∧
    match R.1 with
    | .ok _ => R.2.1 = acc ++ (d.dev.read want).1 ∧ R.2.2.dev = (d.dev.read want).2 ∧ NoFail pre ∧
        (d.dev.read want).1.length = want
    | .err e =>
        if e = .eof then
          R.2.1 = acc ++ (d.dev.read want).1 ∧ R.2.2.dev = (d.dev.read want).2 ∧ NoFail pre ∧
            (d.dev.read want).1.length < want
        else ¬ Benign pre ∧ e.isDev = true
    | .panic => False

theorem EPost.extend {want want' : Nat} {acc acc' : Bytes} {d d' : FDev}
    {R : Res Unit × Bytes × FDev} (c : List Beh) (hs : d.sched = c ++ d'.sched) (hc : NoFail c)
    (h1 : acc' ++ (d'.dev.read want').1 = acc ++ (d.dev.read want).1)
    (h2 : (d'.dev.read want').2 = (d.dev.read want).2)
    (h3 : (d'.dev.read want').1.length = want' ↔ (d.dev.read want).1.length = want)
    (h4 : (d'.dev.read want').1.length < want' ↔ (d.dev.read want).1.length < want)
    (h : EPost want' acc' d' R) : EPost want acc d R := by
  obtain ⟨pre, hp, hm⟩ := h
  refine ⟨c ++ pre, by rw [hs, hp, List.append_assoc], ?_⟩
  cases hx : R.1 with
  | ok a =>
    rw [hx] at hm
    exact ⟨by rw [hm.1, h1], by rw [hm.2.1, h2], hc.append hm.2.2.1, h3.mp hm.2.2.2⟩
  | err e =>
    rw [hx] at hm
    dsimp only at hm
    show if e = .eof then _ else _
    by_cases he : e = .eof
    · rw [if_pos he] at hm ⊢
      exact ⟨by rw [hm.1, h1], by rw [hm.2.1, h2], hc.append hm.2.2.1, h4.mp hm.2.2.2⟩
    · rw [if_neg he] at hm ⊢
      exact ⟨fun hb => hm.1 hb.append_right, hm.2⟩
  | panic => rw [hx] at hm; exact hm

theorem read_length_split (v : Dev) (k n : Nat) (hk : k ≤ n) :
    (v.read n).1.length = (v.read k).1.length +
      ((v.read k).2.read (n - (v.read k).1.length)).1.length := by
  rw [← (dev_read_split v k n hk).1, List.length_append]

theorem readExactFuel_post (fuel : Nat) : ∀ (want : Nat) (acc : Bytes) (d : FDev), Sane d.sched →
    d.sched.length + want < fuel → EPost want acc d (FDev.readExactFuel fuel want acc d) := by
  induction fuel with
  | zero => intro want acc d _ h; omega
  | succ fuel ih =>
    intro want acc d hs hf
    cases want with
    | zero =>
      unfold FDev.readExactFuel
      exact ⟨[], rfl, by simp [dev_read_zero], by simp [dev_read_zero], NoFail.nil,
        by simp [dev_read_zero]⟩
    | succ want =>
      obtain ⟨v, s⟩ := d
      have round : ∀ (k : Nat) (c s' : List Beh), 1 ≤ k → k ≤ want + 1 → s = c ++ s' → NoFail c →
          Sane s' → s'.length ≤ s.length →
          EPost (want + 1) acc ⟨v, s⟩
            (if (v.read k).1.isEmpty then (.err .eof, acc, ⟨(v.read k).2, s'⟩)
             else FDev.readExactFuel fuel (want + 1 - (v.read k).1.length) (acc ++ (v.read k).1)
              ⟨(v.read k).2, s'⟩) := by
        intro k c s' hk1 hk hcs hc hs' hlen
        obtain ⟨he, h1, h2, h3⟩ := read_round v k (want + 1) acc hk1 hk
        have hsplit := read_length_split v k (want + 1) hk
        split
        · next hemp =>
          have hemp' : (v.read k).1 = [] := by simpa using hemp
          obtain ⟨e1, e2, e3⟩ := he hemp'
          refine ⟨c, hcs, ?_⟩
          show if Err.eof = .eof then _ else _
          rw [if_pos rfl]
          refine ⟨?_, ?_, hc, ?_⟩
          · show acc = acc ++ (v.read (want + 1)).1
            rw [e1]; simp
          · show (v.read k).2 = (v.read (want + 1)).2
            rw [e2, e3]
          · show (v.read (want + 1)).1.length < want + 1
            rw [e1]; simp
        · next hemp =>
          have hne : (v.read k).1.length ≠ 0 := by
            intro h0; exact hemp (by simp [List.length_eq_zero_iff.mp h0])
          have hf' : s.length + (want + 1) < fuel + 1 := hf
          have := ih (want + 1 - (v.read k).1.length) (acc ++ (v.read k).1) ⟨(v.read k).2, s'⟩ hs'
            (by show s'.length + _ < fuel; omega)
          refine EPost.extend c hcs hc h1 h2 ?_ ?_ this
          · show ((v.read k).2.read _).1.length = _ ↔ (v.read (want + 1)).1.length = want + 1
            omega
          · show ((v.read k).2.read _).1.length < _ ↔ (v.read (want + 1)).1.length < want + 1
            omega
      cases s with
      | nil =>
        unfold FDev.readExactFuel
        rw [read_nil]
        exact round (want + 1) [] [] (by omega) (by omega) rfl NoFail.nil hs (by simp)
      | cons beh s =>
        have hs' : Sane s := hs.tail
        cases beh with
        | full =>
          unfold FDev.readExactFuel
          rw [read_full]
          exact round (want + 1) [.full] s (by omega) (by omega) rfl (by decide) hs' (by simp)
        | short n =>
          have hn : 1 ≤ n := hs.head_short
          unfold FDev.readExactFuel
          rw [read_short]
          exact round (min n (want + 1)) [.short n] s (by omega) (by omega) rfl (noFail_single rfl)
            hs' (by simp)
        | fail =>
          unfold FDev.readExactFuel
          rw [read_fail]
          refine ⟨[.fail], rfl, ?_⟩
          show if Err.io = .eof then _ else _
          rw [if_neg (by decide)]
          exact ⟨not_benign_fail _, rfl⟩
        | interrupted =>
          unfold FDev.readExactFuel
          rw [read_interrupted]
          simp only [List.length_cons] at hf
          have := ih (want + 1) acc ⟨v, s⟩ hs' (by show s.length + _ < fuel; omega)
          obtain ⟨pre, hp, hm⟩ := this
          refine ⟨.interrupted :: pre, by simp only [List.cons_append]; rw [← hp], ?_⟩
          have hni : NoFail [Beh.interrupted] := noFail_single rfl
          cases hx : (FDev.readExactFuel fuel (want + 1) acc ⟨v, s⟩).1 with
          | ok a =>
            rw [hx] at hm
            exact ⟨hm.1, hm.2.1, hni.append hm.2.2.1, hm.2.2.2⟩
          | err e =>
            rw [hx] at hm
            dsimp only at hm
            show if e = .eof then _ else _
            by_cases he : e = .eof
            · rw [if_pos he] at hm ⊢
              exact ⟨hm.1, hm.2.1, hni.append hm.2.2.1, hm.2.2.2⟩
            · rw [if_neg he] at hm ⊢
              exact ⟨not_benign_interrupted _, hm.2⟩
          | panic => rw [hx] at hm; exact hm

theorem readExact_post (want : Nat) (d : FDev) (hs : Sane d.sched) :
    EPost want [] d (d.readExact want) :=
  readExactFuel_post _ want [] d hs (by omega)

/-! # 4. Simulation of a faulty-device operation by an ideal one

`σ` is the state over the faulty device, `ι` the state of the ideal model; an ideal operation returns
`none` for a request it rejects (a "logic" error: the ideal model fails in the same way). -/

structure View (σ ι : Type) where
  abs : σ → ι
  sched : σ → List Beh
  failed : σ → Bool
  /-- the errors the ideal model produces as well -/
  logic : Err → Bool
  logic_dev : ∀ e, e.isDev = true → logic e = false

/-- The outcome `x` of running an operation in state `s`, against the ideal operation `i`.
    A prefix `pre` of the schedule has been consumed and
    * `ok a`: the ideal operation returns `a` and the states still correspond; no `fail` was consumed;
      the latch is untouched;
    * a logic error: the ideal operation rejects the request too, states correspond, latch untouched;
    * any other error: the consumed part of the schedule was not benign (a `fail`, an `interrupted`
      nobody retried, …); and if `latch` is set (a public, guarded operation) the latch is now set;
    * a panic is impossible. -/
def Post {σ ι α : Type} (V : View σ ι) (latch : Bool) (i : ι → Option α × ι) (s : σ)
    (x : Res α × σ) : Prop :=
  ∃ pre, V.sched s = pre ++ V.sched x.2 ∧
    match x.1 with
    | .ok a => i (V.abs s) = (some a, V.abs x.2) ∧ NoFail pre ∧ V.failed x.2 = V.failed s
    | .err e =>
      if V.logic e = true then
        i (V.abs s) = (none, V.abs x.2) ∧ NoFail pre ∧ V.failed x.2 = V.failed s
      else ¬ Benign pre ∧ (latch = true → V.failed x.2 = true)
    | .panic => False

/-- `m` simulates `i` from every state with a sane schedule and the latch not set -/
def Sim {σ ι α : Type} (V : View σ ι) (latch : Bool) (m : M σ α) (i : ι → Option α × ι) : Prop :=
  ∀ s, Sane (V.sched s) → V.failed s = false → Post V latch i s (m s)

/-- sequencing of ideal operations (a rejected request ends the sequence) -/
def ibind {ι α β : Type} (i : ι → Option α × ι) (j : α → ι → Option β × ι) : ι → Option β × ι :=
  fun p =>
    match i p with
    | (some a, p') => j a p'
    | (none, p') => (none, p')

theorem Post.sane_next {σ ι α : Type} {V : View σ ι} {l : Bool} {i : ι → Option α × ι} {s : σ}
    {x : Res α × σ} (h : Post V l i s x) (hs : Sane (V.sched s)) : Sane (V.sched x.2) := by
  obtain ⟨pre, hp, _⟩ := h
  rw [hp] at hs; exact hs.append_right

theorem Post.mono {σ ι α : Type} {V : View σ ι} {l : Bool} {i : ι → Option α × ι} {s : σ}
    {x : Res α × σ} (h : Post V l i s x) : Post V false i s x := by
  obtain ⟨pre, hp, hm⟩ := h
  refine ⟨pre, hp, ?_⟩
  cases hx : x.1 with
  | ok a => rw [hx] at hm; exact hm
  | err e =>
    rw [hx] at hm; dsimp only at hm ⊢
    by_cases he : V.logic e = true
    · rw [if_pos he] at hm ⊢; exact hm
    · rw [if_neg he] at hm ⊢; exact ⟨hm.1, fun h => by cases h⟩
  | panic => rw [hx] at hm; exact hm

theorem Sim.mono {σ ι α : Type} {V : View σ ι} {l : Bool} {m : M σ α} {i : ι → Option α × ι}
    (h : Sim V l m i) : Sim V false m i := fun s hs hf => (h s hs hf).mono

theorem Post.congr {σ ι α : Type} {V : View σ ι} {l : Bool} {i i' : ι → Option α × ι} {s : σ}
    {x : Res α × σ} (h : Post V l i s x) (he : i (V.abs s) = i' (V.abs s)) : Post V l i' s x := by
  unfold Post at h ⊢
  rw [← he]; exact h

/-- a pure change of the state in front of an operation -/
theorem Post.shift {σ ι α : Type} {V : View σ ι} {l : Bool} {i i' : ι → Option α × ι} {s s' : σ}
    {x : Res α × σ} (h : Post V l i' s' x) (h1 : V.sched s = V.sched s')
    (h2 : V.failed s = V.failed s') (h3 : i (V.abs s) = i' (V.abs s')) : Post V l i s x := by
  unfold Post at h ⊢
  rw [h1, h2, h3]; exact h

theorem M.bind_apply {σ α β : Type} (m : M σ α) (f : α → M σ β) (s : σ) :
    (m >>= f) s = match m s with
      | (.ok a, s') => f a s'
      | (.err e, s') => (.err e, s')
      | (.panic, s') => (.panic, s') := rfl

theorem M.bind_ok {σ α β : Type} {m : M σ α} {f : α → M σ β} {s s' : σ} {a : α}
    (h : m s = (.ok a, s')) : (m >>= f) s = f a s' := by
  rw [M.bind_apply, h]

theorem M.bind_err {σ α β : Type} {m : M σ α} {f : α → M σ β} {s s' : σ} {e : Err}
    (h : m s = (.err e, s')) : (m >>= f) s = (.err e, s') := by
  rw [M.bind_apply, h]

theorem M.bind_panic {σ α β : Type} {m : M σ α} {f : α → M σ β} {s s' : σ}
    (h : m s = (.panic, s')) : (m >>= f) s = (.panic, s') := by
  rw [M.bind_apply, h]

theorem Post.bind {σ ι α β : Type} {V : View σ ι} {l : Bool} {m : M σ α} {f : α → M σ β}
    {i : ι → Option α × ι} {j : α → ι → Option β × ι} {s : σ}
    (hs : Sane (V.sched s)) (hf : V.failed s = false) (h1 : Post V l i s (m s))
    (h2 : ∀ a s', m s = (.ok a, s') → Sane (V.sched s') → V.failed s' = false →
      Post V l (j a) s' (f a s')) :
    Post V l (ibind i j) s ((m >>= f) s) := by
  rw [M.bind_apply]
  have hs1 := h1.sane_next hs
  obtain ⟨pre1, hp1, hm1⟩ := h1
  rcases hms : m s with ⟨r, s1⟩
  rw [hms] at hm1 hp1 hs1
  cases r with
  | ok a =>
    dsimp only at hm1 hp1 hs1 ⊢
    obtain ⟨hi, hn1, hf1⟩ := hm1
    obtain ⟨pre2, hp2, hm2⟩ := h2 a s1 hms hs1 (by rw [hf1, hf])
    refine ⟨pre1 ++ pre2, by rw [hp1, hp2, List.append_assoc], ?_⟩
    have hib : ibind i j (V.abs s) = j a (V.abs s1) := by unfold ibind; rw [hi]
    cases hx : (f a s1).1 with
    | ok b =>
      rw [hx] at hm2
      exact ⟨by rw [hib]; exact hm2.1, hn1.append hm2.2.1, by rw [hm2.2.2, hf1]⟩
    | err e =>
      rw [hx] at hm2; dsimp only at hm2 ⊢
      by_cases he : V.logic e = true
      · rw [if_pos he] at hm2 ⊢
        exact ⟨by rw [hib]; exact hm2.1, hn1.append hm2.2.1, by rw [hm2.2.2, hf1]⟩
      · rw [if_neg he] at hm2 ⊢
        exact ⟨fun hb => hm2.1 hb.append_right, hm2.2⟩
    | panic => rw [hx] at hm2; exact hm2
  | err e =>
    dsimp only at hm1 hp1 ⊢
    refine ⟨pre1, hp1, ?_⟩
    dsimp only
    by_cases he : V.logic e = true
    · rw [if_pos he] at hm1 ⊢
      refine ⟨?_, hm1.2⟩
      unfold ibind; rw [hm1.1]
    · rw [if_neg he] at hm1 ⊢
      exact hm1
  | panic => exact hm1.elim

/-- sequencing when the first step is known to have succeeded -/
theorem Post.seq {σ ι α β : Type} {V : View σ ι} {l : Bool}
    {i : ι → Option α × ι} {j : α → ι → Option β × ι} {s s1 : σ} {a : α} {x : Res β × σ}
    (h1 : Post V l i s (.ok a, s1)) (h2 : Post V l (j a) s1 x) : Post V l (ibind i j) s x := by
  obtain ⟨pre1, hp1, hi, hn1, hf1⟩ := h1
  obtain ⟨pre2, hp2, hm2⟩ := h2
  dsimp only at hp1 hi hf1
  refine ⟨pre1 ++ pre2, by rw [hp1, hp2, List.append_assoc], ?_⟩
  have hib : ibind i j (V.abs s) = j a (V.abs s1) := by unfold ibind; rw [hi]
  cases hx : x.1 with
  | ok b =>
    rw [hx] at hm2
    exact ⟨by rw [hib]; exact hm2.1, hn1.append hm2.2.1, by rw [hm2.2.2, hf1]⟩
  | err e =>
    rw [hx] at hm2; dsimp only at hm2 ⊢
    by_cases he : V.logic e = true
    · rw [if_pos he] at hm2 ⊢
      exact ⟨by rw [hib]; exact hm2.1, hn1.append hm2.2.1, by rw [hm2.2.2, hf1]⟩
    · rw [if_neg he] at hm2 ⊢
      exact ⟨fun hb => hm2.1 hb.append_right, hm2.2⟩
  | panic => rw [hx] at hm2; exact hm2

theorem Sim.bind {σ ι α β : Type} {V : View σ ι} {l : Bool} {m : M σ α} {f : α → M σ β}
    {i : ι → Option α × ι} {j : α → ι → Option β × ι}
    (h1 : Sim V l m i) (h2 : ∀ a, Sim V l (f a) (j a)) : Sim V l (m >>= f) (ibind i j) :=
  fun s hs hf => Post.bind hs hf (h1 s hs hf) (fun a s' _ hs' hf' => h2 a s' hs' hf')

theorem Sim.pure {σ ι α : Type} {V : View σ ι} {l : Bool} (a : α) :
    Sim V l (Pure.pure a : M σ α) (fun p => (some a, p)) :=
  fun _ _ _ => ⟨[], rfl, rfl, NoFail.nil, rfl⟩

/-- schedule facts that follow from a `Post`: a benign schedule never produces a device error -/
theorem Post.benign {σ ι α : Type} {V : View σ ι} {l : Bool} {i : ι → Option α × ι} {s : σ}
    {x : Res α × σ} (h : Post V l i s x) (hb : Benign (V.sched s)) :
    Benign (V.sched x.2) ∧
    ((∃ a, x.1 = .ok a ∧ i (V.abs s) = (some a, V.abs x.2)) ∨
     (∃ e, x.1 = .err e ∧ V.logic e = true ∧ i (V.abs s) = (none, V.abs x.2))) := by
  obtain ⟨pre, hp, hm⟩ := h
  rw [hp] at hb
  refine ⟨hb.append_right, ?_⟩
  cases hx : x.1 with
  | ok a => rw [hx] at hm; exact .inl ⟨a, rfl, hm.1⟩
  | err e =>
    rw [hx] at hm; dsimp only at hm
    by_cases he : V.logic e = true
    · rw [if_pos he] at hm; exact .inr ⟨e, rfl, he, hm.1⟩
    · rw [if_neg he] at hm; exact absurd hb.append_left hm.1
  | panic => rw [hx] at hm; exact hm.elim

/-! # 5. The paged writer over a faulty device refines the ideal paged writer -/

/-- the writer's view: forget schedule and latch; only `Error::Invalid` is a logic error -/
def VW : View FPW PW where
  abs := FPW.abs
  sched := fun w => w.dev.sched
  failed := fun w => w.failed
  logic := fun e => decide (e = .invalid)
  logic_dev := by intro e h; cases e <;> simp_all [Err.isDev]

/-- an ideal device step inside the ideal writer -/
def iIO {α : Type} (g : Dev → α × Dev) : PW → Option α × PW :=
  fun p => (some (g p.dev).1, { p with dev := (g p.dev).2 })

theorem io_sim {α : Type} {f : FDev → Res α × FDev} {g : Dev → α × Dev}
    (h : ∀ d, Sane d.sched → DPost g d (f d)) : Sim VW false (FPW.io f) (iIO g) := by
  intro s hs hf
  obtain ⟨pre, hp, hm⟩ := h s.dev hs
  refine ⟨pre, hp, ?_⟩
  show match (f s.dev).1 with
    | .ok a => _
    | .err e => _
    | .panic => _
  cases hx : (f s.dev).1 with
  | ok a =>
    rw [hx] at hm
    refine ⟨?_, hm.2, rfl⟩
    show (some (g s.dev.dev).1, (⟨(g s.dev.dev).2, s.offset, s.page⟩ : PW)) =
      (some a, ⟨(f s.dev).2.dev, s.offset, s.page⟩)
    rw [hm.1]
  | err e =>
    rw [hx] at hm
    dsimp only
    rw [if_neg (by rw [VW.logic_dev e hm.2]; simp)]
    exact ⟨hm.1, fun h => by cases h⟩
  | panic => rw [hx] at hm; exact hm

theorem seekStart_sim (p : Nat) :
    Sim VW false (FPW.io (FDev.seekStart p)) (iIO (fun v => (p, v.seekStart p))) :=
  io_sim (fun d _ => ctl_post _ d)

theorem seekEnd_sim :
    Sim VW false (FPW.io FDev.seekEnd) (iIO (fun v => (v.seekEnd.2, v.seekEnd.1))) :=
  io_sim (fun d _ => ctl_post _ d)

theorem streamPosition_sim :
    Sim VW false (FPW.io FDev.streamPosition) (iIO (fun v => (v.pos, v))) :=
  io_sim (fun d _ => ctl_post _ d)

theorem devFlush_sim : Sim VW false (FPW.io FDev.flush) (iIO (fun v => ((), v))) :=
  io_sim (fun d _ => ctl_post _ d)

theorem devWriteAll_sim (buf : Bytes) (hne : buf ≠ []) :
    Sim VW false (FPW.io (FDev.writeAll buf)) (iIO (fun v => ((), v.writeAll buf))) :=
  io_sim (fun d hs => writeAll_post buf d hs hne)

theorem setOffset_sim (o : Nat) :
    Sim VW false (FPW.setOffset o) (fun p => (some (), { p with offset := o })) :=
  fun _ _ _ => ⟨[], rfl, rfl, NoFail.nil, rfl⟩

theorem fail_sim {α : Type} : Sim VW false (M.fail .invalid : M FPW α) (fun p => (none, p)) :=
  fun _ _ _ => ⟨[], rfl, rfl, NoFail.nil, rfl⟩

/-- `read_current_page`: the loop of short reads fills the buffer exactly as one ideal read does -/
theorem readCurrentPage_sim :
    Sim VW false FPW.readCurrentPage (fun p => (some (), p.readCurrentPage)) := by
  intro s hs hf
  obtain ⟨pre, hp, hm⟩ := readLoop_post pageSize s.dev hs
  unfold FPW.readCurrentPage
  rcases hR : s.dev.readLoop pageSize with ⟨r, bs, d⟩
  rw [hR] at hp hm
  cases r with
  | ok u =>
    dsimp only at hm hp ⊢
    refine ⟨pre, hp, ?_, hm.2.2, rfl⟩
    simp only [List.nil_append] at hm
    obtain ⟨h1, h2, _⟩ := hm
    subst h1
    show (some (), PW.readCurrentPage s.abs) = (some (), (⟨d.dev, s.offset, _⟩ : PW))
    rw [h2]
    rfl
  | err e =>
    dsimp only at hm hp ⊢
    refine ⟨pre, hp, ?_⟩
    dsimp only
    rw [if_neg (by rw [VW.logic_dev e hm.2]; simp)]
    exact ⟨hm.1, fun h => by cases h⟩
  | panic => exact hm.elim

theorem sealPage_ne_nil (page : Bytes) : sealPage page ≠ [] := by
  intro h
  have := congrArg List.length h
  simp [sealPage, crcBytes_length] at this

/-- the ideal counterpart of `commitTail` -/
def iCommit (sealed : Bytes) (n : Nat) : PW → Option Nat × PW := fun p =>
  let dev1 := p.dev.writeAll sealed
  let w2 := PW.readCurrentPage ⟨dev1, 0, p.page⟩
  (some n, { w2 with dev := w2.dev.seekStart dev1.pos })

theorem commitTail_sim (sealed : Bytes) (hne : sealed ≠ []) (n : Nat) :
    Sim VW false (FPW.commitTail sealed n) (iCommit sealed n) := by
  have h := Sim.bind (devWriteAll_sim sealed hne) fun _ =>
    Sim.bind streamPosition_sim fun physOff =>
    Sim.bind (setOffset_sim 0) fun _ =>
    Sim.bind readCurrentPage_sim fun _ =>
    Sim.bind (seekStart_sim physOff) fun _ => Sim.pure (V := VW) (l := false) n
  exact fun s hs hf => (h s hs hf).congr rfl

/-- `write_inner` = `PW.write1` -/
theorem writeInner_sim (buf : Bytes) :
    Sim VW false (FPW.writeInner buf) (fun p => (some (p.write1 buf).2, (p.write1 buf).1)) := by
  intro s hs hf
  unfold FPW.writeInner
  dsimp only
  split
  · next h =>
    unfold FPW.commitPage
    refine Post.shift (commitTail_sim _ (sealPage_ne_nil _) _ _ (by exact hs) (by exact hf)) rfl rfl ?_
    simp only [iCommit, PW.write1, VW, FPW.abs, h, ↓reduceIte]
  · next h =>
    refine ⟨[], rfl, ?_, NoFail.nil, rfl⟩
    simp only [PW.write1, VW, FPW.abs, h, ↓reduceIte]

theorem flushTail_sim (sealed : Bytes) (hne : sealed ≠ []) (pos : Nat) :
    Sim VW false (FPW.flushTail sealed pos)
      (fun p => (some (), { p with dev := (p.dev.writeAll sealed).seekStart pos })) := by
  have h := Sim.bind (devWriteAll_sim sealed hne) fun _ =>
    Sim.bind (seekStart_sim pos) fun _ => devFlush_sim
  exact fun s hs hf => (h s hs hf).congr rfl

theorem flushPage_sim :
    Sim VW false FPW.flushPage (fun p => (some (),
      ⟨(p.dev.writeAll (sealPage p.page)).seekStart p.dev.pos, p.offset, sealPage p.page⟩)) := by
  have h2 : ∀ pos, Sim VW false
      (fun w => FPW.flushTail (sealPage w.page) pos { w with page := sealPage w.page })
      (fun p => (some (), ⟨(p.dev.writeAll (sealPage p.page)).seekStart pos, p.offset,
        sealPage p.page⟩)) := by
    intro pos s hs hf
    exact Post.shift (flushTail_sim _ (sealPage_ne_nil _) pos _ (by exact hs) (by exact hf))
      rfl rfl rfl
  have h := Sim.bind streamPosition_sim h2
  exact fun s hs hf => (h s hs hf).congr rfl

/-- `flush_inner` = `PW.flush` (the device's own `flush` has no ideal counterpart) -/
theorem flushInner_sim : Sim VW false FPW.flushInner (fun p => (some (), p.flush)) := by
  intro s hs hf
  unfold FPW.flushInner
  split
  · next h =>
    refine (flushPage_sim s hs hf).congr ?_
    show _ = (some (), PW.flush s.abs)
    unfold PW.flush
    have : s.abs.offset > 0 := h
    rw [if_pos this]
    rfl
  · next h =>
    refine (devFlush_sim s hs hf).congr ?_
    show _ = (some (), PW.flush s.abs)
    unfold PW.flush
    have : ¬ s.abs.offset > 0 := h
    rw [if_neg this]
    rfl

/-! ### the latch -/

/-- `guard_io` around an operation the ideal model never rejects -/
theorem guardIO_sim {α : Type} {op : M FPW α} {i : PW → Option α × PW}
    (h : Sim VW false op i) (hi : ∀ p, (i p).1 ≠ none) : Sim VW true (FPW.guardIO op) i := by
  intro s hs hf
  have hf' : s.failed = false := hf
  obtain ⟨pre, hp, hm⟩ := h s hs hf
  unfold FPW.guardIO
  rw [if_neg (by rw [hf']; simp)]
  rcases hR : op s with ⟨r, s1⟩
  rw [hR] at hp hm
  cases r with
  | ok a => exact ⟨pre, hp, hm⟩
  | err e =>
    dsimp only at hm hp ⊢
    refine ⟨pre, hp, ?_⟩
    dsimp only
    by_cases he : VW.logic e = true
    · rw [if_pos he] at hm
      exact absurd (by rw [hm.1]) (hi (VW.abs s))
    · rw [if_neg he] at hm ⊢
      exact ⟨hm.1, fun _ => rfl⟩
  | panic => exact hm.elim

/-- `guard`: `Error::Invalid` leaves the latch alone, every other error sets it -/
theorem guard_post {α : Type} {op : M FPW α} {i : PW → Option α × PW} {s : FPW}
    (h : Post VW false i s (op s)) (hf : s.failed = false) : Post VW true i s (FPW.guard op s) := by
  have hf' : s.failed = false := hf
  obtain ⟨pre, hp, hm⟩ := h
  unfold FPW.guard
  rw [if_neg (by rw [hf']; simp)]
  rcases hR : op s with ⟨r, s1⟩
  rw [hR] at hp hm
  cases r with
  | ok a => exact ⟨pre, hp, hm⟩
  | err e =>
    dsimp only at hm hp ⊢
    by_cases he : e = .invalid
    · subst he
      rw [if_pos rfl]
      exact ⟨pre, hp, hm⟩
    · rw [if_neg he]
      refine ⟨pre, hp, ?_⟩
      dsimp only
      have hl : ¬ VW.logic e = true := by simp [VW, he]
      rw [if_neg hl] at hm ⊢
      exact ⟨hm.1, fun _ => rfl⟩
  | panic => exact hm.elim

theorem guard_sim {α : Type} {op : M FPW α} {i : PW → Option α × PW}
    (h : Sim VW false op i) : Sim VW true (FPW.guard op) i :=
  fun s hs hf => guard_post (h s hs hf) hf

/-- `Write::write` of the paged writer -/
theorem write_sim (buf : Bytes) :
    Sim VW true (FPW.write buf) (fun p => (some (p.write1 buf).2, (p.write1 buf).1)) :=
  guardIO_sim (writeInner_sim buf) (fun _ => by simp)

/-- `Write::flush` of the paged writer -/
theorem flush_sim : Sim VW true FPW.flush (fun p => (some (), p.flush)) :=
  guardIO_sim flushInner_sim (fun _ => by simp)

/-! ### `physical_position`, `physical_seek`, `physical_size` -/

theorem physicalPositionInner_sim :
    Sim VW false FPW.physicalPositionInner (fun p => (some p.physicalPosition, p)) := by
  have h2 : ∀ pos, Sim VW false (fun w => (.ok (pos + w.offset), w) : M FPW Nat)
      (fun p => (some (pos + p.offset), p)) :=
    fun _ _ _ _ => ⟨[], rfl, rfl, NoFail.nil, rfl⟩
  have h := Sim.bind streamPosition_sim h2
  exact fun s hs hf => (h s hs hf).congr rfl

theorem physicalPosition_sim :
    Sim VW true FPW.physicalPosition (fun p => (some p.physicalPosition, p)) :=
  guard_sim physicalPositionInner_sim

theorem rejectSeek_sim (current : Nat) :
    Sim VW false (FPW.rejectSeek current)
      (fun p => (none, { p with dev := p.dev.seekStart current })) := by
  have h := Sim.bind (seekStart_sim current) fun _ => (fail_sim (α := Unit))
  exact fun s hs hf => (h s hs hf).congr rfl

/-- the ideal counterpart of `physical_seek_inner` after the flush and the two position queries -/
def iSeekTail (pos current e : Nat) : PW → Option Unit × PW :=
  if pos > e then fun p => (none, { p with dev := p.dev.seekStart current })
  else if pos % pageSize ≥ payloadSize then fun p => (none, { p with dev := p.dev.seekStart current })
  else fun p =>
    let w3 := PW.readCurrentPage { p with dev := p.dev.seekStart (pos / pageSize * pageSize) }
    (some (), { w3 with dev := w3.dev.seekStart (pos / pageSize * pageSize), offset := pos % pageSize })

theorem seekTail_sim (pos current e : Nat) :
    Sim VW false
      (if pos > e then FPW.rejectSeek current
       else if pos % pageSize ≥ payloadSize then FPW.rejectSeek current
       else do
        let _ ← FPW.io (FDev.seekStart (pos / pageSize * pageSize))
        FPW.readCurrentPage
        let _ ← FPW.io (FDev.seekStart (pos / pageSize * pageSize))
        FPW.setOffset (pos % pageSize))
      (iSeekTail pos current e) := by
  unfold iSeekTail
  by_cases h1 : pos > e
  · rw [if_pos h1, if_pos h1]; exact rejectSeek_sim current
  · rw [if_neg h1, if_neg h1]
    by_cases h2 : pos % pageSize ≥ payloadSize
    · rw [if_pos h2, if_pos h2]; exact rejectSeek_sim current
    · rw [if_neg h2, if_neg h2]
      have h := Sim.bind (seekStart_sim (pos / pageSize * pageSize)) fun _ =>
        Sim.bind readCurrentPage_sim fun _ =>
        Sim.bind (seekStart_sim (pos / pageSize * pageSize)) fun _ =>
          setOffset_sim (pos % pageSize)
      exact fun s hs hf => (h s hs hf).congr rfl

theorem physicalSeekInner_sim (pos : Nat) :
    Sim VW false (FPW.physicalSeekInner pos)
      (fun p => (if (p.physicalSeek pos).2 then some () else none, (p.physicalSeek pos).1)) := by
  have h := Sim.bind flush_sim.mono fun _ =>
    Sim.bind streamPosition_sim fun current =>
    Sim.bind seekEnd_sim fun e => seekTail_sim pos current e
  intro s hs hf
  refine (h s hs hf).congr ?_
  generalize VW.abs s = p
  simp only [ibind, iIO, iSeekTail, PW.physicalSeek, Dev.seekEnd]
  by_cases h1 : pos > List.length p.flush.dev.data
  · simp [h1]
  · by_cases h2 : pos % pageSize ≥ payloadSize
    · simp [h1, h2]
    · simp [h1, h2]

/-- `physical_seek`: accepted and rejected seeks as in the ideal model -/
theorem physicalSeek_sim (pos : Nat) :
    Sim VW true (FPW.physicalSeek pos)
      (fun p => (if (p.physicalSeek pos).2 then some () else none, (p.physicalSeek pos).1)) :=
  guard_sim (physicalSeekInner_sim pos)

theorem physicalSizeInner_sim :
    Sim VW false FPW.physicalSizeInner (fun p => (some p.physicalSize.2, p.physicalSize.1)) := by
  have h := Sim.bind flush_sim.mono fun _ =>
    Sim.bind streamPosition_sim fun pos =>
    Sim.bind seekEnd_sim fun size =>
    Sim.bind (seekStart_sim pos) fun _ => Sim.pure (V := VW) (l := false) size
  exact fun s hs hf => (h s hs hf).congr rfl

theorem physicalSize_sim :
    Sim VW true FPW.physicalSize (fun p => (some p.physicalSize.2, p.physicalSize.1)) :=
  guard_sim physicalSizeInner_sim

/-! ### `write_all` and `align` of the paged writer -/

theorem write1_n (p : PW) (buf : Bytes) :
    (p.write1 buf).2 = min buf.length (payloadSize - p.offset) := by
  unfold PW.write1
  dsimp only
  split <;> rfl

theorem write1_offset (p : PW) (buf : Bytes) (h : p.offset < payloadSize) :
    (p.write1 buf).1.offset < payloadSize := by
  unfold PW.write1
  dsimp only
  split
  · show 0 < payloadSize
    decide
  · next hne =>
    show p.offset + min buf.length (payloadSize - p.offset) < payloadSize
    omega

theorem pw_writeAllFuel_nil (f : Nat) (p : PW) : PW.writeAllFuel f p [] = .ok p := by
  cases f <;> rfl

theorem pw_writeAllFuel_cons (f : Nat) (p : PW) (b : UInt8) (bs : Bytes)
    (h : p.offset < payloadSize) :
    PW.writeAllFuel (f + 1) p (b :: bs) =
      PW.writeAllFuel f (p.write1 (b :: bs)).1 ((b :: bs).drop (p.write1 (b :: bs)).2) := by
  have hn : (p.write1 (b :: bs)).2 ≠ 0 := by
    rw [write1_n]; simp only [List.length_cons]; omega
  conv => lhs; unfold PW.writeAllFuel
  simp only [hn, ↓reduceIte]

/-- under the invariant `offset < 1020` the ideal `write_all` always succeeds -/
theorem pw_writeAllFuel_ok (f : Nat) : ∀ (buf : Bytes) (p : PW), p.offset < payloadSize →
    buf.length < f → ∃ p', PW.writeAllFuel f p buf = .ok p' ∧ p'.offset < payloadSize := by
  induction f with
  | zero => intro buf p _ h; omega
  | succ f ih =>
    intro buf p ho hf
    cases buf with
    | nil => exact ⟨p, pw_writeAllFuel_nil _ _, ho⟩
    | cons b bs =>
      rw [pw_writeAllFuel_cons f p b bs ho]
      have hn : (p.write1 (b :: bs)).2 ≠ 0 := by
        rw [write1_n]; simp only [List.length_cons]; omega
      exact ih _ _ (write1_offset p _ ho) (by simp only [List.length_drop, List.length_cons] at hf ⊢; omega)

theorem fpw_writeAllFuel_latched (f : Nat) (b : UInt8) (bs : Bytes) (s : FPW)
    (h : s.failed = true) : FPW.writeAllFuel (f + 1) (b :: bs) s = (.err .latched, s) := by
  unfold FPW.writeAllFuel
  have : FPW.write (b :: bs) s = (.err .latched, s) := by
    unfold FPW.write FPW.guardIO
    rw [if_pos h]
  rw [this]

theorem fpw_writeAllFuel_post (fuel : Nat) : ∀ (buf : Bytes) (f2 : Nat) (s : FPW),
    Sane s.dev.sched → s.failed = false → s.offset < payloadSize → buf.length + 2 ≤ fuel →
    buf.length < f2 →
    ∃ p', PW.writeAllFuel f2 s.abs buf = .ok p' ∧ p'.offset < payloadSize ∧
      Post VW true (fun _ => (some (), p')) s (FPW.writeAllFuel fuel buf s) := by
  induction fuel with
  | zero => intro buf f2 s _ _ _ h; omega
  | succ fuel ih =>
    intro buf f2 s hs hf ho hfu hf2
    cases buf with
    | nil =>
      refine ⟨s.abs, pw_writeAllFuel_nil _ _, ho, ?_⟩
      unfold FPW.writeAllFuel
      exact ⟨[], rfl, rfl, NoFail.nil, rfl⟩
    | cons b bs =>
      cases f2 with
      | zero => omega
      | succ f2 =>
        have hw := write_sim (b :: bs) s hs hf
        have hn : (s.abs.write1 (b :: bs)).2 ≠ 0 := by
          rw [write1_n]
          have : s.abs.offset < payloadSize := ho
          simp only [List.length_cons]; omega
        rw [pw_writeAllFuel_cons f2 s.abs b bs ho]
        unfold FPW.writeAllFuel
        rcases hR : FPW.write (b :: bs) s with ⟨r, s1⟩
        rw [hR] at hw
        cases r with
        | ok n =>
          dsimp only
          have hw' := hw
          obtain ⟨pre, hp, hi, hnf, hfl⟩ := hw'
          dsimp only at hi hp hfl
          have hi' : (some (s.abs.write1 (b :: bs)).2, (s.abs.write1 (b :: bs)).1) =
              (some n, s1.abs) := hi
          simp only [Prod.mk.injEq, Option.some.injEq] at hi'
          obtain ⟨hi1, hi2⟩ := hi'
          have hn' : n ≠ 0 := by rw [← hi1]; exact hn
          rw [if_neg hn', hi1, hi2]
          have hs1 : Sane s1.dev.sched := hw.sane_next hs
          have hf1 : s1.failed = false := by rw [← hf]; exact hfl
          have ho1 : s1.offset < payloadSize := by
            have := write1_offset s.abs (b :: bs) ho
            rw [hi2] at this; exact this
          have hlen : ((b :: bs).drop n).length < (b :: bs).length := by
            simp only [List.length_drop, List.length_cons]; omega
          obtain ⟨p', he, hpo, hpost⟩ := ih ((b :: bs).drop n) f2 s1 hs1 hf1 ho1 (by omega) (by omega)
          refine ⟨p', he, hpo, ?_⟩
          have := Post.seq (j := fun _ _ => (some (), p')) hw hpost
          exact this.congr rfl
        | err e =>
          have hfu' : 1 ≤ fuel := by simp only [List.length_cons] at hfu; omega
          obtain ⟨p', he, hpo⟩ := pw_writeAllFuel_ok f2 _ _ (write1_offset s.abs (b :: bs) ho)
            (show ((b :: bs).drop (s.abs.write1 (b :: bs)).2).length < f2 by
              simp only [List.length_drop, List.length_cons] at hf2 ⊢; omega)
          refine ⟨p', he, hpo, ?_⟩
          obtain ⟨pre, hp, hm⟩ := hw
          dsimp only at hm hp
          have hl : ¬ VW.logic e = true := by
            intro hl
            rw [if_pos hl] at hm
            have := congrArg (fun x => x.1) hm.1
            simp at this
          rw [if_neg hl] at hm
          have hlatch : s1.failed = true := hm.2 rfl
          cases e with
          | interrupted =>
            dsimp only
            obtain ⟨f', rfl⟩ : ∃ f', fuel = f' + 1 := ⟨fuel - 1, by omega⟩
            rw [fpw_writeAllFuel_latched _ _ _ _ hlatch]
            refine ⟨pre, hp, ?_⟩
            dsimp only
            rw [if_neg (by simp [VW])]
            exact ⟨hm.1, fun _ => hlatch⟩
          | _ =>
            dsimp only
            refine ⟨pre, hp, ?_⟩
            dsimp only
            rw [if_neg hl]
            exact ⟨hm.1, fun _ => hlatch⟩
        | panic =>
          obtain ⟨pre, hp, hm⟩ := hw
          exact hm.elim

/-- `write_all` of the paged writer (std loop over `write`) against the ideal `PW.writeAll`:
    the ideal call succeeds with `p'`, and the faulty-device run either succeeds in the state `p'`
    or reports a device error with the latch set. -/
theorem writeAll_pw (buf : Bytes) (s : FPW) (hs : Sane s.dev.sched) (hf : s.failed = false)
    (ho : s.offset < payloadSize) :
    ∃ p', s.abs.writeAll buf = .ok p' ∧ p'.offset < payloadSize ∧
      Post VW true (fun _ => (some (), p')) s (FPW.writeAll buf s) :=
  fpw_writeAllFuel_post _ buf _ s hs hf ho (by omega) (by omega)

/-- `align` against the ideal `PW.align` -/
theorem align_pw (s : FPW) (hs : Sane s.dev.sched) (hf : s.failed = false)
    (ho : s.offset < payloadSize) :
    ∃ p', s.abs.align = .ok p' ∧ p'.offset < payloadSize ∧
      Post VW true (fun _ => (some (), p')) s (FPW.align s) := by
  unfold PW.align FPW.align
  by_cases hm : s.offset % 4 ≠ 0
  · obtain ⟨p', he, hpo, hpost⟩ := writeAll_pw (zeros (4 - s.offset % 4)) s hs hf ho
    refine ⟨p', ?_, hpo, ?_⟩
    · have : s.abs.offset % 4 ≠ 0 := hm
      dsimp only
      rw [if_pos this]; exact he
    · refine guard_post ?_ hf
      unfold FPW.alignInner
      rw [if_pos hm]
      exact hpost.mono
  · refine ⟨s.abs, ?_, ho, ?_⟩
    · have : ¬ s.abs.offset % 4 ≠ 0 := hm
      dsimp only
      rw [if_neg this]
    · refine guard_post ?_ hf
      unfold FPW.alignInner
      rw [if_neg hm]
      exact ⟨[], rfl, rfl, NoFail.nil, rfl⟩

/-! # 6. Faults: the latch -/

/-- With the latch set a `write` does not touch the device. -/
theorem write_latched (buf : Bytes) (s : FPW) (h : s.failed = true) :
    FPW.write buf s = (.err .latched, s) := by
  unfold FPW.write FPW.guardIO; rw [if_pos h]

theorem flush_latched (s : FPW) (h : s.failed = true) : FPW.flush s = (.err .latched, s) := by
  unfold FPW.flush FPW.guardIO; rw [if_pos h]

theorem guard_latched {α : Type} (op : M FPW α) (s : FPW) (h : s.failed = true) :
    FPW.guard op s = (.err .latched, s) := by
  unfold FPW.guard; rw [if_pos h]

theorem writeAll_latched (buf : Bytes) (s : FPW) (h : s.failed = true) (hne : buf ≠ []) :
    FPW.writeAll buf s = (.err .latched, s) := by
  cases buf with
  | nil => exact absurd rfl hne
  | cons b bs => exact fpw_writeAllFuel_latched _ b bs s h

theorem writeAll_nil (s : FPW) : FPW.writeAll [] s = (.ok (), s) := rfl

/-- **latch_absorbing**: once the latch is set, every operation leaves the writer -- in particular
    the device and its schedule -- untouched and returns `latched`.  (The one exception is the one
    std makes: `write_all` of an empty buffer performs no `write` call at all and returns `Ok`.) -/
theorem latch_absorbing (op : Op) (s : FPW) (h : s.failed = true) :
    (FPW.step op s).2 = s ∧ ((FPW.step op s).1 = .err .latched ∨ op = .write []) := by
  cases op with
  | write b =>
    cases b with
    | nil => exact ⟨rfl, .inr rfl⟩
    | cons x xs =>
      have := writeAll_latched (x :: xs) s h (by simp)
      simp [FPW.step, unit0, this]
  | flush =>
    simp [FPW.step, unit0, flush_latched s h]
  | seek p =>
    simp [FPW.step, unit0, FPW.physicalSeek, guard_latched _ s h]
  | size =>
    simp [FPW.step, FPW.physicalSize, guard_latched _ s h]
  | align =>
    simp [FPW.step, unit0, FPW.align, guard_latched _ s h]
  | position =>
    simp [FPW.step, FPW.physicalPosition, guard_latched _ s h]

/-- a result that is `latched`, or the `Ok` of an empty `write_all` -/
def Result.absorbed (op : Op) (r : Result) : Prop := r = .err .latched ∨ (op = .write [] ∧ r = .ok 0)

def AllAbsorbed : List Op → List Result → Prop
  | [], [] => True
  | op :: ops, r :: rs => Result.absorbed op r ∧ AllAbsorbed ops rs
  | _, _ => False

/-- with the latch set a whole run leaves the writer and the device untouched -/
theorem runOps_latched (ops : List Op) : ∀ (s : FPW), s.failed = true →
    (FPW.runOps ops s).2 = s ∧ AllAbsorbed ops (FPW.runOps ops s).1 := by
  induction ops with
  | nil => intro s _; exact ⟨rfl, trivial⟩
  | cons op ops ih =>
    intro s h
    obtain ⟨h1, h2⟩ := latch_absorbing op s h
    have hstep : FPW.step op s = ((FPW.step op s).1, s) := Prod.ext rfl h1
    obtain ⟨i1, i2⟩ := ih s h
    unfold FPW.runOps
    rw [hstep]
    dsimp only
    refine ⟨i1, ?_, i2⟩
    rcases h2 with h2 | h2
    · exact .inl h2
    · subst h2; exact .inr ⟨rfl, rfl⟩

/-! # 7. Every operation of the public interface, one statement -/

/-- the ideal writer's version of an operation: result (`none` = rejected request) and state -/
def iStep : Op → PW → Option Nat × PW
  | .write b, p =>
    match p.writeAll b with
    | .ok p' => (some 0, p')
    | _ => (none, p)
  | .flush, p => (some 0, p.flush)
  | .seek q, p => (if (p.physicalSeek q).2 then some 0 else none, (p.physicalSeek q).1)
  | .size, p => (some p.physicalSize.2, p.physicalSize.1)
  | .align, p =>
    match p.align with
    | .ok p' => (some 0, p')
    | _ => (none, p)
  | .position, p => (some p.physicalPosition, p)

theorem Post.unit0 {l : Bool} {i : PW → Option Unit × PW} {m : M FPW Unit} {s : FPW}
    (h : Post VW l i s (m s)) :
    Post VW l (fun p => ((i p).1.map (fun _ => 0), (i p).2)) s (unit0 m s) := by
  obtain ⟨pre, hp, hm⟩ := h
  unfold DIO.unit0
  rcases hR : m s with ⟨r, s1⟩
  rw [hR] at hp hm
  cases r with
  | ok a =>
    refine ⟨pre, hp, ?_, hm.2⟩
    dsimp only at hm ⊢
    rw [hm.1]; rfl
  | err e =>
    refine ⟨pre, hp, ?_⟩
    dsimp only at hm ⊢
    by_cases he : VW.logic e = true
    · rw [if_pos he] at hm ⊢
      refine ⟨?_, hm.2⟩
      rw [hm.1]; rfl
    · rw [if_neg he] at hm ⊢; exact hm
  | panic => exact hm.elim

theorem pw_flush_offset (p : PW) : p.flush.offset = p.offset := by
  unfold PW.flush; split <;> rfl

theorem pw_seek_offset (p : PW) (q : Nat) (h : p.offset < payloadSize) :
    (p.physicalSeek q).1.offset < payloadSize := by
  unfold PW.physicalSeek
  dsimp only [Dev.seekEnd]
  split
  · show p.flush.offset < _; rw [pw_flush_offset]; exact h
  · split
    · show p.flush.offset < _; rw [pw_flush_offset]; exact h
    · next h1 h2 => show q % pageSize < payloadSize; omega

theorem pw_size_offset (p : PW) : p.physicalSize.1.offset = p.offset := by
  show p.flush.offset = _; exact pw_flush_offset p

/-- the ideal operations keep `offset < 1020` -/
theorem iStep_offset (op : Op) (p : PW) (h : p.offset < payloadSize) :
    (iStep op p).2.offset < payloadSize := by
  cases op with
  | write b =>
    obtain ⟨p', he, hp'⟩ := pw_writeAllFuel_ok (b.length + 1) b p h (by omega)
    have : p.writeAll b = .ok p' := he
    show (match p.writeAll b with
      | .ok p' => (some 0, p')
      | _ => (none, p)).2.offset < _
    rw [this]; exact hp'
  | flush => show p.flush.offset < _; rw [pw_flush_offset]; exact h
  | seek q => exact pw_seek_offset p q h
  | size => show p.physicalSize.1.offset < _; rw [pw_size_offset]; exact h
  | align =>
    show (match p.align with
      | .ok p' => (some 0, p')
      | _ => (none, p)).2.offset < _
    unfold PW.align
    dsimp only
    by_cases hm : p.offset % 4 ≠ 0
    · obtain ⟨p', he, hp'⟩ := pw_writeAllFuel_ok ((zeros (4 - p.offset % 4)).length + 1)
        (zeros (4 - p.offset % 4)) p h (by omega)
      have : p.writeAll (zeros (4 - p.offset % 4)) = .ok p' := he
      rw [if_pos hm, this]; exact hp'
    · rw [if_neg hm]; exact h
  | position => exact h

/-- **Every public operation of the paged writer over a faulty device**, started with the latch
    clear on a sane schedule (`offset < 1020` is the writer's invariant):
    `ok` / `Invalid` exactly as the ideal writer, with corresponding states ("short I/O changes
    nothing"); any other error only if a non-benign behaviour was consumed, and then the latch is set
    ("device faults surface as errors"); no panic. -/
theorem step_post (op : Op) (s : FPW) (hs : Sane s.dev.sched) (hf : s.failed = false)
    (ho : s.offset < payloadSize) : Post VW true (iStep op) s (FPW.step op s) := by
  cases op with
  | write b =>
    obtain ⟨p', he, _, hpost⟩ := writeAll_pw b s hs hf ho
    refine hpost.unit0.congr ?_
    show _ = iStep (.write b) s.abs
    simp only [iStep, he]; rfl
  | flush => exact (flush_sim s hs hf).unit0.congr rfl
  | seek q =>
    refine (physicalSeek_sim q s hs hf).unit0.congr ?_
    show (Option.map (fun _ => 0) (if (s.abs.physicalSeek q).2 then some () else none),
      (s.abs.physicalSeek q).1) =
      (if (s.abs.physicalSeek q).2 then some 0 else none, (s.abs.physicalSeek q).1)
    cases (s.abs.physicalSeek q).2 <;> rfl
  | size => exact physicalSize_sim s hs hf
  | align =>
    obtain ⟨p', he, _, hpost⟩ := align_pw s hs hf ho
    refine hpost.unit0.congr ?_
    show _ = iStep .align s.abs
    simp only [iStep, he]; rfl
  | position => exact physicalPosition_sim s hs hf

/-! # 8. Whole runs -/

/-- a result the ideal writer produces too: `Ok`, or the rejection of a request (`Invalid`) -/
def Res.clean {α : Type} : Res α → Bool
  | .ok _ => true
  | .err .invalid => true
  | _ => false

/-- how the ideal result is reported -/
def resOf : Option Nat → Result
  | some n => .ok n
  | none => .err .invalid

/-- the ideal run -/
def iRun : List Op → PW → List (Option Nat) × PW
  | [], p => ([], p)
  | op :: ops, p => ((iStep op p).1 :: (iRun ops (iStep op p).2).1, (iRun ops (iStep op p).2).2)

theorem runOps_cons (op : Op) (ops : List Op) (s : FPW) :
    FPW.runOps (op :: ops) s =
      ((FPW.step op s).1 :: (FPW.runOps ops (FPW.step op s).2).1,
        (FPW.runOps ops (FPW.step op s).2).2) := rfl

/-- what a `Post` says about a clean result -/
theorem Post.clean {i : PW → Option Nat × PW} {s : FPW} {x : Result × FPW}
    (h : Post VW true i s x) (hc : x.1.clean = true) :
    x.1 = resOf (i s.abs).1 ∧ x.2.abs = (i s.abs).2 ∧ x.2.failed = s.failed ∧
      ∃ pre, s.dev.sched = pre ++ x.2.dev.sched ∧ NoFail pre := by
  obtain ⟨pre, hp, hm⟩ := h
  cases hx : x.1 with
  | ok a =>
    rw [hx] at hm
    have h1 : i s.abs = (some a, x.2.abs) := hm.1
    exact ⟨by rw [h1]; rfl, by rw [h1], hm.2.2, pre, hp, hm.2.1⟩
  | err e =>
    rw [hx] at hm hc
    cases e <;> simp [Res.clean] at hc
    dsimp only at hm
    rw [if_pos (by simp [VW])] at hm
    have h1 : i s.abs = (none, x.2.abs) := hm.1
    exact ⟨by rw [h1]; rfl, by rw [h1], hm.2.2, pre, hp, hm.2.1⟩
  | panic => rw [hx] at hc; simp [Res.clean] at hc

/-- what a `Post` says about a result that is not clean: a device fault was consumed, the latch is set -/
theorem Post.dirty {i : PW → Option Nat × PW} {s : FPW} {x : Result × FPW}
    (h : Post VW true i s x) (hc : x.1.clean = false) :
    (∃ e, x.1 = .err e ∧ e ≠ .invalid) ∧ x.2.failed = true ∧
      ∃ pre, s.dev.sched = pre ++ x.2.dev.sched ∧ ¬ Benign pre := by
  obtain ⟨pre, hp, hm⟩ := h
  cases hx : x.1 with
  | ok a => rw [hx] at hc; simp [Res.clean] at hc
  | err e =>
    rw [hx] at hm hc
    have he : e ≠ .invalid := by intro h; subst h; simp [Res.clean] at hc
    dsimp only at hm
    rw [if_neg (by simp [VW, he])] at hm
    exact ⟨⟨e, rfl, he⟩, hm.2 rfl, pre, hp, hm.1⟩
  | panic => rw [hx] at hm; exact hm.elim

/-- **no_panic**: no operation panics (in particular no loop runs out of fuel), whatever the
    device does (sane schedule), latched or not -/
theorem no_panic (op : Op) (s : FPW) (hs : Sane s.dev.sched) (ho : s.offset < payloadSize) :
    (FPW.step op s).1 ≠ .panic := by
  cases hf : s.failed with
  | true =>
    rcases (latch_absorbing op s hf).2 with h | h
    · rw [h]; simp
    · subst h; simp [FPW.step, unit0, writeAll_nil]
  | false =>
    obtain ⟨pre, _, hm⟩ := step_post op s hs hf ho
    intro hp
    rw [hp] at hm
    exact hm

/-- **fault_surfaces**: an operation whose result is not the ideal writer's result (`Ok`/`Invalid`)
    has consumed a non-benign behaviour, returns an error, and leaves the latch set -/
theorem fault_surfaces (op : Op) (s : FPW) (hs : Sane s.dev.sched) (hf : s.failed = false)
    (ho : s.offset < payloadSize) (hc : (FPW.step op s).1.clean = false) :
    (∃ e, (FPW.step op s).1 = .err e ∧ e ≠ .invalid) ∧ (FPW.step op s).2.failed = true ∧
      ∃ pre, s.dev.sched = pre ++ (FPW.step op s).2.dev.sched ∧ ¬ Benign pre :=
  (step_post op s hs hf ho).dirty hc

/-- a run all of whose results are clean is the ideal run: same results, corresponding final state
    (in particular the same device bytes), the latch clear, and no `fail` was consumed -/
theorem runOps_clean (ops : List Op) : ∀ (s : FPW), Sane s.dev.sched → s.failed = false →
    s.offset < payloadSize → (∀ r ∈ (FPW.runOps ops s).1, r.clean = true) →
    (FPW.runOps ops s).1 = (iRun ops s.abs).1.map resOf ∧
    (FPW.runOps ops s).2.abs = (iRun ops s.abs).2 ∧
    (FPW.runOps ops s).2.failed = false ∧
    ∃ pre, s.dev.sched = pre ++ (FPW.runOps ops s).2.dev.sched ∧ NoFail pre := by
  induction ops with
  | nil => intro s _ hf _ _; exact ⟨rfl, rfl, hf, [], rfl, NoFail.nil⟩
  | cons op ops ih =>
    intro s hs hf ho hc
    rw [runOps_cons] at hc ⊢
    have hpost := step_post op s hs hf ho
    obtain ⟨h1, h2, h3, pre1, hp1, hn1⟩ := hpost.clean (hc _ (by simp))
    have hs1 : Sane (FPW.step op s).2.dev.sched := hpost.sane_next hs
    have hf1 : (FPW.step op s).2.failed = false := by rw [h3, hf]
    have ho1 : (FPW.step op s).2.offset < payloadSize := by
      have := iStep_offset op s.abs ho
      rw [← h2] at this; exact this
    obtain ⟨i1, i2, i3, pre2, hp2, hn2⟩ := ih _ hs1 hf1 ho1
      (fun r hr => hc r (List.mem_cons_of_mem _ hr))
    refine ⟨?_, ?_, i3, pre1 ++ pre2, by rw [hp1, hp2, List.append_assoc], hn1.append hn2⟩
    · show _ :: _ = List.map resOf (_ :: _)
      rw [List.map_cons, h1, i1, h2]
    · show _ = (iRun ops (iStep op s.abs).2).2
      rw [i2, h2]

/-- on a benign schedule (complete and short transfers only) every result is clean -/
theorem runOps_benign (ops : List Op) : ∀ (s : FPW), Benign s.dev.sched → s.failed = false →
    s.offset < payloadSize → ∀ r ∈ (FPW.runOps ops s).1, r.clean = true := by
  induction ops with
  | nil => intro s _ _ _ r hr; simp [FPW.runOps] at hr
  | cons op ops ih =>
    intro s hb hf ho r hr
    rw [runOps_cons] at hr
    have hpost := step_post op s hb.sane hf ho
    obtain ⟨hb1, hres⟩ := hpost.benign hb
    have hc : (FPW.step op s).1.clean = true := by
      rcases hres with ⟨a, ha, _⟩ | ⟨e, he, hl, _⟩
      · rw [ha]; rfl
      · rw [he]
        have : e = .invalid := by simpa [VW] using hl
        subst this; rfl
    rcases List.mem_cons.mp hr with h | h
    · rw [h]; exact hc
    · obtain ⟨_, h2, h3, _⟩ := hpost.clean hc
      refine ih _ hb1 (by rw [h3, hf]) ?_ r h
      have := iStep_offset op s.abs ho
      rw [← h2] at this; exact this

/-- **short I/O changes nothing** (writer side): however a benign device chunks its transfers, a run
    returns the ideal results and ends in the ideal state -- byte-identical device contents -/
theorem short_io_changes_nothing (ops : List Op) (s : FPW) (hb : Benign s.dev.sched)
    (hf : s.failed = false) (ho : s.offset < payloadSize) :
    (FPW.runOps ops s).1 = (iRun ops s.abs).1.map resOf ∧
    (FPW.runOps ops s).2.abs = (iRun ops s.abs).2 ∧
    (FPW.runOps ops s).2.dev.dev.data = (iRun ops s.abs).2.dev.data ∧
    (FPW.runOps ops s).2.failed = false := by
  obtain ⟨h1, h2, h3, _⟩ := runOps_clean ops s hb.sane hf ho (runOps_benign ops s hb hf ho)
  exact ⟨h1, h2, by rw [← h2]; rfl, h3⟩

/-! ### from the device: `PagedWriter::new`, then the operations -/

theorem new_post (d : FDev) :
    ∃ pre, d.sched = pre ++ (FPW.new d).2.sched ∧
      match (FPW.new d).1 with
      | .ok w => w.dev = (FPW.new d).2 ∧ PW.new d.dev = .ok w.abs ∧ w.failed = false ∧
          w.offset = 0 ∧ NoFail pre
      | .err e =>
          if e = .invalid then (∃ msg, PW.new d.dev = .err msg) ∧ NoFail pre else ¬ Benign pre
      | .panic => False := by
  obtain ⟨pre, hp, hm⟩ := ctl_post (fun v => (v.seekEnd.2, v.seekEnd.1)) d
  unfold FPW.new FDev.seekEnd
  rcases hR : d.ctl (fun v => (v.seekEnd.2, v.seekEnd.1)) with ⟨r, d'⟩
  rw [hR] at hp hm
  cases r with
  | ok e =>
    dsimp only at hm hp ⊢
    have h1 : d.dev.seekEnd.2 = e := congrArg Prod.fst hm.1
    have h2 : d.dev.seekEnd.1 = d'.dev := congrArg Prod.snd hm.1
    by_cases he : e ≠ 0
    · rw [if_pos he]
      refine ⟨pre, hp, ?_⟩
      dsimp only
      rw [if_pos rfl]
      refine ⟨⟨"Supplied writer is not empty", ?_⟩, hm.2⟩
      unfold PW.new
      have : d.dev.seekEnd = (d.dev.seekEnd.1, e) := by rw [← h1]
      rw [this]
      dsimp only
      rw [if_pos he]
    · rw [if_neg he]
      refine ⟨pre, hp, rfl, ?_, rfl, rfl, hm.2⟩
      unfold PW.new
      have : d.dev.seekEnd = (d'.dev, e) := by rw [← h1, ← h2]
      rw [this]
      dsimp only
      rw [if_neg he]
      rfl
  | err e =>
    dsimp only at hm hp ⊢
    refine ⟨pre, hp, ?_⟩
    have : e ≠ .invalid := by intro h; subst h; simp [Err.isDev] at hm
    rw [if_neg this]; exact hm.1
  | panic => exact hm.elim

theorem iRun_append (a b : List Op) : ∀ (p : PW),
    (iRun (a ++ b) p).2 = (iRun b (iRun a p).2).2 := by
  induction a with
  | nil => intro p; rfl
  | cons op a ih => intro p; exact ih _

/-- **whenever a run from `new` on reports only `Ok`/`Invalid`, the device holds exactly what the
    ideal writer would have written**, and no `fail` has been consumed -/
theorem run_clean (ops : List Op) (d : FDev) (hs : Sane d.sched)
    (hc : ∀ r ∈ (FPW.run ops d).1, r.clean = true) :
    (∃ pre, d.sched = pre ++ (FPW.run ops d).2.sched ∧ NoFail pre) ∧
    match PW.new d.dev with
    | .ok p0 =>
        (FPW.run ops d).1 = .ok 0 :: (iRun ops p0).1.map resOf ∧
        (FPW.run ops d).2.dev = (iRun ops p0).2.dev
    | _ => (FPW.run ops d).1 = [.err .invalid] := by
  obtain ⟨pre, hp, hm⟩ := new_post d
  unfold FPW.run at hc ⊢
  rcases hR : FPW.new d with ⟨r, d'⟩
  rw [hR] at hp hm hc
  cases r with
  | ok w =>
    dsimp only at hm hp hc ⊢
    obtain ⟨hw, hnew, hf, ho, hn⟩ := hm
    rw [hnew]
    dsimp only
    have hsw : Sane w.dev.sched := by rw [hw]; rw [hp] at hs; exact hs.append_right
    obtain ⟨h1, h2, _, pre2, hp2, hn2⟩ := runOps_clean ops w hsw hf (by rw [ho]; decide)
      (fun r hr => hc r (List.mem_cons_of_mem _ hr))
    refine ⟨⟨pre ++ pre2, ?_, hn.append hn2⟩, by rw [h1], by rw [← h2]; rfl⟩
    rw [hp, ← hw, hp2, List.append_assoc]
  | err e =>
    dsimp only at hm hp hc ⊢
    have he : e = .invalid := by
      have := hc (.err e) (by simp)
      cases e <;> simp [Res.clean] at this
      rfl
    subst he
    rw [if_pos rfl] at hm
    obtain ⟨⟨msg, hmsg⟩, hn⟩ := hm
    rw [hmsg]
    exact ⟨⟨pre, hp, hn⟩, rfl⟩
  | panic => exact hm.elim

/-- benign schedules: the run from `new` on is clean -/
theorem run_benign (ops : List Op) (d : FDev) (hb : Benign d.sched) :
    ∀ r ∈ (FPW.run ops d).1, r.clean = true := by
  obtain ⟨pre, hp, hm⟩ := new_post d
  unfold FPW.run
  rcases hR : FPW.new d with ⟨r, d'⟩
  rw [hR] at hp hm
  cases r with
  | ok w =>
    dsimp only at hm hp ⊢
    obtain ⟨hw, _, hf, ho, _⟩ := hm
    have hbw : Benign w.dev.sched := by rw [hw]; rw [hp] at hb; exact hb.append_right
    intro r hr
    rcases List.mem_cons.mp hr with h | h
    · rw [h]; rfl
    · exact runOps_benign ops w hbw hf (by rw [ho]; decide) r h
  | err e =>
    dsimp only at hm hp ⊢
    intro r hr
    simp only [List.mem_singleton] at hr
    subst hr
    by_cases he : e = .invalid
    · subst he; rfl
    · rw [if_neg he] at hm
      rw [hp] at hb
      exact absurd hb.append_left hm
  | panic => exact hm.elim

/-! ### down to the file image -/

/-- the operations that act on the logical stream (`position` only observes) -/
def Op.toW : Op → Option WOp
  | .write b => some (.write b)
  | .flush => some .flush
  | .seek p => some (.seek p)
  | .size => some .size
  | .align => some .align
  | .position => none

theorem iStep_inv (op : Op) (p : PW) (h : p.Inv) :
    (iStep op p).2.Inv ∧
    (iStep op p).2.abs = (match op.toW with
      | some w => stepSpec p.abs w
      | none => p.abs) := by
  cases op with
  | write b =>
    obtain ⟨w', h1, h2, h3⟩ := pw_writeAll p b h
    simp only [iStep, h1, Op.toW]
    exact ⟨h2, h3⟩
  | flush => exact ⟨(pw_flush p h).1, (pw_flush p h).2.1⟩
  | seek q => exact ⟨(pw_seek p q h).1, (pw_seek p q h).2.2.1⟩
  | size => exact ⟨(pw_size p h).1, (pw_size p h).2.1⟩
  | align =>
    obtain ⟨w', h1, h2, h3⟩ := pw_align p h
    simp only [iStep, h1, Op.toW]
    exact ⟨h2, h3⟩
  | position => exact ⟨h, rfl⟩

theorem iRun_inv (ops : List Op) : ∀ (p : PW), p.Inv →
    (iRun ops p).2.Inv ∧ (iRun ops p).2.abs = runSpec (ops.filterMap Op.toW) p.abs := by
  induction ops with
  | nil => intro p h; exact ⟨h, rfl⟩
  | cons op ops ih =>
    intro p h
    obtain ⟨h1, h2⟩ := iStep_inv op p h
    obtain ⟨i1, i2⟩ := ih _ h1
    refine ⟨i1, ?_⟩
    show (iRun ops (iStep op p).2).2.abs = _
    rw [i2, h2]
    cases op <;> rfl

/-- **finalize_ok_complete_partial**: a session on an empty device that ends with a flush (what `finalize`
    and `Drop` do).  For ANY sane schedule: if every result is `Ok`, then the device holds the
    complete file -- the paged image, checksums included, of the logical stream the operations
    describe -- and no `fail` was consumed on the way. -/
theorem finalize_ok_complete_partial (ops : List Op) (sched : List Beh) (hs : Sane sched)
    (hok : ∀ r ∈ (FPW.run (ops ++ [.flush]) ⟨Dev.empty, sched⟩).1, r.isOk = true) :
    (FPW.run (ops ++ [.flush]) ⟨Dev.empty, sched⟩).2.dev.data =
      Spec.image (runSpec (ops.filterMap Op.toW) Spec.LogStream.init).data ∧
    ∃ pre, sched = pre ++ (FPW.run (ops ++ [.flush]) ⟨Dev.empty, sched⟩).2.sched ∧ NoFail pre := by
  have hc : ∀ r ∈ (FPW.run (ops ++ [.flush]) ⟨Dev.empty, sched⟩).1, r.clean = true := by
    intro r hr
    have := hok r hr
    cases r <;> simp_all [Res.isOk, Res.clean]
  obtain ⟨hpre, hm⟩ := run_clean (ops ++ [.flush]) ⟨Dev.empty, sched⟩ hs hc
  refine ⟨?_, hpre⟩
  have hnew : PW.new (FDev.mk Dev.empty sched).dev = .ok w0 := rfl
  rw [hnew] at hm
  dsimp only at hm
  rw [hm.2, iRun_append]
  obtain ⟨i1, i2⟩ := iRun_inv ops w0 ⟨[], 0, w0_rep⟩
  show ((iRun ops w0).2.flush).dev.data = _
  rw [(pw_flush _ i1).2.2, i2]
  have : w0.abs = Spec.LogStream.init := by
    obtain ⟨w, hn, _, ha⟩ := pw_new
    have : w = w0 := by
      have h0 : PW.new Dev.empty = .ok w0 := rfl
      rw [h0] at hn; injection hn with hn; exact hn.symm
    rw [← this]; exact ha
  rw [this]

/-- the same for every benign schedule, unconditionally: "short writes give byte-identical files" -/
theorem benign_complete (ops : List Op) (sched : List Beh) (hb : Benign sched) :
    (FPW.run (ops ++ [.flush]) ⟨Dev.empty, sched⟩).2.dev.data =
      Spec.image (runSpec (ops.filterMap Op.toW) Spec.LogStream.init).data ∧
    (FPW.run (ops ++ [.flush]) ⟨Dev.empty, sched⟩).2.dev =
      (FPW.run (ops ++ [.flush]) ⟨Dev.empty, []⟩).2.dev := by
  have hc := run_benign (ops ++ [.flush]) ⟨Dev.empty, sched⟩ hb
  have hc0 := run_benign (ops ++ [.flush]) ⟨Dev.empty, []⟩ Benign.nil
  obtain ⟨_, hm⟩ := run_clean (ops ++ [.flush]) ⟨Dev.empty, sched⟩ hb.sane hc
  obtain ⟨_, hm0⟩ := run_clean (ops ++ [.flush]) ⟨Dev.empty, []⟩ Benign.nil.sane hc0
  have hnew : ∀ s, PW.new (FDev.mk Dev.empty s).dev = .ok w0 := fun _ => rfl
  rw [hnew] at hm hm0
  dsimp only at hm hm0
  refine ⟨?_, by rw [hm.2, hm0.2]⟩
  have hclean_ok : ∀ r ∈ (FPW.run (ops ++ [.flush]) ⟨Dev.empty, sched⟩).1, r.clean = true := hc
  rw [hm.2, iRun_append]
  obtain ⟨i1, i2⟩ := iRun_inv ops w0 ⟨[], 0, w0_rep⟩
  show ((iRun ops w0).2.flush).dev.data = _
  rw [(pw_flush _ i1).2.2, i2]
  have : w0.abs = Spec.LogStream.init := by
    obtain ⟨w, hn, _, ha⟩ := pw_new
    have : w = w0 := by
      have h0 : PW.new Dev.empty = .ok w0 := rfl
      rw [h0] at hn; injection hn with hn; exact hn.symm
    rw [← this]; exact ha
  rw [this]

/-! # 9. The paged reader over a faulty device -/

/-- the reader's view: there is no latch; rejected requests, `UnexpectedEof` and checksum errors are
    the errors the ideal reader produces as well -/
def VR : View FPR PR where
  abs := FPR.abs
  sched := fun r => r.dev.sched
  failed := fun _ => false
  logic := Err.isLogic
  logic_dev := by intro e h; cases e <;> simp_all [Err.isDev, Err.isLogic]

def iIOr {α : Type} (g : Dev → α × Dev) : PR → Option α × PR :=
  fun p => (some (g p.dev).1, { p with dev := (g p.dev).2 })

theorem ior_sim {α : Type} {f : FDev → Res α × FDev} {g : Dev → α × Dev}
    (h : ∀ d, Sane d.sched → DPost g d (f d)) : Sim VR false (FPR.io f) (iIOr g) := by
  intro s hs hf
  obtain ⟨pre, hp, hm⟩ := h s.dev hs
  refine ⟨pre, hp, ?_⟩
  show match (f s.dev).1 with
    | .ok a => _
    | .err e => _
    | .panic => _
  cases hx : (f s.dev).1 with
  | ok a =>
    rw [hx] at hm
    refine ⟨?_, hm.2, rfl⟩
    show (some (g s.dev.dev).1, ({ s.abs with dev := (g s.dev.dev).2 } : PR)) =
      (some a, { s.abs with dev := (f s.dev).2.dev })
    rw [hm.1]
  | err e =>
    rw [hx] at hm
    dsimp only
    rw [if_neg (by rw [VR.logic_dev e hm.2]; simp)]
    exact ⟨hm.1, fun h => by cases h⟩
  | panic => rw [hx] at hm; exact hm

/-- the ideal `read_exact` into the page buffer -/
def iFill : PR → Option Unit × PR := fun q =>
  if (q.dev.read q.pageSize).1.length < q.pageSize then
    (none, { q with dev := (q.dev.read q.pageSize).2,
                    page := (q.dev.read q.pageSize).1 ++ q.page.drop (q.dev.read q.pageSize).1.length })
  else (some (), { q with dev := (q.dev.read q.pageSize).2, page := (q.dev.read q.pageSize).1 })

/-- `read_exact` of one page: chunked and interrupted reads deliver the page an ideal device
    delivers in one piece; `UnexpectedEof` exactly when the ideal read is short -/
theorem fillPage_sim : Sim VR false FPR.fillPage iFill := by
  intro s hs hf
  obtain ⟨pre, hp, hm⟩ := readExact_post s.pageSize s.dev hs
  unfold FPR.fillPage
  rcases hR : s.dev.readExact s.pageSize with ⟨r, bs, d⟩
  rw [hR] at hp hm
  cases r with
  | ok u =>
    dsimp only at hm hp ⊢
    simp only [List.nil_append] at hm
    obtain ⟨h1, h2, h3, h4⟩ := hm
    refine ⟨pre, hp, ?_, h3, rfl⟩
    subst h1
    show iFill s.abs = (some (), ({ s.abs with dev := d.dev, page := _ } : PR))
    unfold iFill
    have : ¬ (s.abs.dev.read s.abs.pageSize).1.length < s.abs.pageSize := by
      show ¬ (s.dev.dev.read s.pageSize).1.length < s.pageSize
      omega
    rw [if_neg this, h2]
    rfl
  | err e =>
    dsimp only at hm hp ⊢
    refine ⟨pre, hp, ?_⟩
    dsimp only
    by_cases he : e = .eof
    · subst he
      rw [if_pos rfl] at hm
      simp only [List.nil_append] at hm
      obtain ⟨h1, h2, h3, h4⟩ := hm
      rw [if_pos (by rfl)]
      refine ⟨?_, h3, rfl⟩
      subst h1
      show iFill s.abs = (none, ({ s.abs with dev := d.dev, page := _ } : PR))
      unfold iFill
      have : (s.abs.dev.read s.abs.pageSize).1.length < s.abs.pageSize := h4
      rw [if_pos this, h2]
      rfl
    · rw [if_neg he] at hm
      rw [if_neg (by rw [VR.logic_dev e hm.2]; simp)]
      exact ⟨hm.1, fun h => by cases h⟩
  | panic => exact hm.elim

/-- the checksum test at the end of `read_page` -/
theorem check_sim (p : Nat) :
    Sim VR false (FPR.checkPage p)
      (fun q =>
        if q.page.drop (q.pageSize - 4) ≠ crcBytes (q.page.take (q.pageSize - 4)) then (none, q)
        else (some (), { q with pageNum := some p })) := by
  intro s _ _
  unfold FPR.checkPage
  by_cases h : s.page.drop (s.pageSize - 4) ≠ crcBytes (s.page.take (s.pageSize - 4))
  · rw [if_pos h]
    refine ⟨[], rfl, ?_⟩
    dsimp only
    rw [if_pos (by rfl)]
    have : (VR.abs s).page.drop ((VR.abs s).pageSize - 4) ≠
        crcBytes ((VR.abs s).page.take ((VR.abs s).pageSize - 4)) := h
    exact ⟨by show (if _ then _ else _) = _; rw [if_pos this], NoFail.nil, rfl⟩
  · rw [if_neg h]
    have : ¬ (VR.abs s).page.drop ((VR.abs s).pageSize - 4) ≠
        crcBytes ((VR.abs s).page.take ((VR.abs s).pageSize - 4)) := h
    exact ⟨[], rfl, by show (if _ then _ else _) = _; rw [if_neg this]; rfl, NoFail.nil, rfl⟩

/-- `read_page` = `PR.readPage` -/
theorem readPage_sim (p : Nat) :
    Sim VR false (FPR.readPage p)
      (fun q => (if (q.readPage p).2 then some () else none, (q.readPage p).1)) := by
  intro s hs hf
  unfold FPR.readPage
  by_cases hp : p ≥ s.pages
  · rw [if_pos hp]
    refine ⟨[], rfl, ?_⟩
    dsimp only
    rw [if_pos (by rfl)]
    refine ⟨?_, NoFail.nil, rfl⟩
    have : p ≥ (VR.abs s).pages := hp
    simp only [PR.readPage, this, ↓reduceIte]
    rfl
  · rw [if_neg hp]
    have h := Sim.bind (ior_sim (fun d _ => ctl_post (fun v => (p * s.pageSize, v.seekStart (p * s.pageSize))) d))
      fun _ => Sim.bind fillPage_sim fun _ => check_sim p
    refine Post.shift (h _ (by exact hs) (by exact hf)) rfl rfl ?_
    by_cases h1 : ((s.dev.dev.seekStart (p * s.pageSize)).read s.pageSize).1.length < s.pageSize
    · simp [PR.readPage, ibind, iIOr, iFill, VR, FPR.abs, hp, h1]
    · by_cases h2 : ((s.dev.dev.seekStart (p * s.pageSize)).read s.pageSize).1.drop (s.pageSize - 4) ≠
          crcBytes (((s.dev.dev.seekStart (p * s.pageSize)).read s.pageSize).1.take (s.pageSize - 4))
      · simp [PR.readPage, ibind, iIOr, iFill, VR, FPR.abs, hp, h1, h2]
      · simp [PR.readPage, ibind, iIOr, iFill, VR, FPR.abs, hp, h1, h2]

/-- the ideal `read`, with the state a failing call leaves behind -/
def iRead (n : Nat) : PR → Option Bytes × PR := fun q =>
  match q.read n with
  | .ok (q', bs) => (some bs, q')
  | _ => (none, q.readFailState)

theorem readTail_sim (n : Nat) :
    Sim VR false (FPR.readTail n)
      (fun q =>
        (some ((q.page.drop (q.offset % (q.pageSize - 4))).take
            (min n (q.pageSize - 4 - q.offset % (q.pageSize - 4)))),
          { q with offset := q.offset + min n (q.pageSize - 4 - q.offset % (q.pageSize - 4)) })) :=
  fun _ _ _ => ⟨[], rfl, rfl, NoFail.nil, rfl⟩

/-- `Read::read` of the paged reader = `PR.read`: **identical values read**, whatever the chunking -/
theorem read_sim (n : Nat) : Sim VR false (FPR.read n) (iRead n) := by
  intro s hs hf
  unfold FPR.read
  by_cases hpg : s.offset / (s.pageSize - 4) ≥ s.pages
  · simp only [if_pos hpg]
    refine ⟨[], rfl, ?_, NoFail.nil, rfl⟩
    have : (VR.abs s).offset / ((VR.abs s).pageSize - 4) ≥ (VR.abs s).pages := hpg
    simp only [iRead, PR.read, this, ↓reduceIte]
  · simp only [if_neg hpg]
    have hpg' : ¬ (VR.abs s).offset / ((VR.abs s).pageSize - 4) ≥ (VR.abs s).pages := hpg
    by_cases hc : s.pageNum ≠ some (s.offset / (s.pageSize - 4))
    · simp only [if_pos hc]
      have h := Sim.bind (readPage_sim (s.offset / (s.pageSize - 4))) fun _ => readTail_sim n
      refine (h s hs hf).congr ?_
      have hc' : (VR.abs s).pageNum ≠ some ((VR.abs s).offset / ((VR.abs s).pageSize - 4)) := hc
      have e1 : s.offset / (s.pageSize - 4) = (VR.abs s).offset / ((VR.abs s).pageSize - 4) := rfl
      rw [e1]
      generalize VR.abs s = q at hpg' hc' ⊢
      have hc'' : ¬ q.pageNum = some (q.offset / (q.pageSize - 4)) := hc'
      rcases hrp : q.readPage (q.offset / (q.pageSize - 4)) with ⟨q1, b⟩
      cases b <;> simp [iRead, PR.read, PR.readFailState, ibind, hpg', hc'', hrp]
    · simp only [if_neg hc]
      refine (readTail_sim n s hs hf).congr ?_
      have hc' : ¬ (VR.abs s).pageNum ≠ some ((VR.abs s).offset / ((VR.abs s).pageSize - 4)) := hc
      generalize VR.abs s = q at hpg' hc' ⊢
      have hc'' : q.pageNum = some (q.offset / (q.pageSize - 4)) := by
        by_cases h : q.pageNum = some (q.offset / (q.pageSize - 4))
        · exact h
        · exact absurd h hc'
      simp [iRead, PR.read, hpg', hc'']

/-! ### what a failing read leaves behind -/

theorem next_dev (d : FDev) : d.next.2.dev = d.dev := by
  unfold FDev.next; split <;> rfl

theorem dev_read_data (v : Dev) (n : Nat) : (v.read n).2.data = v.data := rfl

/-- a device `read` never changes the contents -/
theorem fdev_read_data (d : FDev) (n : Nat) : (d.read n).2.dev.data = d.dev.data := by
  have h := next_dev d
  unfold FDev.read
  split <;> (rename_i heq; rw [heq] at h; simp only at h ⊢; first | rw [dev_read_data, h] | rw [h])

theorem fdev_read_len (d : FDev) (n : Nat) (bs : Bytes) (d' : FDev)
    (h : d.read n = (.ok bs, d')) : bs.length ≤ n := by
  unfold FDev.read at h
  split at h <;> simp only [Prod.mk.injEq, Res.ok.injEq, reduceCtorEq, false_and] at h
  · rw [← h.1]; simp only [Dev.read, List.length_take]; omega
  · rw [← h.1]; simp only [Dev.read, List.length_take]; omega

theorem seekStart_data (p : Nat) (d : FDev) : (d.seekStart p).2.dev.data = d.dev.data := by
  have h := next_dev d
  unfold FDev.seekStart FDev.ctl
  split <;> (rename_i heq; rw [heq] at h; simp only at h ⊢; first | (rw [h]; rfl) | rw [h])

/-- `read_exact`: contents untouched, never more than requested, complete on `Ok`, and an
    `Interrupted` never comes out (it is retried) -/
theorem readExactFuel_shape (fuel : Nat) : ∀ (want : Nat) (acc : Bytes) (d : FDev),
    (FDev.readExactFuel fuel want acc d).2.2.dev.data = d.dev.data ∧
    (FDev.readExactFuel fuel want acc d).2.1.length ≤ acc.length + want ∧
    ((FDev.readExactFuel fuel want acc d).1 = .ok () →
      (FDev.readExactFuel fuel want acc d).2.1.length = acc.length + want) ∧
    (FDev.readExactFuel fuel want acc d).1 ≠ .err .interrupted := by
  induction fuel with
  | zero =>
    intro want acc d
    cases want with
    | zero => unfold FDev.readExactFuel; simp
    | succ want => unfold FDev.readExactFuel; simp
  | succ fuel ih =>
    intro want acc d
    cases want with
    | zero => unfold FDev.readExactFuel; simp
    | succ want =>
      unfold FDev.readExactFuel
      have hd := fdev_read_data d (want + 1)
      rcases hR : d.read (want + 1) with ⟨r, d'⟩
      rw [hR] at hd
      cases r with
      | ok bs =>
        dsimp only
        have hl := fdev_read_len d (want + 1) bs d' hR
        split
        · exact ⟨hd, by show acc.length ≤ _; omega, by simp, by simp⟩
        · next hne =>
          have hne' : bs.length ≠ 0 := by
            intro h0; exact hne (by simp [List.length_eq_zero_iff.mp h0])
          obtain ⟨i1, i2, i3, i4⟩ := ih (want + 1 - bs.length) (acc ++ bs) d'
          simp only [List.length_append] at i2 i3
          exact ⟨by rw [i1]; exact hd, by omega, fun h => by rw [i3 h]; omega, i4⟩
      | err e =>
        cases e with
        | interrupted =>
          dsimp only
          obtain ⟨i1, i2, i3, i4⟩ := ih (want + 1) acc d'
          exact ⟨by rw [i1]; exact hd, i2, i3, i4⟩
        | _ => exact ⟨hd, by simp, by simp, by simp⟩
      | panic => exact ⟨hd, by simp, by simp, by simp⟩

/-- same file geometry, same cursor, same device contents -/
def Geom (a b : FPR) : Prop :=
  b.pageSize = a.pageSize ∧ b.physSize = a.physSize ∧ b.logSize = a.logSize ∧ b.pages = a.pages ∧
  b.offset = a.offset ∧ b.dev.dev.data = a.dev.dev.data

theorem Geom.refl (a : FPR) : Geom a a := ⟨rfl, rfl, rfl, rfl, rfl, rfl⟩

theorem Geom.trans {a b c : FPR} (h1 : Geom a b) (h2 : Geom b c) : Geom a c := by
  obtain ⟨a1, a2, a3, a4, a5, a6⟩ := h1
  obtain ⟨b1, b2, b3, b4, b5, b6⟩ := h2
  exact ⟨b1.trans a1, b2.trans a2, b3.trans a3, b4.trans a4, b5.trans a5, b6.trans a6⟩

theorem fillPage_shape (r : FPR) :
    Geom r (FPR.fillPage r).2 ∧ (FPR.fillPage r).2.pageNum = r.pageNum ∧
    (r.page.length = r.pageSize → (FPR.fillPage r).2.page.length = r.pageSize) ∧
    (FPR.fillPage r).1 ≠ .err .interrupted := by
  obtain ⟨h1, h2, h3, h4⟩ := readExactFuel_shape (r.dev.sched.length + r.pageSize + 1) r.pageSize [] r.dev
  unfold FPR.fillPage FDev.readExact
  rcases hR : FDev.readExactFuel (r.dev.sched.length + r.pageSize + 1) r.pageSize [] r.dev with ⟨x, bs, d⟩
  rw [hR] at h1 h2 h3 h4
  simp only [List.length_nil, Nat.zero_add] at h2 h3
  cases x with
  | ok u => exact ⟨⟨rfl, rfl, rfl, rfl, rfl, h1⟩, rfl, fun _ => h3 rfl, by simp⟩
  | err e =>
    refine ⟨⟨rfl, rfl, rfl, rfl, rfl, h1⟩, rfl, fun hl => ?_, h4⟩
    show (bs ++ r.page.drop bs.length).length = _
    simp only [List.length_append, List.length_drop]
    omega
  | panic =>
    refine ⟨⟨rfl, rfl, rfl, rfl, rfl, h1⟩, rfl, fun hl => ?_, by simp⟩
    show (bs ++ r.page.drop bs.length).length = _
    simp only [List.length_append, List.length_drop]
    omega

theorem seekStart_err_dev (p : Nat) (d : FDev) (e : Err) (h : (d.seekStart p).1 = .err e) :
    (d.seekStart p).2.dev = d.dev := by
  have hn := next_dev d
  unfold FDev.seekStart FDev.ctl at h ⊢
  split at h <;> (rename_i heq; rw [heq] at hn; simp only at hn h ⊢; try exact hn)
  simp at h

theorem seekStart_interrupted_sched (p : Nat) (d : FDev)
    (h : (d.seekStart p).1 = .err .interrupted) :
    d.sched = .interrupted :: (d.seekStart p).2.sched := by
  obtain ⟨v, s⟩ := d
  cases s with
  | nil => simp [FDev.seekStart, FDev.ctl, FDev.next] at h
  | cons b s => cases b <;> simp [FDev.seekStart, FDev.ctl, FDev.next] at h ⊢

theorem readPage_shape (p : Nat) (r : FPR) :
    Geom r (FPR.readPage p r).2 ∧
    (r.page.length = r.pageSize → (FPR.readPage p r).2.page.length = (FPR.readPage p r).2.pageSize) ∧
    ((FPR.readPage p r).1.isErr = true → p < r.pages → (FPR.readPage p r).2.pageNum = none) ∧
    ((FPR.readPage p r).1 = .err .interrupted →
      (FPR.readPage p r).2.abs = { r.abs with pageNum := none } ∧ p < r.pages ∧
      r.dev.sched = .interrupted :: (FPR.readPage p r).2.dev.sched) := by
  unfold FPR.readPage
  by_cases hp : p ≥ r.pages
  · rw [if_pos hp]
    exact ⟨Geom.refl r, fun h => h, fun _ h => absurd h (by omega), fun h => by simp at h⟩
  · rw [if_neg hp]
    have hp' : p < r.pages := by omega
    have hsd := seekStart_data (p * r.pageSize) r.dev
    have hse := seekStart_err_dev (p * r.pageSize) r.dev
    have hsi := seekStart_interrupted_sched (p * r.pageSize) r.dev
    rcases hS : FDev.seekStart (p * r.pageSize) r.dev with ⟨x1, d1⟩
    rw [hS] at hsd hse hsi
    dsimp only at hsd hse hsi
    have hio : FPR.io (FDev.seekStart (p * r.pageSize)) { r with pageNum := none } =
        (x1, { r with pageNum := none, dev := d1 }) := by
      unfold FPR.io; dsimp only; rw [hS]
    cases x1 with
    | ok a =>
      rw [M.bind_ok hio]
      obtain ⟨f1, f2, f3, f4⟩ := fillPage_shape { r with pageNum := none, dev := d1 }
      rcases hF : FPR.fillPage { r with pageNum := none, dev := d1 } with ⟨x2, r2⟩
      rw [hF] at f1 f2 f3 f4
      dsimp only at f1 f2 f3 f4
      have hg : Geom r r2 := by
        obtain ⟨g1, g2, g3, g4, g5, g6⟩ := f1
        exact ⟨g1, g2, g3, g4, g5, by rw [g6]; exact hsd⟩
      cases x2 with
      | ok u =>
        rw [M.bind_ok hF]
        unfold FPR.checkPage
        split
        · exact ⟨hg, fun h => by rw [f3 h, hg.1], fun _ _ => f2, fun h => by simp at h⟩
        · exact ⟨hg, fun h => by show r2.page.length = r2.pageSize; rw [f3 h, hg.1],
            fun h => by simp [Res.isErr] at h, fun h => by simp at h⟩
      | err e =>
        rw [M.bind_err hF]
        exact ⟨hg, fun h => by rw [f3 h, hg.1], fun _ _ => f2, fun h => by
          have : e = .interrupted := by injection h
          subst this; exact absurd rfl f4⟩
      | panic =>
        rw [M.bind_panic hF]
        exact ⟨hg, fun h => by rw [f3 h, hg.1], fun h => by simp [Res.isErr] at h,
          fun h => by simp at h⟩
    | err e =>
      rw [M.bind_err hio]
      refine ⟨⟨rfl, rfl, rfl, rfl, rfl, hsd⟩, fun h => h, fun _ _ => rfl,
        fun he => ⟨?_, hp', ?_⟩⟩
      · unfold FPR.abs
        dsimp only
        rw [hse e rfl]
      · have : e = .interrupted := by injection he
        subst this
        exact hsi rfl
    | panic =>
      rw [M.bind_panic hio]
      exact ⟨⟨rfl, rfl, rfl, rfl, rfl, hsd⟩, fun h => h, fun h => by simp [Res.isErr] at h,
        fun h => by simp at h⟩

/-- **a failing `read` invalidates the cache**: whatever went wrong (device fault, short file, bad
    checksum), the reader is left on the same file at the same cursor with `page_num = None` -/
theorem read_err_state (n : Nat) (r : FPR) (e : Err) (r1 : FPR) (h : FPR.read n r = (.err e, r1)) :
    Geom r r1 ∧ r1.pageNum = none ∧ (r.page.length = r.pageSize → r1.page.length = r1.pageSize) ∧
    (e = .interrupted → r1.abs = { r.abs with pageNum := none } ∧
      r.offset / (r.pageSize - 4) < r.pages ∧ r.pageNum ≠ some (r.offset / (r.pageSize - 4)) ∧
      r.dev.sched = .interrupted :: r1.dev.sched) := by
  unfold FPR.read at h
  by_cases hpg : r.offset / (r.pageSize - 4) ≥ r.pages
  · simp only [if_pos hpg] at h
    simp at h
  · simp only [if_neg hpg] at h
    by_cases hc : r.pageNum ≠ some (r.offset / (r.pageSize - 4))
    · simp only [if_pos hc] at h
      rw [M.bind_apply] at h
      obtain ⟨g1, g2, g3, g4⟩ := readPage_shape (r.offset / (r.pageSize - 4)) r
      rcases hR : FPR.readPage (r.offset / (r.pageSize - 4)) r with ⟨x, r2⟩
      rw [hR] at h g1 g2 g3 g4
      cases x with
      | ok u => simp [FPR.readTail] at h
      | err e' =>
        simp only [Prod.mk.injEq, Res.err.injEq] at h
        obtain ⟨h1, h2⟩ := h
        subst h1 h2
        exact ⟨g1, g3 rfl (by omega), g2, fun he => by
          subst he
          exact ⟨(g4 rfl).1, by omega, hc, (g4 rfl).2.2⟩⟩
      | panic => simp at h
    · simp only [if_neg hc] at h
      simp [FPR.readTail] at h

theorem cacheInv_dropcache (q : PR) (h : q.CacheInv) : ({ q with pageNum := none } : PR).CacheInv := by
  obtain ⟨a, b, c, d, e, f, _⟩ := h
  exact ⟨a, b, c, d, e, f, fun p hp => by simp at hp⟩

/-- **after a failing `read` the reader behaves like the original reader with its cache dropped**:
    it is `PR.Equiv` to it, so (E57/Proofs/History.lean: `pr_read_equiv`, `pr_readExact_equiv`, …)
    every later operation returns exactly what it returns there -/
theorem read_fail_equiv (n : Nat) (r : FPR) (e : Err) (r1 : FPR) (hinv : r.abs.CacheInv)
    (h : FPR.read n r = (.err e, r1)) :
    r1.pageNum = none ∧ r1.abs.Equiv { r.abs with pageNum := none } := by
  obtain ⟨⟨g1, g2, g3, g4, g5, g6⟩, hn, hl, _⟩ := read_err_state n r e r1 h
  obtain ⟨a, b, c, d, e', f, _⟩ := hinv
  have hinv1 : r1.abs.CacheInv := by
    refine ⟨?_, ?_, ?_, ?_, ?_, hl f, fun p hp => ?_⟩
    · show r1.dev.dev.data.length = r1.physSize; rw [g6, g2]; exact a
    · show r1.physSize = r1.pages * r1.pageSize; rw [g2, g4, g1]; exact b
    · show 4 < r1.pageSize; rw [g1]; exact c
    · show 0 < r1.pages; rw [g4]; exact d
    · show r1.logSize = r1.pages * (r1.pageSize - 4); rw [g3, g4, g1]; exact e'
    · have : r1.pageNum = some p := hp
      rw [hn] at this; cases this
  exact ⟨hn, ⟨g6, g1, g2, g3, g4, g5⟩, hinv1,
    cacheInv_dropcache r.abs ⟨a, b, c, d, e', f, by assumption⟩⟩

/-! ### `read_exact` of the paged reader -/

theorem pr_readPage_dropcache (q : PR) (p : Nat) (h : p < q.pages) :
    PR.readPage { q with pageNum := none } p = PR.readPage q p := by
  have h' : ¬ p ≥ q.pages := by omega
  simp only [PR.readPage, h', ↓reduceIte]

theorem pr_read_dropcache (q : PR) (n : Nat) (h1 : q.offset / (q.pageSize - 4) < q.pages)
    (h2 : q.pageNum ≠ some (q.offset / (q.pageSize - 4))) :
    PR.read { q with pageNum := none } n = PR.read q n ∧
    PR.readFailState { q with pageNum := none } = PR.readFailState q := by
  have h1' : ¬ q.offset / (q.pageSize - 4) ≥ q.pages := by omega
  have hd := pr_readPage_dropcache q (q.offset / (q.pageSize - 4)) h1
  constructor
  · simp only [PR.read, h1', h2, ↓reduceIte, ne_eq, reduceCtorEq, not_false_eq_true, hd]
  · simp only [PR.readFailState, h1', h2, ↓reduceIte, ne_eq, reduceCtorEq, not_false_eq_true, hd]

theorem pr_readExactFuel_dropcache (f : Nat) (q : PR) (n : Nat) (acc : Bytes)
    (h1 : q.offset / (q.pageSize - 4) < q.pages)
    (h2 : q.pageNum ≠ some (q.offset / (q.pageSize - 4))) :
    PR.readExactFuel (f + 1) { q with pageNum := none } (n + 1) acc =
      PR.readExactFuel (f + 1) q (n + 1) acc := by
  obtain ⟨e1, e2⟩ := pr_read_dropcache q (n + 1) h1 h2
  unfold PR.readExactFuel
  rw [e1, e2]

/-- the ideal `read_exact`, as (result, state) -/
def iReadExact (f n : Nat) (acc : Bytes) : PR → Option Bytes × PR :=
  fun q => ((PR.readExactFuel f q n acc).2, (PR.readExactFuel f q n acc).1)

theorem iReadExact_succ (f n : Nat) (acc : Bytes) (q : PR) :
    iReadExact (f + 1) (n + 1) acc q =
      ibind (iRead (n + 1)) (fun bs q' =>
        if bs.isEmpty then (none, q')
        else iReadExact f (n + 1 - bs.length) (acc ++ bs) q') q := by
  unfold iReadExact ibind iRead
  conv => lhs; unfold PR.readExactFuel
  cases hq : q.read (n + 1) with
  | ok x =>
    obtain ⟨q', bs⟩ := x
    dsimp only
    split <;> rfl
  | err e => rfl
  | panic e => rfl

theorem fpr_readExactFuel_post (fuel : Nat) : ∀ (n : Nat) (acc : Bytes) (f2 : Nat) (s : FPR),
    Sane s.dev.sched → s.dev.sched.length + n < fuel → n < f2 →
    Post VR false (iReadExact f2 n acc) s (FPR.readExactFuel fuel n acc s) := by
  induction fuel with
  | zero => intro n acc f2 s _ h; omega
  | succ fuel ih =>
    intro n acc f2 s hs hfu hf2
    cases n with
    | zero =>
      unfold FPR.readExactFuel
      refine ⟨[], rfl, ?_, NoFail.nil, rfl⟩
      unfold iReadExact
      cases f2 <;> rfl
    | succ n =>
      obtain ⟨f2, rfl⟩ : ∃ f, f2 = f + 1 := ⟨f2 - 1, by omega⟩
      have hw := read_sim (n + 1) s hs rfl
      unfold FPR.readExactFuel
      rcases hR : FPR.read (n + 1) s with ⟨x, s1⟩
      rw [hR] at hw
      have hs1 : Sane s1.dev.sched := hw.sane_next hs
      have hlen : s1.dev.sched.length ≤ s.dev.sched.length := by
        obtain ⟨pre, hp, _⟩ := hw
        have : s.dev.sched = pre ++ s1.dev.sched := hp
        rw [this]; simp
      cases x with
      | ok bs =>
        dsimp only
        have hw' := hw
        obtain ⟨pre, hp, hi, hnf, _⟩ := hw'
        dsimp only at hi hp
        by_cases hemp : bs.isEmpty = true
        · rw [if_pos hemp]
          refine ⟨pre, hp, ?_⟩
          dsimp only
          rw [if_pos (by rfl)]
          refine ⟨?_, hnf, rfl⟩
          rw [iReadExact_succ]
          unfold ibind
          rw [hi]
          dsimp only
          rw [if_pos hemp]
        · rw [if_neg hemp]
          have hne : bs.length ≠ 0 := by
            intro h0; exact hemp (by simp [List.length_eq_zero_iff.mp h0])
          have hpost := ih (n + 1 - bs.length) (acc ++ bs) f2 s1 hs1 (by omega) (by omega)
          have := Post.seq (j := fun bs q' =>
            if bs.isEmpty then (none, q')
            else iReadExact f2 (n + 1 - bs.length) (acc ++ bs) q') hw
            (hpost.congr (by show _ = if _ then _ else _; rw [if_neg hemp]))
          refine this.congr ?_
          rw [iReadExact_succ]
      | err e =>
        by_cases he : e = .interrupted
        · subst he
          dsimp only
          obtain ⟨_, _, _, hint⟩ := read_err_state (n + 1) s .interrupted s1 hR
          obtain ⟨habs, hpg, hpn, hsched⟩ := hint rfl
          have hlt : s1.dev.sched.length + (n + 1) < fuel := by
            have : s.dev.sched.length = s1.dev.sched.length + 1 := by rw [hsched]; simp
            omega
          obtain ⟨pre2, hp2, hm2⟩ := ih (n + 1) acc (f2 + 1) s1 hs1 hlt hf2
          have hideal : iReadExact (f2 + 1) (n + 1) acc (VR.abs s1) =
              iReadExact (f2 + 1) (n + 1) acc (VR.abs s) := by
            show iReadExact _ _ _ s1.abs = iReadExact _ _ _ s.abs
            rw [habs]
            unfold iReadExact
            rw [pr_readExactFuel_dropcache f2 s.abs n acc hpg hpn]
          refine ⟨.interrupted :: pre2, ?_, ?_⟩
          · show s.dev.sched = _
            rw [hsched]
            show _ :: s1.dev.sched = _ :: (pre2 ++ _)
            rw [show s1.dev.sched = pre2 ++ _ from hp2]
          · have hni : NoFail [Beh.interrupted] := noFail_single rfl
            cases hx : (FPR.readExactFuel fuel (n + 1) acc s1).1 with
            | ok b =>
              rw [hx] at hm2
              exact ⟨by rw [← hideal]; exact hm2.1, hni.append hm2.2.1, rfl⟩
            | err e' =>
              rw [hx] at hm2
              dsimp only at hm2 ⊢
              by_cases hl : VR.logic e' = true
              · rw [if_pos hl] at hm2 ⊢
                exact ⟨by rw [← hideal]; exact hm2.1, hni.append hm2.2.1, rfl⟩
              · rw [if_neg hl] at hm2 ⊢
                exact ⟨not_benign_interrupted _, fun h => by cases h⟩
            | panic => rw [hx] at hm2; exact hm2.elim
        · obtain ⟨pre, hp, hm⟩ := hw
          have hres : Post VR false (iReadExact (f2 + 1) (n + 1) acc) s (.err e, s1) := by
            refine ⟨pre, hp, ?_⟩
            dsimp only at hm ⊢
            by_cases hl : VR.logic e = true
            · rw [if_pos hl] at hm ⊢
              refine ⟨?_, hm.2⟩
              rw [iReadExact_succ]
              unfold ibind
              rw [hm.1]
            · rw [if_neg hl] at hm ⊢
              exact hm
          cases e <;> first | exact hres | exact absurd rfl he
      | panic =>
        obtain ⟨pre, hp, hm⟩ := hw
        exact hm.elim

/-- `read_exact` of the paged reader = `PR.readExact`; an `Interrupted` seek is retried and changes
    nothing -/
theorem readExact_sim (n : Nat) :
    Sim VR false (FPR.readExact n) (fun q => ((q.readExact n).2, (q.readExact n).1)) :=
  fun s hs _ => fpr_readExactFuel_post _ n [] (n + 1) s hs (by omega) (by omega)

theorem seekPhysical_sim (p : Nat) :
    Sim VR false (FPR.seekPhysical p)
      (fun q => match q.seekPhysical p with
        | .ok (q', o) => (some o, q')
        | _ => (none, q)) := by
  intro s _ _
  unfold FPR.seekPhysical
  by_cases h : p ≥ s.physSize
  · rw [if_pos h]
    refine ⟨[], rfl, ?_⟩
    dsimp only
    rw [if_pos (by rfl)]
    have : p ≥ (VR.abs s).physSize := h
    exact ⟨by simp only [PR.seekPhysical, this, ↓reduceIte], NoFail.nil, rfl⟩
  · rw [if_neg h]
    have : ¬ p ≥ (VR.abs s).physSize := h
    exact ⟨[], rfl, by simp only [PR.seekPhysical, this, ↓reduceIte]; rfl, NoFail.nil, rfl⟩

theorem rAlign_sim :
    Sim VR false FPR.align
      (fun q => match q.align with
        | .ok q' => (some (), q')
        | _ => (none, q)) := by
  intro s _ _
  unfold FPR.align
  by_cases h : s.offset % 4 ≠ 0
  · have h' : (VR.abs s).offset % 4 ≠ 0 := h
    rw [if_pos h]
    by_cases h2 : s.offset + (4 - s.offset % 4) > s.logSize
    · have h2' : (VR.abs s).offset + (4 - (VR.abs s).offset % 4) > (VR.abs s).logSize := h2
      rw [if_pos h2]
      refine ⟨[], rfl, ?_⟩
      dsimp only
      rw [if_pos (by rfl)]
      refine ⟨?_, NoFail.nil, rfl⟩
      unfold PR.align
      dsimp only
      rw [if_pos h', if_pos h2']
    · have h2' : ¬ (VR.abs s).offset + (4 - (VR.abs s).offset % 4) > (VR.abs s).logSize := h2
      rw [if_neg h2]
      refine ⟨[], rfl, ?_, NoFail.nil, rfl⟩
      unfold PR.align
      dsimp only
      rw [if_pos h', if_neg h2']
      rfl
  · have h' : ¬ (VR.abs s).offset % 4 ≠ 0 := h
    rw [if_neg h]
    refine ⟨[], rfl, ?_, NoFail.nil, rfl⟩
    unfold PR.align
    dsimp only
    rw [if_neg h']

/-- the ideal reader's version of an operation (`none` = the ideal reader fails too) -/
def iRStep : ROp → PR → Option RResult × PR
  | .read n, q => ((iRead n q).1.map .bytes, (iRead n q).2)
  | .readExact n, q => ((q.readExact n).2.map .bytes, (q.readExact n).1)
  | .seek p, q =>
    match q.seekPhysical p with
    | .ok (q', o) => (some (.num o), q')
    | _ => (none, q)
  | .align, q =>
    match q.align with
    | .ok q' => (some (.num 0), q')
    | _ => (none, q)

/-- the result as the ideal reader shows it: every error is just "failed" -/
def RResult.view : RResult → Option RResult
  | .err _ => none
  | x => some x

/-- a reader result that is not a device fault -/
def RResult.clean : RResult → Bool
  | .err e => e.isLogic
  | .panic => false
  | _ => true

/-- what a reader result says (sane schedule): the ideal reader's result with corresponding
    states and no `fail` consumed, or a device error after a non-benign behaviour; never a panic -/
def RPost (i : PR → Option RResult × PR) (s : FPR) (x : RResult × FPR) : Prop :=
  ∃ pre, s.dev.sched = pre ++ x.2.dev.sched ∧
    if x.1.clean = true then i s.abs = (x.1.view, x.2.abs) ∧ NoFail pre
    else (∃ e, x.1 = .err e ∧ e.isLogic = false) ∧ ¬ Benign pre

theorem toR_post {α : Type} (c : α → RResult) (hc : ∀ a, (c a).clean = true ∧ (c a).view = some (c a))
    {i : PR → Option α × PR} {s : FPR} {x : Res α × FPR} (h : Post VR false i s x) :
    RPost (fun q => ((i q).1.map c, (i q).2)) s (toR c x) := by
  obtain ⟨pre, hp, hm⟩ := h
  refine ⟨pre, hp, ?_⟩
  unfold toR
  cases hx : x.1 with
  | ok a =>
    rw [hx] at hm
    dsimp only
    rw [if_pos (hc a).1, (hc a).2]
    have : i s.abs = (some a, x.2.abs) := hm.1
    exact ⟨by rw [this]; rfl, hm.2.1⟩
  | err e =>
    rw [hx] at hm
    dsimp only at hm ⊢
    by_cases hl : e.isLogic = true
    · rw [if_pos (show VR.logic e = true from hl)] at hm
      rw [if_pos (show (RResult.err e).clean = true from hl)]
      have : i s.abs = (none, x.2.abs) := hm.1
      exact ⟨by rw [this]; rfl, hm.2.1⟩
    · rw [if_neg (show ¬ VR.logic e = true from hl)] at hm
      rw [if_neg (show ¬ (RResult.err e).clean = true from hl)]
      exact ⟨⟨e, rfl, by simpa using hl⟩, hm.1⟩
  | panic => rw [hx] at hm; exact hm.elim

/-- **every operation of the paged reader over a faulty device** -/
theorem rstep_post (op : ROp) (s : FPR) (hs : Sane s.dev.sched) :
    RPost (iRStep op) s (FPR.step op s) := by
  cases op with
  | read n => exact toR_post .bytes (fun _ => ⟨rfl, rfl⟩) (read_sim n s hs rfl)
  | readExact n => exact toR_post .bytes (fun _ => ⟨rfl, rfl⟩) (readExact_sim n s hs rfl)
  | seek p =>
    have := toR_post .num (fun _ => ⟨rfl, rfl⟩) (seekPhysical_sim p s hs rfl)
    unfold RPost at this ⊢
    have e : iRStep (.seek p) s.abs = (fun q => ((match q.seekPhysical p with
        | .ok (q', o) => (some o, q')
        | _ => (none, q)).1.map RResult.num, (match q.seekPhysical p with
        | .ok (q', o) => (some o, q')
        | _ => (none, q)).2)) s.abs := by
      simp only [iRStep]
      split <;> rfl
    rw [e]; exact this
  | align =>
    have := toR_post (fun (_ : Unit) => RResult.num 0) (fun _ => ⟨rfl, rfl⟩) (rAlign_sim s hs rfl)
    unfold RPost at this ⊢
    have e : iRStep .align s.abs = (fun q => ((match q.align with
        | .ok q' => (some (), q')
        | _ => (none, q)).1.map (fun _ => RResult.num 0), (match q.align with
        | .ok q' => (some (), q')
        | _ => (none, q)).2)) s.abs := by
      simp only [iRStep]
      split <;> rfl
    rw [e]; exact this

/-- the ideal reader's run -/
def iRRun : List ROp → PR → List (Option RResult) × PR
  | [], q => ([], q)
  | op :: ops, q =>
    ((iRStep op q).1 :: (iRRun ops (iRStep op q).2).1, (iRRun ops (iRStep op q).2).2)

theorem rrunOps_cons (op : ROp) (ops : List ROp) (s : FPR) :
    FPR.runOps (op :: ops) s =
      ((FPR.step op s).1 :: (FPR.runOps ops (FPR.step op s).2).1,
        (FPR.runOps ops (FPR.step op s).2).2) := rfl

/-- a reader run without device faults is the ideal reader's run: the same values read -/
theorem rrun_clean (ops : List ROp) : ∀ (s : FPR), Sane s.dev.sched →
    (∀ x ∈ (FPR.runOps ops s).1, x.clean = true) →
    (FPR.runOps ops s).1.map RResult.view = (iRRun ops s.abs).1 ∧
    (FPR.runOps ops s).2.abs = (iRRun ops s.abs).2 ∧
    ∃ pre, s.dev.sched = pre ++ (FPR.runOps ops s).2.dev.sched ∧ NoFail pre := by
  induction ops with
  | nil => intro s _ _; exact ⟨rfl, rfl, [], rfl, NoFail.nil⟩
  | cons op ops ih =>
    intro s hs hc
    rw [rrunOps_cons] at hc ⊢
    obtain ⟨pre1, hp1, hm⟩ := rstep_post op s hs
    rw [if_pos (hc _ (by simp))] at hm
    obtain ⟨h1, hn1⟩ := hm
    have hs1 : Sane (FPR.step op s).2.dev.sched := by rw [hp1] at hs; exact hs.append_right
    obtain ⟨i1, i2, pre2, hp2, hn2⟩ := ih _ hs1 (fun x hx => hc x (List.mem_cons_of_mem _ hx))
    have e1 : (iRStep op s.abs).1 = (FPR.step op s).1.view := by rw [h1]
    have e2 : (iRStep op s.abs).2 = (FPR.step op s).2.abs := by rw [h1]
    refine ⟨?_, ?_, pre1 ++ pre2, by rw [hp1, hp2, List.append_assoc], hn1.append hn2⟩
    · show _ :: _ = (_ :: _ : List (Option RResult))
      rw [i1, e1, e2]
    · show _ = (iRRun ops (iRStep op s.abs).2).2
      rw [i2, e2]

theorem rrun_benign (ops : List ROp) : ∀ (s : FPR), Benign s.dev.sched →
    ∀ x ∈ (FPR.runOps ops s).1, x.clean = true := by
  induction ops with
  | nil => intro s _ x hx; simp [FPR.runOps] at hx
  | cons op ops ih =>
    intro s hb x hx
    rw [rrunOps_cons] at hx
    obtain ⟨pre1, hp1, hm⟩ := rstep_post op s hb.sane
    rw [hp1] at hb
    have hc : (FPR.step op s).1.clean = true := by
      by_cases h : (FPR.step op s).1.clean = true
      · exact h
      · rw [if_neg h] at hm; exact absurd hb.append_left hm.2
    rcases List.mem_cons.mp hx with h | h
    · rw [h]; exact hc
    · exact ih _ hb.append_right x h

/-- **short reads change nothing** (reader side): on a benign schedule every operation returns what
    the ideal reader returns -- identical bytes, identical offsets, identical failures -/
theorem short_reads_change_nothing (ops : List ROp) (s : FPR) (hb : Benign s.dev.sched) :
    (FPR.runOps ops s).1.map RResult.view = (iRRun ops s.abs).1 ∧
    (FPR.runOps ops s).2.abs = (iRRun ops s.abs).2 := by
  obtain ⟨h1, h2, _⟩ := rrun_clean ops s hb.sane (rrun_benign ops s hb)
  exact ⟨h1, h2⟩

/-- no reader operation panics -/
theorem rstep_no_panic (op : ROp) (s : FPR) (hs : Sane s.dev.sched) :
    (FPR.step op s).1 ≠ .panic := by
  obtain ⟨pre, _, hm⟩ := rstep_post op s hs
  intro hp
  rw [hp] at hm
  simp [RResult.clean] at hm

/-- `PagedReader::new` -/
theorem rnew_post (d : FDev) (ps : Nat) :
    ∃ pre, d.sched = pre ++ (FPR.new d ps).2.sched ∧
      match (FPR.new d ps).1 with
      | .ok r => r.dev = (FPR.new d ps).2 ∧ PR.new d.dev ps = .ok r.abs ∧ NoFail pre
      | .err e =>
          if e = .invalid then (∃ msg, PR.new d.dev ps = .err msg) ∧ NoFail pre else ¬ Benign pre
      | .panic => False := by
  unfold FPR.new PR.new
  by_cases h1 : ps > 1048576
  · rw [if_pos h1, if_pos h1]
    exact ⟨[], rfl, by dsimp only; rw [if_pos rfl]; exact ⟨⟨_, rfl⟩, NoFail.nil⟩⟩
  · rw [if_neg h1, if_neg h1]
    by_cases h2 : ps ≤ 4
    · rw [if_pos h2, if_pos h2]
      exact ⟨[], rfl, by dsimp only; rw [if_pos rfl]; exact ⟨⟨_, rfl⟩, NoFail.nil⟩⟩
    · rw [if_neg h2, if_neg h2]
      obtain ⟨pre, hp, hm⟩ := ctl_post (fun v => (v.seekEnd.2, v.seekEnd.1)) d
      unfold FDev.seekEnd
      rcases hR : d.ctl (fun v => (v.seekEnd.2, v.seekEnd.1)) with ⟨r, d'⟩
      rw [hR] at hp hm
      cases r with
      | ok phys =>
        dsimp only at hm hp ⊢
        have e1 : d.dev.seekEnd.2 = phys := congrArg Prod.fst hm.1
        have e2 : d.dev.seekEnd.1 = d'.dev := congrArg Prod.snd hm.1
        have e3 : d.dev.seekEnd = (d'.dev, phys) := by rw [← e1, ← e2]
        rw [e3]
        dsimp only
        by_cases h3 : phys = 0
        · rw [if_pos h3, if_pos h3]
          exact ⟨pre, hp, by dsimp only; rw [if_pos rfl]; exact ⟨⟨_, rfl⟩, hm.2⟩⟩
        · rw [if_neg h3, if_neg h3]
          by_cases h4 : phys % ps ≠ 0
          · rw [if_pos h4, if_pos h4]
            exact ⟨pre, hp, by dsimp only; rw [if_pos rfl]; exact ⟨⟨_, rfl⟩, hm.2⟩⟩
          · rw [if_neg h4, if_neg h4]
            exact ⟨pre, hp, rfl, rfl, hm.2⟩
      | err e =>
        dsimp only at hm hp ⊢
        refine ⟨pre, hp, ?_⟩
        have : e ≠ .invalid := by intro h; subst h; simp [Err.isDev] at hm
        rw [if_neg this]; exact hm.1
      | panic => exact hm.elim

/-! # 10. `Interrupted`: which schedules the code survives

The std loops `write_all` and `read_exact` retry `ErrorKind::Interrupted`; nothing else in the page
layer does.  Hence, on the writer side, an `interrupted` is survived exactly when it is consumed by
a device `write` (all of them sit inside `write_all`); consumed by `seek` / `stream_position` /
`flush` or by a `read` of `read_current_page` it makes the operation fail, `guard_io`/`guard` set the
latch, and even the retry that `write_all` over `PagedWriter::write` performs only finds the latch.
On the reader side `read_exact` into the page buffer survives it; an interrupted `seek` fails the
`read` call, but `read_exact` over the paged reader retries it (`fpr_readExactFuel_post`). -/

theorem ctl_interrupted {α : Type} (f : Dev → α × Dev) (v : Dev) (s : List Beh) :
    FDev.ctl ⟨v, .interrupted :: s⟩ f = (.err .interrupted, ⟨v, s⟩) := rfl

theorem readLoop_interrupted (fuel want : Nat) (acc : Bytes) (v : Dev) (s : List Beh) :
    FDev.readLoopFuel (fuel + 1) (want + 1) acc ⟨v, .interrupted :: s⟩ =
      (.err .interrupted, acc, ⟨v, s⟩) := rfl

theorem writeAll_interrupted (fuel : Nat) (b : UInt8) (bs : Bytes) (v : Dev) (s : List Beh) :
    FDev.writeAllFuel (fuel + 1) (b :: bs) ⟨v, .interrupted :: s⟩ =
      FDev.writeAllFuel fuel (b :: bs) ⟨v, s⟩ := rfl

theorem readExact_interrupted (fuel want : Nat) (acc : Bytes) (v : Dev) (s : List Beh) :
    FDev.readExactFuel (fuel + 1) (want + 1) acc ⟨v, .interrupted :: s⟩ =
      FDev.readExactFuel fuel (want + 1) acc ⟨v, s⟩ := rfl

/-- `write_all` on the device succeeds on EVERY sane schedule without `fail` -- short transfers and
    any number of `Interrupted` included -/
theorem writeAllFuel_noFail (fuel : Nat) : ∀ (buf : Bytes) (d : FDev), Sane d.sched →
    NoFail d.sched → d.sched.length + buf.length < fuel →
    (FDev.writeAllFuel fuel buf d).1 = .ok () := by
  intro buf d hs hn hf
  have hpost := writeAllFuel_post fuel buf d hs hf
  by_cases hb : buf = []
  · subst hb; rw [writeAllFuel_nil]
  · obtain ⟨pre, hp, hm⟩ := hpost (fun h => absurd h hb)
    cases hx : (FDev.writeAllFuel fuel buf d).1 with
    | ok u => rfl
    | panic => rw [hx] at hm; exact hm.elim
    | err e =>
      -- an error of `write_all` needs a `fail`: re-run the induction on that fact
      exfalso
      clear hpost hm hp pre
      induction fuel generalizing buf d with
      | zero => omega
      | succ fuel ih =>
        cases buf with
        | nil => exact hb rfl
        | cons b bs =>
          obtain ⟨v, s⟩ := d
          cases s with
          | nil =>
            unfold FDev.writeAllFuel at hx
            rw [write_nil] at hx
            simp only [List.length_cons, Nat.add_one_ne_zero, ↓reduceIte] at hx
            rw [show List.drop (bs.length + 1) (b :: bs) = [] by simp, writeAllFuel_nil] at hx
            cases hx
          | cons beh s =>
            have hs' : Sane s := hs.tail
            have hn' : NoFail s := fun x hx => hn x (List.mem_cons_of_mem _ hx)
            simp only [List.length_cons] at hf
            cases beh with
            | full =>
              unfold FDev.writeAllFuel at hx
              rw [write_full] at hx
              simp only [List.length_cons, Nat.add_one_ne_zero, ↓reduceIte] at hx
              rw [show List.drop (bs.length + 1) (b :: bs) = [] by simp, writeAllFuel_nil] at hx
              cases hx
            | short n =>
              have h1 : 1 ≤ n := hs.head_short
              unfold FDev.writeAllFuel at hx
              rw [write_short] at hx
              have hk : min n (b :: bs).length ≠ 0 := by simp; omega
              simp only [hk, ↓reduceIte] at hx
              by_cases hd : (b :: bs).drop (min n (b :: bs).length) = []
              · rw [hd, writeAllFuel_nil] at hx; cases hx
              · exact ih _ _ hs' hn' (by simp only [List.length_drop, List.length_cons]; omega) hd hx
            | fail => exact absurd (hn .fail (by simp)) (by simp [Beh.noFail])
            | interrupted =>
              rw [writeAll_interrupted] at hx
              exact ih _ _ hs' hn' (by simp only [List.length_cons]; omega) (by simp) hx

/-! # 11. `short 0`: the restriction to sane schedules cannot be dropped

A device whose `read` returns `Ok(0)` although bytes are available violates the `Read` contract
(`Ok(0)` means end of file).  `read_current_page` then zero-fills the page buffer, a later write to
that page destroys what was there, and every call reports success. -/

/-- the statement of `finalize_ok_complete_partial` for ANY schedule -/
def finalize_ok_complete_statement : Prop :=
  ∀ (ops : List Op) (sched : List Beh),
    (∀ r ∈ (FPW.run (ops ++ [.flush]) ⟨Dev.empty, sched⟩).1, r.isOk = true) →
    (FPW.run (ops ++ [.flush]) ⟨Dev.empty, sched⟩).2.dev.data =
      Spec.image (runSpec (ops.filterMap Op.toW) Spec.LogStream.init).data

/-- write 4 bytes, flush, seek back to 0, overwrite the first byte -/
def badOps : List Op := [.write [1, 2, 3, 4], .flush, .seek 0, .write [9]]

/-- the 13th device call is the `read` of `read_current_page` inside `physical_seek` -/
def badSched : List Beh := List.replicate 12 .full ++ [.short 0]

def badCheck : Bool :=
  let out := FPW.run (badOps ++ [.flush]) ⟨Dev.empty, badSched⟩
  out.1.all Res.isOk &&
  decide (out.2.dev.data.take 4 = [9, 0, 0, 0]) &&
  decide ((Spec.image (runSpec (badOps.filterMap Op.toW) Spec.LogStream.init).data).take 4 =
    [9, 2, 3, 4])

set_option maxRecDepth 100000 in
theorem badCheck_true : badCheck = true := by decide +kernel

theorem finalize_ok_complete_statement_false : ¬ finalize_ok_complete_statement := by
  intro h
  have hc := badCheck_true
  unfold badCheck at hc
  simp only [Bool.and_eq_true, decide_eq_true_eq, List.all_eq_true] at hc
  obtain ⟨⟨h1, h2⟩, h3⟩ := hc
  have := h badOps badSched h1
  rw [this, h3] at h2
  revert h2; decide

/-! # 12. Non-vacuity (kernel-evaluated)

`exOps`: 1021 bytes (the page boundary is crossed: one page is committed with `write_all`, the next
page is read back with `read_current_page`), three more bytes, flush, position. -/

def exOps : List Op := [.write (List.replicate 1021 7), .write [1, 2, 3], .flush, .position]

/-- the first page goes out in short writes of 100 and 500 bytes, then the device fails -/
def exFault : List Beh := [.full, .short 100, .short 500, .fail]

/-- the error surfaces in the call in progress, the latch holds for every later call, the device
    holds the 600 bytes that were transferred, nothing is touched afterwards -/
def exFaultCheck : Bool :=
  let out := FPW.run exOps ⟨Dev.empty, exFault⟩
  decide (out.1 = [.ok 0, .err .io, .err .latched, .err .latched, .err .latched]) &&
  decide (out.2.dev.data.length = 600) && decide (out.2.sched = []) &&
  decide (Sane exFault) && decide (¬ Benign exFault)

set_option maxRecDepth 100000 in
theorem exFaultCheck_true : exFaultCheck = true := by decide +kernel

/-- short writes across the page boundary, short reads, `Interrupted` inside `write_all`: all
    calls succeed and the device is the one of the unchunked run (checksum bytes are not forced here:
    that the whole device is equal is `short_io_changes_nothing`) -/
def exSoft : List Beh :=
  [.full, .short 100, .interrupted, .short 500, .short 1000, .full, .short 3, .full, .full,
   .short 7, .interrupted, .short 1000, .short 17]

def exSoftCheck : Bool :=
  let a := FPW.run exOps ⟨Dev.empty, exSoft⟩
  let b := FPW.run exOps ⟨Dev.empty, []⟩
  decide (a.1 = [.ok 0, .ok 0, .ok 0, .ok 0, .ok 1028]) && decide (b.1 = a.1) &&
  decide (a.2.dev.data.length = 2048) &&
  decide (a.2.dev.data.take 1020 = b.2.dev.data.take 1020) &&
  decide ((a.2.dev.data.drop 1024).take 1020 = (b.2.dev.data.drop 1024).take 1020) &&
  decide ((a.2.dev.data.drop 1024).take 5 = [7, 1, 2, 3, 0]) && decide (Sane exSoft)

set_option maxRecDepth 100000 in
theorem exSoftCheck_true : exSoftCheck = true := by decide +kernel

/-- a benign schedule (hypothesis of `short_io_changes_nothing` / `benign_complete`) -/
example : Benign [.full, .short 100, .short 500, .short 1000, .full, .short 3] := by decide

/-- an `Interrupted` consumed by `stream_position` (2nd device call of the run, 1st of `flush`)
    makes `flush` fail and sets the latch; consumed by the `write` it is retried -/
def exIntrCheck : Bool :=
  let a := FPW.run [.write [1], .flush, .position] ⟨Dev.empty, [.full, .interrupted]⟩
  let b := FPW.run [.write [1], .flush, .position] ⟨Dev.empty, [.full, .full, .interrupted, .short 9]⟩
  decide (a.1 = [.ok 0, .ok 0, .err .interrupted, .err .latched]) &&
  decide (b.1 = [.ok 0, .ok 0, .ok 0, .ok 1]) && decide (b.2.dev.data.length = 1024)

set_option maxRecDepth 100000 in
theorem exIntrCheck_true : exIntrCheck = true := by decide +kernel

/-! ### the reader: a two-page file with page size 8 (4 payload bytes + checksum) -/

def exImage : Bytes := [1, 2, 3, 4] ++ crcBytes [1, 2, 3, 4] ++ ([5, 6, 7, 8] ++ crcBytes [5, 6, 7, 8])

def exROps : List ROp := [.readExact 6, .read 10, .seek 9, .readExact 2, .read 1]

/-- short reads, an interrupted read inside `read_exact`, an interrupted seek retried by the outer
    `read_exact`: the values read are those of the ideal device -/
def exRSoft : List Beh :=
  [.full, .short 3, .short 1, .interrupted, .short 2, .full, .interrupted, .full, .short 5, .short 9]

def exRCheck : Bool :=
  let a := FPR.run 8 exROps ⟨⟨exImage, 0⟩, exRSoft⟩
  let b := FPR.run 8 exROps ⟨⟨exImage, 0⟩, []⟩
  decide (a.1 = [.num 0, .bytes [1, 2, 3, 4, 5, 6], .bytes [7, 8], .num 5, .bytes [6, 7], .bytes [8]]) &&
  decide (a.1 = b.1) && decide (Sane exRSoft)

theorem exRCheck_true : exRCheck = true := by decide +kernel

/-- a device fault during `read_page`: the call fails, the cache is invalid, and -- the reader has
    no latch -- the next call reads the page again and succeeds -/
def exRFaultCheck : Bool :=
  let r0 := (FPR.new ⟨⟨exImage, 0⟩, [.full, .full, .short 3, .fail]⟩ 8).1
  match r0 with
  | .ok r =>
    let x := FPR.step (.read 4) r
    let y := FPR.step (.read 4) x.2
    decide (x.1 = .err .io) && decide (x.2.pageNum = none) && decide (x.2.offset = 0) &&
    decide (y.1 = .bytes [1, 2, 3, 4]) && decide (y.2.pageNum = some 0)
  | _ => false

theorem exRFaultCheck_true : exRFaultCheck = true := by decide +kernel

end DIO
end E57
