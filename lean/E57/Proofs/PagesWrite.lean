/-
Refinement proof: the concrete page writer `PW` (model of src/paged_writer.rs) refines the abstract
logical stream `Spec.LogStream`, for all operation histories.  Core Lean only.
-/
import E57.Model.Pages
import E57.Spec.LogStream
import E57.Proofs.Bytes
namespace E57

/-! ## lists of equal-length pages -/

def Uniform (n : Nat) (ps : List Bytes) : Prop := ∀ p ∈ ps, p.length = n

theorem Uniform.tail {n} {p : Bytes} {ps : List Bytes} (h : Uniform n (p :: ps)) : Uniform n ps :=
  fun q hq => h q (by simp [hq])

theorem Uniform.head {n} {p : Bytes} {ps : List Bytes} (h : Uniform n (p :: ps)) : p.length = n :=
  h p (by simp)

theorem Uniform.append {n} {a b : List Bytes} (ha : Uniform n a) (hb : Uniform n b) :
    Uniform n (a ++ b) := by
  intro p hp
  rcases List.mem_append.mp hp with h | h
  · exact ha p h
  · exact hb p h

theorem Uniform.take {n} {ps : List Bytes} (h : Uniform n ps) (k : Nat) : Uniform n (ps.take k) :=
  fun p hp => h p (List.mem_of_mem_take hp)

theorem Uniform.drop {n} {ps : List Bytes} (h : Uniform n ps) (k : Nat) : Uniform n (ps.drop k) :=
  fun p hp => h p (List.mem_of_mem_drop hp)

theorem Uniform.single {n} {p : Bytes} (h : p.length = n) : Uniform n [p] := by
  intro q hq
  simp at hq
  rw [hq]; exact h

theorem flatten_length {n} {ps : List Bytes} (h : Uniform n ps) :
    ps.flatten.length = n * ps.length := by
  induction ps with
  | nil => simp
  | cons p ps ih =>
    have hp : p.length = n := h.head
    have ih' := ih h.tail
    simp [List.flatten_cons, hp, ih', Nat.mul_succ]; omega

theorem take_flatten {n} {ps : List Bytes} (h : Uniform n ps) (k : Nat) :
    ps.flatten.take (n * k) = (ps.take k).flatten := by
  induction ps generalizing k with
  | nil => simp
  | cons p ps ih =>
    have hp : p.length = n := h.head
    have hu : Uniform n ps := h.tail
    cases k with
    | zero => simp
    | succ k =>
      have : n * (k + 1) = p.length + n * k := by rw [hp, Nat.mul_succ]; omega
      rw [List.flatten_cons, this, List.take_length_add_append, List.take_succ_cons,
        List.flatten_cons, ih hu]

theorem drop_flatten {n} {ps : List Bytes} (h : Uniform n ps) (k : Nat) :
    ps.flatten.drop (n * k) = (ps.drop k).flatten := by
  induction ps generalizing k with
  | nil => simp
  | cons p ps ih =>
    have hp : p.length = n := h.head
    have hu : Uniform n ps := h.tail
    cases k with
    | zero => simp
    | succ k =>
      have : n * (k + 1) = p.length + n * k := by rw [hp, Nat.mul_succ]; omega
      rw [List.flatten_cons, this, List.drop_length_add_append, List.drop_succ_cons, ih hu]

/-- replace page `k` (or append it when `k = ps.length`) -/
def setPage (ps : List Bytes) (k : Nat) (b : Bytes) : List Bytes :=
  ps.take k ++ [b] ++ ps.drop (k + 1)

/-- writing one aligned page into a paged flat device = replacing / appending that page -/
theorem write_aligned {n} {ps : List Bytes} (h : Uniform n ps) (k : Nat)
    (b : Bytes) (hb : b.length = n) :
    ps.flatten.take (n * k) ++ b ++ ps.flatten.drop (n * k + b.length)
      = (setPage ps k b).flatten := by
  have : n * k + b.length = n * (k + 1) := by rw [hb, Nat.mul_succ]
  rw [this, take_flatten h, drop_flatten h]
  simp [setPage]

theorem setPage_uniform {n} {ps : List Bytes} (h : Uniform n ps) (k : Nat) (b : Bytes)
    (hb : b.length = n) : Uniform n (setPage ps k b) :=
  ((h.take k).append (Uniform.single hb)).append (h.drop (k + 1))

theorem setPage_length (ps : List Bytes) (k : Nat) (b : Bytes) (hk : k ≤ ps.length) :
    (setPage ps k b).length = max ps.length (k + 1) := by
  simp [setPage]; omega

theorem setPage_take (ps : List Bytes) (k : Nat) (b : Bytes) (hk : k ≤ ps.length) :
    (setPage ps k b).take k = ps.take k := by
  have hl : (ps.take k).length = k := by simp; omega
  unfold setPage
  rw [List.append_assoc, List.take_append_of_le_length (by omega), List.take_of_length_le (by omega)]

theorem setPage_drop (ps : List Bytes) (k : Nat) (b : Bytes) (hk : k ≤ ps.length) :
    (setPage ps k b).drop (k + 1) = ps.drop (k + 1) := by
  have hl : (ps.take k ++ [b]).length = k + 1 := by simp; omega
  unfold setPage
  rw [← hl, List.drop_left]

theorem setPage_getD (ps : List Bytes) (k : Nat) (b d : Bytes) (hk : k ≤ ps.length) :
    (setPage ps k b).getD k d = b := by
  have hl : (ps.take k).length = k := by simp; omega
  unfold setPage
  simp [List.getD_eq_getElem?_getD, hl]

theorem setPage_getD_succ (ps : List Bytes) (k : Nat) (b d : Bytes) (hk : k ≤ ps.length) :
    (setPage ps k b).getD (k + 1) d = ps.getD (k + 1) d := by
  have hl : (ps.take k).length = k := by simp; omega
  have hn : ¬ (k + 1 < k) := by omega
  unfold setPage
  simp [List.getD_eq_getElem?_getD, List.getElem?_append, hl, hn]

theorem setPage_setPage (ps : List Bytes) (k : Nat) (a b : Bytes) (hk : k ≤ ps.length) :
    setPage (setPage ps k a) k b = setPage ps k b := by
  have h1 := setPage_take ps k a hk
  have h2 := setPage_drop ps k a hk
  unfold setPage at *
  rw [h1, h2]

theorem setPage_self (ps : List Bytes) (k : Nat) (d : Bytes) (hk : k < ps.length) :
    setPage ps k (ps.getD k d) = ps := by
  unfold setPage
  rw [List.getD_eq_getElem?_getD, List.getElem?_eq_getElem hk]
  simp

/-! ## chunking a flat list back into pages -/

def chunks (n : Nat) : Nat → Bytes → List Bytes
  | 0, _ => []
  | _ + 1, [] => []
  | fuel + 1, d => d.take n :: chunks n fuel (d.drop n)

theorem chunkPayloads_eq (fuel : Nat) (d : Bytes) : Spec.chunkPayloads fuel d = chunks 1020 fuel d := by
  induction fuel generalizing d with
  | zero => rfl
  | succ f ih =>
    cases d with
    | nil => rfl
    | cons x xs => simp only [Spec.chunkPayloads, chunks, ih]

theorem chunks_append {n : Nat} (hn : 0 < n) (fuel : Nat) (p rest : Bytes) (hp : p.length = n) :
    chunks n (fuel + 1) (p ++ rest) = p :: chunks n fuel rest := by
  cases p with
  | nil => simp at hp; omega
  | cons x xs =>
    have h1 : (x :: xs ++ rest).take n = x :: xs := by
      rw [← hp]; exact List.take_left
    have h2 : (x :: xs ++ rest).drop n = rest := by
      rw [← hp]; exact List.drop_left
    show chunks n (fuel + 1) (x :: (xs ++ rest)) = _
    simp only [chunks]
    rw [← List.cons_append, h1, h2]

theorem chunks_flatten {n : Nat} (hn : 0 < n) {ps : List Bytes} (h : Uniform n ps) (fuel : Nat)
    (hf : ps.length ≤ fuel) : chunks n fuel ps.flatten = ps := by
  induction ps generalizing fuel with
  | nil => cases fuel <;> rfl
  | cons p ps ih =>
    cases fuel with
    | zero => simp at hf
    | succ f =>
      rw [List.flatten_cons, chunks_append hn f p _ h.head, ih h.tail f (by simpa using hf)]

/-- payload followed by its checksum: one page of the file image -/
def sealP (p : Bytes) : Bytes := p ++ crcBytes p

theorem crcBytes_length (p : Bytes) : (crcBytes p).length = 4 := by
  simp [crcBytes, toBE32, toLE_length]

theorem sealP_length (p : Bytes) (hp : p.length = 1020) : (sealP p).length = 1024 := by
  simp [sealP, crcBytes_length, hp]

theorem sealP_take (p : Bytes) (hp : p.length = 1020) : (sealP p).take 1020 = p := by
  unfold sealP; rw [← hp]; exact List.take_left

theorem sealPage_eq (page : Bytes) : sealPage page = sealP (page.take 1020) := rfl

theorem image_eq (d : Bytes) : Spec.image d = ((chunks 1020 (d.length + 1) d).map sealP).flatten := by
  unfold Spec.image
  rw [chunkPayloads_eq]
  rfl

theorem map_sealP_uniform {ps : List Bytes} (h : Uniform 1020 ps) : Uniform 1024 (ps.map sealP) := by
  intro q hq
  rcases List.mem_map.mp hq with ⟨p, hp, rfl⟩
  exact sealP_length p (h p hp)

theorem image_flatten {ps : List Bytes} (h : Uniform 1020 ps) :
    Spec.image ps.flatten = (ps.map sealP).flatten := by
  rw [image_eq, chunks_flatten (by omega) h]
  rw [flatten_length h]; omega

/-- the payloads stored on a device (checksums stripped) -/
def payloadsOf (d : Bytes) : List Bytes := (chunks 1024 (d.length + 1) d).map (fun p => p.take 1020)

theorem payloadsOf_pages {ps : List Bytes} (h : Uniform 1020 ps) :
    payloadsOf (ps.map sealP).flatten = ps := by
  have hu := map_sealP_uniform h
  unfold payloadsOf
  rw [chunks_flatten (by omega) hu]
  · rw [List.map_map]
    have : ∀ p ∈ ps, ((fun p => p.take 1020) ∘ sealP) p = id p := by
      intro p hp; exact sealP_take p (h p hp)
    rw [List.map_congr_left this, List.map_id]
  · rw [flatten_length hu]; simp; omega

theorem setPage_map_sealP (ps : List Bytes) (k : Nat) (b : Bytes) :
    setPage (ps.map sealP) k (sealP b) = (setPage ps k b).map sealP := by
  simp [setPage, List.map_take, List.map_drop]

/-! ## the ideal device holding whole pages -/

theorem zeros_length (n : Nat) : (zeros n).length = n := by simp [zeros]
theorem zeros_take (n m : Nat) : (zeros n).take m = zeros (min m n) := by simp [zeros, List.take_replicate]
theorem zeros_drop (n m : Nat) : (zeros n).drop m = zeros (n - m) := by simp [zeros, List.drop_replicate]
theorem zeros_append (n m : Nat) : zeros n ++ zeros m = zeros (n + m) := by simp [zeros, List.replicate_append_replicate]
theorem zeros_zero : zeros 0 = [] := rfl

theorem pages_length {ps : List Bytes} (h : Uniform 1020 ps) :
    ((ps.map sealP).flatten).length = 1024 * ps.length := by
  rw [flatten_length (map_sealP_uniform h)]; simp

/-- overwrite / append page `k` -/
theorem dev_write_page {ps : List Bytes} (h : Uniform 1020 ps) (k : Nat) (hk : k ≤ ps.length)
    (q : Bytes) (hq : q.length = 1020) :
    Dev.writeAll ⟨(ps.map sealP).flatten, 1024 * k⟩ (sealP q)
      = ⟨((setPage ps k q).map sealP).flatten, 1024 * (k + 1)⟩ := by
  have hl := pages_length h
  have hs := sealP_length q hq
  unfold Dev.writeAll
  simp only
  rw [if_neg (by omega), write_aligned (map_sealP_uniform h) k (sealP q) hs, setPage_map_sealP, hs]
  rfl

/-- `read(1024)` at the start of page `j` returns that page, or nothing at the end of the device -/
theorem dev_read_page {ps : List Bytes} (h : Uniform 1020 ps) (j : Nat) :
    (((ps.map sealP).flatten).drop (1024 * j)).take 1024
      = if j < ps.length then sealP (ps.getD j (zeros 1020)) else [] := by
  have hu := map_sealP_uniform h
  rw [drop_flatten hu]
  split
  · next hj =>
    have hj' : j < (ps.map sealP).length := by simpa using hj
    rw [List.drop_eq_getElem_cons hj', List.flatten_cons]
    have hl : ((ps.map sealP)[j]).length = 1024 := hu _ (List.getElem_mem hj')
    rw [← hl, List.take_left]
    simp [List.getD_eq_getElem?_getD, List.getElem?_eq_getElem hj]
  · next hj =>
    rw [List.drop_eq_nil_of_le (by simp; omega)]
    rfl

theorem getD_length {ps : List Bytes} (h : Uniform 1020 ps) (j : Nat) :
    (ps.getD j (zeros 1020)).length = 1020 := by
  rw [List.getD_eq_getElem?_getD]
  by_cases hj : j < ps.length
  · rw [List.getElem?_eq_getElem hj]; exact h _ (List.getElem_mem hj)
  · rw [List.getElem?_eq_none (by omega)]; exact zeros_length _

/-- `read_current_page` at the start of page `j` -/
theorem readCurrentPage_page {ps : List Bytes} (h : Uniform 1020 ps) (j : Nat) (o : Nat) (pg : Bytes) :
    let w' := PW.readCurrentPage ⟨⟨(ps.map sealP).flatten, 1024 * j⟩, o, pg⟩
    w'.dev.data = (ps.map sealP).flatten ∧ w'.offset = o ∧ w'.page.length = 1024 ∧
      w'.page.take 1020 = ps.getD j (zeros 1020) := by
  have hr := dev_read_page h j
  have hg := getD_length h j
  simp only [PW.readCurrentPage, Dev.read, pageSize]
  rw [hr]
  refine ⟨trivial, trivial, ?_, ?_⟩
  · split
    · rw [List.length_append, zeros_length, sealP_length _ hg]
    · rw [List.length_append, zeros_length]; rfl
  · split
    · rw [List.take_append_of_le_length (by rw [sealP_length _ hg]; omega), sealP_take _ hg]
    · next hj =>
      rw [List.getD_eq_getElem?_getD, List.getElem?_eq_none (by omega)]
      rw [List.nil_append, zeros_take]; rfl

/-! ## representation invariant and abstraction function -/

/-- `w` represents the page list `ps` with the cursor in page `k` -/
structure Rep (w : PW) (ps : List Bytes) (k : Nat) : Prop where
  uni : Uniform 1020 ps
  data : w.dev.data = (ps.map sealP).flatten
  pos : w.dev.pos = 1024 * k
  hk : k ≤ ps.length
  off : w.offset < 1020
  plen : w.page.length = 1024
  /-- the part of the page buffer after the cursor agrees with the device (zero beyond its end) -/
  tail : w.page.take 1020 = w.page.take w.offset ++ (ps.getD k (zeros 1020)).drop w.offset

def PW.Inv (w : PW) : Prop := ∃ ps k, Rep w ps k

/-- the logical stream a writer state stands for -/
def PW.abs (w : PW) : Spec.LogStream :=
  let ps := payloadsOf w.dev.data
  let k := w.dev.pos / 1024
  { data := (if w.offset = 0 then ps else setPage ps k (w.page.take 1020)).flatten,
    cur := 1020 * k + w.offset }

theorem Rep.abs_eq {w : PW} {ps : List Bytes} {k : Nat} (h : Rep w ps k) :
    w.abs = ⟨(if w.offset = 0 then ps else setPage ps k (w.page.take 1020)).flatten,
             1020 * k + w.offset⟩ := by
  unfold PW.abs
  simp only [h.data, payloadsOf_pages h.uni, h.pos]
  rw [Nat.mul_div_cancel_left k (by omega : 0 < 1024)]

theorem Rep.qlen {w : PW} {ps : List Bytes} {k : Nat} (h : Rep w ps k) :
    (w.page.take 1020).length = 1020 := by
  rw [List.length_take, h.plen]; rfl

/-- with the cursor at a page start the buffer equals the device page -/
theorem Rep.page0 {w : PW} {ps : List Bytes} {k : Nat} (h : Rep w ps k) (h0 : w.offset = 0) :
    w.page.take 1020 = ps.getD k (zeros 1020) := by
  have := h.tail
  rw [h0] at this
  simpa using this

/-- uniform description of the abstract data: pages before `k`, the buffer, pages after `k`;
    except at the very end with nothing buffered -/
theorem Rep.abs_data {w : PW} {ps : List Bytes} {k : Nat} (h : Rep w ps k) :
    w.abs.data = (setPage ps k (w.page.take 1020)).flatten ∨
    (w.abs.data = ps.flatten ∧ k = ps.length ∧ w.page.take 1020 = zeros 1020) := by
  rw [h.abs_eq]
  by_cases h0 : w.offset = 0
  · simp only [h0, if_true]
    have hp := h.page0 h0
    by_cases hk : k < ps.length
    · left; rw [hp, setPage_self ps k _ hk]
    · right
      refine ⟨trivial, by have := h.hk; omega, ?_⟩
      rw [hp, List.getD_eq_getElem?_getD, List.getElem?_eq_none (by omega)]; rfl
  · left; simp only [h0, if_false]

theorem Rep.abs_cur {w : PW} {ps : List Bytes} {k : Nat} (h : Rep w ps k) :
    w.abs.cur = 1020 * k + w.offset := by rw [h.abs_eq]

theorem setPage_flatten_length {ps : List Bytes} (h : Uniform 1020 ps) (k : Nat) (hk : k ≤ ps.length)
    (q : Bytes) (hq : q.length = 1020) :
    (setPage ps k q).flatten.length = 1020 * max ps.length (k + 1) := by
  rw [flatten_length (setPage_uniform h k q hq), setPage_length ps k q hk]

theorem Rep.abs_wf {w : PW} {ps : List Bytes} {k : Nat} (h : Rep w ps k) :
    w.abs.data.length % 1020 = 0 ∧ w.abs.cur ≤ w.abs.data.length := by
  have hc := h.abs_cur
  have ho := h.off
  have hk := h.hk
  rcases h.abs_data with hd | ⟨hd, hk', _⟩
  · rw [hd, hc, setPage_flatten_length h.uni k hk _ h.qlen]
    omega
  · rw [h.abs_eq] at hd ⊢
    by_cases h0 : w.offset = 0
    · simp only [h0, if_true] at hd ⊢
      rw [flatten_length h.uni]; omega
    · simp only [h0, if_false]
      rw [setPage_flatten_length h.uni k hk _ h.qlen]; omega

/-! ## facts about the specification's `write` -/

theorem splice_in_page (A Q C b : Bytes) (n off : Nat) (hA : A.length = n)
    (hQ : off + b.length ≤ Q.length) :
    (A ++ Q ++ C).take (n + off) ++ b ++ (A ++ Q ++ C).drop (n + off + b.length)
      = A ++ (Q.take off ++ b ++ Q.drop (off + b.length)) ++ C := by
  subst hA
  have h1 : (A ++ Q ++ C).take (A.length + off) = A ++ Q.take off := by
    rw [List.append_assoc, List.take_length_add_append,
      List.take_append_of_le_length (by omega)]
  have h2 : (A ++ Q ++ C).drop (A.length + off + b.length) = Q.drop (off + b.length) ++ C := by
    rw [List.append_assoc, Nat.add_assoc, List.drop_length_add_append,
      List.drop_append_of_le_length (by omega)]
  rw [h1, h2]
  simp only [List.append_assoc]

/-- a write that stays inside page `k`, which exists in the stream -/
theorem spec_write_in_page (A Q C b : Bytes) (k m off : Nat) (hA : A.length = 1020 * k)
    (hQ : Q.length = 1020) (hC : C.length = 1020 * m)
    (ho : off + b.length ≤ 1020) :
    Spec.LogStream.write ⟨A ++ Q ++ C, 1020 * k + off⟩ b
      = ⟨A ++ (Q.take off ++ b ++ Q.drop (off + b.length)) ++ C, 1020 * k + off + b.length⟩ := by
  unfold Spec.LogStream.write
  simp only
  have hl : (A ++ Q ++ C).length = 1020 * k + 1020 + 1020 * m := by
    simp [hA, hQ, hC]; omega
  have hmax : max (A ++ Q ++ C).length ((1020 * k + off + b.length + 1019) / 1020 * 1020)
      - (A ++ Q ++ C).length = 0 := by
    rw [hl]; omega
  rw [hmax, zeros_zero, List.append_nil, splice_in_page A Q C b _ off hA (by omega)]

/-- a write that stays inside page `k`, the first page beyond the end of the stream -/
theorem spec_write_new_page (A b : Bytes) (k off : Nat) (hA : A.length = 1020 * k)
    (hb : 0 < b.length) (ho : off + b.length ≤ 1020) :
    Spec.LogStream.write ⟨A, 1020 * k + off⟩ b
      = ⟨A ++ ((zeros 1020).take off ++ b ++ (zeros 1020).drop (off + b.length)) ++ [],
         1020 * k + off + b.length⟩ := by
  unfold Spec.LogStream.write
  simp only
  have hmax : max A.length ((1020 * k + off + b.length + 1019) / 1020 * 1020) - A.length = 1020 := by
    rw [hA]; omega
  rw [hmax]
  have := splice_in_page A (zeros 1020) [] b _ off hA (by rw [zeros_length]; omega)
  rw [List.append_nil] at this
  rw [this, List.append_nil]

theorem spec_write_nil (s : Spec.LogStream) (h1 : s.data.length % 1020 = 0)
    (h2 : s.cur ≤ s.data.length) : s.write [] = s := by
  unfold Spec.LogStream.write
  simp only [List.length_nil, Nat.add_zero, List.append_nil]
  have hmax : max s.data.length ((s.cur + 1019) / 1020 * 1020) - s.data.length = 0 := by omega
  rw [hmax, zeros_zero, List.append_nil, List.take_append_drop]

theorem spec_write_length (s : Spec.LogStream) (b : Bytes) (h2 : s.cur ≤ s.data.length) :
    (s.write b).data.length = max s.data.length ((s.cur + b.length + 1019) / 1020 * 1020) := by
  unfold Spec.LogStream.write
  simp only [List.length_append, List.length_take, List.length_drop, zeros_length]
  omega

theorem max_ceil_add (l c a b : Nat) :
    max (max l ((c + a + 1019) / 1020 * 1020)) ((c + a + b + 1019) / 1020 * 1020)
      = max l ((c + (a + b) + 1019) / 1020 * 1020) := by omega

theorem drop_splice (B Z a : Bytes) (c n : Nat) (hc : c + a.length ≤ B.length) :
    (B.take c ++ a ++ B.drop (c + a.length) ++ Z).drop (c + a.length + n)
      = (B ++ Z).drop (c + (a.length + n)) := by
  have e1 : (B.take c ++ a).length = c + a.length := by
    rw [List.length_append, List.length_take]; omega
  calc (B.take c ++ a ++ B.drop (c + a.length) ++ Z).drop (c + a.length + n)
      = ((B.take c ++ a) ++ (B.drop (c + a.length) ++ Z)).drop ((B.take c ++ a).length + n) := by
        rw [e1, List.append_assoc (B.take c ++ a)]
    _ = (B.drop (c + a.length) ++ Z).drop n := List.drop_length_add_append n
    _ = ((B ++ Z).drop (c + a.length)).drop n := by rw [List.drop_append_of_le_length hc]
    _ = (B ++ Z).drop (c + (a.length + n)) := by rw [List.drop_drop, Nat.add_assoc]

theorem spec_write_append (s : Spec.LogStream) (a b : Bytes) (h2 : s.cur ≤ s.data.length) :
    (s.write a).write b = s.write (a ++ b) := by
  have hlen := spec_write_length s a h2
  generalize hL1 : max s.data.length ((s.cur + a.length + 1019) / 1020 * 1020) = L1 at hlen
  have hcur : (s.write a).cur = s.cur + a.length := rfl
  have hdata : (s.write a).data = (s.data ++ zeros (L1 - s.data.length)).take s.cur ++ a ++
      (s.data ++ zeros (L1 - s.data.length)).drop (s.cur + a.length) := by
    rw [← hL1]; rfl
  generalize hs1 : s.write a = s1 at *
  unfold Spec.LogStream.write
  simp only [hcur, hlen, List.length_append]
  generalize hL2 : max L1 ((s.cur + a.length + b.length + 1019) / 1020 * 1020) = L2
  have hL2' : max s.data.length ((s.cur + (a.length + b.length) + 1019) / 1020 * 1020) = L2 := by
    rw [← hL2, ← hL1]; exact (max_ceil_add _ _ _ _).symm
  rw [hL2', hdata]
  have hz : zeros (L2 - s.data.length) = zeros (L1 - s.data.length) ++ zeros (L2 - L1) := by
    rw [zeros_append]; congr 1; omega
  congr 1
  · -- data
    generalize hB : s.data ++ zeros (L1 - s.data.length) = B
    have hBl : B.length = L1 := by rw [← hB, List.length_append, zeros_length]; omega
    have hB' : s.data ++ zeros (L2 - s.data.length) = B ++ zeros (L2 - L1) := by
      rw [hz, ← List.append_assoc, hB]
    rw [hB']
    have hca : s.cur + a.length ≤ L1 := by omega
    have ht : (B.take s.cur ++ a ++ B.drop (s.cur + a.length) ++ zeros (L2 - L1)).take (s.cur + a.length)
        = B.take s.cur ++ a := by
      rw [List.append_assoc (B.take s.cur ++ a)]
      have : (B.take s.cur ++ a).length = s.cur + a.length := by
        rw [List.length_append, List.length_take]; omega
      rw [← this, List.take_left]
    have hd := drop_splice B (zeros (L2 - L1)) a s.cur b.length (by omega)
    rw [ht, hd, List.take_append_of_le_length (by omega)]
    simp only [List.append_assoc]
  · omega

/-! ## `write` -/

theorem setPage_flatten (ps : List Bytes) (k : Nat) (q : Bytes) :
    (setPage ps k q).flatten = (ps.take k).flatten ++ q ++ (ps.drop (k + 1)).flatten := by
  simp [setPage]

/-- the abstract effect of a write that stays inside the current page -/
theorem Rep.abs_write_in_page {w : PW} {ps : List Bytes} {k : Nat} (h : Rep w ps k) (b : Bytes)
    (hb : 0 < b.length) (ho : w.offset + b.length ≤ 1020) :
    w.abs.write b =
      ⟨(setPage ps k ((w.page.take 1020).take w.offset ++ b ++
          (w.page.take 1020).drop (w.offset + b.length))).flatten,
        1020 * k + w.offset + b.length⟩ := by
  have hA : ((ps.take k).flatten).length = 1020 * k := by
    rw [flatten_length (h.uni.take k), List.length_take]
    have := h.hk
    congr 1; omega
  have hC : ((ps.drop (k + 1)).flatten).length = 1020 * (ps.length - (k + 1)) := by
    rw [flatten_length (h.uni.drop (k + 1)), List.length_drop]
  have hs : w.abs = ⟨w.abs.data, 1020 * k + w.offset⟩ := by rw [← h.abs_cur]
  rw [hs, setPage_flatten]
  rcases h.abs_data with hd | ⟨hd, hk, hz⟩
  · rw [hd, setPage_flatten]
    exact spec_write_in_page _ _ _ b k _ w.offset hA h.qlen hC ho
  · have hC0 : (ps.drop (k + 1)).flatten = [] := by
      rw [List.drop_eq_nil_of_le (by omega)]; rfl
    have hA0 : (ps.take k).flatten = ps.flatten := by
      rw [List.take_of_length_le (by omega)]
    rw [hd, hz, hC0, hA0]
    rw [hA0] at hA
    exact spec_write_new_page _ b k w.offset hA hb ho

theorem page1_take (page b : Bytes) (off : Nat) (hp : page.length = 1024)
    (ho : off + b.length ≤ 1020) :
    (page.take off ++ b ++ page.drop (off + b.length)).take 1020
      = (page.take 1020).take off ++ b ++ (page.take 1020).drop (off + b.length) := by
  have hl : (page.take off ++ b).length = off + b.length := by
    rw [List.length_append, List.length_take]; omega
  rw [List.take_append, List.take_of_length_le (by omega), hl, List.take_take, List.drop_take]
  congr 3
  omega

theorem page1_length (page b : Bytes) (off : Nat) (hp : page.length = 1024)
    (ho : off + b.length ≤ 1020) :
    (page.take off ++ b ++ page.drop (off + b.length)).length = 1024 := by
  simp only [List.length_append, List.length_take, List.length_drop]; omega

theorem take_min_length (buf : Bytes) (m : Nat) : (buf.take (min buf.length m)).length = min buf.length m := by
  rw [List.length_take]; omega

/-- after `read_current_page` at the start of page `j` the writer represents the same pages -/
theorem rep_of_read {ps : List Bytes} (h : Uniform 1020 ps) (j : Nat) (hj : j ≤ ps.length)
    (o o' : Nat) (ho' : o' < 1020) (pg : Bytes) :
    Rep ⟨(PW.readCurrentPage ⟨⟨(ps.map sealP).flatten, 1024 * j⟩, o, pg⟩).dev.seekStart (1024 * j), o',
         (PW.readCurrentPage ⟨⟨(ps.map sealP).flatten, 1024 * j⟩, o, pg⟩).page⟩ ps j := by
  obtain ⟨h1, _, h3, h4⟩ := readCurrentPage_page h j o pg
  generalize PW.readCurrentPage ⟨⟨(ps.map sealP).flatten, 1024 * j⟩, o, pg⟩ = w' at *
  refine ⟨h, h1, rfl, hj, ho', h3, ?_⟩
  show w'.page.take 1020 = w'.page.take o' ++ (ps.getD j (zeros 1020)).drop o'
  rw [← h4, show w'.page.take o' = (w'.page.take 1020).take o' by
    rw [List.take_take]; congr 1; omega]
  exact (List.take_append_drop _ _).symm

theorem write1_full (w : PW) (buf : Bytes)
    (he : w.offset + min buf.length (1020 - w.offset) = 1020) :
    w.write1 buf =
      (⟨(PW.readCurrentPage ⟨w.dev.writeAll (sealPage (w.page.take w.offset ++
            buf.take (min buf.length (1020 - w.offset)) ++
            w.page.drop (w.offset + min buf.length (1020 - w.offset)))), 0,
          sealPage (w.page.take w.offset ++ buf.take (min buf.length (1020 - w.offset)) ++
            w.page.drop (w.offset + min buf.length (1020 - w.offset)))⟩).dev.seekStart
          (w.dev.writeAll (sealPage (w.page.take w.offset ++
            buf.take (min buf.length (1020 - w.offset)) ++
            w.page.drop (w.offset + min buf.length (1020 - w.offset))))).pos,
        0,
        (PW.readCurrentPage ⟨w.dev.writeAll (sealPage (w.page.take w.offset ++
            buf.take (min buf.length (1020 - w.offset)) ++
            w.page.drop (w.offset + min buf.length (1020 - w.offset)))), 0,
          sealPage (w.page.take w.offset ++ buf.take (min buf.length (1020 - w.offset)) ++
            w.page.drop (w.offset + min buf.length (1020 - w.offset)))⟩).page⟩,
       min buf.length (1020 - w.offset)) := by
  unfold PW.write1
  delta payloadSize
  simp only
  rw [if_pos he]
  rfl

theorem write1_part (w : PW) (buf : Bytes)
    (he : ¬ w.offset + min buf.length (1020 - w.offset) = 1020) :
    w.write1 buf =
      (⟨w.dev, w.offset + min buf.length (1020 - w.offset),
        w.page.take w.offset ++ buf.take (min buf.length (1020 - w.offset)) ++
            w.page.drop (w.offset + min buf.length (1020 - w.offset))⟩,
       min buf.length (1020 - w.offset)) := by
  unfold PW.write1
  delta payloadSize
  simp only
  rw [if_neg he]

theorem write1_core (ps : List Bytes) (k off : Nat) (page buf : Bytes)
    (h : Rep ⟨⟨(ps.map sealP).flatten, 1024 * k⟩, off, page⟩ ps k) (hb : 0 < buf.length) :
    (PW.write1 ⟨⟨(ps.map sealP).flatten, 1024 * k⟩, off, page⟩ buf).2 = min buf.length (1020 - off) ∧
    ∃ ps' k', Rep (PW.write1 ⟨⟨(ps.map sealP).flatten, 1024 * k⟩, off, page⟩ buf).1 ps' k' ∧
      (PW.write1 ⟨⟨(ps.map sealP).flatten, 1024 * k⟩, off, page⟩ buf).1.abs
        = (PW.abs ⟨⟨(ps.map sealP).flatten, 1024 * k⟩, off, page⟩).write
            (buf.take (min buf.length (1020 - off))) := by
  have hoff : off < 1020 := h.off
  have hpl : page.length = 1024 := h.plen
  have hbl := take_min_length buf (1020 - off)
  have hn0 : 0 < min buf.length (1020 - off) := by omega
  by_cases he : off + min buf.length (1020 - off) = 1020
  · -- the page is complete: it is written out and the next page is loaded
    rw [write1_full _ _ he]
    simp only
    generalize hn : min buf.length (1020 - off) = n at *
    generalize hbb : buf.take n = b at *
    have hon : off + b.length ≤ 1020 := by omega
    have hw := h.abs_write_in_page b (by omega) hon
    simp only at hw
    rw [hw, ← page1_take page b off hpl hon, ← hbl]
    have hq1 := page1_length page b off hpl hon
    have hQ' : ((page.take off ++ b ++ page.drop (off + b.length)).take 1020).length = 1020 := by
      rw [List.length_take, hq1]; rfl
    refine ⟨trivial, setPage ps k ((page.take off ++ b ++ page.drop (off + b.length)).take 1020), k + 1, ?_⟩
    rw [sealPage_eq, dev_write_page h.uni k h.hk _ hQ']
    have hu := setPage_uniform h.uni k _ hQ'
    have hk' : k + 1 ≤ (setPage ps k ((page.take off ++ b ++ page.drop (off + b.length)).take 1020)).length := by
      rw [setPage_length _ _ _ h.hk]; omega
    have hr := rep_of_read hu (k + 1) hk' 0 0 (by omega)
      (sealP ((page.take off ++ b ++ page.drop (off + b.length)).take 1020))
    refine ⟨hr, ?_⟩
    rw [hr.abs_eq]
    simp only [if_true]
    congr 1
    omega
  · rw [write1_part _ _ he]
    simp only
    generalize hn : min buf.length (1020 - off) = n at *
    generalize hbb : buf.take n = b at *
    have hon : off + b.length ≤ 1020 := by omega
    have hw := h.abs_write_in_page b (by omega) hon
    simp only at hw
    rw [hw, ← page1_take page b off hpl hon, ← hbl]
    have hq1 := page1_length page b off hpl hon
    refine ⟨trivial, ps, k, ?_⟩
    have hr : Rep ⟨⟨(ps.map sealP).flatten, 1024 * k⟩, off + b.length,
        page.take off ++ b ++ page.drop (off + b.length)⟩ ps k := by
      refine ⟨h.uni, rfl, rfl, h.hk, by show off + b.length < 1020; omega, hq1, ?_⟩
      show (page.take off ++ b ++ page.drop (off + b.length)).take 1020
        = (page.take off ++ b ++ page.drop (off + b.length)).take (off + b.length) ++
          (ps.getD k (zeros 1020)).drop (off + b.length)
      have hl : (page.take off ++ b).length = off + b.length := by
        rw [List.length_append, List.length_take]; omega
      have ht : (page.take off ++ b ++ page.drop (off + b.length)).take (off + b.length)
          = page.take off ++ b := by
        rw [← hl]; exact List.take_left
      have htail : page.take 1020 = page.take off ++ (ps.getD k (zeros 1020)).drop off := h.tail
      have hlo : (page.take off).length = off := by rw [List.length_take]; omega
      have hX1 : (page.take off ++ (ps.getD k (zeros 1020)).drop off).take off = page.take off :=
        List.take_left' hlo
      have hX2 : (page.take off ++ (ps.getD k (zeros 1020)).drop off).drop (off + b.length)
          = (ps.getD k (zeros 1020)).drop (off + b.length) := by
        rw [← List.drop_drop, List.drop_left' hlo, List.drop_drop]
      rw [page1_take page b off hpl hon, ht, htail, hX1, hX2]
    refine ⟨hr, ?_⟩
    rw [hr.abs_eq]
    have : ¬ (off + b.length = 0) := by omega
    simp only [this, if_false]
    congr 1
    omega

theorem Rep.eta {w : PW} {ps : List Bytes} {k : Nat} (h : Rep w ps k) :
    w = ⟨⟨(ps.map sealP).flatten, 1024 * k⟩, w.offset, w.page⟩ := by
  obtain ⟨⟨d, p⟩, o, pg⟩ := w
  have h1 : d = _ := h.data
  have h2 : p = _ := h.pos
  rw [h1, h2]

theorem write1_rep {w : PW} {ps : List Bytes} {k : Nat} (h : Rep w ps k) (buf : Bytes)
    (hb : 0 < buf.length) :
    (w.write1 buf).2 = min buf.length (1020 - w.offset) ∧
    ∃ ps' k', Rep (w.write1 buf).1 ps' k' ∧
      (w.write1 buf).1.abs = w.abs.write (buf.take (min buf.length (1020 - w.offset))) := by
  have he := h.eta
  generalize w.offset = off at *
  generalize w.page = page at *
  subst he
  exact write1_core ps k off page buf h hb

theorem writeAllFuel_rep (fuel : Nat) : ∀ (buf : Bytes) (w : PW) (ps : List Bytes) (k : Nat),
    Rep w ps k → buf.length ≤ fuel →
    ∃ w', PW.writeAllFuel fuel w buf = .ok w' ∧ w'.Inv ∧ w'.abs = w.abs.write buf := by
  induction fuel with
  | zero =>
    intro buf w ps k h hf
    have : buf = [] := List.eq_nil_of_length_eq_zero (by omega)
    subst this
    refine ⟨w, by simp [PW.writeAllFuel], ⟨ps, k, h⟩, ?_⟩
    rw [spec_write_nil _ h.abs_wf.1 h.abs_wf.2]
  | succ f ih =>
    intro buf w ps k h hf
    cases buf with
    | nil =>
      refine ⟨w, by simp [PW.writeAllFuel], ⟨ps, k, h⟩, ?_⟩
      rw [spec_write_nil _ h.abs_wf.1 h.abs_wf.2]
    | cons x xs =>
      obtain ⟨h2, ps', k', hr, ha⟩ := write1_rep h (x :: xs) (by simp)
      have hoff := h.off
      have hlen : (x :: xs).length = xs.length + 1 := rfl
      have hn0 : min (x :: xs).length (1020 - w.offset) ≠ 0 := by omega
      generalize hn : min (x :: xs).length (1020 - w.offset) = n at *
      have hd : ((x :: xs).drop n).length ≤ f := by
        rw [List.length_drop]; simp only [List.length_cons] at hf ⊢; omega
      obtain ⟨w', hw', hi, ha'⟩ := ih ((x :: xs).drop n) _ ps' k' hr hd
      refine ⟨w', ?_, hi, ?_⟩
      · rw [← hw']
        simp only [PW.writeAllFuel]
        rw [h2, if_neg hn0]
      · rw [ha', ha, spec_write_append _ _ _ h.abs_wf.2, List.take_append_drop]

theorem Rep.writeAll {w : PW} {ps : List Bytes} {k : Nat} (h : Rep w ps k) (b : Bytes) :
    ∃ w', w.writeAll b = .ok w' ∧ w'.Inv ∧ w'.abs = w.abs.write b :=
  writeAllFuel_rep (b.length + 1) b w ps k h (by omega)

/-! ## `flush` -/

theorem flush_pos (w : PW) (h : w.offset > 0) :
    w.flush = ⟨(w.dev.writeAll (sealPage w.page)).seekStart w.dev.pos, w.offset, sealPage w.page⟩ := by
  unfold PW.flush; rw [if_pos h]

theorem flush_zero (w : PW) (h : w.offset = 0) : w.flush = w := by
  unfold PW.flush; rw [if_neg (by omega)]

/-- a state whose device already holds everything: the abstract data is the device's payloads -/
structure Flushed (w : PW) (ps : List Bytes) (k : Nat) : Prop where
  rep : Rep w ps k
  data : w.abs.data = ps.flatten

theorem Rep.flush {w : PW} {ps : List Bytes} {k : Nat} (h : Rep w ps k) :
    ∃ ps', Flushed w.flush ps' k ∧ w.flush.abs = w.abs := by
  by_cases h0 : w.offset = 0
  · rw [flush_zero w h0]
    refine ⟨ps, ⟨h, ?_⟩, rfl⟩
    rw [h.abs_eq]; simp only [h0, if_true]
  · have hq := h.qlen
    have hfl := flush_pos w (by omega)
    have habs := h.abs_eq
    have he := h.eta
    have hoff := h.off
    generalize w.flush = wf at *
    generalize w.abs = wa at *
    generalize w.offset = off at *
    generalize w.page = page at *
    subst he
    simp only at hfl
    rw [sealPage_eq, dev_write_page h.uni k h.hk _ hq] at hfl
    simp only [Dev.seekStart] at hfl
    have hr : Rep wf (setPage ps k (page.take 1020)) k := by
      subst hfl
      refine ⟨setPage_uniform h.uni k _ hq, rfl, rfl, ?_, hoff, sealP_length _ hq, ?_⟩
      · rw [setPage_length _ _ _ h.hk]; omega
      · show (sealP (page.take 1020)).take 1020 = (sealP (page.take 1020)).take off ++
          ((setPage ps k (page.take 1020)).getD k (zeros 1020)).drop off
        rw [setPage_getD _ _ _ _ h.hk, sealP_take _ hq]
        have : (sealP (page.take 1020)).take off = (page.take 1020).take off := by
          unfold sealP; rw [List.take_append_of_le_length (by omega)]
        rw [this, List.take_append_drop]
    have ha : wf.abs = wa := by
      rw [hr.abs_eq, habs]
      subst hfl
      simp only [h0, if_false]
      rw [sealP_take _ hq, setPage_setPage _ _ _ _ h.hk]
    refine ⟨_, ⟨hr, ?_⟩, ha⟩
    rw [ha, habs]
    simp only [h0, if_false]

theorem Flushed.image {w : PW} {ps : List Bytes} {k : Nat} (h : Flushed w ps k) :
    w.dev.data = Spec.image w.abs.data := by
  rw [h.data, image_flatten h.rep.uni, h.rep.data]

theorem Flushed.physSize {w : PW} {ps : List Bytes} {k : Nat} (h : Flushed w ps k) :
    w.abs.physSize = 1024 * ps.length := by
  unfold Spec.LogStream.physSize
  rw [h.data, flatten_length h.rep.uni, Nat.mul_div_cancel_left _ (by omega : 0 < 1020)]

theorem Flushed.flush {w : PW} {ps : List Bytes} {k : Nat} (h : Flushed w ps k) :
    ∃ ps', Flushed w.flush ps' k ∧ w.flush.abs = w.abs := h.rep.flush

/-! ## `physical_seek`, `physical_size` -/

/-- what `physical_seek` does after its initial flush -/
def seekTail (w1 : PW) (pos : Nat) : PW × Bool :=
  if pos > w1.dev.data.length then (w1, false)
  else if pos % 1024 ≥ 1020 then (w1, false)
  else
    (⟨(PW.readCurrentPage ⟨⟨w1.dev.data, 1024 * (pos / 1024)⟩, w1.offset, w1.page⟩).dev.seekStart
        (1024 * (pos / 1024)), pos % 1024,
      (PW.readCurrentPage ⟨⟨w1.dev.data, 1024 * (pos / 1024)⟩, w1.offset, w1.page⟩).page⟩, true)

theorem physicalSeek_eq (w : PW) (pos : Nat) : w.physicalSeek pos = seekTail w.flush pos := by
  unfold PW.physicalSeek seekTail
  delta pageSize payloadSize
  simp only [Dev.seekEnd, Dev.seekStart, Nat.mul_comm (pos / 1024) 1024]

theorem logStream_ext {a b : Spec.LogStream} (h1 : a.data = b.data) (h2 : a.cur = b.cur) : a = b := by
  cases a; cases b; simp only at h1 h2; rw [h1, h2]

theorem spec_seek_data (s : Spec.LogStream) (p : Nat) : (s.seek p).data = s.data := by
  unfold Spec.LogStream.seek; split <;> rfl

theorem seekTail_flushed {w1 : PW} {ps : List Bytes} {k : Nat} (h : Flushed w1 ps k) (p : Nat) :
    (∃ k', Flushed (seekTail w1 p).1 ps k') ∧ (seekTail w1 p).2 = w1.abs.seekOk p ∧
      (seekTail w1 p).1.abs = w1.abs.seek p := by
  have hps := h.physSize
  have hlen : w1.dev.data.length = 1024 * ps.length := by rw [h.rep.data, pages_length h.rep.uni]
  unfold seekTail
  by_cases h1 : p > w1.dev.data.length
  · rw [if_pos h1]
    have hok : w1.abs.seekOk p = false := by
      unfold Spec.LogStream.seekOk; rw [hps]; simp; omega
    refine ⟨⟨k, h⟩, hok.symm, ?_⟩
    unfold Spec.LogStream.seek; rw [hok]; rfl
  · rw [if_neg h1]
    by_cases h2 : p % 1024 ≥ 1020
    · rw [if_pos h2]
      have hok : w1.abs.seekOk p = false := by
        unfold Spec.LogStream.seekOk; simp; omega
      refine ⟨⟨k, h⟩, hok.symm, ?_⟩
      unfold Spec.LogStream.seek; rw [hok]; rfl
    · rw [if_neg h2]
      have hok : w1.abs.seekOk p = true := by
        unfold Spec.LogStream.seekOk; rw [hps]; simp; omega
      have hj : p / 1024 ≤ ps.length := by omega
      have hr := rep_of_read h.rep.uni (p / 1024) hj w1.offset (p % 1024) (by omega) w1.page
      obtain ⟨_, _, _, h4⟩ := readCurrentPage_page h.rep.uni (p / 1024) w1.offset w1.page
      rw [h.rep.data]
      simp only
      have hd : (PW.abs ⟨(PW.readCurrentPage ⟨⟨(ps.map sealP).flatten, 1024 * (p / 1024)⟩,
            w1.offset, w1.page⟩).dev.seekStart (1024 * (p / 1024)), p % 1024,
          (PW.readCurrentPage ⟨⟨(ps.map sealP).flatten, 1024 * (p / 1024)⟩,
            w1.offset, w1.page⟩).page⟩).data = ps.flatten := by
        rw [hr.abs_eq]
        simp only
        split
        · rfl
        · rw [h4, setPage_self ps _ _ (by omega)]
      refine ⟨⟨p / 1024, hr, hd⟩, hok.symm, ?_⟩
      unfold Spec.LogStream.seek; rw [hok]
      simp only [if_true]
      have hc := hr.abs_cur
      apply logStream_ext
      · rw [hd]; exact h.data.symm
      · rw [hc]
        show 1020 * (p / 1024) + p % 1024 = Spec.p2l p
        unfold Spec.p2l; omega

/-- what `physical_size` does after its initial flush -/
theorem physicalSize_eq (w : PW) : w.physicalSize = (w.flush, w.flush.dev.data.length) := rfl

/-! ## the refinement theorems -/

/-- the writer returned by `PagedWriter::new` on an empty device -/
def w0 : PW := ⟨⟨[], 0⟩, 0, zeros pageSize⟩

theorem w0_rep : Rep w0 [] 0 := by
  refine ⟨fun p hp => by simp at hp, rfl, rfl, Nat.le_refl _, by show 0 < 1020; omega,
    zeros_length _, ?_⟩
  show (zeros 1024).take 1020 = (zeros 1024).take 0 ++ (zeros 1020).drop 0
  rw [List.take_zero, List.drop_zero, List.nil_append, zeros_take]
  rfl

theorem pw_new : ∃ w, PW.new Dev.empty = .ok w ∧ w.Inv ∧ w.abs = Spec.LogStream.init := by
  refine ⟨w0, rfl, ⟨[], 0, w0_rep⟩, ?_⟩
  rw [w0_rep.abs_eq]
  rfl

theorem pw_writeAll (w : PW) (b : Bytes) (h : w.Inv) :
    ∃ w', w.writeAll b = .ok w' ∧ w'.Inv ∧ w'.abs = (w.abs).write b := by
  obtain ⟨ps, k, hr⟩ := h
  exact hr.writeAll b

theorem pw_flush (w : PW) (h : w.Inv) :
    (w.flush).Inv ∧ (w.flush).abs = w.abs ∧ (w.flush).dev.data = Spec.image (w.abs).data := by
  obtain ⟨ps, k, hr⟩ := h
  obtain ⟨ps', hf, ha⟩ := hr.flush
  exact ⟨⟨ps', k, hf.rep⟩, ha, by rw [← ha]; exact hf.image⟩

theorem pw_position (w : PW) (h : w.Inv) : w.physicalPosition = (w.abs).physPos := by
  obtain ⟨ps, k, hr⟩ := h
  have ho := hr.off
  unfold PW.physicalPosition Spec.LogStream.physPos Spec.l2p
  rw [hr.abs_cur, hr.pos]
  omega

theorem pw_size (w : PW) (h : w.Inv) :
    (w.physicalSize.1).Inv ∧ (w.physicalSize.1).abs = w.abs ∧
      w.physicalSize.2 = (w.abs).physSize ∧
      (w.physicalSize.1).dev.data = Spec.image (w.abs).data := by
  obtain ⟨ps, k, hr⟩ := h
  obtain ⟨ps', hf, ha⟩ := hr.flush
  rw [physicalSize_eq]
  refine ⟨⟨ps', k, hf.rep⟩, ha, ?_, by rw [← ha]; exact hf.image⟩
  show w.flush.dev.data.length = _
  rw [← ha, hf.physSize, hf.rep.data, pages_length hf.rep.uni]

theorem pw_seek (w : PW) (p : Nat) (h : w.Inv) :
    (w.physicalSeek p).1.Inv ∧ (w.physicalSeek p).2 = (w.abs).seekOk p ∧
      (w.physicalSeek p).1.abs = (w.abs).seek p ∧
      (w.physicalSeek p).1.dev.data = Spec.image (w.abs).data := by
  obtain ⟨ps, k, hr⟩ := h
  obtain ⟨ps', hf, ha⟩ := hr.flush
  obtain ⟨⟨k', hf'⟩, h2, h3⟩ := seekTail_flushed hf p
  rw [physicalSeek_eq, ← ha]
  refine ⟨⟨ps', k', hf'.rep⟩, h2, h3, ?_⟩
  rw [hf'.image, h3, spec_seek_data]

theorem pw_align (w : PW) (h : w.Inv) :
    ∃ w', w.align = .ok w' ∧ w'.Inv ∧ w'.abs = (w.abs).align := by
  obtain ⟨ps, k, hr⟩ := h
  have hc := hr.abs_cur
  have hm : w.abs.cur % 4 = w.offset % 4 := by rw [hc]; omega
  unfold PW.align Spec.LogStream.align
  simp only [hm]
  by_cases h0 : w.offset % 4 ≠ 0
  · rw [if_pos h0, if_pos h0]
    exact hr.writeAll _
  · rw [if_neg h0, if_neg h0]
    exact ⟨w, rfl, ⟨ps, k, hr⟩, rfl⟩

theorem abs_wf (w : PW) (h : w.Inv) :
    (w.abs).data.length % 1020 = 0 ∧ (w.abs).cur ≤ (w.abs).data.length := by
  obtain ⟨ps, k, hr⟩ := h
  exact hr.abs_wf

/-! ## histories -/

inductive WOp where
  | write (b : Bytes)
  | seek (p : Nat)
  | flush
  | align
  | size

/-- one operation of the concrete writer; a rejected seek leaves the writer usable -/
def stepConcrete (w : PW) : WOp → Outcome PW
  | .write b => w.writeAll b
  | .seek p => .ok (w.physicalSeek p).1
  | .flush => .ok w.flush
  | .align => w.align
  | .size => .ok w.physicalSize.1

def runConcrete : List WOp → PW → Outcome PW
  | [], w => .ok w
  | op :: ops, w => stepConcrete w op >>= runConcrete ops

def stepSpec (s : Spec.LogStream) : WOp → Spec.LogStream
  | .write b => s.write b
  | .seek p => s.seek p
  | .flush => s
  | .align => s.align
  | .size => s

def runSpec : List WOp → Spec.LogStream → Spec.LogStream
  | [], s => s
  | op :: ops, s => runSpec ops (stepSpec s op)

theorem pw_step (w : PW) (op : WOp) (h : w.Inv) :
    ∃ w', stepConcrete w op = .ok w' ∧ w'.Inv ∧ w'.abs = stepSpec w.abs op := by
  cases op with
  | write b => exact pw_writeAll w b h
  | seek p => exact ⟨_, rfl, (pw_seek w p h).1, (pw_seek w p h).2.2.1⟩
  | flush => exact ⟨_, rfl, (pw_flush w h).1, (pw_flush w h).2.1⟩
  | align => exact pw_align w h
  | size => exact ⟨_, rfl, (pw_size w h).1, (pw_size w h).2.1⟩

theorem pw_run (ops : List WOp) : ∀ (w : PW), w.Inv →
    ∃ w', runConcrete ops w = .ok w' ∧ w'.Inv ∧ w'.abs = runSpec ops w.abs := by
  induction ops with
  | nil => intro w h; exact ⟨w, rfl, h, rfl⟩
  | cons op ops ih =>
    intro w h
    obtain ⟨w1, h1, hi1, ha1⟩ := pw_step w op h
    obtain ⟨w2, h2, hi2, ha2⟩ := ih w1 hi1
    refine ⟨w2, ?_, hi2, ?_⟩
    · show (stepConcrete w op >>= runConcrete ops) = _
      rw [h1, Outcome.bind_ok, h2]
    · rw [ha2, ha1]; rfl

theorem pw_refines (ops : List WOp) :
    ∃ w, runConcrete ops w0 = .ok w ∧ w.Inv ∧ w.abs = runSpec ops Spec.LogStream.init ∧
      (w.flush).dev.data = Spec.image (runSpec ops Spec.LogStream.init).data := by
  obtain ⟨w00, hn, hi, ha⟩ := pw_new
  have : w00 = w0 := by
    have : PW.new Dev.empty = .ok w0 := rfl
    rw [this] at hn; injection hn with hn; exact hn.symm
  subst this
  obtain ⟨w, h1, h2, h3⟩ := pw_run ops w0 hi
  rw [ha] at h3
  exact ⟨w, h1, h2, h3, by rw [← h3]; exact (pw_flush w h2).2.2⟩

theorem w0_new : PW.new Dev.empty = .ok w0 := rfl

/-- a rejected seek changes nothing but the flush -/
theorem pw_seek_rejected (w : PW) (p : Nat) (h : (w.physicalSeek p).2 = false) :
    (w.physicalSeek p).1 = w.flush := by
  rw [physicalSeek_eq] at h ⊢
  unfold seekTail at h ⊢
  split
  · rfl
  · split
    · rfl
    · next h1 h2 => rw [if_neg h1, if_neg h2] at h; simp at h

/-! ## non-vacuity: a concrete history, evaluated by the kernel

write 1021 bytes (one full page is committed, one byte is buffered), seek back to physical offset 2,
overwrite 3 bytes, flush.  The checks below do not force the checksum bytes; the comparison of the
device with `Spec.image` (which evaluates CRC-32C over two pages in the kernel, about 50 s) is in
`E57/Proofs/PagesWriteExample.lean`. -/

def exOps : List WOp := [.write (List.replicate 1021 7), .seek 2, .write [1, 2, 3], .flush]

def exCheck : Bool :=
  match runConcrete exOps w0 with
  | .ok w =>
    decide (w.abs = runSpec exOps Spec.LogStream.init) &&
    decide (w.dev.data.length = 2048) && decide (w.abs.cur = 5) &&
    decide (w.abs.data.length = 2040) &&
    decide (w.abs.data.take 6 = [7, 7, 1, 2, 3, 7]) &&
    decide ((w.abs.data.drop 1019).take 3 = [7, 7, 0]) &&
    decide (w.physicalPosition = 5)
  | _ => false

set_option maxRecDepth 100000 in
theorem exCheck_true : exCheck = true := by decide +kernel


end E57
