/-
Slow non-vacuity check for E57.Proofs.PagesWrite: for a concrete history the flushed device equals
the paged image of the specification's stream, checksums included (CRC-32C over two 1020-byte
payloads on both sides is evaluated by the kernel: about 50-70 s).  Not imported by E57.lean.
-/
import E57.Proofs.PagesWrite
namespace E57

def exCheckImage : Bool :=
  match runConcrete exOps w0 with
  | .ok w =>
    decide (w.dev.data = Spec.image (runSpec exOps Spec.LogStream.init).data) &&
    decide ((w.dev.data.drop 1020).take 4 = crcBytes ((List.replicate 2 7 ++ [1, 2, 3]) ++ List.replicate 1015 7))
  | _ => false

set_option maxRecDepth 100000 in
theorem exCheckImage_true : exCheckImage = true := by decide +kernel

#print axioms exCheckImage_true

end E57
