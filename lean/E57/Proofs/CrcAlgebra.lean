/-
Algebra of the CRC-32C model (`E57/Model/Crc.lean`): table = bitwise reference, GF(2)-linearity,
and what that implies for the page checksum of the paged file layer.  Core Lean only.
-/
import E57.Model.Crc
import E57.Proofs.Bytes
namespace E57

/-! ### 1. the table -/

theorem crcTable_size : crcTable.size = 256 := by simp [crcTable]

theorem crcTable_getElem (i : Nat) (h : i < 256) : crcTable[i]! = crcShift8 (UInt32.ofNat i) := by
  have hs : i < crcTable.size := by rw [crcTable_size]; exact h
  rw [getElem!_pos crcTable i hs]
  simp [crcTable]

/-! ### 2. `crcShift` is GF(2)-linear; table step = bitwise step -/

/-- the feedback term of one shift step -/
def crcFb (b : Bool) : UInt32 := if b then crcPoly else 0

theorem crcFb_xor (a b : Bool) : crcFb (a ^^ b) = crcFb a ^^^ crcFb b := by
  cases a <;> cases b <;> simp [crcFb]

/-- `crcShift` without the branch: shift right, xor the polynomial if bit 0 was set -/
theorem crcShift_eq (v : UInt32) : crcShift v = (v >>> 1) ^^^ crcFb (v.toNat.testBit 0) := by
  apply UInt32.toNat_inj.mp
  unfold crcShift crcFb
  have h2 : (v % 2 == 0) = (v.toNat % 2 == 0) := by
    rw [Bool.eq_iff_iff]; simp [← UInt32.toNat_inj, UInt32.toNat_mod]
  rw [h2, Nat.testBit_zero]
  by_cases h : v.toNat % 2 = 0
  · simp [h, UInt32.toNat_div, UInt32.toNat_shiftRight, Nat.shiftRight_eq_div_pow]
  · have h1 : v.toNat % 2 = 1 := by omega
    simp [h1, UInt32.toNat_div, UInt32.toNat_shiftRight, Nat.shiftRight_eq_div_pow]

theorem crcShift_xor (a b : UInt32) : crcShift (a ^^^ b) = crcShift a ^^^ crcShift b := by
  simp only [crcShift_eq, UInt32.toNat_xor, Nat.testBit_xor, crcFb_xor, UInt32.shiftRight_xor]
  ac_rfl

theorem crcShift8_xor (a b : UInt32) : crcShift8 (a ^^^ b) = crcShift8 a ^^^ crcShift8 b := by
  simp only [crcShift8, crcShift_xor]

theorem crcShift_toNat_even (v : UInt32) (h : v.toNat % 2 = 0) :
    (crcShift v).toNat = v.toNat / 2 := by
  rw [crcShift_eq, Nat.testBit_zero]
  simp [h, crcFb, UInt32.toNat_shiftRight, Nat.shiftRight_eq_div_pow]

/-- if the low byte is zero, eight shift steps are a plain shift by 8 -/
theorem crcShift8_toNat_low0 (v : UInt32) (h : v.toNat % 256 = 0) :
    (crcShift8 v).toNat = v.toNat / 256 := by
  unfold crcShift8
  have e1 := crcShift_toNat_even v (by omega)
  have e2 := crcShift_toNat_even (crcShift v) (by omega)
  have e3 := crcShift_toNat_even (crcShift (crcShift v)) (by omega)
  have e4 := crcShift_toNat_even (crcShift (crcShift (crcShift v))) (by omega)
  have e5 := crcShift_toNat_even (crcShift (crcShift (crcShift (crcShift v)))) (by omega)
  have e6 := crcShift_toNat_even (crcShift (crcShift (crcShift (crcShift (crcShift v))))) (by omega)
  have e7 := crcShift_toNat_even
    (crcShift (crcShift (crcShift (crcShift (crcShift (crcShift v)))))) (by omega)
  have e8 := crcShift_toNat_even
    (crcShift (crcShift (crcShift (crcShift (crcShift (crcShift (crcShift v))))))) (by omega)
  omega

/-- removing the low byte of a number by xor -/
theorem Nat.xor_mod_256 (n : Nat) : n ^^^ (n % 256) = n / 256 * 256 := by
  apply Nat.eq_of_testBit_eq
  intro i
  have e : n / 256 * 256 = (n >>> 8) <<< 8 := by
    rw [Nat.shiftLeft_eq, Nat.shiftRight_eq_div_pow]
  rw [e, Nat.testBit_xor, show 256 = 2 ^ 8 from rfl, Nat.testBit_mod_two_pow,
    Nat.testBit_shiftLeft, Nat.testBit_shiftRight]
  by_cases hi : i < 8
  · simp [hi]; intro h; omega
  · have : 8 + (i - 8) = i := by omega
    simp [hi, this]; intro _; omega

theorem crcStep_eq_ref (sum : UInt32) (next : UInt8) : crcStep sum next = crcStepRef sum next := by
  unfold crcStep crcStepRef
  simp only []
  generalize hx : sum ^^^ next.toUInt32 = x
  have hidx : x.toUInt8.toNat < 256 := x.toUInt8.toNat_lt
  rw [crcTable_getElem _ hidx]
  generalize hlo : UInt32.ofNat x.toUInt8.toNat = lo
  have hlo' : lo.toNat = x.toNat % 256 := by
    rw [← hlo, UInt32.toNat_toUInt8]; simp; omega
  have hhiN : (x ^^^ lo).toNat = x.toNat / 256 * 256 := by
    rw [UInt32.toNat_xor, hlo', Nat.xor_mod_256]
  have hsplit : x = lo ^^^ (x ^^^ lo) := by
    rw [UInt32.xor_comm x lo, ← UInt32.xor_assoc, UInt32.xor_self, UInt32.zero_xor]
  have hhi : crcShift8 (x ^^^ lo) = sum >>> 8 := by
    apply UInt32.toNat_inj.mp
    rw [crcShift8_toNat_low0 _ (by omega), hhiN, ← hx]
    have hn := next.toNat_lt
    have hz : next.toNat >>> 8 = 0 := by
      rw [Nat.shiftRight_eq_div_pow]; omega
    rw [UInt32.toNat_xor, UInt8.toNat_toUInt32, UInt32.toNat_shiftRight,
      Nat.mul_div_cancel _ (by omega : 0 < 256), show (256 : Nat) = 2 ^ 8 from rfl,
      ← Nat.shiftRight_eq_div_pow, Nat.shiftRight_xor_distrib, hz, Nat.xor_zero]
    rfl
  conv => rhs; rw [hsplit, crcShift8_xor, hhi]

/-! ### 3. `crc32c` = bitwise reference -/

theorem crcStep_eq_ref_fun : crcStep = crcStepRef := by
  funext s n; exact crcStep_eq_ref s n

theorem crc32c_eq_ref (data : Bytes) : crc32c data = crc32cRef data := by
  unfold crc32c crc32cRef; rw [crcStep_eq_ref_fun]

/-! ### 4. check value (labelled test) -/

/-- CRC-32C check value of "123456789" (table-driven model, evaluated by the kernel) -/
example : crc32c ("123456789".toUTF8.toList) = 0xE3069283 := by decide +kernel

/-- same, bitwise reference, on the explicit bytes -/
example : crc32cRef [0x31, 0x32, 0x33, 0x34, 0x35, 0x36, 0x37, 0x38, 0x39] = 0xE3069283 := by
  decide +kernel

/-! ### 5. affine law -/

/-- the pure LFSR: bitwise CRC with a chosen initial state and no final complement -/
def crcRaw (init : UInt32) (data : Bytes) : UInt32 := data.foldl crcStepRef init

def xorBytes (a b : Bytes) : Bytes := List.zipWith (· ^^^ ·) a b

@[simp] theorem crcRaw_nil (i : UInt32) : crcRaw i [] = i := rfl
@[simp] theorem crcRaw_cons (i : UInt32) (b : UInt8) (bs : Bytes) :
    crcRaw i (b :: bs) = crcRaw (crcStepRef i b) bs := by
  simp [crcRaw]
theorem crcRaw_append (i : UInt32) (a b : Bytes) : crcRaw i (a ++ b) = crcRaw (crcRaw i a) b := by
  simp [crcRaw, List.foldl_append]

@[simp] theorem xorBytes_nil_left (b : Bytes) : xorBytes [] b = [] := by simp [xorBytes]
@[simp] theorem xorBytes_nil_right (a : Bytes) : xorBytes a [] = [] := by simp [xorBytes]
@[simp] theorem xorBytes_cons (x y : UInt8) (a b : Bytes) :
    xorBytes (x :: a) (y :: b) = (x ^^^ y) :: xorBytes a b := rfl
@[simp] theorem xorBytes_length (a b : Bytes) : (xorBytes a b).length = min a.length b.length := by
  simp [xorBytes]

theorem crc32c_eq_raw (data : Bytes) : crc32c data = ~~~ crcRaw 0xFFFFFFFF data := by
  rw [crc32c_eq_ref]; rfl

theorem crcStepRef_xor (s1 s2 : UInt32) (x y : UInt8) :
    crcStepRef (s1 ^^^ s2) (x ^^^ y) = crcStepRef s1 x ^^^ crcStepRef s2 y := by
  unfold crcStepRef
  rw [← crcShift8_xor, UInt8.toUInt32_xor]
  congr 1; ac_rfl

theorem crcRaw_xor (i1 i2 : UInt32) (a b : Bytes) (h : a.length = b.length) :
    crcRaw (i1 ^^^ i2) (xorBytes a b) = crcRaw i1 a ^^^ crcRaw i2 b := by
  induction a generalizing b i1 i2 with
  | nil => cases b with
    | nil => rfl
    | cons y b => simp at h
  | cons x a ih => cases b with
    | nil => simp at h
    | cons y b =>
      simp only [List.length_cons, Nat.add_right_cancel_iff] at h
      simp only [xorBytes_cons, crcRaw_cons, crcStepRef_xor]
      exact ih _ _ b h

/-- an alteration `e` of the data changes the checksum by `crcRaw 0 e`, whatever the data -/
theorem crc_xor_affine (a e : Bytes) (h : e.length = a.length) :
    crc32c (xorBytes a e) = crc32c a ^^^ crcRaw 0 e := by
  rw [crc32c_eq_raw, crc32c_eq_raw]
  conv => lhs; rw [show (0xFFFFFFFF : UInt32) = 0xFFFFFFFF ^^^ 0 from rfl]
  rw [crcRaw_xor _ _ _ _ h.symm, UInt32.not_xor]

theorem crc_xor_three (a b c : Bytes) (hab : a.length = b.length) (hbc : b.length = c.length) :
    crc32c (xorBytes (xorBytes a b) c) = crc32c a ^^^ crc32c b ^^^ crc32c c := by
  simp only [crc32c_eq_raw]
  conv => lhs; rw [show (0xFFFFFFFF : UInt32) = 0xFFFFFFFF ^^^ 0xFFFFFFFF ^^^ 0xFFFFFFFF from rfl]
  rw [crcRaw_xor _ _ _ _ (by simp; omega), crcRaw_xor _ _ _ _ hab]
  simp only [UInt32.not_xor, UInt32.xor_not, UInt32.not_not]

/-! ### 6. pages: detection depends on the alteration only -/

theorem xorBytes_take (a b : Bytes) (n : Nat) : (xorBytes a b).take n = xorBytes (a.take n) (b.take n) := by
  simp [xorBytes, List.take_zipWith]
theorem xorBytes_drop (a b : Bytes) (n : Nat) : (xorBytes a b).drop n = xorBytes (a.drop n) (b.drop n) := by
  simp [xorBytes, List.drop_zipWith]

theorem xorBytes_cancel_left (a x y : Bytes) (hx : x.length = a.length) (hy : y.length = a.length) :
    xorBytes a x = xorBytes a y ↔ x = y := by
  induction a generalizing x y with
  | nil => cases x <;> cases y <;> simp_all
  | cons c a ih =>
    cases x with
    | nil => simp at hx
    | cons u x => cases y with
      | nil => simp at hy
      | cons v y =>
        simp only [List.length_cons, Nat.add_right_cancel_iff] at hx hy
        simp only [xorBytes_cons, List.cons.injEq, ih x y hx hy]
        constructor
        · rintro ⟨h1, h2⟩
          refine ⟨?_, h2⟩
          have : c ^^^ (c ^^^ u) = c ^^^ (c ^^^ v) := by rw [h1]
          simpa [← UInt8.xor_assoc] using this
        · rintro ⟨h1, h2⟩; exact ⟨by rw [h1], h2⟩

theorem toLE_xor (a b k : Nat) : toLE (a ^^^ b) k = xorBytes (toLE a k) (toLE b k) := by
  induction k generalizing a b with
  | zero => rfl
  | succ k ih =>
    simp only [toLE, xorBytes_cons, ← ih]
    congr 1
    · rw [← UInt8.ofNat_xor, show 256 = 2 ^ 8 from rfl, Nat.xor_mod_two_pow]
    · congr 1
      rw [show 256 = 2 ^ 8 from rfl, ← Nat.shiftRight_eq_div_pow, ← Nat.shiftRight_eq_div_pow,
        ← Nat.shiftRight_eq_div_pow, Nat.shiftRight_xor_distrib]

theorem toBE32_length (n : Nat) : (toBE32 n).length = 4 := by simp [toBE32, toLE_length]

theorem toBE32_xor (a b : Nat) : toBE32 (a ^^^ b) = xorBytes (toBE32 a) (toBE32 b) := by
  unfold toBE32
  rw [toLE_xor]
  exact List.reverse_zipWith (by simp [toLE_length])

theorem toBE32_inj (a b : UInt32) (h : toBE32 a.toNat = toBE32 b.toNat) : a = b := by
  unfold toBE32 at h
  have h := List.reverse_inj.mp h
  have := congrArg leVal h
  rw [leVal_toLE, leVal_toLE] at this
  have ha := a.toNat_lt; have hb := b.toNat_lt
  apply UInt32.toNat_inj.mp; omega

def pageOk (page : Bytes) : Bool := page.drop 1020 == crcBytes (page.take 1020)

theorem pageOk_iff (page : Bytes) : pageOk page ↔ page.drop 1020 = crcBytes (page.take 1020) := by
  simp [pageOk]

theorem alteration_undetected_iff (p e : Bytes) (hp : p.length = 1024) (he : e.length = 1024)
    (hok : pageOk p) :
    pageOk (xorBytes p e) ↔ e.drop 1020 = toBE32 (crcRaw 0 (e.take 1020)).toNat := by
  rw [pageOk_iff] at hok ⊢
  rw [xorBytes_drop, xorBytes_take, crcBytes,
    crc_xor_affine _ _ (by simp [hp, he]), UInt32.toNat_xor, toBE32_xor, ← crcBytes, ← hok]
  exact xorBytes_cancel_left _ _ _ (by simp [hp, he]) (by simp [hp, toBE32_length])

/-! ### 7. alterations confined to the checksum bytes -/

theorem crcShift_zero : crcShift 0 = 0 := by decide
theorem crcShift8_zero : crcShift8 0 = 0 := by decide

theorem crcRaw_zeros (n : Nat) : crcRaw 0 (zeros n) = 0 := by
  induction n with
  | zero => rfl
  | succ n ih =>
    rw [zeros, List.replicate_succ, crcRaw_cons]
    have : crcStepRef 0 0 = 0 := by decide
    rw [this]; exact ih

theorem toBE32_zero : toBE32 0 = zeros 4 := by decide

theorem detect_checksum_only (p e : Bytes) (hp : p.length = 1024) (he : e.length = 1024)
    (hok : pageOk p) (hpay : e.take 1020 = zeros 1020) (hck : e.drop 1020 ≠ zeros 4) :
    pageOk (xorBytes p e) = false := by
  rw [Bool.eq_false_iff]
  intro h
  rw [alteration_undetected_iff p e hp he hok, hpay, crcRaw_zeros] at h
  exact hck (by rw [h]; exact toBE32_zero)

/-! ### 8. parity: CRC-32C's polynomial has an even number of terms (17 feedback taps + the
shifted-out bit), so the pure LFSR preserves bit parity -/

/-- xor of `f 0 … f (n-1)` -/
def xorSum (f : Nat → Bool) : Nat → Bool
  | 0 => false
  | n + 1 => xorSum f n ^^ f n

theorem xorSum_xor (f g : Nat → Bool) (n : Nat) :
    xorSum (fun i => f i ^^ g i) n = (xorSum f n ^^ xorSum g n) := by
  induction n with
  | zero => rfl
  | succ n ih => simp only [xorSum, ih]; cases xorSum f n <;> cases xorSum g n <;> cases f n <;> cases g n <;> rfl

theorem xorSum_congr (f g : Nat → Bool) (n : Nat) (h : ∀ i, i < n → f i = g i) :
    xorSum f n = xorSum g n := by
  induction n with
  | zero => rfl
  | succ n ih => simp only [xorSum]; rw [ih (fun i hi => h i (by omega)), h n (by omega)]

theorem xorSum_false (n : Nat) : xorSum (fun _ => false) n = false := by
  induction n with
  | zero => rfl
  | succ n ih => simp [xorSum, ih]

theorem xorSum_add (f : Nat → Bool) (m n : Nat) :
    xorSum f (m + n) = (xorSum f m ^^ xorSum (fun i => f (m + i)) n) := by
  induction n with
  | zero => simp [xorSum]
  | succ n ih => rw [← Nat.add_assoc]; simp only [xorSum, ih, Bool.xor_assoc]

theorem xorSum_succ' (f : Nat → Bool) (n : Nat) :
    xorSum f (n + 1) = (f 0 ^^ xorSum (fun i => f (i + 1)) n) := by
  rw [Nat.add_comm n 1, xorSum_add]
  have : (fun i => f (1 + i)) = fun i => f (i + 1) := by funext i; rw [Nat.add_comm]
  simp only [xorSum, Bool.false_xor, this]

def par32 (x : UInt32) : Bool := xorSum x.toNat.testBit 32
def par8 (b : UInt8) : Bool := xorSum b.toNat.testBit 8
def parBytes (l : Bytes) : Bool := l.foldr (fun b acc => par8 b ^^ acc) false

theorem par32_xor (a b : UInt32) : par32 (a ^^^ b) = (par32 a ^^ par32 b) := by
  unfold par32
  rw [← xorSum_xor]; congr 1; funext i; rw [UInt32.toNat_xor, Nat.testBit_xor]

theorem par8_xor (a b : UInt8) : par8 (a ^^^ b) = (par8 a ^^ par8 b) := by
  unfold par8
  rw [← xorSum_xor]; congr 1; funext i; rw [UInt8.toNat_xor, Nat.testBit_xor]

theorem par32_crcFb (b : Bool) : par32 (crcFb b) = b := by
  cases b <;> decide

theorem par32_shiftRight_one (v : UInt32) : par32 (v >>> 1) = (par32 v ^^ v.toNat.testBit 0) := by
  have h33 : xorSum v.toNat.testBit 33 = xorSum v.toNat.testBit 32 := by
    have : v.toNat.testBit 32 = false := Nat.testBit_lt_two_pow v.toNat_lt
    simp [xorSum, this]
  have : (v >>> 1).toNat.testBit = fun i => v.toNat.testBit (i + 1) := by
    funext i
    rw [UInt32.toNat_shiftRight, Nat.testBit_shiftRight]; simp [Nat.add_comm]
  unfold par32
  rw [this, ← h33, xorSum_succ' v.toNat.testBit 32]
  cases v.toNat.testBit 0 <;> simp

theorem par32_crcShift (v : UInt32) : par32 (crcShift v) = par32 v := by
  rw [crcShift_eq, par32_xor, par32_crcFb, par32_shiftRight_one]
  cases par32 v <;> cases v.toNat.testBit 0 <;> rfl

theorem par32_crcShift8 (v : UInt32) : par32 (crcShift8 v) = par32 v := by
  simp only [crcShift8, par32_crcShift]

theorem par32_toUInt32 (b : UInt8) : par32 b.toUInt32 = par8 b := by
  unfold par32 par8
  rw [UInt8.toNat_toUInt32, show 32 = 8 + 24 from rfl, xorSum_add]
  have : (fun i => b.toNat.testBit (8 + i)) = fun _ => false := by
    funext i
    exact Nat.testBit_lt_two_pow (Nat.lt_of_lt_of_le b.toNat_lt (Nat.pow_le_pow_right (by omega) (by omega)))
  rw [this, xorSum_false, Bool.xor_false]

theorem par32_crcStepRef (s : UInt32) (b : UInt8) : par32 (crcStepRef s b) = (par32 s ^^ par8 b) := by
  rw [crcStepRef, par32_crcShift8, par32_xor, par32_toUInt32]

theorem par32_crcRaw (i : UInt32) (e : Bytes) : par32 (crcRaw i e) = (par32 i ^^ parBytes e) := by
  induction e generalizing i with
  | nil => simp [parBytes]
  | cons b e ih => rw [crcRaw_cons, ih, par32_crcStepRef]; simp [parBytes]

theorem parBytes_cons (b : UInt8) (l : Bytes) : parBytes (b :: l) = (par8 b ^^ parBytes l) := by
  simp [parBytes]

theorem parBytes_append (a b : Bytes) : parBytes (a ++ b) = (parBytes a ^^ parBytes b) := by
  induction a with
  | nil => simp [parBytes]
  | cons x a ih => simp only [List.cons_append, parBytes_cons, ih, Bool.xor_assoc]

theorem parBytes_reverse (a : Bytes) : parBytes a.reverse = parBytes a := by
  induction a with
  | nil => rfl
  | cons x a ih =>
    rw [List.reverse_cons, parBytes_append, ih, parBytes_cons, parBytes_cons]
    simp [parBytes, Bool.xor_comm]

theorem parBytes_toLE (n k : Nat) : parBytes (toLE n k) = xorSum n.testBit (8 * k) := by
  induction k generalizing n with
  | zero => rfl
  | succ k ih =>
    rw [toLE, parBytes_cons, ih, show 8 * (k + 1) = 8 + 8 * k by omega, xorSum_add]
    congr 1
    · unfold par8
      apply xorSum_congr
      intro i hi
      have : (UInt8.ofNat (n % 256)).toNat = n % 2 ^ 8 := by simp
      rw [this, Nat.testBit_mod_two_pow]; simp [hi]
    · congr 1; funext i
      rw [show 256 = 2 ^ 8 from rfl, ← Nat.shiftRight_eq_div_pow, Nat.testBit_shiftRight]

theorem parBytes_toBE32 (x : UInt32) : parBytes (toBE32 x.toNat) = par32 x := by
  rw [toBE32, parBytes_reverse, parBytes_toLE]; rfl

/-- number of set bits of a byte -/
def popByte (b : UInt8) : Nat := ((List.range 8).filter b.toNat.testBit).length
/-- number of set bits of a byte string (for an alteration: number of flipped bits) -/
def popBytes (l : Bytes) : Nat := (l.map popByte).sum

theorem xorSum_eq_count (f : Nat → Bool) (n : Nat) :
    xorSum f n = decide (((List.range n).filter f).length % 2 = 1) := by
  induction n with
  | zero => rfl
  | succ n ih =>
    rw [xorSum, ih, List.range_succ, List.filter_append, List.length_append]
    cases h : f n <;> simp [List.filter, h]
    rw [Bool.eq_iff_iff]; simp; omega

theorem par8_eq_pop (b : UInt8) : par8 b = decide (popByte b % 2 = 1) := xorSum_eq_count _ _

theorem parBytes_eq_pop (l : Bytes) : parBytes l = decide (popBytes l % 2 = 1) := by
  induction l with
  | nil => rfl
  | cons b l ih =>
    have hc : popBytes (b :: l) = popByte b + popBytes l := by simp [popBytes]
    rw [parBytes_cons, ih, par8_eq_pop, hc]
    rw [Bool.eq_iff_iff]; simp; omega

/-- parity of the pure LFSR state = parity of the absorbed bytes -/
theorem par32_crcRaw_zero (e : Bytes) : par32 (crcRaw 0 e) = parBytes e := by
  rw [par32_crcRaw]; simp [show par32 0 = false by decide]

/-- every alteration of a valid page that flips an odd number of bits is detected -/
theorem detect_odd (p e : Bytes) (hp : p.length = 1024) (he : e.length = 1024)
    (hok : pageOk p) (hodd : popBytes e % 2 = 1) : pageOk (xorBytes p e) = false := by
  rw [Bool.eq_false_iff]
  intro h
  rw [alteration_undetected_iff p e hp he hok] at h
  have h1 : parBytes e = true := by rw [parBytes_eq_pop]; simpa using hodd
  have h2 : parBytes (e.drop 1020) = parBytes (e.take 1020) := by
    rw [h, parBytes_toBE32, par32_crcRaw_zero]
  rw [← List.take_append_drop 1020 e, parBytes_append, h2] at h1
  simp at h1

/-! ### 9. single-bit alterations -/

/-- every alteration of a valid page that flips exactly one bit is detected -/
theorem detect_single_bit (p e : Bytes) (hp : p.length = 1024) (he : e.length = 1024)
    (hok : pageOk p) (hone : popBytes e = 1) : pageOk (xorBytes p e) = false :=
  detect_odd p e hp he hok (by rw [hone])

/-! ### 10. two-bit alterations -/

theorem UInt32.xor_eq_zero_iff' (a b : UInt32) : a ^^^ b = 0 ↔ a = b := by
  constructor
  · intro h
    have : (a ^^^ b) ^^^ b = 0 ^^^ b := by rw [h]
    rwa [UInt32.xor_assoc, UInt32.xor_self, UInt32.xor_zero, UInt32.zero_xor] at this
  · rintro rfl; exact UInt32.xor_self

/-- `crcShift` is injective (the LFSR step is invertible) -/
theorem crcShift_eq_zero (x : UInt32) (h : crcShift x = 0) : x = 0 := by
  rw [crcShift_eq, Nat.testBit_zero] at h
  have hx := x.toNat_lt
  apply UInt32.toNat_inj.mp
  by_cases hb : x.toNat % 2 = 0
  · have h' := congrArg UInt32.toNat h
    simp [hb, crcFb, UInt32.toNat_shiftRight, Nat.shiftRight_eq_div_pow] at h'
    simp; omega
  · have hb1 : x.toNat % 2 = 1 := by omega
    simp only [hb1, crcFb, decide_true, if_true] at h
    have h' := congrArg UInt32.toNat ((UInt32.xor_eq_zero_iff' _ _).mp h)
    rw [UInt32.toNat_shiftRight] at h'
    have hp : crcPoly.toNat = 0x82F63B78 := rfl
    simp [Nat.shiftRight_eq_div_pow, hp] at h'
    omega

theorem crcShift_inj (x y : UInt32) (h : crcShift x = crcShift y) : x = y := by
  rw [← UInt32.xor_eq_zero_iff'] at h ⊢
  rw [← crcShift_xor] at h
  exact crcShift_eq_zero _ h

/-- `n` shift steps -/
def crcShiftN : Nat → UInt32 → UInt32
  | 0, x => x
  | n + 1, x => crcShiftN n (crcShift x)

theorem crcShiftN_add (m n : Nat) (x : UInt32) : crcShiftN (m + n) x = crcShiftN n (crcShiftN m x) := by
  induction m generalizing x with
  | zero => simp [crcShiftN]
  | succ m ih => rw [Nat.add_right_comm]; simp only [crcShiftN]; exact ih _

theorem crcShiftN_xor (n : Nat) (x y : UInt32) :
    crcShiftN n (x ^^^ y) = crcShiftN n x ^^^ crcShiftN n y := by
  induction n generalizing x y with
  | zero => rfl
  | succ n ih => simp only [crcShiftN, crcShift_xor, ih]

theorem crcShiftN_inj (n : Nat) (x y : UInt32) (h : crcShiftN n x = crcShiftN n y) : x = y := by
  induction n generalizing x y with
  | zero => exact h
  | succ n ih => exact crcShift_inj _ _ (ih _ _ h)

theorem crcShift8_eq_N (x : UInt32) : crcShift8 x = crcShiftN 8 x := rfl

theorem crcRaw_zeros_N (s : UInt32) (n : Nat) : crcRaw s (zeros n) = crcShiftN (8 * n) s := by
  induction n generalizing s with
  | zero => rfl
  | succ n ih =>
    rw [zeros, List.replicate_succ, crcRaw_cons, ← zeros, ih, show 8 * (n + 1) = 8 + 8 * n by omega,
      crcShiftN_add, crcStepRef, ← crcShift8_eq_N]
    simp

/-- the state `x^31` … top bit; every one-bit state is a shift of it -/
def crcTop : UInt32 := 0x80000000

/-- `noReturn n x`: none of the `n` states after `x` equals `crcTop` -/
def noReturn : Nat → UInt32 → Bool
  | 0, _ => true
  | n + 1, x => (crcShift x != crcTop) && noReturn n (crcShift x)

theorem noReturn_spec (n : Nat) (x : UInt32) (h : noReturn n x = true) (d : Nat) (hd0 : 0 < d)
    (hd : d ≤ n) : crcShiftN d x ≠ crcTop := by
  induction n generalizing x d with
  | zero => omega
  | succ n ih =>
    simp only [noReturn, Bool.and_eq_true, bne_iff_ne] at h
    cases d with
    | zero => omega
    | succ d =>
      cases d with
      | zero => exact h.1
      | succ d => exact ih (crcShift x) h.2 (d + 1) (by omega) (by omega)

/-- FINITE CHECK (kernel evaluation of an 8191-step loop): x^d mod g ≠ 1 for 0 < d < 8192,
    i.e. the LFSR started at `crcTop` does not return to `crcTop` within one page of bits -/
theorem crcOrder_gt_8191 : noReturn 8191 crcTop = true := by decide +kernel

/-- value of four stored (big-endian) checksum bytes -/
def be32Val (d : Bytes) : UInt32 := UInt32.ofNat (leVal d.reverse)

theorem toBE32_be32Val (d : Bytes) (h : d.length = 4) : toBE32 (be32Val d).toNat = d := by
  have hl : d.reverse.length = 4 := by simp [h]
  have hlt := leVal_lt d.reverse
  rw [hl] at hlt
  have : (be32Val d).toNat = leVal d.reverse := by
    simp [be32Val]; omega
  rw [this, toBE32]
  have := toLE_leVal d.reverse
  rw [hl] at this
  rw [this, List.reverse_reverse]

theorem be32Val_xor (a b : Bytes) (ha : a.length = 4) (hb : b.length = 4) :
    be32Val (xorBytes a b) = be32Val a ^^^ be32Val b := by
  apply toBE32_inj
  rw [toBE32_be32Val _ (by simp [ha, hb]), UInt32.toNat_xor, toBE32_xor, toBE32_be32Val _ ha,
    toBE32_be32Val _ hb]

/-- syndrome of an alteration: zero iff the alteration goes unnoticed -/
def syndrome (e : Bytes) : UInt32 := crcRaw 0 (e.take 1020) ^^^ be32Val (e.drop 1020)

theorem undetected_iff_syndrome (p e : Bytes) (hp : p.length = 1024) (he : e.length = 1024)
    (hok : pageOk p) : pageOk (xorBytes p e) ↔ syndrome e = 0 := by
  rw [alteration_undetected_iff p e hp he hok, syndrome, UInt32.xor_eq_zero_iff']
  have hd : (e.drop 1020).length = 4 := by simp [he]
  constructor
  · intro h
    apply toBE32_inj
    rw [toBE32_be32Val _ hd, h]
  · intro h
    rw [h, toBE32_be32Val _ hd]

theorem syndrome_xor (a b : Bytes) (ha : a.length = 1024) (hb : b.length = 1024) :
    syndrome (xorBytes a b) = syndrome a ^^^ syndrome b := by
  unfold syndrome
  rw [xorBytes_take, xorBytes_drop, be32Val_xor _ _ (by simp [ha]) (by simp [hb]),
    show (0 : UInt32) = 0 ^^^ 0 from rfl, crcRaw_xor _ _ _ _ (by simp [ha, hb])]
  simp only [show (0 : UInt32) ^^^ 0 = 0 from rfl]
  ac_rfl

/-- the alteration that flips bit `j` of byte `k` of a 1024-byte page -/
def bitErr (k j : Nat) : Bytes := zeros k ++ [UInt8.ofNat (2 ^ j)] ++ zeros (1023 - k)

theorem bitErr_length (k j : Nat) (hk : k < 1024) : (bitErr k j).length = 1024 := by
  simp [bitErr, zeros]; omega

/-- exponent of the syndrome of a one-bit alteration -/
def bitExpo (k j : Nat) : Nat :=
  if k < 1020 then 8 * (1020 - k) + 31 - j else 8 * (k - 1020) + 7 - j

theorem oneBit_eq_shift : ∀ j, j < 8 → (UInt8.ofNat (2 ^ j)).toUInt32 = crcShiftN (31 - j) crcTop := by
  decide +kernel

theorem be32Val_oneBit : ∀ k, k < 4 → ∀ j, j < 8 →
    be32Val (zeros k ++ [UInt8.ofNat (2 ^ j)] ++ zeros (3 - k)) = crcShiftN (8 * k + 7 - j) crcTop := by
  decide +kernel

theorem be32Val_zeros4 : be32Val (zeros 4) = 0 := by
  simp [be32Val, zeros, leVal]

theorem zeros_add (m n : Nat) : zeros (m + n) = zeros m ++ zeros n := by
  simp [zeros, List.replicate_append_replicate]

theorem zeros_length (n : Nat) : (zeros n).length = n := by simp [zeros]

theorem syndrome_bitErr (k j : Nat) (hk : k < 1024) (hj : j < 8) :
    syndrome (bitErr k j) = crcShiftN (bitExpo k j) crcTop := by
  unfold syndrome bitErr bitExpo
  by_cases h : k < 1020
  · have e : zeros (1023 - k) = zeros (1019 - k) ++ zeros 4 := by
      have hk' : 1019 - k + 4 = 1023 - k := by omega
      rw [← zeros_add, hk']
    have hl : (zeros k ++ [UInt8.ofNat (2 ^ j)] ++ zeros (1019 - k)).length = 1020 := by
      simp [zeros_length]; omega
    rw [e, ← List.append_assoc, List.take_left' hl, List.drop_left' hl, if_pos h,
      crcRaw_append, crcRaw_append, crcRaw_zeros, crcRaw_zeros_N, crcRaw_cons, crcRaw_nil,
      crcStepRef, UInt32.zero_xor, oneBit_eq_shift j hj, crcShift8_eq_N, ← crcShiftN_add,
      ← crcShiftN_add, be32Val_zeros4, UInt32.xor_zero]
    congr 1; omega
  · have e : zeros k = zeros 1020 ++ zeros (k - 1020) := by
      have hk' : 1020 + (k - 1020) = k := by omega
      rw [← zeros_add, hk']
    have hl : (zeros 1020).length = 1020 := zeros_length _
    rw [e, List.append_assoc, List.append_assoc, List.take_left' hl, List.drop_left' hl, if_neg h,
      crcRaw_zeros, UInt32.zero_xor, ← List.append_assoc,
      show 1023 - k = 3 - (k - 1020) by omega, be32Val_oneBit (k - 1020) (by omega) j hj]

/-- distinct bit positions have distinct syndrome exponents, all below 8192 -/
theorem bitExpo_lt (k j : Nat) (hk : k < 1024) (hj : j < 8) : bitExpo k j < 8192 := by
  unfold bitExpo; split <;> omega

theorem bitExpo_inj (k1 j1 k2 j2 : Nat) (hk1 : k1 < 1024) (hj1 : j1 < 8) (hk2 : k2 < 1024)
    (hj2 : j2 < 8) (h : bitExpo k1 j1 = bitExpo k2 j2) : k1 = k2 ∧ j1 = j2 := by
  unfold bitExpo at h; split at h <;> split at h <;> omega

theorem crcShiftN_top_ne (a b : Nat) (hab : a < b) (hb : b < 8192) :
    crcShiftN a crcTop ^^^ crcShiftN b crcTop ≠ 0 := by
  intro h
  rw [UInt32.xor_eq_zero_iff', show b = (b - a) + a by omega, crcShiftN_add] at h
  have := crcShiftN_inj _ _ _ h
  exact noReturn_spec 8191 crcTop crcOrder_gt_8191 (b - a) (by omega) (by omega) this.symm

/-- every alteration of a valid page that flips exactly two (distinct) bits, anywhere in the
    1024-byte page, is detected -/
theorem detect_two (p : Bytes) (k1 j1 k2 j2 : Nat) (hp : p.length = 1024) (hok : pageOk p)
    (hk1 : k1 < 1024) (hj1 : j1 < 8) (hk2 : k2 < 1024) (hj2 : j2 < 8)
    (hne : ¬ (k1 = k2 ∧ j1 = j2)) :
    pageOk (xorBytes p (xorBytes (bitErr k1 j1) (bitErr k2 j2))) = false := by
  rw [Bool.eq_false_iff]
  intro h
  have l1 := bitErr_length k1 j1 hk1
  have l2 := bitErr_length k2 j2 hk2
  rw [undetected_iff_syndrome p _ hp (by simp [l1, l2]) hok, syndrome_xor _ _ l1 l2,
    syndrome_bitErr k1 j1 hk1 hj1, syndrome_bitErr k2 j2 hk2 hj2] at h
  have hlt1 := bitExpo_lt k1 j1 hk1 hj1
  have hlt2 := bitExpo_lt k2 j2 hk2 hj2
  have hneq : bitExpo k1 j1 ≠ bitExpo k2 j2 := fun he => hne (bitExpo_inj _ _ _ _ hk1 hj1 hk2 hj2 he)
  rcases Nat.lt_or_gt_of_ne hneq with hlt | hgt
  · exact crcShiftN_top_ne _ _ hlt hlt2 h
  · rw [UInt32.xor_comm] at h
    exact crcShiftN_top_ne _ _ hgt hlt1 h

/-! ### 10b. "exactly two flipped bits" stated by bit count -/

/-- FINITE TABLE (256 bytes × 8 bit positions): a byte with a set bit has a bit whose removal
    lowers the bit count by one -/
theorem popByte_extract_tbl : ∀ n, n < 256 → popByte (UInt8.ofNat n) ≠ 0 →
    ∃ j, j < 8 ∧ popByte (UInt8.ofNat n ^^^ UInt8.ofNat (2 ^ j)) + 1 = popByte (UInt8.ofNat n) := by
  decide +kernel

/-- FINITE TABLE (256 bytes): only the zero byte has bit count 0 -/
theorem popByte_zero_tbl : ∀ n, n < 256 → popByte (UInt8.ofNat n) = 0 → UInt8.ofNat n = 0 := by
  decide +kernel

theorem UInt8.ofNat_toNat' (b : UInt8) : UInt8.ofNat b.toNat = b := by simp

theorem popByte_extract (b : UInt8) (h : popByte b ≠ 0) :
    ∃ j, j < 8 ∧ popByte (b ^^^ UInt8.ofNat (2 ^ j)) + 1 = popByte b := by
  have := popByte_extract_tbl b.toNat b.toNat_lt
  rw [UInt8.ofNat_toNat'] at this
  exact this h

theorem popByte_eq_zero (b : UInt8) (h : popByte b = 0) : b = 0 := by
  have := popByte_zero_tbl b.toNat b.toNat_lt
  rw [UInt8.ofNat_toNat'] at this
  exact this h

theorem popBytes_cons (b : UInt8) (l : Bytes) : popBytes (b :: l) = popByte b + popBytes l := by
  simp [popBytes]

theorem popBytes_zeros (n : Nat) : popBytes (zeros n) = 0 := by
  induction n with
  | zero => rfl
  | succ n ih =>
    rw [zeros, List.replicate_succ, popBytes_cons, ← zeros, ih]
    have : popByte 0 = 0 := by decide
    rw [this]

theorem popBytes_eq_zero (e : Bytes) (h : popBytes e = 0) : e = zeros e.length := by
  induction e with
  | nil => rfl
  | cons b e ih =>
    rw [popBytes_cons] at h
    rw [List.length_cons, zeros, List.replicate_succ, ← zeros, ← ih (by omega),
      popByte_eq_zero b (by omega)]

theorem xorBytes_zeros_left (e : Bytes) : xorBytes (zeros e.length) e = e := by
  induction e with
  | nil => rfl
  | cons b e ih =>
    rw [List.length_cons, zeros, List.replicate_succ, ← zeros, xorBytes_cons, ih, UInt8.zero_xor]

theorem xorBytes_zeros_right (e : Bytes) : xorBytes e (zeros e.length) = e := by
  induction e with
  | nil => rfl
  | cons b e ih =>
    rw [List.length_cons, zeros, List.replicate_succ, ← zeros, xorBytes_cons, ih, UInt8.xor_zero]

theorem xorBytes_self (e : Bytes) : xorBytes e e = zeros e.length := by
  induction e with
  | nil => rfl
  | cons b e ih =>
    rw [xorBytes_cons, ih, UInt8.xor_self, List.length_cons, zeros, zeros, List.replicate_succ]

/-- one-bit pattern of length `n`: bit `j` of byte `k` -/
def bitAt (n k j : Nat) : Bytes := zeros k ++ [UInt8.ofNat (2 ^ j)] ++ zeros (n - 1 - k)

theorem bitErr_eq_bitAt (k j : Nat) : bitErr k j = bitAt 1024 k j := rfl

theorem bitAt_zero (n j : Nat) : bitAt (n + 1) 0 j = UInt8.ofNat (2 ^ j) :: zeros n := by
  simp [bitAt, zeros]

theorem bitAt_succ (n k j : Nat) : bitAt (n + 1) (k + 1) j = 0 :: bitAt n k j := by
  simp [bitAt, zeros, List.replicate_succ]; omega

/-- a byte string with at least one set bit = one-bit pattern xor a string with one bit fewer -/
theorem popBytes_extract (e : Bytes) (h : popBytes e ≠ 0) :
    ∃ k j e', k < e.length ∧ j < 8 ∧ e'.length = e.length ∧
      e = xorBytes (bitAt e.length k j) e' ∧ popBytes e' + 1 = popBytes e := by
  induction e with
  | nil => exact absurd rfl h
  | cons b e ih =>
    by_cases hb : popByte b = 0
    · rw [popBytes_cons, hb, Nat.zero_add] at h
      obtain ⟨k, j, e', hk, hj, hl, he, hpop⟩ := ih h
      refine ⟨k + 1, j, b :: e', by simp; omega, hj, by simp [hl], ?_, ?_⟩
      · rw [List.length_cons, bitAt_succ, xorBytes_cons, UInt8.zero_xor, ← he]
      · rw [popBytes_cons, popBytes_cons, hb]; omega
    · obtain ⟨j, hj, hpop⟩ := popByte_extract b hb
      refine ⟨0, j, (b ^^^ UInt8.ofNat (2 ^ j)) :: e, by simp, hj, by simp, ?_, ?_⟩
      · rw [List.length_cons, bitAt_zero, xorBytes_cons, xorBytes_zeros_left,
          UInt8.xor_comm b, ← UInt8.xor_assoc, UInt8.xor_self, UInt8.zero_xor]
      · rw [popBytes_cons, popBytes_cons]; omega

/-- every alteration of a valid page with exactly two flipped bits is detected -/
theorem detect_two_pop (p e : Bytes) (hp : p.length = 1024) (he : e.length = 1024)
    (hok : pageOk p) (htwo : popBytes e = 2) : pageOk (xorBytes p e) = false := by
  obtain ⟨k1, j1, e1, hk1, hj1, hl1, he1, hp1⟩ := popBytes_extract e (by omega)
  obtain ⟨k2, j2, e2, hk2, hj2, hl2, he2, hp2⟩ := popBytes_extract e1 (by omega)
  have hz : e2 = zeros 1024 := by
    have := popBytes_eq_zero e2 (by omega)
    rwa [hl2, hl1, he] at this
  rw [hl1, he] at he2 hk2
  rw [he] at he1 hk1
  have hb2 : (bitAt 1024 k2 j2).length = 1024 := bitErr_length k2 j2 hk2
  have he1' : e1 = bitErr k2 j2 := by
    have := xorBytes_zeros_right (bitAt 1024 k2 j2)
    rw [hb2] at this
    rw [he2, hz, bitErr_eq_bitAt, this]
  have hne : ¬ (k1 = k2 ∧ j1 = j2) := by
    rintro ⟨rfl, rfl⟩
    rw [he1', ← bitErr_eq_bitAt, xorBytes_self] at he1
    rw [he1, popBytes_zeros] at htwo
    omega
  rw [he1, he1', ← bitErr_eq_bitAt]
  exact detect_two p k1 j1 k2 j2 hp hok hk1 hj1 hk2 hj2 hne

/-- every alteration of a valid page flipping one, two or three bits is detected
    (Hamming distance ≥ 4 over a page) -/
theorem detect_up_to_three (p e : Bytes) (hp : p.length = 1024) (he : e.length = 1024)
    (hok : pageOk p) (h1 : 1 ≤ popBytes e) (h3 : popBytes e ≤ 3) :
    pageOk (xorBytes p e) = false := by
  by_cases h2 : popBytes e = 2
  · exact detect_two_pop p e hp he hok h2
  · exact detect_odd p e hp he hok (by omega)

/-! ### axioms -/


end E57
